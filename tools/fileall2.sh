#!/bin/bash
# developer tool: files every evaluated round-2 mutant of the agents under /verif/seeded/<PROP>-r2m<i>/
missed=" C01_m2 C01_m3 C02_m2 C02_m3 C03_m3 C04_m2 C05_m3 C06_m2 C07_m1 C07_m2 C07_m3 C09_m1 C09_m3 C10_m1 C10_m3 C11_m1 C11_m3 C12_m3 C13_m1 C14_m2 C16_m2 "
for d in /tmp/mut2_c*_out/m*; do
  prop=$(basename $(dirname $d) | sed 's/mut2_\(c[0-9]*\)_out/\1/' | tr a-z A-Z)
  mi=$(basename $d)
  ev=/tmp/ev2_results/${prop}_$mi.json
  tm=/tmp/tm2_results/${prop}_$mi.txt
  note="caught"
  case "$missed" in *" ${prop}_$mi "*) note="missed (workload widened afterwards, see DESIGN.md 7.3)";; esac
  [ -f $ev ] && [ -f $tm ] && python3 /verif/tools/keepmutant.py $d $prop-r2$mi $ev $tm "$note"
done
