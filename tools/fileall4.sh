#!/bin/bash
# developer tool: files every evaluated round-4 mutant of the agents under /verif/seeded/<PROP>-r2m<i>/
missed=" C01_m1 C02_m3 C03_m1 C03_m2 C03_m3 C04_m1 C04_m3 C05_m1 C05_m2 C05_m3 C06_m2 C06_m3 C07_m2 C07_m3 C09_m1 C09_m2 C09_m3 C10_m2 C10_m3 C11_m1 C12_m2 C13_m2 C14_m1 C14_m2 C14_m3 C15_m1 C16_m2 C16_m3 C17_m1 C18_m1 C18_m2 C20_m1 "
for d in /tmp/mut4_c*_out/m*; do
  prop=$(basename $(dirname $d) | sed 's/mut4_\(c[0-9]*\)_out/\1/' | tr a-z A-Z)
  mi=$(basename $d)
  ev=/tmp/ev4_results/${prop}_$mi.json
  tm=/tmp/tm4_results/${prop}_$mi.txt
  note="caught"
  case "$missed" in *" ${prop}_$mi "*) note="missed (workload widened afterwards, see DESIGN.md 7.3)";; esac
  [ -f $ev ] && [ -f $tm ] && python3 /verif/tools/keepmutant.py $d $prop-r4$mi $ev $tm "$note"
done
