#!/usr/bin/env python3
"""Regenerates MANIFEST.json from the per-property table below and the drivers present in pmv/props."""
import json, os, sys
HERE = os.path.dirname(os.path.dirname(os.path.abspath(__file__)))
BASE = json.load(open("/root/.vp/BASELINE.json"))["cmd"].replace("--junitxml=<file>", "--junitxml=/tmp/pymoto_baseline_off.junit.xml")

T = {
 "C01": ("adjoint probe: exact reference tangents / complete Jacobians of independent models vs back-propagated sensitivities of the real modules", "4 C01"),
 "C02": ("random module graphs executed by the real Network vs an exact forward-mode interpreter; offline checker over the back-propagation event log", "4 C02"),
 "C03": ("operation histories on caching networks vs a freshly constructed network; purity monitors on Module.response/sensitivity/reset", "4 C03"),
 "C04": ("algebraic identities (linearity, accumulate-twice) on real modules + state/sensitivity digests before/after every call", "4 C04"),
 "C05": ("online residual monitor on every solver's solve() against the matrix given to update(), over generated matrix classes", "4 C05"),
 "C06": ("update/solve histories on LDAWrapper: residual oracle, inner-solver call counting proxy, icontract database invariant, fresh-wrapper replay", "4 C06"),
 "C07": ("defining-equation residuals evaluated with dense numpy on the outputs of the real modules", "4 C07"),
 "C08": ("assembled matrix vs loop-based scatter of independently integrated element matrices; physics invariants", "4 C08"),
 "C09": ("filter outputs vs brute-force reference models (cone average, sequential padding + direct convolution) and invariants", "4 C09"),
 "C10": ("spy on the MMA subproblem solver and on the variable signals: per-iteration invariants, independent KKT residual, executable model of subsolv", "4 C10"),
 "C11": ("eigenpair residual / normalisation / ordering / completeness oracles on EigenSolve outputs", "4 C11"),
 "C12": ("affine-field oracles for Strain/Stress/ElementAverage, transpose identity, thermal-load equilibrium", "4 C12"),
 "C13": ("exhaustive enumeration of grid sizes with independent index arithmetic and geometric oracles", "4 C13"),
 "C14": ("loop-based reference of Langelaar's layer recursion, independent direction parser, metamorphic mirror/axis-swap relations, analytic bounds", "4 C14"),
 "C15": ("random operation sequences on DyadCarrier vs a dense numpy shadow model; operand digests; icontract class invariant", "4 C15"),
 "C16": ("analytic bounds, scaling recurrence and exact-rational active-set model over enumerated and random inputs", "4 C16"),
 "C17": ("recorder module inside minimize_oc runs: bounds/move/volume oracles with independent bisection, analytic optimum", "4 C17"),
 "C18": ("random signal/slice histories vs a plain numpy shadow model; aliasing monitor on add_sensitivity", "4 C18"),
 "C19": ("finite_difference's test_fn callback stream judged against modules with known exact Jacobians (incl. deliberately wrong ones); digests of inputs", "4 C19"),
 "C20": ("round trip: files written by the real writers are parsed back (xml.etree, base64, float parsing) and compared with the inputs", "4 C20"),
}
LEVEL_TEXT = ("Runtime monitoring: the property held on every execution of the real code that this run drove and observed "
              "(counts, floors and samples in the evidence file); it says nothing about inputs/histories not generated. "
              "Chosen because the property is a behavioural statement over unbounded inputs/histories of pure-Python numerical code, "
              "for which oracle-observed executions with generated, enumerated and hostile workloads are the applicable technique.")
NOTE = ("Trusted base: numpy/scipy, the independent reference models in /verif/pmv (written from the documentation/literature), "
        "the stated tolerances (echoed in the evidence), CPython. Monitors attach to public methods from outside; no source hooks.")

props = [json.loads(l) for l in open(os.path.join(HERE, "properties.jsonl"))]
pending = json.load(open(os.path.join(HERE, "tools", "pending.json"))) if os.path.exists(os.path.join(HERE, "tools", "pending.json")) else {}
checks, na = [], []
for p in props:
    pid = p["id"]
    if os.path.exists(os.path.join(HERE, "pmv", "props", pid.lower() + ".py")) and pid not in pending:
        tech, ref = T[pid]
        checks.append({
            "property_id": pid,
            "quick_cmd": f"./check {pid} --tier quick",
            "thorough_cmd": f"./check {pid} --tier thorough",
            "evidence_file": f"/verif/evidence/{pid}.json",
            "replay_cmd_template": f"./check {pid} --replay {{path}}",
            "engine": "pmv",
            "level_claimed": {"category": "exploration", "text": LEVEL_TEXT, "design_ref": f"DESIGN.md section {ref}"},
            "level_note": NOTE,
            "technique": "runtime monitoring: " + tech,
        })
    else:
        na.append({"property_id": pid, "reason": pending.get(pid, "check not built yet in this round (runtime monitor designed in DESIGN.md section 4, implementation pending)")})
man = {
 "version": 1,
 "setup_cmd": "./setup.sh",
 "hooks": {"guard": "PYMOTO_VERIF", "enable": "no source hooks: monitors are attached at run time from /verif/pmv to public classes of the pymoto imported from /repo's working tree (PYTHONPATH=/repo); PYMOTO_VERIF=1 is exported by ./check and read only by /verif code",
           "baseline_off_cmd": BASE, "source_commits": [], "add_only": True},
 "engines": [{"name": "pmv", "path": "/verif/pmv", "serves_properties": [c["property_id"] for c in checks],
              "kind_free_text": "runtime monitors (wrappers, icontract invariants, sys.monitoring coverage), independent reference-model oracles, generated workloads, sharded runner"}],
 "checks": checks,
 "not_applicable": na,
 "notes": "All checks: ./check Cxx --tier quick|thorough, env VERIF_SEED honoured; exit 0 held / 1 VIOLATION / 2 inconclusive. known_findings.json lists genuine defects (open/fixed).",
}
json.dump(man, open(os.path.join(HERE, "MANIFEST.json"), "w"), indent=1)
print("checks:", [c["property_id"] for c in checks], "na:", [n["property_id"] for n in na])
