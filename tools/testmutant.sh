#!/bin/bash
# developer tool: runs the repository's test-suite on a scratch copy of /repo with one seeded defect applied and compares
# with the stable baseline.  usage: testmutant.sh <mutant dir> <result file>
d=$1; out=$2; tag=$(echo $d | tr '/' '_')
t=/tmp/tm$tag
rm -rf $t; mkdir -p $t; cp -r /repo/pymoto /repo/tests /repo/examples $t/ 2>/dev/null
cp /repo/setup.cfg /repo/pyproject.toml $t/ 2>/dev/null
( cd $t && patch -p1 -s -i $d/patch.diff ) || { echo "PATCH FAILED" > $out; exit 1; }
( cd $t && OMP_NUM_THREADS=1 MPLBACKEND=Agg /venv/bin/python -m pytest -q -p no:cacheprovider --timeout=3000 --continue-on-collection-errors --junitxml=$t/junit.xml > $t/log 2>&1 )
python3 /verif/tools/cmp_baseline.py $t/junit.xml > $out 2>&1
echo "exit=$?" >> $out
tail -1 $t/log >> $out
rm -rf $t
