#!/usr/bin/env python3
"""Developer tool: files one confirmed seeded defect under /verif/seeded/<id>/ (patch.diff, demo.py, meta.json).
usage: keepmutant.py <agent mutant dir> <id> <evalmutant result json> <testmutant result txt> [first-evaluation note]"""
import json
import os
import shutil
import sys

HERE = os.path.dirname(os.path.dirname(os.path.abspath(__file__)))
src, mid, evf, tmf = sys.argv[1:5]
ev = json.load(open(evf))
tm = open(tmf).read() if os.path.exists(tmf) else ""
meta = json.load(open(os.path.join(src, "meta.json")))
dst = os.path.join(HERE, "seeded", mid)
os.makedirs(dst, exist_ok=True)
shutil.copy(os.path.join(src, "patch.diff"), os.path.join(dst, "patch.diff"))
shutil.copy(os.path.join(src, "demo.py"), os.path.join(dst, "demo.py"))
stable_ok = "exit=0" in tm
out = {
    "id": mid,
    "property": meta.get("property"),
    "title": meta.get("title"),
    "what_it_breaks": meta.get("what_it_breaks"),
    "needs_to_manifest": meta.get("needs"),
    "files": meta.get("files"),
    "origin": "written by an independent sub-agent that saw only the property text and a scratch worktree of /repo (nothing from /verif)",
    "confirmed_by_me": {
        "demo_on_clean_copy_exit": ev.get("demo_clean_exit"),
        "demo_on_patched_copy_exit": ev.get("demo_mutant_exit"),
        "demo_tail_on_patched_copy": ev.get("demo_mutant_tail", "")[-200:],
        "repository_tests_on_patched_copy": ("all 159 stable baseline tests pass" if stable_ok else "NOT CONFIRMED: " + tm[-300:]),
        "how": "tools/evalmutant.py and tools/testmutant.sh: scratch copy of /repo under /tmp with patch.diff applied; demo.py run with "
               "PYTHONPATH=<copy>; full pytest run compared with stable_pass of /root/.vp/BASELINE.json; checks run as "
               "PMV_REPO=<copy> ./check Cxx --tier quick (same command as registered, pointed at the copy)",
    },
    "checks": {k: {"exit": v["exit"], "verdict": "caught" if v["exit"] == 1 else ("missed" if v["exit"] == 0 else "inconclusive"),
                   "mechanisms": v["mechanisms"]} for k, v in ev.get("checks", {}).items()},
}
if len(sys.argv) > 5:
    out["first_evaluation"] = sys.argv[5]
json.dump(out, open(os.path.join(dst, "meta.json"), "w"), indent=1)
print(mid, {k: v["verdict"] for k, v in out["checks"].items()}, "tests:", stable_ok)
