#!/bin/bash
# developer tool: files every evaluated round-7 mutant of the agents under /verif/seeded/<PROP>-r2m<i>/
missed=" C07_m2 C11_m2 C12_m2 C13_m1 C17_m2 C18_m2 "
for d in /tmp/mut7_c*_out/m*; do
  prop=$(basename $(dirname $d) | sed 's/mut7_\(c[0-9]*\)_out/\1/' | tr a-z A-Z)
  mi=$(basename $d)
  ev=/tmp/ev7_results/${prop}_$mi.json
  tm=/tmp/tm7_results/${prop}_$mi.txt
  note="caught"
  case "$missed" in *" ${prop}_$mi "*) note="missed (workload widened afterwards, see DESIGN.md 7.3)";; esac
  [ -f $ev ] && [ -f $tm ] && python3 /verif/tools/keepmutant.py $d $prop-r7$mi $ev $tm "$note"
done
