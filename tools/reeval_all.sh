#!/bin/bash
# developer tool: re-evaluates every filed seeded defect with the current drivers (quick tier, PMV_REPO=<patched scratch copy>)
# usage: tools/reeval_all.sh [parallel jobs]   -> .run/reeval/<id>.json, summary on stdout
cd "$(dirname "$0")/.."
mkdir -p .run/reeval
one() {
  id=$(basename $1)
  cks=$(python3 -c "import json;print(','.join(json.load(open('$1/meta.json'))['checks'].keys()))")
  python3 tools/evalmutant.py $1 --checks $cks > .run/reeval/$id.json 2>&1
}
export -f one
ls -d seeded/*/ | sed 's#/$##' | xargs -P ${1:-3} -I{} bash -c 'one {}'
python3 - <<'PY'
import json,glob,os
bad=0
for f in sorted(glob.glob('.run/reeval/*.json')):
    try: d=json.load(open(f))
    except Exception as e:
        print(os.path.basename(f),'UNREADABLE'); bad+=1; continue
    st={k:v['exit'] for k,v in d.get('checks',{}).items()}
    ok = d.get('demo_clean_exit')==0 and d.get('demo_mutant_exit') not in (0,None) and any(v==1 for v in st.values())
    if not ok:
        bad+=1; print(os.path.basename(f), d.get('demo_clean_exit'), d.get('demo_mutant_exit'), st)
print("re-evaluated", len(glob.glob('.run/reeval/*.json')), "not caught / not confirmed:", bad)
PY
