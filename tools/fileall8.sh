#!/bin/bash
# developer tool: files every evaluated round-8 mutant of the agents under /verif/seeded/<PROP>-r2m<i>/
missed=" C04_m1 C06_m2 C08_m1 "
for d in /tmp/mut8_c*_out/m*; do
  prop=$(basename $(dirname $d) | sed 's/mut8_\(c[0-9]*\)_out/\1/' | tr a-z A-Z)
  mi=$(basename $d)
  ev=/tmp/ev8_results/${prop}_$mi.json
  tm=/tmp/tm8_results/${prop}_$mi.txt
  note="caught"
  case "$missed" in *" ${prop}_$mi "*) note="missed (workload widened afterwards, see DESIGN.md 7.3)";; esac
  [ -f $ev ] && [ -f $tm ] && python3 /verif/tools/keepmutant.py $d $prop-r8$mi $ev $tm "$note"
done
