#!/usr/bin/env python3
"""Compares a junit xml of the repository's test-suite with the stable baseline list. usage: cmp_baseline.py junit.xml"""
import json, sys, xml.etree.ElementTree as ET
base = json.load(open('/root/.vp/BASELINE.json'))
stable = set(base['stable_pass'])
res = {}
for tc in ET.parse(sys.argv[1]).getroot().iter('testcase'):
    name = tc.get('classname') + '::' + tc.get('name')
    bad = any(ch.tag in ('failure', 'error') for ch in tc)
    skipped = any(ch.tag == 'skipped' for ch in tc)
    res[name] = 'fail' if bad else ('skip' if skipped else 'pass')
missing = sorted(s for s in stable if res.get(s) != 'pass')
newpass = sorted(n for n, r in res.items() if r == 'pass' and n not in stable)
print('stable', len(stable), 'passing of them', len(stable) - len(missing))
print('NOT passing stable tests:', missing)
print('additionally passing:', newpass)
sys.exit(1 if missing else 0)
