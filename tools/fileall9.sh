#!/bin/bash
# developer tool: files every evaluated round-9 mutant of the agents under /verif/seeded/<PROP>-r2m<i>/
missed=" C12_m2 "
for d in /tmp/mut9_c*_out/m*; do
  prop=$(basename $(dirname $d) | sed 's/mut9_\(c[0-9]*\)_out/\1/' | tr a-z A-Z)
  mi=$(basename $d)
  ev=/tmp/ev9_results/${prop}_$mi.json
  tm=/tmp/tm9_results/${prop}_$mi.txt
  note="caught"
  case "$missed" in *" ${prop}_$mi "*) note="missed (workload widened afterwards, see DESIGN.md 7.3)";; esac
  [ -f $ev ] && [ -f $tm ] && python3 /verif/tools/keepmutant.py $d $prop-r9$mi $ev $tm "$note"
done
