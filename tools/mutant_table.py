#!/usr/bin/env python3
"""prints the markdown table of seeded defects from /verif/seeded/*/meta.json"""
import glob, json, os
HERE = os.path.dirname(os.path.dirname(os.path.abspath(__file__)))
first_missed = {"C01-m1": "C01 cannot see it (needs a history); C03 missed it until seeds of single modes and seed/sens/reset rounds before the compared cycle were added",
                "C02-m1": "print_timing networks were not generated", "C03-m2": "no history with decoupled-then-coupled dofs", "C07-m3": "same defect as C03-m2: LinSolve repetitions kept the pattern",
                "C04-m1": "Scaling was only driven with scalar inputs / immutable scalar seeds", "C04-m2": "dense inputs were all C-ordered", "C04-m3": "linearity was only probed with O(1) coefficients",
                "C05-m1": "no positive-definite/indefinite switch on one Cholesky instance", "C05-m2": "all right-hand sides had norm > 1", "C06-m2": "no block rhs with x0 on an iterative inner solver; failing calls were compared with a fresh *wrapper* only",
                "C06-m3": "all right-hand sides were O(1)", "C13-m2": "returned tables were never edited by the caller", "C15-m3": "no badly scaled dyads", "C16-m3": "KS domain excluded wide ranges also for rho<0",
                "C17-m1": "every signal had its own float array", "C18-m2": "nested slices never overshot the outer extent"}
first_missed.update({
    "C01-r2m2": "one AggScaling helper was never shared between two aggregation modules",
    "C01-r2m3": "all matrices and loads were O(1): physical magnitudes (E = 2e11, tiny seeds) were not generated",
    "C02-r2m2": "ConcatSignal inputs were all C-ordered",
    "C02-r2m3": "no pre-allocated source sensitivities, no evaluation with a non-finite derivative before the compared one",
    "C03-r2m3": "CG networks kept the load magnitude constant between responses, so the warm start was always close",
    "C04-r2m2": "matrix-valued seeds never had zero columns next to a seeded sibling output",
    "C05-r2m3": "block right-hand sides had columns of equal magnitude and no warm start solving the dominant one",
    "C06-r2m2": "every case used a single wrapper; no second wrapper alive in the same process",
    "C07-r2m1": "no indefinite-then-definite sequence on one Cholesky-backed LinSolve",
    "C07-r2m2": "matrices were always new objects, never updated in place",
    "C07-r2m3": "block right-hand sides had columns of equal magnitude",
    "C09-r2m1": "value overrides were always registered before the first response",
    "C09-r2m3": "no sibling DensityFilter with nonpadding for the same domain and radius in one process",
    "C10-r2m1": "variable signals never had a pre-allocated sensitivity",
    "C10-r2m3": "variable ranges were all O(1), and runs that stopped by themselves were allowed the 'still on its way' margin",
    "C11-r2m1": "matrices were always new objects, never updated in place",
    "C11-r2m3": "no slender pencils: lowest eigenvalues were never many orders below the matrix entries",
    "C12-r2m3": "exhaustive bound (and thorough samples) stayed below 4096 elements",
    "C13-r2m1": "only one domain instance was alive at a time and its tables were never customised",
    "C14-r2m2": "the design was always handed over as a new array, never updated in place",
    "C16-r2m2": "response sequences never had sensitivity()/reset() between responses",
})
first_missed.update({
    "C01-r3m2": "phasors were all O(1): a 1e-12 'division guard' is invisible above 1e-4",
    "C02-r3m1": "all seeds were O(1) and the error measure had an absolute floor of 1 (widened after reading the author's report, before the first run)",
    "C03-r3m2": "dense inputs were C-ordered, input copies lost the layout, and the compared cycle always handed the inputs over again",
    "C03-r3m3": "no block right-hand side through CG in a network; outputs were compared with one norm over all load cases",
    "C04-r3m1": "linearity coefficients were O(1): a seed of 1e-9 never occurred",
    "C05-r3m2": "C05 did not drive the wrapper at all (the defect sits in LDAWrapper's helper); C06 and C07 caught it at the first evaluation",
    "C08-r3m2": "no micro-scale SI data: element-matrix entries never came near 1e-14",
    "C08-r3m3": "only the spellings 'strain' and 'stress' of the plane option were used",
    "C09-r3m1": "element sizes were O(1) in every unit system",
    "C10-r3m1": "every start design was a float array / Python float",
    "C13-r3m1": "evaluation points were float arrays only",
    "C13-r3m2": "the exhaustive bound (12x12, 6^3) is far below 32767 dofs (widened after reading the author's report, before the first run)",
    "C15-r3m1": "complex vectors were generic: none was isotropic (u.u = 0 with u != 0)",
    "C15-r3m2": "length-1 factors were numpy scalars or 1-element vectors, never 0-d arrays",
    "C15-r3m3": "masks were boolean arrays, never Python lists of bools",
    "C17-r3m2": "objective values were O(1) and a run stopped by tolf while still move-limited was not judged at all (new stop-criterion oracle)",
    "C19-r3m1": "non-zero entries were all >= 1e-2 in magnitude",
})
print("| id | defect (needs) | caught by (quick tier) | first evaluation |")
print("|---|---|---|---|")
for f in sorted(glob.glob(os.path.join(HERE, "seeded", "*", "meta.json"))):
    m = json.load(open(f))
    ck = "; ".join(f"{k}: {', '.join('`'+x+'`' for x in v['mechanisms'][:2]) or v['verdict']}" for k, v in m["checks"].items() if v["verdict"] == "caught")
    missed = [k for k, v in m["checks"].items() if v["verdict"] != "caught"]
    if missed:
        ck += ("; " if ck else "") + "not seen by " + ",".join(missed)
    title = (m.get("title") or "").replace("|", "/")[:150]
    needs = (m.get("needs_to_manifest") or "").replace("|", "/").replace("\n", " ")[:170]
    print(f"| {m['id']} | {title} — *{needs}* | {ck} | {'missed: ' + first_missed[m['id']] if m['id'] in first_missed else 'caught'} |")
