#!/usr/bin/env python3
"""prints the markdown table of seeded defects from /verif/seeded/*/meta.json"""
import glob, json, os
HERE = os.path.dirname(os.path.dirname(os.path.abspath(__file__)))
first_missed = {"C01-m1": "C01 cannot see it (needs a history); C03 missed it until seeds of single modes and seed/sens/reset rounds before the compared cycle were added",
                "C02-m1": "print_timing networks were not generated", "C03-m2": "no history with decoupled-then-coupled dofs", "C07-m3": "same defect as C03-m2: LinSolve repetitions kept the pattern",
                "C04-m1": "Scaling was only driven with scalar inputs / immutable scalar seeds", "C04-m2": "dense inputs were all C-ordered", "C04-m3": "linearity was only probed with O(1) coefficients",
                "C05-m1": "no positive-definite/indefinite switch on one Cholesky instance", "C05-m2": "all right-hand sides had norm > 1", "C06-m2": "no block rhs with x0 on an iterative inner solver; failing calls were compared with a fresh *wrapper* only",
                "C06-m3": "all right-hand sides were O(1)", "C13-m2": "returned tables were never edited by the caller", "C15-m3": "no badly scaled dyads", "C16-m3": "KS domain excluded wide ranges also for rho<0",
                "C17-m1": "every signal had its own float array", "C18-m2": "nested slices never overshot the outer extent"}
first_missed.update({
    "C01-r2m2": "one AggScaling helper was never shared between two aggregation modules",
    "C01-r2m3": "all matrices and loads were O(1): physical magnitudes (E = 2e11, tiny seeds) were not generated",
    "C02-r2m2": "ConcatSignal inputs were all C-ordered",
    "C02-r2m3": "no pre-allocated source sensitivities, no evaluation with a non-finite derivative before the compared one",
    "C03-r2m3": "CG networks kept the load magnitude constant between responses, so the warm start was always close",
    "C04-r2m2": "matrix-valued seeds never had zero columns next to a seeded sibling output",
    "C05-r2m3": "block right-hand sides had columns of equal magnitude and no warm start solving the dominant one",
    "C06-r2m2": "every case used a single wrapper; no second wrapper alive in the same process",
    "C07-r2m1": "no indefinite-then-definite sequence on one Cholesky-backed LinSolve",
    "C07-r2m2": "matrices were always new objects, never updated in place",
    "C07-r2m3": "block right-hand sides had columns of equal magnitude",
    "C09-r2m1": "value overrides were always registered before the first response",
    "C09-r2m3": "no sibling DensityFilter with nonpadding for the same domain and radius in one process",
    "C10-r2m1": "variable signals never had a pre-allocated sensitivity",
    "C10-r2m3": "variable ranges were all O(1), and runs that stopped by themselves were allowed the 'still on its way' margin",
    "C11-r2m1": "matrices were always new objects, never updated in place",
    "C11-r2m3": "no slender pencils: lowest eigenvalues were never many orders below the matrix entries",
    "C12-r2m3": "exhaustive bound (and thorough samples) stayed below 4096 elements",
    "C13-r2m1": "only one domain instance was alive at a time and its tables were never customised",
    "C14-r2m2": "the design was always handed over as a new array, never updated in place",
    "C16-r2m2": "response sequences never had sensitivity()/reset() between responses",
})
first_missed.update({
    "C01-r3m2": "phasors were all O(1): a 1e-12 'division guard' is invisible above 1e-4",
    "C02-r3m1": "all seeds were O(1) and the error measure had an absolute floor of 1 (widened after reading the author's report, before the first run)",
    "C03-r3m2": "dense inputs were C-ordered, input copies lost the layout, and the compared cycle always handed the inputs over again",
    "C03-r3m3": "no block right-hand side through CG in a network; outputs were compared with one norm over all load cases",
    "C04-r3m1": "linearity coefficients were O(1): a seed of 1e-9 never occurred",
    "C05-r3m2": "C05 did not drive the wrapper at all (the defect sits in LDAWrapper's helper); C06 and C07 caught it at the first evaluation",
    "C08-r3m2": "no micro-scale SI data: element-matrix entries never came near 1e-14",
    "C08-r3m3": "only the spellings 'strain' and 'stress' of the plane option were used",
    "C09-r3m1": "element sizes were O(1) in every unit system",
    "C10-r3m1": "every start design was a float array / Python float",
    "C13-r3m1": "evaluation points were float arrays only",
    "C13-r3m2": "the exhaustive bound (12x12, 6^3) is far below 32767 dofs (widened after reading the author's report, before the first run)",
    "C15-r3m1": "complex vectors were generic: none was isotropic (u.u = 0 with u != 0)",
    "C15-r3m2": "length-1 factors were numpy scalars or 1-element vectors, never 0-d arrays",
    "C15-r3m3": "masks were boolean arrays, never Python lists of bools",
    "C17-r3m2": "objective values were O(1) and a run stopped by tolf while still move-limited was not judged at all (new stop-criterion oracle)",
    "C19-r3m1": "non-zero entries were all >= 1e-2 in magnitude",
})
first_missed.update({
    "C01-r4m1": "Scaling limits (minval/maxval) and inputs were all positive",
    "C02-r4m3": "one signal used twice by one module only occurred in interchangeable positions (i,i->)",
    "C03-r4m1": "sparse matrices were rebuilt from dense values, so explicit zeros never kept the pattern (not evaluated before the widening: the author's report was read first)",
    "C03-r4m2": "all networks were built bottom-up (same note)",
    "C03-r4m3": "no aggregation with undamped AggScaling in the zoo (same note)",
    "C04-r4m1": "purity was only observed at differentiable points (no exact zero in ComplexNorm's input)",
    "C04-r4m3": "seeds were generic: no column whose entries cancel exactly",
    "C05-r4m1": "CG matrices had n <= 40: no run needed more than the 50 iterations of the restart interval",
    "C05-r4m2": "the wrapper rows saw exact repeats and new right-hand sides, nothing in between",
    "C05-r4m3": "wrapper rows used generic classes without decoupled dofs; C06 (pattern family) is where this lives",
    "C06-r4m2": "every generated matrix had a full non-zero diagonal",
    "C06-r4m3": "right-hand sides were exactly in the span or far from it, never between tol and sqrt(tol) off",
    "C07-r4m2": "no symmetric indefinite sparse matrix with a tiny same-sign diagonal (saddle-point systems)",
    "C07-r4m3": "the symmetric flag was only given for real symmetric matrices",
    "C09-r4m1": "overrides were only checked metamorphically on random fields (both sides share a shortcut for uniform fields)",
    "C09-r4m2": "user kernels were at least 2-D",
    "C09-r4m3": "DensityFilter radii stayed below 11.3 elements on wide domains",
    "C10-r4m2": "every response depended on every variable signal (no None sensitivities)",
    "C10-r4m3": "runs always started from clean signals",
    "C11-r4m1": "nmodes was capped at n-2 for every pencil (ARPACK's limit for the general case)",
    "C12-r4m2": "alpha was drawn from (1e-6, 1]: the end of the range alpha = 0 never occurred",
    "C13-r4m2": "a customised numbering table was only checked against *other* instances",
    "C14-r4m1": "xi_0 was drawn from [0.2, 0.8]: the documented end xi_0 = 0 never occurred",
    "C14-r4m2": "direction vectors had exactly zero off-axis entries",
    "C14-r4m3": "domains stayed below 32767 elements",
    "C15-r4m1": "add_dyad was always called with both factors",
    "C16-r4m2": "parameters were fixed at construction",
    "C16-r4m3": "vectors spanned at most four decades and |p| <= 30",
    "C17-r4m1": "l1l2tol >= 1e-9 and objective sensitivities O(1)",
    "C18-r4m1": "sensitivities under a slice reset were always finite",
    "C18-r4m2": "tuple indices held only slices and integers",
    "C20-r4m1": "arrays stayed far below 2^18 values",
})
first_missed.update({
    "C01-r5m1": "LinSolve matrices of the catalogue had no decoupled dofs (C06's pattern family has, but it does not differentiate)",
    "C01-r5m3": "FilterConv was never given value overrides in the adjoint catalogue",
    "C02-r5m1": "program atoms sliced 1-D signals only; 2-D sources were consumed whole",
    "C03-r5m2": "source signals never had a pre-allocated sensitivity, and no cycle left non-finite values before a reset",
    "C05-r5m1": "no negative definite class (Cholesky's LDL fall-back was reached by indefinite matrices only)",
    "C05-r5m2": "initial guesses were drawn at the magnitude of the solution",
    "C05-r5m3": "sparse storage was csc/csr/coo *matrices*, never scipy sparse *arrays*",
    "C07-r5m2": "right-hand sides were O(1) on all dofs: the coupled part never was 1e-6 of the whole",
    "C07-r5m3": "main/free dof sets were positive index arrays only",
    "C08-r5m1": "the Young's modulus was real",
    "C09-r5m1": "value overrides were given by slices; there was no model of a single overridden element",
    "C09-r5m3": "DensityFilter radii stayed below 181 elements",
    "C10-r5m1": "the general form with a_i > 0 was never used",
    "C10-r5m2": "cCoef was left at its default and the penalty handed to the subproblem solver was not compared with it",
    "C10-r5m3": "every objective changed from iteration to iteration (no pure feasibility problem)",
    "C11-r5m2": "the mode keyword of the sparse symmetric path (buckling, Cayley) was never passed",
    "C14-r5m3": "direction vectors on 3D domains always had three components",
    "C16-r5m1": "on well-scaled data the change differs from the original only for entries within one rounding error of the band limit ((7-0)/(100-0) vs 0.07), which the exact-rational oracle classifies as ambiguous on purpose; caught since the offset clusters of round 6 (values 1e6 + a few ulp), where the changed threshold is rounded at the magnitude of the data and entries clearly outside the band are kept",
    "C17-r5m2": "every variable signal had at least one entry",
    "C18-r5m3": "index arrays had at most a few dozen entries",
    "C19-r5m3": "NOT CAUGHT: the extra summation error (about eps*sqrt(N)*|y||w|/dx) stays below the sound bound for the module's own rounding (16 eps per dependent entry) unless the sparse output has millions of entries; the allowance was tightened to the dependent entries and outputs of 7 000 entries were added, the measured effect there is 1e-3 of the allowance",
    "C20-r5m2": "arrays were native-endian",
})
first_missed.update({
    "C01-r6m2": "right-hand sides of LinSolve were always double precision",
    "C02-r6m1": "NOT CAUGHT, and not decidable: casting a contribution to the precision of the signal it belongs to is what the library's own modules already do for single-precision inputs (EinSum on a float32 signal returns a float32 sensitivity on the unchanged tree; measured 5e-9 relative differences there), so a check that demanded double precision for float32 signals raised alarms on the unchanged tree and was withdrawn",
    "C02-r6m3": "no scalar complex intermediate signal whose first contribution is real-typed",
    "C07-r6m2": "StaticCondensation was never given the hermitian/symmetric keywords",
    "C10-r6m1": "design signals were double precision (or integer)",
    "C10-r6m2": "the objective was always the output of a module, never one of the design variables",
    "C11-r6m3": "generalised pencils had different sparsity structures, or the same one in the same entry order",
    "C12-r6m2": "operands of ElementOperation/NodalOperation were double precision",
    "C12-r6m3": "Poisson's ratio 0 was always the float 0.0",
    "C13-r6m1": "evaluation points were double precision or integer",
    "C13-r6m3": "get_elemconnectivity was only called with 1-D index arrays",
    "C16-r6m1": "data never clustered around an offset with a spread of a few units in the last place",
    "C16-r6m3": "aggregation inputs were always 1-D",
    "C17-r6m2": "designs were double precision (or integer)",
    "C18-r6m1": "integer index arrays were random, never a contiguous descending range ending at 0",
    "C18-r6m3": "only signals and slices were reset, never a module wired to slices",
    "C20-r6m3": "format specifications were of the e/f/g types only",
})
first_missed.update({
    "C07-r7m2": "prescribed values of SystemOfEquations were O(1): nanometre support displacements on a 1e6 ... 1e11 N/m matrix never occurred",
    "C11-r7m2": "sparse pencils had eigenvalues (hence shifts) between 1e-5 and 1e5: a non-zero shift below 1e-8 never occurred",
    "C12-r7m2": "dofs per node never exceeded the space dimension on a grid whose dof numbers cross 255 / 65535 while the node numbers do not",
    "C13-r7m1": "element sizes were always floats: all-integer unit cells (2 x 1 x 3) never occurred",
    "C17-r7m2": "matrix-shaped designs were always C-ordered",
    "C18-r7m2": "a slice sensitivity was always assigned with the type of the signal, never with a narrower one (real on complex, float32 on float64)",
})
first_missed.update({
    "C04-r8m1": "every seeding used freshly created arrays: one buffer object never carried two different seeds",
    "C06-r8m2": "sparse matrices were rebuilt from dense values for every update, so the sparsity structure always followed the couplings",
    "C08-r8m1": "no mesh came near 65535 dofs (the dense reference of the option product does not scale; a sparse-judged part was added)",
})
first_missed.update({
    "C12-r9m2": "the largest mesh had 4 200 elements: nothing beyond 65536 elements (size thresholds inside the operators)",
})
first_missed.update({
    "C01-r10m2": "PNorm data were positive only (the p-norm is differentiable at every non-zero entry of either sign)",
    "C04-r10m2": "aggregation modules of the catalogue only had frozen factors: no damped AggScaling carrying a factor from an earlier response",
})
print("| id | defect (needs) | caught by (quick tier) | first evaluation |")
print("|---|---|---|---|")
for f in sorted(glob.glob(os.path.join(HERE, "seeded", "*", "meta.json"))):
    m = json.load(open(f))
    ck = "; ".join(f"{k}: {', '.join('`'+x+'`' for x in v['mechanisms'][:2]) or v['verdict']}" for k, v in m["checks"].items() if v["verdict"] == "caught")
    missed = [k for k, v in m["checks"].items() if v["verdict"] != "caught"]
    if missed:
        ck += ("; " if ck else "") + "not seen by " + ",".join(missed)
    title = (m.get("title") or "").replace("|", "/")[:150]
    needs = (m.get("needs_to_manifest") or "").replace("|", "/").replace("\n", " ")[:170]
    print(f"| {m['id']} | {title} — *{needs}* | {ck} | {'missed: ' + first_missed[m['id']] if m['id'] in first_missed else 'caught'} |")
