#!/usr/bin/env python3
"""developer tool: copies the verdicts of the latest re-evaluation (.run/reeval/<id>.json, written by tools/reeval_all.sh) into
seeded/<id>/meta.json ("checks"), then rewrites the table of DESIGN.md section 7.3 with tools/mutant_table.py"""
import glob, json, os, subprocess
HERE = os.path.dirname(os.path.dirname(os.path.abspath(__file__)))
n = 0
for f in sorted(glob.glob(os.path.join(HERE, ".run", "reeval", "*.json"))):
    mid = os.path.basename(f)[:-5]
    mp = os.path.join(HERE, "seeded", mid, "meta.json")
    if not os.path.exists(mp):
        continue
    ev = json.load(open(f))
    if not ev.get("patch_applies") or ev.get("demo_clean_exit") != 0 or ev.get("demo_mutant_exit") in (0, None):
        print("NOT CONFIRMED", mid)
        continue
    m = json.load(open(mp))
    new = {k: {"exit": v["exit"], "verdict": "caught" if v["exit"] == 1 else ("missed" if v["exit"] == 0 else "inconclusive"),
               "mechanisms": v["mechanisms"]} for k, v in ev.get("checks", {}).items()}
    if new != m.get("checks"):
        m["checks"] = new
        json.dump(m, open(mp, "w"), indent=1)
        n += 1
print("updated", n)
tab = subprocess.run(["python3", os.path.join(HERE, "tools", "mutant_table.py")], capture_output=True, text=True, check=True).stdout
p = os.path.join(HERE, "DESIGN.md")
s = open(p).read()
a = s.index("| id | defect (needs) | caught by (quick tier) | first evaluation |")
b = a
lines = s[a:].split("\n")
k = 0
while k < len(lines) and lines[k].startswith("|"):
    k += 1
s = s[:a] + tab.rstrip("\n") + "\n" + "\n".join(lines[k:])
open(p, "w").write(s)
