#!/usr/bin/env python3
"""Developer tool: lists functions defined in /repo/pymoto that no check's last run executed (union over evidence/*.json)."""
import ast, glob, json, os
HERE = os.path.dirname(os.path.dirname(os.path.abspath(__file__)))
cov = set()
for f in glob.glob(os.path.join(HERE, "evidence", "C*.json")):
    cov |= set(json.load(open(f))["coverage"].get("repo_functions_all", []))
root = "/repo/pymoto/"
missing = []
for dp, _, fs in os.walk(root):
    for fn in fs:
        if not fn.endswith(".py"):
            continue
        path = os.path.join(dp, fn)
        rel = path[len(root):]
        tree = ast.parse(open(path).read())

        def walk(node, prefix):
            for ch in ast.iter_child_nodes(node):
                if isinstance(ch, (ast.FunctionDef, ast.AsyncFunctionDef)):
                    q = prefix + ch.name
                    if f"{rel}:{q}" not in cov:
                        missing.append(f"{rel}:{q}")
                    walk(ch, q + ".<locals>.")
                elif isinstance(ch, ast.ClassDef):
                    walk(ch, prefix + ch.name + ".")
        walk(tree, "")
print(len(cov), "functions executed by at least one check;", len(missing), "never executed:")
for m in sorted(missing):
    print("  ", m)
