#!/bin/bash
# developer tool: files every evaluated round-5 mutant of the agents under /verif/seeded/<PROP>-r2m<i>/
missed=" C01_m1 C01_m3 C02_m1 C03_m2 C05_m1 C05_m2 C05_m3 C07_m2 C07_m3 C08_m1 C09_m1 C09_m3 C10_m1 C10_m2 C10_m3 C11_m2 C14_m3 C16_m1 C17_m2 C18_m3 C19_m3 C20_m2 "
for d in /tmp/mut5_c*_out/m*; do
  prop=$(basename $(dirname $d) | sed 's/mut5_\(c[0-9]*\)_out/\1/' | tr a-z A-Z)
  mi=$(basename $d)
  ev=/tmp/ev5_results/${prop}_$mi.json
  tm=/tmp/tm5_results/${prop}_$mi.txt
  note="caught"
  case "$missed" in *" ${prop}_$mi "*) note="missed (workload widened afterwards, see DESIGN.md 7.3)";; esac
  [ -f $ev ] && [ -f $tm ] && python3 /verif/tools/keepmutant.py $d $prop-r5$mi $ev $tm "$note"
done
