#!/bin/bash
# developer tool: files every evaluated mutant of the agents under /verif/seeded/<PROP>-m<i>/
for d in /tmp/mut_c*_out/m*; do
  prop=$(basename $(dirname $d) | sed 's/mut_\(c[0-9]*\)_out/\1/' | tr a-z A-Z)
  mi=$(basename $d)
  n=$(echo $d | tr "/" "_")
  ev=/tmp/ev_results/$(basename $(dirname $d))_$mi.json
  tm=/tmp/tm_results/$n.txt
  [ -f $ev ] && [ -f $tm ] && python3 /verif/tools/keepmutant.py $d $prop-$mi $ev $tm
done
