#!/bin/bash
# developer tool: files every evaluated round-10 mutant of the agents under /verif/seeded/<PROP>-r2m<i>/
missed=" C01_m2 C04_m2 "
for d in /tmp/mut10_c*_out/m*; do
  prop=$(basename $(dirname $d) | sed 's/mut10_\(c[0-9]*\)_out/\1/' | tr a-z A-Z)
  mi=$(basename $d)
  ev=/tmp/ev10_results/${prop}_$mi.json
  tm=/tmp/tm10_results/${prop}_$mi.txt
  note="caught"
  case "$missed" in *" ${prop}_$mi "*) note="missed (workload widened afterwards, see DESIGN.md 7.3)";; esac
  [ -f $ev ] && [ -f $tm ] && python3 /verif/tools/keepmutant.py $d $prop-r10$mi $ev $tm "$note"
done
