#!/bin/bash
# developer tool: files every evaluated round-6 mutant of the agents under /verif/seeded/<PROP>-r2m<i>/
missed=" C01_m2 C02_m1 C02_m3 C07_m2 C10_m1 C10_m2 C11_m3 C12_m2 C12_m3 C13_m1 C13_m3 C16_m1 C16_m3 C17_m2 C18_m1 C18_m3 C20_m3 "
for d in /tmp/mut6_c*_out/m*; do
  prop=$(basename $(dirname $d) | sed 's/mut6_\(c[0-9]*\)_out/\1/' | tr a-z A-Z)
  mi=$(basename $d)
  ev=/tmp/ev6_results/${prop}_$mi.json
  tm=/tmp/tm6_results/${prop}_$mi.txt
  note="caught"
  case "$missed" in *" ${prop}_$mi "*) note="missed (workload widened afterwards, see DESIGN.md 7.3)";; esac
  [ -f $ev ] && [ -f $tm ] && python3 /verif/tools/keepmutant.py $d $prop-r6$mi $ev $tm "$note"
done
