#!/bin/bash
# developer tool: files every evaluated round-3 mutant of the agents under /verif/seeded/<PROP>-r2m<i>/
missed=" C01_m2 C02_m1 C03_m2 C03_m3 C04_m1 C05_m2 C08_m2 C08_m3 C09_m1 C10_m1 C13_m1 C13_m2 C15_m1 C15_m2 C15_m3 C17_m2 C19_m1 "
for d in /tmp/mut3_c*_out/m*; do
  prop=$(basename $(dirname $d) | sed 's/mut3_\(c[0-9]*\)_out/\1/' | tr a-z A-Z)
  mi=$(basename $d)
  ev=/tmp/ev3_results/${prop}_$mi.json
  tm=/tmp/tm3_results/${prop}_$mi.txt
  note="caught"
  case "$missed" in *" ${prop}_$mi "*) note="missed (workload widened afterwards, see DESIGN.md 7.3)";; esac
  [ -f $ev ] && [ -f $tm ] && python3 /verif/tools/keepmutant.py $d $prop-r3$mi $ev $tm "$note"
done
