#!/usr/bin/env python3
"""Developer tool (not a registered check): applies the seeded breaks listed in DESIGN.md, one at a time, to a scratch copy of
/repo/pymoto under /tmp and runs the quick tier of the corresponding check against it (PMV_REPO).  Prints caught/missed.
usage: tools/selfmutants.py [Cxx ...] [-j N]"""
import os
import shutil
import subprocess
import sys
from concurrent.futures import ThreadPoolExecutor

HERE = os.path.dirname(os.path.dirname(os.path.abspath(__file__)))
M = [
    # (id, property, file, old, new)
    ("c01-filter-noHs", "C01", "modules/filter.py", "return np.asarray(self.H * (dfdy[np.newaxis].T / self.Hs))[:, 0]", "return np.asarray(self.H * (dfdy[np.newaxis].T))[:, 0]"),
    ("c01-assemble-rowscols", "C01", "modules/assembly.py", "dxi = dgdmat.contract(self.elmat, self.dofconn, self.dofconn)", "dxi = dgdmat.contract(self.elmat.T, self.dofconn, self.dofconn)"),
    ("c01-linsolve-noT", "C01", "modules/linalg.py", "lam = self.solver.solve(dfdv, trans='T')", "lam = self.solver.solve(dfdv, trans='N')"),
    ("c01-inverse-T", "C01", "modules/linalg.py", "dA = - B.T @ dB @ B.T", "dA = - B.T @ dB @ B"),
    ("c01-imag-sign", "C01", "modules/complex.py", "return -1j*dy", "return 1j*dy"),
    ("c01-overhang-mask", "C01", "modules/filter.py", "                dxprint[els] += c[supp_mask]*np.power(xprint[els]+self.shift, self.p-1)", "                dxprint[els] += c[supp_mask]*np.power(xprint[els]+self.shift, self.p-1)*(1 + 1e-3*(i == 2))"),
    ("c01-eig-alpha", "C01", "modules/linalg.py", "dBi = DyadCarrier(alpha / 2 * phi + lam * v, phi)", "dBi = DyadCarrier(lam * v, phi)"),
    ("c01-softminmax", "C01", "modules/aggregation.py", "return spsp.softmax(self.alpha * x) * (1 + self.alpha * (x - self.y))", "return spsp.softmax(self.alpha * x) * (1 + self.alpha * x)"),
    ("c01-einsum-complex", "C01", "modules/generic.py", "                da_i = da_i.real", "                da_i = np.abs(da_i)"),
    ("c02-forward-order", "C02", "core_objects.py", "            [m.sensitivity() for m in reversed(self.mods)]", "            [m.sensitivity() for m in self.mods]"),
    ("c02-overwrite", "C02", "core_objects.py", "                self.sensitivity += ds\n            return self\n        except TypeError:\n            if isinstance(ds, type(self.sensitivity)):\n                raise TypeError(f\"Cannot add to the sensitivity with type '{type(self.sensitivity).__name__}'\"+self._err_str())", "                self.sensitivity = copy.deepcopy(ds)\n            return self\n        except TypeError:\n            if isinstance(ds, type(self.sensitivity)):\n                raise TypeError(f\"Cannot add to the sensitivity with type '{type(self.sensitivity).__name__}'\"+self._err_str())"),
    ("c02-early-return-any", "C02", "core_objects.py", "if len(self.sig_out) > 0 and all([s is None for s in sens_in]):", "if len(self.sig_out) > 1 and any([s is None for s in sens_in]):"),
    ("c03-lda-noclear", "C03", "solvers/solvers.py", "        self.xadj_stored.clear()\n", ""),
    ("c03-lda-noclear-x", "C03", "solvers/solvers.py", "        self.x_stored.clear()\n        self.b_stored.clear()\n", ""),
    ("c03-overhang-smax", "C03", "modules/filter.py", "        self.smax = x.copy()\n", "        self.smax = x.copy() if self.smax is None else self.smax\n"),
    ("c03-linsolve-skipupdate", "C03", "modules/linalg.py", "        self.solver.update(mat)\n\n        # Solution", "        if getattr(self, '_lastn', None) != mat.shape:\n            self.solver.update(mat)\n        self._lastn = mat.shape\n\n        # Solution"),
    ("c03-reset-forget-in", "C03", "core_objects.py", "            [s.reset() for s in self.sig_in]\n", ""),
    ("c04-filter-inplace", "C04", "modules/filter.py", "        return np.asarray(self.H * (dfdy[np.newaxis].T / self.Hs))[:, 0]", "        dfdy /= np.asarray(self.Hs)[:, 0]\n        return np.asarray(self.H * (dfdy[np.newaxis].T))[:, 0]"),
    ("c04-agg-writes-x", "C04", "modules/aggregation.py", "        dx = np.zeros_like(x)\n        dx[self.select] += self.sf * dfdy * dydx\n        return dx", "        x *= 1.0000001\n        dx = np.zeros_like(x)\n        dx[self.select] += self.sf * dfdy * dydx\n        return dx"),
    ("c04-nodeepcopy", "C04", "core_objects.py", "                self.sensitivity = copy.deepcopy(ds)", "                self.sensitivity = ds"),
    ("c05-lu-swapTH", "C05", "solvers/dense.py", "            return self.p @ spla.solve_triangular(self.l, spla.solve_triangular(self.u, rhs, trans='T'),\n                                                  lower=True, trans='T')", "            return self.p @ spla.solve_triangular(self.l, spla.solve_triangular(self.u, rhs, trans='C'),\n                                                  lower=True, trans='C')"),
    ("c05-chol-noconj", "C05", "solvers/dense.py", "return spla.solve_triangular(self.U, spla.solve_triangular(self.U, rhs, trans='T').conj()).conj()", "return spla.solve_triangular(self.U, spla.solve_triangular(self.U, rhs, trans='T'))"),
    ("c05-ldl-dinv", "C05", "solvers/dense.py", "            u2 = self.dinvH(u1)\n", "            u2 = self.dinv(u1)\n"),
    ("c05-sor-T", "C05", "solvers/iterative.py", "            u1 = self.U.solve(rhs, trans='T')\n            u1 *= self.Dw[:, None]\n            u2 = self.L.solve(u1, trans='T')", "            u1 = self.L.solve(rhs, trans='T')\n            u1 *= self.Dw[:, None]\n            u2 = self.U.solve(u1, trans='T')"),
    ("c05-mg-restrict", "C05", "solvers/iterative.py", "        r_c = self.R.T @ r\n", "        r_c = self.R.T @ r * 0.0\n"),
    ("c05-auto-chol", "C05", "solvers/auto_determine.py", "            if np.all(A.diagonal() > 0) or np.all(A.diagonal() < 0):\n                return SolverDenseCholesky()", "            if np.all(A.diagonal() != 0):\n                return SolverDenseCholesky()"),
    ("c05-diag-H", "C05", "solvers/dense.py", "d = self.diag.conj() if trans == 'H' else self.diag", "d = self.diag.conj() if trans == 'T' else self.diag"),
    ("c06-noclear-badj", "C06", "solvers/solvers.py", "        self.badj_stored.clear()\n", ""),
    ("c06-conjmode", "C06", "solvers/solvers.py", "conj_mode = self.symmetric and trans == 'H' or not self.symmetric and trans == 'T'", "conj_mode = self.symmetric and trans == 'T' or not self.symmetric and trans == 'H'"),
    ("c06-residual-lt", "C06", "solvers/solvers.py", "self._did_solve = self._last_rtol > self.tol", "self._did_solve = self._last_rtol > self.tol * 1e6"),
    ("c06-append-before-orth", "C06", "solvers/solvers.py", "                badd /= bnrm\n                xadd /= bnrm\n", "                badd /= bnrm\n"),
    ("c06-never-reuse", "C06", "solvers/solvers.py", "self._did_solve = self._last_rtol > self.tol", "self._did_solve = self._last_rtol > -1"),
    ("c07-soe-noApp", "C07", "modules/linalg.py", "b[self.p, ...] = self.Apf @ xf + self.App @ xp", "b[self.p, ...] = self.Apf @ xf"),
    ("c07-sc-swap", "C07", "modules/linalg.py", "return np.asarray(A[self.m, ...][..., self.m] - A[self.m, ...][..., self.f] @ self.X)", "return np.asarray(A[self.m, ...][..., self.m] - (A[self.f, ...][..., self.m]).T @ self.X)"),
    ("c07-inverse-T", "C07", "modules/linalg.py", "        return np.linalg.inv(A)", "        return np.linalg.inv(A.T)"),
    ("c07-linsolve-x0stale", "C07", "modules/linalg.py", "        self.u = self.solver.solve(rhs, x0=self.u)", "        self.u = self.solver.solve(rhs, x0=self.u) if self.u is None or self.u.shape != rhs.shape else 0.999999*self.solver.solve(rhs, x0=self.u) + 1e-6*self.u"),
    ("c10-move-nodx", "C10", "common/mma.py", "zzl2 = xval - self.move * self.dx", "zzl2 = xval - self.move"),
    ("c10-P-nodx2", "C10", "common/mma.py", "            P = dx2 * (1.001*dg_plus + 0.001*dg_min + 1e-5/self.dx)", "            P = dx2 * (1.001*dg_plus + 0.001*dg_min) + 1e-5/self.dx"),
    ("c10-beta-max", "C10", "common/mma.py", "beta = np.minimum.reduce([zzu1, zzu2, self.xmax])", "beta = np.minimum.reduce([zzu1, np.maximum(zzu2, self.xmax)])"),
    ("c10-dlam-sign", "C10", "common/mma.py", "            dy = -dely / diagy + dlam / diagy", "            dy = -dely / diagy - dlam / diagy"),
    ("c10-xmin-wrongsignal", "C10", "common/mma.py", "                self.xmin[self.cumlens[i]:self.cumlens[i+1]] = xminvals[i]", "                self.xmin[self.cumlens[i]:self.cumlens[i+1]] = xminvals[0]"),
    ("c10-state-offbyone", "C10", "common/mma.py", "                    s.state = xval[self.cumlens[i]:self.cumlens[i+1]]", "                    s.state = np.roll(xval[self.cumlens[i]:self.cumlens[i+1]], 1)"),
    ("c10-epsi", "C10", "common/mma.py", "    while epsi > epsimin:\n        # main loop + 1", "    while epsi > epsimin * 1e3:\n        # main loop + 1"),
    ("c13-nodenumber", "C13", "common/domain.py", "return (nodk * (self.nely + 1) + nodj) * (self.nelx + 1) + nodi", "return (nodk * (self.nely + 1) + nodj) * (self.nelx + 1) + nodi if self.nelz < 3 else (nodk * (self.nely + 1) + nodj) * (self.nelx) + nodi"),
    ("c13-der-sign", "C13", "common/domain.py", "            dN_dx[i, :] *= np.array([n[i] for n in self.node_numbering])  # Flip +/- signs according to node position", "            dN_dx[i, :] *= np.array([n[i] if i < 2 else -n[i] for n in self.node_numbering])"),
    ("c13-node-indices", "C13", "common/domain.py", "        nodk = nod_idx // ((self.nelx + 1)*(self.nely + 1))", "        nodk = nod_idx // ((self.nelx + 1)*(self.nelx + 1))"),
]


def run(m):
    mid, prop, fn, old, new = m
    root = f"/tmp/sm_{mid}"
    shutil.rmtree(root, ignore_errors=True)
    os.makedirs(root)
    shutil.copytree("/repo/pymoto", root + "/pymoto", ignore=shutil.ignore_patterns("__pycache__"))
    p = os.path.join(root, "pymoto", fn)
    s = open(p).read()
    if old not in s:
        shutil.rmtree(root, ignore_errors=True)
        return mid, prop, "PATTERN-NOT-FOUND", ""
    open(p, "w").write(s.replace(old, new, 1))
    env = dict(os.environ, PMV_REPO=root)
    r = subprocess.run([os.path.join(HERE, "check"), prop, "--tier", "quick"], cwd=HERE, env=env, capture_output=True, text=True)
    mechs = [l.split("mechanism:")[1].split("(")[0].strip() for l in r.stdout.splitlines() if "mechanism:" in l]
    shutil.rmtree(root, ignore_errors=True)
    return mid, prop, {0: "MISSED", 1: "caught", 2: "inconclusive"}.get(r.returncode, str(r.returncode)), "; ".join(mechs[:4])


if __name__ == "__main__":
    args = sys.argv[1:]
    j = 2
    if "-j" in args:
        j = int(args[args.index("-j") + 1])
        args = [a for i, a in enumerate(args) if a != "-j" and (i == 0 or args[i - 1] != "-j")]
    sel = [m for m in M if not args or m[1] in args or m[0] in args]
    with ThreadPoolExecutor(j) as ex:
        for mid, prop, res, mech in ex.map(run, sel):
            print(f"{prop} {mid:28s} {res:12s} {mech[:200]}", flush=True)
