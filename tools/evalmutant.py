#!/usr/bin/env python3
"""Developer tool: evaluates one seeded defect directory (patch.diff, demo.py, meta.json).
 1. copies /repo (pymoto, tests, examples) to a scratch tree under /tmp and applies patch.diff there
 2. runs demo.py against the clean copy (expects exit 0) and the patched copy (expects exit != 0)
 3. optionally (--tests) runs the repository's test-suite on the patched copy and compares with the stable baseline
 4. runs the quick tier of the given checks (default: the property named in meta.json) with PMV_REPO=<patched copy>
usage: evalmutant.py <dir> [--tests] [--checks C01,C04] [--tier quick]"""
import json
import os
import shutil
import subprocess
import sys

HERE = os.path.dirname(os.path.dirname(os.path.abspath(__file__)))


def sh(cmd, **kw):
    return subprocess.run(cmd, capture_output=True, text=True, **kw)


def copytree(dst):
    shutil.rmtree(dst, ignore_errors=True)
    os.makedirs(dst)
    for sub in ("pymoto", "tests", "examples"):
        shutil.copytree(os.path.join("/repo", sub), os.path.join(dst, sub), ignore=shutil.ignore_patterns("__pycache__"))


def main():
    d = os.path.abspath(sys.argv[1])
    args = sys.argv[2:]
    meta = json.load(open(os.path.join(d, "meta.json")))
    prop = meta["property"]
    checks = [prop]
    tier = "quick"
    if "--checks" in args:
        checks = args[args.index("--checks") + 1].split(",")
    if "--tier" in args:
        tier = args[args.index("--tier") + 1]
    tag = os.path.basename(os.path.dirname(d)) + "_" + os.path.basename(d) if os.path.basename(d).startswith("m") else os.path.basename(d)
    clean, mut = f"/tmp/ev_{tag}_clean", f"/tmp/ev_{tag}_mut"
    copytree(clean)
    copytree(mut)
    r = sh(["patch", "-p1", "-s", "-i", os.path.join(d, "patch.diff")], cwd=mut)
    out = {"dir": d, "property": prop, "patch_applies": r.returncode == 0, "patch_msg": (r.stdout + r.stderr)[-300:]}
    if r.returncode == 0:
        env = dict(os.environ, PYTHONPATH=clean, MPLBACKEND="Agg", OMP_NUM_THREADS="1")
        rc = sh(["/venv/bin/python", os.path.join(d, "demo.py")], cwd=clean, env=env, timeout=1800)
        env["PYTHONPATH"] = mut
        rm = sh(["/venv/bin/python", os.path.join(d, "demo.py")], cwd=mut, env=env, timeout=1800)
        out["demo_clean_exit"], out["demo_mutant_exit"] = rc.returncode, rm.returncode
        out["demo_clean_tail"], out["demo_mutant_tail"] = rc.stdout[-200:], (rm.stdout + rm.stderr)[-300:]
        if "--tests" in args:
            j = f"/tmp/ev_{tag}.junit.xml"
            t = sh(["/venv/bin/python", "-m", "pytest", "-q", "-p", "no:cacheprovider", "--timeout=3000", "--continue-on-collection-errors",
                    f"--junitxml={j}"], cwd=mut, env=dict(os.environ, MPLBACKEND="Agg"))
            c = sh([sys.executable, os.path.join(HERE, "tools", "cmp_baseline.py"), j])
            out["tests_stable_all_pass"] = c.returncode == 0
            out["tests_report"] = c.stdout[-600:]
        out["checks"] = {}
        for ck in checks:
            c = sh([os.path.join(HERE, "check"), ck, "--tier", tier], cwd=HERE, env=dict(os.environ, PMV_REPO=mut))
            mechs = [ln.split("mechanism:")[1].split("(")[0].strip() for ln in c.stdout.splitlines() if "mechanism:" in ln]
            out["checks"][ck] = {"exit": c.returncode, "mechanisms": mechs[:6], "summary": c.stdout.splitlines()[0][:200] if c.stdout else ""}
    shutil.rmtree(clean, ignore_errors=True)
    shutil.rmtree(mut, ignore_errors=True)
    print(json.dumps(out, indent=1))


if __name__ == "__main__":
    main()
