import numpy as np, scipy.sparse as sps, warnings, sys
import pymoto as pym
from adj import *
warnings.simplefilter('ignore')
rng = np.random.default_rng(0); S = pym.Signal
d = pym.DomainDefinition(4,3, unitx=0.8, unity=1.2); x = rng.random(d.nel)
e1 = rng.standard_normal((3,4)); e2 = rng.standard_normal((3,8)); e3 = rng.standard_normal((8,)); e4 = rng.standard_normal((3,8))
u = rng.standard_normal(d.nnodes*2); uc = u + 1j*rng.standard_normal(d.nnodes*2); X2 = rng.standard_normal((3,d.nel))
cases = {
 'ElementOperation ndof-repeat': lambda: (pym.ElementOperation(S('u'), domain=d, element_matrix=e1), [u]),
 'ElementOperation complex u': lambda: (pym.ElementOperation(S('u'), domain=d, element_matrix=e2), [uc]),
 'NodalOperation 1d elmat': lambda: (pym.NodalOperation(S('x'), domain=d, element_matrix=e3), [x]),
 'NodalOperation x 2d': lambda: (pym.NodalOperation(S('x'), domain=d, element_matrix=e4), [X2]),
 'NodalOperation complex x': lambda: (pym.NodalOperation(S('x'), domain=d, element_matrix=e3), [x+1j*x[::-1]]),
 'ElementAverage 2dof': lambda: (pym.ElementAverage(S('u'), domain=d), [u]),
 'ThermoMech complex': lambda: (pym.ThermoMechanical(S('x'), domain=d), [x+1j*x[::-1]]),
 'DensityFilter complex': lambda: (pym.DensityFilter(S('x'), domain=d, radius=2), [x+1j*x[::-1]]),
 'FilterConv complex': lambda: (pym.FilterConv(S('x'), domain=d, radius=2), [x+1j*x[::-1]]),
}
for name, make in cases.items():
    try:
        err, det = check_module(make, rng)
        print(f'{name:38s} err={err:.2e} est={det["est"]:.1e}', '' if err<1e-6 else '<<<<<')
    except Exception as e:
        print(f'{name:38s} EXC {type(e).__name__}: {str(e)[:140]!r}')
