import numpy as np, warnings, scipy.sparse as sps, sys, time
import pymoto as pym
from pymoto.solvers import *
warnings.simplefilter('ignore')
rng = np.random.default_rng(int(sys.argv[1]) if len(sys.argv)>1 else 0)
n = 7
def rnd(c): 
    A = rng.standard_normal((n,n))
    return A + 1j*rng.standard_normal((n,n)) if c else A
def mats():
    out = {}
    for c in [False, True]:
        t = 'c' if c else 'r'
        A = rnd(c)
        out[t+'gen'] = A + 3*np.eye(n)
        out[t+'diag'] = np.diag(np.diag(A)+3)
        out[t+'sym_indef'] = A + A.T
        out[t+'triu'] = np.triu(A) + 3*np.eye(n)
        out[t+'tril'] = np.tril(A) + 3*np.eye(n)
        H = A + A.conj().T
        out[t+'herm_indef'] = H
        out[t+'hpd'] = A@A.conj().T + n*np.eye(n)
        if c:
            out['csym'] = A + A.T + 3*np.eye(n)
    return out
def rhs(c, shape):
    b = rng.standard_normal(shape)
    return b + 1j*rng.standard_normal(shape) if c else b
def check(solver, A, name):
    Ad = A.toarray() if sps.issparse(A) else A
    bad = []
    for trans, M in [('N', Ad), ('T', Ad.T), ('H', Ad.conj().T)]:
        for c in [False, True]:
            for shape in [(n,), (n,1), (n,3)]:
                b = rhs(c, shape)
                if len(shape)==2 and shape[1]==3:
                    b[:,2] = 2*b[:,0]-b[:,1]
                try:
                    x = solver.solve(b, trans=trans)
                    r = np.linalg.norm(M@x-b)/np.linalg.norm(b)
                    ok = r < 1e-6 and x.shape == b.shape
                    if not ok: bad.append((trans, 'c' if c else 'r', shape, f'{r:.1e}', x.shape))
                except Exception as e:
                    bad.append((trans, 'c' if c else 'r', shape, type(e).__name__, str(e)[:50]))
    return bad
M = mats()
def run(label, mk, keys, sparse=False):
    for k in keys:
        A = sps.csc_matrix(M[k]) if sparse else M[k]
        try:
            s = mk(); s.update(A)
        except Exception as e:
            print(label, k, 'UPDATE EXC', type(e).__name__, str(e)[:80]); continue
        bad = check(s, A, k)
        print(f'{label:22s} {k:12s}', 'ok' if not bad else bad[:4])
allk = list(M.keys())
run('Diagonal', SolverDiagonal, ['rdiag','cdiag'])
run('Diagonal-sp', SolverDiagonal, ['rdiag','cdiag'], sparse=True)
run('QR', SolverDenseQR, allk)
run('LU', SolverDenseLU, allk)
run('Chol', SolverDenseCholesky, ['rhpd','chpd', 'rsym_indef', 'cherm_indef'])
run('LDL', SolverDenseLDL, ['rhpd','chpd','rsym_indef','cherm_indef','csym','csym_indef','rdiag'])
run('SparseLU', SolverSparseLU, allk, sparse=True)
for pc in [lambda: Preconditioner(), lambda: DampedJacobi(w=0.8), lambda: SOR(w=1.2), lambda: ILU()]:
    run('CG-'+type(pc()).__name__, lambda: CG(preconditioner=pc(), tol=1e-9), ['rhpd','chpd'], sparse=True)
run('CG-dense', lambda: CG(tol=1e-9), ['rhpd','chpd'])
for k in allk:
    for sp in [False, True]:
        A = sps.csc_matrix(M[k]) if sp else M[k]
        s = auto_determine_solver(A); s.update(A)
        bad = check(s, A, k)
        print(f'auto {"sp" if sp else "de"} {k:12s} {type(s).__name__:20s}', 'ok' if not bad else bad[:4])
