import sys, collections, time
TOOL = sys.monitoring.COVERAGE_ID
calls = collections.Counter(); lines = collections.defaultdict(set)
def start(prefix='/repo/pymoto', line_funcs=()):
    mon = sys.monitoring
    mon.use_tool_id(TOOL, 'pmv')
    def on_start(code, off):
        if not code.co_filename.startswith(prefix): return mon.DISABLE
        calls[(code.co_filename[len(prefix)+1:], code.co_qualname)] += 1
        if code.co_qualname in line_funcs:
            mon.set_local_events(TOOL, code, mon.events.LINE)
    def on_line(code, line):
        lines[code.co_qualname].add(line); return mon.DISABLE
    mon.register_callback(TOOL, mon.events.PY_START, on_start)
    mon.register_callback(TOOL, mon.events.LINE, on_line)
    mon.set_events(TOOL, mon.events.PY_START)
def stop():
    sys.monitoring.set_events(TOOL, 0); sys.monitoring.free_tool_id(TOOL)
