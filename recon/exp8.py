import numpy as np, warnings, scipy.sparse as sps, sys, itertools
import pymoto as pym
from scipy.signal import convolve
warnings.simplefilter('ignore')
rng = np.random.default_rng(int(sys.argv[1]) if len(sys.argv)>1 else 0)
S = pym.Signal
def to3d(d, x):
    nx, ny, nz = d.nelx, d.nely, max(d.nelz,1)
    a = np.zeros((nx,ny,nz))
    for i in range(nx):
        for j in range(ny):
            for k in range(nz):
                a[i,j,k] = x[d.get_elemnumber(i,j,k)]
    return a
def from3d(d, a):
    x = np.zeros(d.nel)
    nx, ny, nz = a.shape
    for i in range(nx):
        for j in range(ny):
            for k in range(nz):
                x[d.get_elemnumber(i,j,k)] = a[i,j,k]
    return x
def pad_axis(a, ax, p, m0, m1):
    def one(a, side, mode):
        pw = [(0,0)]*3
        pw[ax] = (p,0) if side==0 else (0,p)
        if isinstance(mode, str):
            return np.pad(a, pw, mode=mode)
        return np.pad(a, pw, mode='constant', constant_values=mode)
    # reference: both sides refer to ORIGINAL data along this axis
    n = a.shape[ax]
    if p == 0: return a
    lo = one(a, 0, m0); lo = np.take(lo, range(p), axis=ax)
    hi = one(a, 1, m1); hi = np.take(hi, range(n, n+p), axis=ax)
    return np.concatenate([lo, a, hi], axis=ax)
def ref_filterconv(d, x, w3, modes):
    a = to3d(d, x)
    for ax in range(3):
        p = w3.shape[ax]//2
        a = pad_axis(a, ax, p, modes[2*ax], modes[2*ax+1])
    y = convolve(a, w3, mode='valid')
    return from3d(d, y)
def cone(d, r, rel=True):
    dx,dy,dz = (1,1,1) if rel else d.element_size
    nx,ny,nz = d.nelx,d.nely,d.nelz
    hx = min(nx, int((r-1e-10*dx)/dx)); hy=min(ny,int((r-1e-10*dy)/dy)); hz=min(nz,int((r-1e-10*dz)/dz))
    X,Y,Z = np.meshgrid(np.arange(-hx,hx+1)*dx, np.arange(-hy,hy+1)*dy, np.arange(-hz,hz+1)*dz, indexing='ij')
    w = np.maximum(0, r-np.sqrt(X*X+Y*Y+Z*Z)); return w/w.sum()
nbad = 0; ntot = 0
modeset = ['symmetric','edge','wrap',0.0,1.0,0.37]
for trial in range(300):
    dim = rng.choice([2,3])
    nx, ny = rng.integers(1,6,2); nz = rng.integers(1,5) if dim==3 else 0
    d = pym.DomainDefinition(int(nx),int(ny),int(nz), unitx=rng.uniform(.5,2), unity=rng.uniform(.5,2), unitz=rng.uniform(.5,2))
    x = rng.random(d.nel)
    modes = [modeset[i] for i in rng.integers(0,len(modeset),6)]
    kw = dict(zip(['xmin_bc','xmax_bc','ymin_bc','ymax_bc','zmin_bc','zmax_bc'], modes))
    if rng.random()<0.5:
        r = rng.uniform(0.5,4.0); rel = bool(rng.random()<0.5)
        m = pym.FilterConv(S('x',x), domain=d, radius=r, relative_units=rel, **kw)
        w3 = cone(d, r, rel)
        desc = f'radius={r:.2f} rel={rel}'
    else:
        sh = [2*int(rng.integers(0, min(2,s)+1))+1 for s in (nx,ny,max(nz,0))]
        if dim==2: sh = sh[:2]
        w = rng.random(sh); 
        m = pym.FilterConv(S('x',x), domain=d, weights=w, **kw)
        w3 = w.reshape(sh+[1]*(3-len(sh)))
        desc = f'weights{sh}'
    assert np.allclose(m.weights, w3), (m.weights.shape, w3.shape)
    m.response(); y = m.sig_out[0].state
    yref = ref_filterconv(d, x, w3, modes)
    ntot += 1
    if not np.allclose(y, yref, atol=1e-12):
        nbad += 1
        if nbad < 8: print('MISMATCH', (nx,ny,nz), desc, modes, np.abs(y-yref).max())
print('FilterConv', nbad, '/', ntot)
# DensityFilter brute force
nbad=0
for trial in range(100):
    dim = rng.choice([2,3]); nx, ny = rng.integers(1,7,2); nz = rng.integers(1,4) if dim==3 else 0
    d = pym.DomainDefinition(int(nx),int(ny),int(nz)); r = rng.uniform(0.3, 5)
    x = rng.random(d.nel)
    m = pym.DensityFilter(S('x',x), domain=d, radius=r); m.response(); y = m.sig_out[0].state
    # brute
    idx = [(i,j,k) for i in range(nx) for j in range(ny) for k in range(max(nz,1))]
    yref = np.zeros(d.nel)
    for (i,j,k) in idx:
        num=0; den=0
        for (a,b,c) in idx:
            wgt = max(0, r-np.sqrt((i-a)**2+(j-b)**2+(k-c)**2))
            num += wgt*x[d.get_elemnumber(a,b,c)]; den += wgt
        yref[d.get_elemnumber(i,j,k)] = num/den
    if not np.allclose(y,yref,atol=1e-12): nbad+=1; print('DF mismatch', nx,ny,nz,r, np.abs(y-yref).max())
print('DensityFilter bad', nbad)
