import numpy as np, warnings, sys, copy, io, contextlib
import pymoto as pym
warnings.simplefilter('ignore')
S = pym.Signal
class LinMap(pym.Module):
    """ y = A x (+ B conj(x) if B given), optional wrong factor in sensitivity """
    def _prepare(self, A, wrong=1.0): self.A, self.wrong = A, wrong
    def _response(self, x): return self.A@x
    def _sensitivity(self, dy):
        g = self.A.T@dy*self.wrong
        return g if np.iscomplexobj(self.sig_in[0].state) else np.real(g)
class Sq(pym.Module):
    def _response(self, x): return x*x
    def _sensitivity(self, dy): return 2*self.sig_in[0].state*dy
def fd(blk, **kw):
    pairs=[]
    def tf(x0, dx, an, fdv): pairs.append((x0, an, fdv))
    with contextlib.redirect_stdout(io.StringIO()):
        pym.finite_difference(blk, test_fn=tf, **kw)
    return pairs
rng = np.random.default_rng(0)
for cplx_x in [False, True]:
  for cplx_A in [False, True]:
    for wrong in [1.0, 1.1]:
        n, m = 4, 3
        A = rng.standard_normal((m,n)) + (1j*rng.standard_normal((m,n)) if cplx_A else 0)
        x = rng.standard_normal(n) + (1j*rng.standard_normal(n) if cplx_x else 0)
        x[1] = 0.0
        sx = S('x', x.copy()); mod = LinMap(sx, S('y'), A, wrong)
        w = rng.standard_normal(m) + (1j*rng.standard_normal(m) if (cplx_A or cplx_x) else 0)
        for kz in [True, False]:
            pairs = fd(mod, use_df=[w], keep_zero_structure=kz, dx=1e-6)
            gtrue = A.T@w
            # expected entries
            exp=[]
            for i in range(n):
                if kz and x[i]==0: continue
                exp.append(np.real(gtrue[i]))
                if cplx_x: exp.append(np.imag(gtrue[i]))
            an = np.array([p[1] for p in pairs]); fdv = np.array([p[2] for p in pairs])
            ok_count = len(pairs)==len(exp)
            ok_fd = ok_count and np.allclose(fdv, exp, atol=1e-5)
            ok_an = ok_count and np.allclose(an, np.array(exp)*wrong, atol=1e-12)
            restored = np.array_equal(sx.state, x) and sx.sensitivity is None and mod.sig_out[0].sensitivity is None
            print(f'cx={cplx_x} cA={cplx_A} wrong={wrong} kz={kz}: n={len(pairs)}/{len(exp)} fd_ok={ok_fd} an_ok={ok_an} restored={restored}')
# scalar python input
sx = S('x', 1.5); mod = Sq(sx, S('y')); pairs = fd(mod, random=False); print('scalar', pairs, type(sx.state), sx.state, sx.sensitivity)
# network with fromsig/tosig
a, b = S('a', rng.standard_normal(3)), S('b', rng.standard_normal(3))
m1 = Sq(a, S('a2')); m2 = LinMap(m1.sig_out[0], S('y'), rng.standard_normal((2,3))); m3 = Sq(b, S('b2'))
net = pym.Network(m1, m3, m2)
pairs = fd(net, fromsig=a, tosig=m2.sig_out[0]); print('net pairs', len(pairs), max(abs(p[1]-p[2]) for p in pairs))
pairs = fd(net, fromsig=[a,b], tosig=[m2.sig_out[0], m3.sig_out[0]]); print('net pairs2', len(pairs), max(abs(p[1]-p[2]) for p in pairs))
pairs = fd(net, fromsig=a, tosig=m2.sig_out[0][0:1]); print('net slice out', len(pairs), max(abs(p[1]-p[2]) for p in pairs))
pairs = fd(net, fromsig=a[0:2], tosig=m2.sig_out[0]); print('net slice in', len(pairs), max(abs(p[1]-p[2]) for p in pairs), a.sensitivity)
# relative dx
pairs = fd(net, fromsig=a, tosig=m2.sig_out[0], relative_dx=True, dx=1e-6); print('rel dx', len(pairs), max(abs(p[1]-p[2]) for p in pairs))
# 2D array input & sparse output
import scipy.sparse as sps
d = pym.DomainDefinition(2,2); sx = S('x', rng.random(4)); mod = pym.AssembleStiffness(sx, domain=d)
pairs = fd(mod); print('sparse out', len(pairs), max(abs(p[1]-p[2]) for p in pairs))
