import numpy as np, warnings
import pymoto as pym
warnings.simplefilter('ignore')
S = pym.Signal
rng = np.random.default_rng(0)
def tang(A,B,lam,Q,dA,dB):
    n = A.shape[0]; ld = np.zeros(len(lam), dtype=complex); Qd = np.zeros_like(Q, dtype=complex)
    for i in range(len(lam)):
        q = Q[:,i]; l = lam[i]
        Mx = np.block([[A-l*B, -(B@q)[:,None]],[(q@(B+B.T))[None,:], np.zeros((1,1))]])
        rhs = np.concatenate([-(dA-l*dB)@q, [-(q@dB@q)]])
        sol = np.linalg.solve(Mx, rhs); Qd[:,i]=sol[:n]; ld[i]=sol[n]
    return ld, Qd
worst=0
for t in range(60):
    n = int(rng.integers(2,8)); kind = rng.choice(['sym','gen','herm','symB','genB'])
    A = rng.standard_normal((n,n)); Bm=None
    if kind in ['sym','symB']: A = A+A.T
    if kind=='herm': A = A+1j*rng.standard_normal((n,n)); A = A+A.conj().T
    if kind.endswith('B'): Bm = rng.standard_normal((n,n)); Bm = Bm@Bm.T+n*np.eye(n)
    sigs = [S('A',A)] + ([S('B',Bm)] if Bm is not None else [])
    m = pym.EigenSolve(sigs); m.response(); lam,Q = [s.state for s in m.sig_out]
    if np.min(np.abs(lam[:,None]-lam[None,:])+np.eye(n)*9)<1e-2: continue
    wl = rng.standard_normal(n) + (1j*rng.standard_normal(n) if np.iscomplexobj(lam) else 0)
    wQ = rng.standard_normal((n,n)) + (1j*rng.standard_normal((n,n)) if np.iscomplexobj(Q) else 0)
    m.sig_out[0].sensitivity = wl; m.sig_out[1].sensitivity = wQ; m.sensitivity()
    def d(kind_, shape, cplx):
        v = rng.standard_normal(shape)+(1j*rng.standard_normal(shape) if cplx else 0)
        if kind_.startswith('sym'): v = v+v.T
        if kind_=='herm': v = v+v.conj().T
        return v
    dA = d(kind, (n,n), np.iscomplexobj(A)); dB = d('sym',(n,n),False) if Bm is not None else np.zeros((n,n))
    ld, Qd = tang(A, Bm if Bm is not None else np.eye(n), lam, Q, dA, dB)
    ref = np.real(np.sum(wl*ld)+np.sum(wQ*Qd))
    an = np.real(np.sum(m.sig_in[0].sensitivity*dA)) + (np.real(np.sum(m.sig_in[1].sensitivity*dB)) if Bm is not None else 0)
    err = abs(an-ref)/max(abs(an),abs(ref)); worst=max(worst,err)
    if err>1e-8: print(kind, n, an, ref, err)
print('worst', worst)
