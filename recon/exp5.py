import numpy as np, scipy.sparse as sps, warnings, sys
import pymoto as pym
from adj import *
warnings.simplefilter('ignore')
rng = np.random.default_rng(int(sys.argv[1]) if len(sys.argv)>1 else 0)
S = pym.Signal
cases = {}
def case(name):
    def deco(f): cases[name] = f; return f
    return deco
d2 = pym.DomainDefinition(4,3, unitx=0.7, unity=1.3)
d3 = pym.DomainDefinition(3,2,2, unitx=0.7, unity=1.3, unitz=0.9)
for nm, d in [('2d', d2), ('3d', d3)]:
    x = rng.random(d.nel)*0.9+0.1
    ndof = d.dim
    bc = np.unique(rng.integers(0, d.nnodes*ndof, 4))
    cases[f'AssembleStiffness-{nm}'] = lambda d=d,x=x: (pym.AssembleStiffness(S('x'), domain=d), [x])
    cases[f'AssembleStiffness-bc-{nm}'] = lambda d=d,x=x,bc=bc: (pym.AssembleStiffness(S('x'), domain=d, bc=bc, bcdiagval=2.0), [x])
    cases[f'AssembleMass-{nm}'] = lambda d=d,x=x,bc=bc: (pym.AssembleMass(S('x'), domain=d, bc=bc, ndof=d.dim, material_property=2.0), [x])
    cases[f'AssemblePoisson-{nm}'] = lambda d=d,x=x: (pym.AssemblePoisson(S('x'), domain=d, material_property=2.0), [x])
    u = rng.standard_normal(d.nnodes*ndof)
    cases[f'Strain-{nm}'] = lambda d=d,u=u: (pym.Strain(S('u'), domain=d), [u])
    cases[f'Stress-{nm}'] = lambda d=d,u=u: (pym.Stress(S('u'), domain=d, plane='stress'), [u])
    cases[f'ElementAverage-{nm}'] = lambda d=d,u=u: (pym.ElementAverage(S('u'), domain=d), [u])
    em = rng.standard_normal((2,3,d.elemnodes))
    cases[f'ElementOperation-{nm}'] = lambda d=d,u=u,em=em: (pym.ElementOperation(S('u'), domain=d, element_matrix=em), [u])
    em2 = rng.standard_normal((d.elemnodes*2))
    cases[f'NodalOperation-{nm}'] = lambda d=d,x=x,em2=em2: (pym.NodalOperation(S('x'), domain=d, element_matrix=em2), [x])
    cases[f'ThermoMechanical-{nm}'] = lambda d=d,x=x: (pym.ThermoMechanical(S('x'), domain=d, alpha=0.3), [x])
    cases[f'DensityFilter-{nm}'] = lambda d=d,x=x: (pym.DensityFilter(S('x'), domain=d, radius=1.7), [x])
    cases[f'DensityFilter-nonpad-{nm}'] = lambda d=d,x=x: (pym.DensityFilter(S('x'), domain=d, radius=1.7, nonpadding=np.arange(3)), [x])
    cases[f'FilterConv-{nm}'] = lambda d=d,x=x: (pym.FilterConv(S('x'), domain=d, radius=1.7, xmin_bc='wrap', xmax_bc=0.5, ymin_bc='edge'), [x])
    for dr in (['+x','-y',[0,-1],[ -1,0]] if d.dim==2 else ['z',[0,0,-1],[-1,0,0],[0,1,0]]):
        for ns in ([3] if d.dim==2 else [5,9]):
            cases[f'Overhang-{nm}-{dr}-{ns}'] = lambda d=d,x=x,dr=dr,ns=ns: (pym.OverhangFilter(S('x'), domain=d, direction=dr, nsampling=ns, p=10.0, eps=1e-2), [x])
n=5
A = rng.standard_normal((n,n)); As = A+A.T + 2*n*np.eye(n)
Ac = A + 1j*rng.standard_normal((n,n)); Ah = Ac+Ac.conj().T + 4*n*np.eye(n); Acs = Ac+Ac.T
b = rng.standard_normal(n); B = rng.standard_normal((n,2)); bcx = b + 1j*rng.standard_normal(n)
def symdir(rng, x0):
    v = [rand_like(rng, x) for x in x0]
    v[0] = v[0]+v[0].T
    return v
def hermdir(rng, x0):
    v = [rand_like(rng, x) for x in x0]
    v[0] = v[0]+v[0].conj().T
    return v
cases['LinSolve-dense-gen'] = (lambda: (pym.LinSolve([S('A'),S('b')]), [A+3*np.eye(n), b]))
cases['LinSolve-dense-gen-block'] = (lambda: (pym.LinSolve([S('A'),S('b')]), [A+3*np.eye(n), B]))
cases['LinSolve-dense-sym'] = (lambda: (pym.LinSolve([S('A'),S('b')]), [As, b]), symdir)
cases['LinSolve-dense-sym-gendir'] = (lambda: (pym.LinSolve([S('A'),S('b')]), [As, b]))
cases['LinSolve-dense-cplx'] = (lambda: (pym.LinSolve([S('A'),S('b')]), [Ac+3*np.eye(n), bcx]))
cases['LinSolve-dense-cplx-realb'] = (lambda: (pym.LinSolve([S('A'),S('b')]), [Ac+3*np.eye(n), b]))
cases['LinSolve-dense-real-cplxb'] = (lambda: (pym.LinSolve([S('A'),S('b')]), [A+3*np.eye(n), bcx]))
cases['LinSolve-dense-herm'] = (lambda: (pym.LinSolve([S('A'),S('b')]), [Ah, bcx]), hermdir)
cases['LinSolve-dense-csym'] = (lambda: (pym.LinSolve([S('A'),S('b')]), [Acs+3*np.eye(n), bcx]), symdir)
cases['LinSolve-sparse-gen'] = (lambda: (pym.LinSolve([S('A'),S('b')]), [sps.csc_matrix(A+3*np.eye(n)), b]))
cases['LinSolve-sparse-sym'] = (lambda: (pym.LinSolve([S('A'),S('b')]), [sps.csc_matrix(As), B]), symdir)
cases['LinSolve-sparse-cplx'] = (lambda: (pym.LinSolve([S('A'),S('b')]), [sps.csc_matrix(Ac+3*np.eye(n)), bcx]))
cases['Inverse'] = (lambda: (pym.Inverse(S('A')), [A+3*np.eye(n)]))
cases['Inverse-cplx'] = (lambda: (pym.Inverse(S('A')), [Ac+3*np.eye(n)]))
f = np.array([0,2,3]); p = np.array([1,4])
cases['SoE-sparse-sym'] = (lambda: (pym.SystemOfEquations([S('A'),S('b'),S('x')], free=f, prescribed=p), [sps.csc_matrix(As), b[f], b[p]]), symdir)
cases['SoE-sparse-sym-block'] = (lambda: (pym.SystemOfEquations([S('A'),S('b'),S('x')], free=f, prescribed=p), [sps.csc_matrix(As), B[f], B[p]]), symdir)
cases['SoE-sparse-gen'] = (lambda: (pym.SystemOfEquations([S('A'),S('b'),S('x')], free=f, prescribed=p), [sps.csc_matrix(A+3*np.eye(n)), b[f], b[p]]))
cases['StaticCond-sym'] = (lambda: (pym.StaticCondensation(S('A'), main=np.array([0,1]), free=np.array([2,3])), [sps.csc_matrix(As)]), symdir)
cases['StaticCond-gen'] = (lambda: (pym.StaticCondensation(S('A'), main=np.array([0,1]), free=np.array([2,3])), [sps.csc_matrix(A+3*np.eye(n))]))
cases['Eig-dense-sym'] = (lambda: (pym.EigenSolve(S('A')), [As]), symdir)
cases['Eig-dense-gen'] = (lambda: (pym.EigenSolve(S('A')), [A+3*np.eye(n)]))
cases['Eig-dense-herm'] = (lambda: (pym.EigenSolve(S('A')), [Ah]), hermdir)
Bm = rng.standard_normal((n,n)); Bm = Bm@Bm.T + n*np.eye(n)
def symdir2(rng, x0):
    v = [rand_like(rng, x) for x in x0]
    return [vi+vi.T for vi in v]
cases['Eig-dense-sym-gen'] = (lambda: (pym.EigenSolve([S('A'),S('B')]), [As, Bm]), symdir2)
xv = rng.random(7)+0.5
for p_ in [4.0,-3.0]:
    cases[f'PNorm{p_}'] = lambda p_=p_: (pym.PNorm(S('x'), p=p_), [xv])
    cases[f'KS{p_}'] = lambda p_=p_: (pym.KSFunction(S('x'), rho=p_), [xv])
    cases[f'Soft{p_}'] = lambda p_=p_: (pym.SoftMinMax(S('x'), alpha=p_), [xv])
cases['PNorm-active'] = lambda: (pym.PNorm(S('x'), p=4, active_set=pym.AggActiveSet(lower_rel=0.2, upper_amt=0.8)), [xv])
cases['Scaling'] = lambda: (pym.Scaling(S('x'), scaling=10.0), [3.3])
cases['Scaling-max'] = lambda: (pym.Scaling(S('x'), scaling=10.0, maxval=2.0), [3.3])
cases['Scaling-min'] = lambda: (pym.Scaling(S('x'), scaling=10.0, minval=2.0), [3.3])
z = rng.standard_normal(4)+1j*rng.standard_normal(4)
cases['MakeComplex'] = lambda: (pym.MakeComplex([S('x'),S('y')]), [rng.standard_normal(4)*0+np.arange(4.)+1, np.arange(4.)-2])
cases['RealPart'] = lambda: (pym.RealPart(S('z')), [z])
cases['ImagPart'] = lambda: (pym.ImagPart(S('z')), [z])
cases['ComplexNorm'] = lambda: (pym.ComplexNorm(S('z')), [z])
cases['EinSum-matvec'] = lambda: (pym.EinSum([S('A'),S('b')], expression='ij,j->i'), [A, b])
cases['EinSum-matvec-cplx'] = lambda: (pym.EinSum([S('A'),S('b')], expression='ij,j->i'), [Ac, b])
cases['EinSum-quad'] = lambda: (pym.EinSum([S('b'),S('A'),S('c')], expression='i,ij,j->'), [b, A, bcx])
cases['EinSum-trace'] = lambda: (pym.EinSum([S('A')], expression='ii->'), [A])
cases['EinSum-sum'] = lambda: (pym.EinSum([S('A')], expression='ij->'), [Ac])
cases['Concat'] = lambda: (pym.ConcatSignal([S('a'),S('b'),S('c')]), [b, 2.5, B[:,0]])
try:
    import sympy
    cases['Math'] = lambda: (pym.MathGeneral([S('x'),S('y')], expression='sin(x)*y+x^2'), [b, 2.5])
    cases['Math-bcast'] = lambda: (pym.MathGeneral([S('x'),S('y')], expression='x*y'), [B, b[:,None]])
except ImportError: pass

for name, c in cases.items():
    make, dirs = (c if isinstance(c, tuple) else (c, None))
    try:
        err, det = check_module(make, rng, dirs=dirs)
        flag = '' if err < 1e-5 else '   <<<<<<<<<<'
        print(f'{name:34s} err={err:.2e} est={det["est"]:.1e} an={det["an"]:+.4e} fd={det["fd"]:+.4e}{flag}')
    except Exception as e:
        print(f'{name:34s} EXC {type(e).__name__}: {str(e)[:110]!r}')
