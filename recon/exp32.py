import numpy as np, scipy.sparse as sps, warnings
import pymoto as pym
from pymoto.solvers import *
warnings.simplefilter('ignore')
rng = np.random.default_rng(1)
n=6
A = rng.standard_normal((n,n)); As = A@A.T+n*np.eye(n)
B = rng.standard_normal((n,3)); B[:,2] = B[:,0]-2*B[:,1]
for name, M in [('dense', As), ('sparse', sps.csc_matrix(As))]:
    w = LDAWrapper(auto_determine_solver(M)); w.update(M)
    X = w.solve(B); print(name, 'block res', np.linalg.norm(As@X-B), 'db size', len(w.x_stored), 'db consistency', [float(np.linalg.norm(As@x-b)) for x,b in zip(w.x_stored,w.b_stored)])
    for k in range(3):
        b = rng.standard_normal(n); x = w.solve(b, trans='T'); print('   next solve res', np.linalg.norm(As@x-b))
# via LinSolve + sensitivity adjoint check
from adj import check_module
def symdir(rng, x0):
    from adj import rand_like
    v = [rand_like(rng, xx) for xx in x0]; v[0] = v[0]+v[0].T; return v
err, det = check_module(lambda: (pym.LinSolve([pym.Signal('A'), pym.Signal('b')]), [As, B]), rng, dirs=symdir); print('LinSolve adjoint with dependent block: err', err)
