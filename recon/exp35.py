import icontract, numpy as np, warnings
import pymoto as pym
from pymoto.solvers import LDAWrapper, SolverDenseLU
import pymoto.solvers.solvers as SS
warnings.simplefilter('ignore')
class InvBroken(Exception): pass
cnt = {'n':0}
def db_consistent(self):
    cnt['n'] += 1
    if self.A is None: return True
    A = self.A.toarray() if hasattr(self.A,'toarray') else np.asarray(self.A)
    isel = self.nondiagonal_idx
    for store, M in [((self.x_stored, self.b_stored), A), ((self.xadj_stored, self.badj_stored), A.conj().T)]:
        for x, b in zip(*store):
            if np.linalg.norm(M[np.ix_(isel,isel)]@x - b) > 1e-8*max(1,np.linalg.norm(b)): return False
    return True
C2 = icontract.invariant(db_consistent, error=InvBroken)(LDAWrapper)
print('same class object:', C2 is LDAWrapper, C2 is SS.LDAWrapper)
rng = np.random.default_rng(0); n=5
A = rng.standard_normal((n,n)); A = A@A.T+n*np.eye(n)
w = LDAWrapper(SolverDenseLU()); w.update(A)
w.solve(rng.standard_normal(n)); print('evals', cnt['n'])
B = rng.standard_normal((n,3)); B[:,2]=B[:,0]-B[:,1]
try:
    w.solve(B); print('no violation')
except InvBroken as e: print('invariant fired on dependent block', str(e)[:80])
# via LinSolve
m = pym.LinSolve([pym.Signal('A',A), pym.Signal('b',B)])
try:
    m.response(); print('LinSolve no violation')
except Exception as e: print('LinSolve fired:', type(e).__name__)
