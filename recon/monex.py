import sys, os, hashlib, collections, numpy as np, scipy.sparse as sps
os.environ['MPLBACKEND']='Agg'
import pymoto as pym
from pymoto import DyadCarrier
from pymoto.core_objects import Module, Network
def digest(v):
    if v is None: return None
    if isinstance(v, DyadCarrier): return ('dyad', v.shape, tuple(digest(u) for u in v.u), tuple(digest(u) for u in v.v))
    if sps.issparse(v):
        c = v.tocsr(copy=True); c.sum_duplicates(); return ('sp', c.shape, str(c.dtype), hashlib.blake2b(c.data.tobytes()+c.indices.tobytes()+c.indptr.tobytes(), digest_size=12).hexdigest())
    if isinstance(v, np.ndarray): return ('nd', v.shape, str(v.dtype), hashlib.blake2b(np.ascontiguousarray(v).tobytes(), digest_size=12).hexdigest())
    return ('py', repr(v))
stats = collections.Counter(); viol=[]
def sigs_of(m): return list(m.sig_in)+list(m.sig_out)
orig_resp, orig_sens, orig_reset = Module.response, Module.sensitivity, Module.reset
def resp(self):
    ins = [digest(s.state) for s in self.sig_in]; sens = [digest(s.sensitivity) for s in sigs_of(self)]
    r = orig_resp(self); stats['response']+=1
    if ins != [digest(s.state) for s in self.sig_in]: viol.append(('response changed input state', type(self).__name__))
    if sens != [digest(s.sensitivity) for s in sigs_of(self)]: viol.append(('response changed a sensitivity', type(self).__name__))
    return r
def sens(self):
    st = [digest(s.state) for s in sigs_of(self)]; seeded = any(s.sensitivity is not None for s in self.sig_out)
    before = [digest(s.sensitivity) for s in sigs_of(self)]
    r = orig_sens(self); stats['sensitivity']+=1
    if st != [digest(s.state) for s in sigs_of(self)]: viol.append(('sensitivity changed a state', type(self).__name__))
    if not seeded and len(self.sig_out)>0:
        stats['unseeded']+=1
        if before != [digest(s.sensitivity) for s in sigs_of(self)]: viol.append(('unseeded sensitivity changed something', type(self).__name__))
    return r
def reset(self):
    st = [digest(s.state) for s in sigs_of(self)]
    r = orig_reset(self); stats['reset']+=1
    if st != [digest(s.state) for s in sigs_of(self)]: viol.append(('reset changed a state', type(self).__name__))
    for s in sigs_of(self):
        if s.sensitivity is not None and np.any(np.asarray(s.sensitivity) != 0): viol.append(('reset left sensitivity', type(self).__name__))
    return r
Module.response, Module.sensitivity, Module.reset = resp, sens, reset
import runpy
sys.argv = ['runex.py', sys.argv[1]]
exec(open('runex.py').read())
print('   monitor', dict(stats), 'violations', collections.Counter(viol).most_common(5))
