import numpy as np, warnings, scipy.sparse as sps, sys, itertools
import pymoto as pym
warnings.simplefilter('ignore')
rng = np.random.default_rng(int(sys.argv[1]) if len(sys.argv)>1 else 0)
S = pym.Signal
def rbm(d):
    pos = d.get_node_position().T  # (nnodes, dim)
    n = d.nnodes; dim = d.dim
    modes = []
    for a in range(dim):
        u = np.zeros((n,dim)); u[:,a]=1; modes.append(u.flatten())
    if dim==2:
        u = np.zeros((n,2)); u[:,0] = -pos[:,1]; u[:,1] = pos[:,0]; modes.append(u.flatten())
    else:
        for (a,b) in [(0,1),(1,2),(2,0)]:
            u = np.zeros((n,3)); u[:,a] = -pos[:,b]; u[:,b] = pos[:,a]; modes.append(u.flatten())
    return modes
worst = {}
def rec(k, v): worst[k] = max(worst.get(k,0), v)
for trial in range(60):
    dim = rng.choice([2,3]); nx,ny = rng.integers(1,5,2); nz = int(rng.integers(1,4)) if dim==3 else 0
    ux,uy,uz = rng.uniform(0.3,3,3)
    d = pym.DomainDefinition(int(nx),int(ny),nz, unitx=ux, unity=uy, unitz=uz)
    E = rng.uniform(0.5,10); nu = rng.uniform(0.0,0.45); plane = rng.choice(['strain','stress'])
    x = rng.random(d.nel)
    m = pym.AssembleStiffness(S('x',x), domain=d, e_modulus=E, poisson_ratio=nu, plane=plane); m.response()
    K = m.sig_out[0].state.toarray()
    sc = np.abs(K).max()
    rec('K sym', np.abs(K-K.T).max()/sc)
    rec('K psd', max(0,-np.linalg.eigvalsh((K+K.T)/2).min())/sc)
    for u in rbm(d): rec('K rbm', np.abs(K@u).max()/(sc*np.abs(u).max()))
    # element sum reference
    Ke = m.elmat; dc = d.get_dofconnectivity(dim)
    Kr = np.zeros_like(K)
    for e in range(d.nel):
        Kr[np.ix_(dc[e],dc[e])] += x[e]*Ke
    rec('K scatter', np.abs(K-Kr).max()/sc)
    # mass
    rho = rng.uniform(0.5,3); nd = int(rng.integers(1,4))
    mm = pym.AssembleMass(S('x',x), domain=d, material_property=rho, ndof=nd); mm.response(); M = mm.sig_out[0].state.toarray()
    V = np.prod(d.element_size[:dim]) * (np.prod(d.element_size[dim:]) if dim<3 else 1)
    for a in range(nd):
        e = np.zeros((d.nnodes, nd)); e[:,a]=1; e=e.flatten()
        rec('M mass', abs(e@M@e - rho*V*x.sum())/(rho*V*x.sum()))
    # poisson
    kap = rng.uniform(0.5,3)
    mp = pym.AssemblePoisson(S('x',x), domain=d, material_property=kap); mp.response(); P = mp.sig_out[0].state.toarray()
    rec('P const', np.abs(P@np.ones(d.nnodes)).max()/np.abs(P).max())
    g = rng.standard_normal(dim); pos = d.get_node_position().T; T = pos@g + 0.3
    thick = np.prod(d.element_size[dim:]) if dim<3 else 1
    Eref = kap*thick*np.prod(d.element_size[:dim])*x.sum()*(g@g)
    rec('P energy', abs(T@P@T - Eref)/Eref)
    # strain/stress
    G = rng.standard_normal((dim,dim)); u = (pos@G.T + rng.standard_normal(dim)).flatten()
    ms = pym.Strain(S('u',u), domain=d); ms.response(); eps = ms.sig_out[0].state
    sym = (G+G.T)/2
    if dim==2: ref = np.array([sym[0,0], sym[1,1], 2*sym[0,1]])
    else: ref = np.array([sym[0,0],sym[1,1],sym[2,2],2*sym[1,2],2*sym[2,0],2*sym[0,1]])
    rec('strain', np.abs(eps-ref[:,None]).max())
    d1 = pym.DomainDefinition(int(nx),int(ny),nz, unitx=ux, unity=uy, unitz=1.0) if dim==2 else d
    pos1 = d1.get_node_position().T; u1 = (pos1@G.T).flatten()
    mst = pym.Stress(S('u',u1), domain=d1, e_modulus=E, poisson_ratio=nu, plane=plane); mst.response(); sig = mst.sig_out[0].state
    mstn = pym.Strain(S('u',u1), domain=d1); mstn.response(); eps1 = mstn.sig_out[0].state
    from pymoto.modules.assembly import get_D
    D = get_D(E,nu,'3d' if dim==3 else plane)
    rec('stress', np.abs(sig - (D@ref)[:,None]).max()/np.abs(D).max())
    mk = pym.AssembleStiffness(S('x',x), domain=d1, e_modulus=E, poisson_ratio=nu, plane=plane); mk.response(); K1 = mk.sig_out[0].state
    Ve = np.prod(d1.element_size[:dim])
    en = np.sum(x*Ve*np.sum(sig*eps1,axis=0))
    rec('energy', abs(en - u1@(K1@u1))/abs(en))
    # element average
    c = rng.standard_normal(dim); fld = pos@c+0.7
    ma = pym.ElementAverage(S('v',fld), domain=d); ma.response()
    cen = np.array([pos[d.conn[e]].mean(axis=0)@c+0.7 for e in range(d.nel)])
    rec('elavg', np.abs(ma.sig_out[0].state-cen).max())
    # thermo
    al = rng.uniform(0.1,1)
    mt = pym.ThermoMechanical(S('x',x), domain=d, e_modulus=E, poisson_ratio=nu, alpha=al, plane=plane); mt.response(); ft = mt.sig_out[0].state
    for uu in rbm(d): rec('thermo equil', abs(uu@ft)/(np.abs(ft).max()*np.abs(uu).max()*len(ft)))
    if dim==3 or plane=='stress':
        ufree = (al*pos).flatten()
        rec('thermo=K u', np.abs(ft - K@ufree).max()/np.abs(ft).max())
    else:
        ufree = (al*pos).flatten()
        rec('thermo=K u (strain, info)', np.abs(ft - K@ufree).max()/np.abs(ft).max())
for k,v in worst.items(): print(f'{k:28s} {v:.2e}')
