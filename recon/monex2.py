import sys, os
os.environ['MPLBACKEND']='Agg'
sys.path.insert(0,'/tmp/scratch/plug')
import pmvplug
sys.argv = ['runex.py', sys.argv[1]]
exec(open('runex.py').read())
print('   ', {k:v for k,v in pmvplug.stats.items() if k.startswith('solve')}, 'violations', dict(pmvplug.viol), pmvplug.examples)
