"""Prototype adjoint checker (exploration only)."""
import numpy as np, scipy.sparse as sps, warnings, copy
import pymoto as pym
from pymoto import DyadCarrier

def is_cplx(a):
    return np.iscomplexobj(a.data if sps.issparse(a) else a)

def rand_like(rng, a, force_real=False):
    """random direction/seed with the same structure as a"""
    if sps.issparse(a):
        b = a.copy().astype(complex if (is_cplx(a) and not force_real) else float)
        d = rng.standard_normal(b.data.shape)
        if is_cplx(a) and not force_real:
            d = d + 1j*rng.standard_normal(b.data.shape)
        b.data = d
        return b
    a = np.asarray(a)
    d = rng.standard_normal(a.shape)
    if np.iscomplexobj(a) and not force_real:
        d = d + 1j*rng.standard_normal(a.shape)
    return d if a.ndim else d[()]

def inner(g, v):
    """Re sum(g*v) for dense / sparse v / dyad g"""
    if g is None:
        return 0.0
    if isinstance(g, DyadCarrier):
        if sps.issparse(v):
            return np.real(g.contract(v))
        return np.real(np.sum(g.todense()*v))
    if sps.issparse(g): g = g.toarray()
    if sps.issparse(v): v = v.toarray()
    return float(np.real(np.sum(np.asarray(g)*np.asarray(v))))

def todense(y):
    return y.toarray() if sps.issparse(y) else (y.todense() if isinstance(y, DyadCarrier) else np.asarray(y))

def check_module(make, rng, seeds='all', dirs=None, tol=1e-5, h0=1e-4, verbose=False):
    """make() -> (module, list of input states). Returns (rel_err, details)"""
    mod, x0 = make()
    for s, x in zip(mod.sig_in, x0):
        s.state = copy.deepcopy(x)
    mod.response()
    y0 = [copy.deepcopy(s.state) for s in mod.sig_out]
    w = []
    for k, y in enumerate(y0):
        if seeds == 'all' or k in seeds:
            w.append(rand_like(rng, todense(y)))
        else:
            w.append(None)
    for s, wi in zip(mod.sig_out, w):
        s.sensitivity = copy.deepcopy(wi)
    mod.sensitivity()
    g = [copy.deepcopy(s.sensitivity) for s in mod.sig_in]
    v = dirs(rng, x0) if dirs is not None else [rand_like(rng, x) for x in x0]
    an = sum(inner(gi, vi) for gi, vi in zip(g, v))
    def h(t):
        m2, _ = make()
        for s, x, vi in zip(m2.sig_in, x0, v):
            s.state = x + t*vi
        m2.response()
        tot = 0.0
        for s, wi in zip(m2.sig_out, w):
            if wi is not None:
                tot += np.real(np.sum(wi*todense(s.state)))
        return tot
    def cd(hh): return (h(hh)-h(-hh))/(2*hh)
    d1, d2 = cd(h0), cd(h0/2)
    fd = (4*d2-d1)/3
    est = abs(d2-d1)
    scale = max(abs(fd), abs(an), 1e-12)
    err = abs(fd-an)/scale
    return err, dict(an=an, fd=fd, est=est/scale)
