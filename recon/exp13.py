import numpy as np, warnings, sys, io, contextlib
import pymoto as pym
import pymoto.common.mma as mma_mod
warnings.simplefilter('ignore')
rng = np.random.default_rng(int(sys.argv[1]) if len(sys.argv)>1 else 0)
S = pym.Signal

class Quad(pym.Module):
    """ y = sum_i c_i (x_i - t_i)^2 + off over several input signals (concatenated) """
    def _prepare(self, c, t, off):
        self.c, self.t, self.off = c, t, off
    def _cat(self, args):
        return np.concatenate([np.atleast_1d(np.asarray(a, dtype=float)).ravel() for a in args])
    def _response(self, *args):
        self.x = self._cat(args)
        return np.sum(self.c*(self.x-self.t)**2) + self.off
    def _sensitivity(self, dy):
        g = dy*2*self.c*(self.x-self.t)
        out = []; k = 0
        for s in self.sig_in:
            n = np.size(s.state)
            gi = g[k:k+n]; k += n
            out.append(gi.reshape(np.shape(s.state)) if np.ndim(s.state) else float(gi[0]))
        return out

class Lin(Quad):
    """ y = a.x - b """
    def _response(self, *args):
        self.x = self._cat(args); return self.c@self.x - self.off
    def _sensitivity(self, dy):
        g = dy*self.c; out=[]; k=0
        for s in self.sig_in:
            n = np.size(s.state); gi = g[k:k+n]; k+=n
            out.append(gi.reshape(np.shape(s.state)) if np.ndim(s.state) else float(gi[0]))
        return out

def kkt(x,y,z,lam,xsi,eta,mu,zet,s, low,upp,alfa,beta,P,Q,a0,a,b,c,d):
    ux = upp-x; xl = x-low
    plam = P[0]+lam@P[1:]; qlam = Q[0]+lam@Q[1:]
    gvec = P[1:]@(1/ux) + Q[1:]@(1/xl)
    r = [plam/ux**2 - qlam/xl**2 - xsi + eta, c+d*y-mu-lam, [a0-zet-a@lam], gvec - a*z - y + s - b,
         xsi*(x-alfa), eta*(beta-x), mu*y, [zet*z], lam*s]
    return max(np.abs(np.concatenate([np.atleast_1d(q) for q in r])).max(), 0)

def run(seed, version):
    rng = np.random.default_rng(seed)
    nsig = int(rng.integers(1,4)); sizes = [int(rng.choice([1,1,2,3,5])) for _ in range(nsig)]
    scalar = [sz==1 and rng.random()<0.5 for sz in sizes]
    n = sum(sizes); m = int(rng.integers(1,4))
    lo = rng.uniform(-2,0,n); hi = lo + rng.uniform(0.5,3,n)
    x0 = lo + rng.random(n)*(hi-lo)
    sigs=[]; k=0
    for sz, sc in zip(sizes, scalar):
        st = float(x0[k]) if sc else x0[k:k+sz].copy(); sigs.append(S(f'v{len(sigs)}', st)); k+=sz
    c0 = rng.uniform(0.5,3,n); t0 = lo + rng.random(n)*(hi-lo)
    fobj = Quad(sigs, S('f'), c0, t0, 1.0)
    cons=[]; 
    xfeas = lo + rng.random(n)*(hi-lo)
    for j in range(m):
        a = rng.standard_normal(n); bb = a@xfeas + rng.uniform(0.1,1.0)
        cons.append(Lin(sigs, S(f'g{j}'), a, None, bb))
    net = pym.Network(fobj, *cons)
    mode = rng.choice(['scalar','persig','pervar'])
    if mode=='scalar': lo[:] = lo.min(); hi[:] = hi.max(); xmin, xmax = float(lo[0]), float(hi[0])
    elif mode=='persig':
        k=0; xmin=[]; xmax=[]
        for sz in sizes: 
            lo[k:k+sz]=lo[k:k+sz].min(); hi[k:k+sz]=hi[k:k+sz].max(); xmin.append(lo[k]); xmax.append(hi[k]); k+=sz
        if len(xmin)==n and nsig!=n: mode='pervar'
    if mode=='pervar': xmin, xmax = lo.copy(), hi.copy()
    move = float(rng.choice([0.05,0.1,0.3,1.0]))
    log = []
    orig = mma_mod.subsolv
    def spy(epsimin, low, upp, alfa, beta, P, Q, a0, a, b, c, d, x0=None):
        out = orig(epsimin, low, upp, alfa, beta, P, Q, a0, a, b, c, d, x0=x0)
        log.append(dict(eps=epsimin, low=low.copy(), upp=upp.copy(), alfa=alfa.copy(), beta=beta.copy(), P=P.copy(), Q=Q.copy(), a0=a0,a=a.copy(),b=b.copy(),c=c.copy(),d=d.copy(),x0=x0.copy(), out=[np.copy(o) for o in out]))
        return out
    states=[]
    def cb(): states.append(np.concatenate([np.atleast_1d(s.state).ravel() for s in sigs]))
    mma_mod.subsolv = spy
    try:
        with contextlib.redirect_stdout(io.StringIO()):
            pym.minimize_mma(net, sigs, [fobj.sig_out[0]]+[cn.sig_out[0] for cn in cons], xmin=xmin, xmax=xmax, move=move, maxit=60, verbosity=0, fn_callback=cb, mmaversion=version, tolx=1e-6)
    finally:
        mma_mod.subsolv = orig
    # checks
    X = np.array(states); issues=[]
    if (X < lo-1e-12).any() or (X > hi+1e-12).any(): issues.append('bounds')
    if len(X)>1 and (np.abs(np.diff(X,axis=0)) > move*(hi-lo)+1e-12).any(): issues.append('move')
    worstk=0; worstapp=0
    for it, L in enumerate(log):
        xv = L['x0']
        if not (np.all(L['low']<L['alfa']) and np.all(L['alfa']<=xv+1e-14) and np.all(xv<=L['beta']+1e-14) and np.all(L['beta']<L['upp'])): issues.append(f'asym{it}')
        # value+gradient
        f = [np.sum(c0*(xv-t0)**2)+1.0]+[cn.c@xv-cn.off for cn in cons]
        g = [2*c0*(xv-t0)]+[cn.c for cn in cons]
        sh = L['upp']-xv; sl = xv-L['low']
        for i in range(m+1):
            grad = L['P'][i]/sh**2 - L['Q'][i]/sl**2
            worstapp = max(worstapp, np.abs(grad-g[i]).max()/max(1,np.abs(g[i]).max()))
            if i>0:
                val = L['P'][i]@(1/sh)+L['Q'][i]@(1/sl) - L['b'][i-1]
                worstapp = max(worstapp, abs(val-f[i])/max(1,abs(f[i])))
        x,y,z,lam,xsi,eta,mu,zet,s = L['out']
        if not (np.all(x>L['alfa']) and np.all(x<L['beta'])): issues.append(f'xout{it}')
        worstk = max(worstk, kkt(x,y,z,lam,xsi,eta,mu,zet,s,L['low'],L['upp'],L['alfa'],L['beta'],L['P'],L['Q'],L['a0'],L['a'],L['b'],L['c'],L['d'])/L['eps'])
        if it+1 < len(states) and np.abs(states[it+1]-x).max()>0: issues.append(f'writeback{it}')
    # reference optimum via scipy
    from scipy.optimize import minimize
    r = minimize(lambda x: np.sum(c0*(x-t0)**2)+1.0, xfeas, jac=lambda x: 2*c0*(x-t0), bounds=list(zip(lo,hi)), constraints=[dict(type='ineq', fun=lambda x, cn=cn: -(cn.c@x-cn.off), jac=lambda x, cn=cn: -cn.c) for cn in cons], method='SLSQP', options=dict(ftol=1e-12, maxiter=500))
    xf = X[-1]; gfin = max(cn.c@xf-cn.off for cn in cons)
    return dict(n=n,m=m,mode=mode,move=move,its=len(log),issues=issues[:5],kkt_over_eps=worstk,approx=worstapp, dist=np.abs(xf-r.x).max(), fgap=(np.sum(c0*(xf-t0)**2)+1.0)-r.fun, gmax=gfin)
for seed in range(int(sys.argv[1]), int(sys.argv[1])+12):
    for v in ['Svanberg2007','Svanberg1987']:
        try:
            r = run(seed, v); print(seed, v[-4:], {k:(f'{v_:.2e}' if isinstance(v_,float) else v_) for k,v_ in r.items()})
        except Exception as e:
            import traceback; print(seed, v, 'EXC', type(e).__name__, str(e)[:200]); 
