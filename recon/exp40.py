import numpy as np, warnings, sys
import pymoto as pym
warnings.simplefilter('ignore')
S = pym.Signal
def ref_overhang_jvp(d, x, v, direction, xi0, p, eps, ns):
    """ reference recursion with tangent propagation (returns y, ydot) """
    tiny = np.finfo(float).tiny
    q = p + np.log(ns)/np.log(xi0); shift = 100*tiny**(1/p); back = ns**(1/q)*shift**(p/q)*0.95
    size = [d.nelx, d.nely, max(d.nelz,1)]
    ax = int(np.argmax(np.abs(direction))); sg = int(np.sign(direction[ax]))
    o1, o2 = [a for a in range(3) if a != ax]
    if d.dim == 2:
        offs = [(-1,0),(0,0),(1,0)]
        if o1 == 2: o1, o2 = o2, o1
    else:
        offs = [(-1,0),(0,0),(1,0),(0,-1),(0,1),(-1,-1),(-1,1),(1,-1),(1,1)][:ns]
    y = x.copy(); yd = v.copy()
    layers = range(1, size[ax]) if sg > 0 else range(size[ax]-2, -1, -1)
    for L in layers:
        ynew = {}; 
        for a in range(size[o1]):
            for b in range(size[o2]):
                keep = 0.0; keepd = 0.0
                for (da, db) in offs:
                    aa, bb = a+da, b+db
                    if 0 <= aa < size[o1] and 0 <= bb < size[o2]:
                        idx = [0,0,0]; idx[ax] = L-sg; idx[o1]=aa; idx[o2]=bb
                        e = d.get_elemnumber(*idx)
                        keep += (y[e]+shift)**p; keepd += p*(y[e]+shift)**(p-1)*yd[e]
                smax = keep**(1/q)-back
                # d smax = (1/q) keep^(1/q - 1) keepd ; computed in log space to avoid underflow
                smaxd = 0.0 if keepd == 0 else np.sign(keepd)*np.exp(np.log(abs(keepd)) + (1/q-1)*np.log(keep))/q
                idx = [0,0,0]; idx[ax]=L; idx[o1]=a; idx[o2]=b
                e = d.get_elemnumber(*idx)
                r1 = x[e]-smax; rt = np.sqrt(r1*r1+eps)
                ynew[e] = ((x[e]+smax-rt+np.sqrt(eps))/2, (v[e]+smaxd - r1*(v[e]-smaxd)/rt)/2)
        for e,(a_,b_) in ynew.items(): y[e]=a_; yd[e]=b_
    return y, yd
rng = np.random.default_rng(0)
worst=0; n=0
for t in range(150):
    dim = rng.choice([2,3]); nx,ny = rng.integers(1,6,2); nz = int(rng.integers(1,4)) if dim==3 else 0
    d = pym.DomainDefinition(int(nx),int(ny),nz)
    ax = int(rng.integers(0,dim)); dirv=[0.0]*dim; dirv[ax]=float(rng.choice([-1,1]))
    p = float(rng.choice([10,40])); eps = float(rng.choice([1e-4,1e-6])); ns = 3 if dim==2 else int(rng.choice([5,9])); xi0 = rng.uniform(0.3,0.7)
    kind = rng.choice(['rand','binary','noisybin','zeros','ones'])
    x = rng.random(d.nel)
    if kind=='binary': x = np.round(x)
    elif kind=='noisybin': x = np.clip(np.round(x)+rng.normal(0,0.01,d.nel),0,1)
    elif kind=='zeros': x = np.zeros(d.nel)
    elif kind=='ones': x = np.ones(d.nel)
    m = pym.OverhangFilter(S('x',x.copy()), domain=d, direction=dirv, p=p, eps=eps, nsampling=ns, xi_0=xi0); m.response()
    w = rng.standard_normal(d.nel); m.sig_out[0].sensitivity = w.copy(); m.sensitivity(); g = m.sig_in[0].sensitivity
    v = rng.standard_normal(d.nel)
    yr, yd = ref_overhang_jvp(d, x, v, np.array(dirv+[0]*(3-dim)), xi0, p, eps, ns)
    assert np.allclose(yr, m.sig_out[0].state, atol=1e-12)
    an = g@v; ex = w@yd
    err = abs(an-ex)/max(abs(an),abs(ex),1e-12); n+=1
    if err>1e-8: print(kind, (nx,ny,nz), dirv, p, eps, 'an', an, 'exact', ex, 'err', err, 'finite', np.isfinite(g).all())
    worst=max(worst,err)
print('cases', n, 'worst', worst)
