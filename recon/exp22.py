import numpy as np, scipy.sparse as sps, warnings, sys, copy, time
import pymoto as pym
from pymoto.solvers import *
warnings.simplefilter('ignore')
S = pym.Signal
rng = np.random.default_rng(0)
for (nx,ny,nz) in [(4,4,0),(8,6,0),(4,2,2)]:
    d = pym.DomainDefinition(nx,ny,nz)
    dim = d.dim
    bc = (d.nodes[0,...].flatten()[:,None]*dim+np.arange(dim)[None]).flatten()
    x = rng.random(d.nel)*0.9+0.1
    for kind in ['stiff','poisson']:
        if kind=='stiff':
            m = pym.AssembleStiffness(S('x',x), domain=d, bc=bc)
        else:
            m = pym.AssemblePoisson(S('x',x), domain=d, bc=d.nodes[0,...].flatten())
        m.response(); K = m.sig_out[0].state
        n = K.shape[0]
        for cyc in ['V','W']:
            for sm in [None, SOR(w=1.0)]:
                t=time.time()
                s = CG(preconditioner=GeometricMultigrid(d, cycle=cyc, smoother=sm), tol=1e-9, maxit=500); s.update(K)
                for trans in 'NTH':
                    for shape in [(n,),(n,2)]:
                        b = rng.standard_normal(shape)
                        xs = s.solve(b, trans=trans)
                        r = np.linalg.norm(K@xs-b)/np.linalg.norm(b)
                        if r>1e-7: print('BAD', (nx,ny,nz), kind, cyc, type(sm).__name__, trans, shape, r)
                # x0
                b = rng.standard_normal(n); x0 = rng.standard_normal(n)
                xs = s.solve(b, x0=x0); r = np.linalg.norm(K@xs-b)/np.linalg.norm(b)
                if r>1e-7: print('BAD x0', r)
                print((nx,ny,nz), kind, cyc, type(sm).__name__, 'ok', f'{time.time()-t:.2f}s')
# 2-level
d = pym.DomainDefinition(8,8); bc = (d.nodes[0,:]*2+np.arange(2)[None]).flatten()
m = pym.AssembleStiffness(S('x',np.ones(d.nel)), domain=d, bc=bc); m.response(); K=m.sig_out[0].state
d2 = pym.DomainDefinition(4,4,unitx=2,unity=2)
mg = GeometricMultigrid(d, inner_level=GeometricMultigrid(d2))
s = CG(preconditioner=mg, tol=1e-9); s.update(K); b = rng.standard_normal(K.shape[0]); xs = s.solve(b); print('2-level', np.linalg.norm(K@xs-b)/np.linalg.norm(b))
# zero rhs column in CG
s = CG(tol=1e-9, maxit=50); A = sps.csc_matrix(np.diag(np.arange(1.,6.))); s.update(A)
t=time.time(); xs = s.solve(np.stack([np.zeros(5), np.ones(5)],axis=1)); print('zero col', xs.T, time.time()-t)
