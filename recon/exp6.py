import numpy as np, warnings, scipy.sparse as sps
import pymoto as pym
warnings.simplefilter('ignore')
rng = np.random.default_rng(1)
n=6
A = rng.standard_normal((n,n)); As = A+A.T+2*n*np.eye(n); An = A + 2*n*np.eye(n)
f = np.array([0,2,3,5]); p = np.array([1,4])
def run(Amat, bf, xp, **kw):
    m = pym.SystemOfEquations([pym.Signal('A',Amat), pym.Signal('bf',bf), pym.Signal('xp',xp)], free=f, prescribed=p, **kw)
    m.response()
    x, b = [s.state for s in m.sig_out]
    Ad = Amat.toarray() if sps.issparse(Amat) else Amat
    return np.abs(Ad@x-b).max(), np.abs(x[p]-xp).max(), np.abs(b[f]-bf).max()
bf = rng.standard_normal(4); xp = rng.standard_normal(2)
for name, M in [('sparse sym', sps.csc_matrix(As)), ('sparse nonsym', sps.csc_matrix(An)), ('dense sym', As), ('dense nonsym', An), ('csr sym', sps.csr_matrix(As))]:
    try: print(name, run(M, bf, xp))
    except Exception as e: print(name, 'EXC', type(e).__name__, str(e)[:100])
Bf = rng.standard_normal((4,3)); Xp = rng.standard_normal((2,3))
for name, M in [('sparse sym block', sps.csc_matrix(As)), ('dense sym block', As)]:
    try: print(name, run(M, Bf, Xp))
    except Exception as e: print(name, 'EXC', type(e).__name__, str(e)[:100])
Ah = A + 1j*rng.standard_normal((n,n)); Ah = Ah+Ah.conj().T+4*n*np.eye(n)
Acs = A + 1j*rng.standard_normal((n,n)); Acs = Acs+Acs.T+4*n*np.eye(n)
for name, M in [('sparse herm', sps.csc_matrix(Ah)), ('sparse csym', sps.csc_matrix(Acs))]:
    try: print(name, run(M, bf+0j, xp+0j))
    except Exception as e: print(name, 'EXC', type(e).__name__, str(e)[:100])
    try: print(name+' real rhs', run(M, bf, xp))
    except Exception as e: print(name, 'EXC', type(e).__name__, str(e)[:100])
# only free or only prescribed given
m = pym.SystemOfEquations([pym.Signal('A',sps.csc_matrix(As)), pym.Signal('bf',bf), pym.Signal('xp',xp)], prescribed=p); m.response()
x,b = [s.state for s in m.sig_out]; print('only p:', np.abs(As@x-b).max())
# LinSolve forward checks
for name, M, rhs in [('dense gen', An, bf[:0]),]:
    pass
def ls(M, rhs, **kw):
    m = pym.LinSolve([pym.Signal('A',M), pym.Signal('b',rhs)], **kw); m.response()
    Ad = M.toarray() if sps.issparse(M) else M
    return np.abs(Ad@m.sig_out[0].state - rhs).max(), m.sig_out[0].state.dtype, m.sig_out[0].state.shape, type(m.solver.solver).__name__
b6 = rng.standard_normal(n); B6 = rng.standard_normal((n,3)); c6 = b6+1j*rng.standard_normal(n)
for name, M in [('dense sym', As), ('dense gen', An), ('dense herm', Ah), ('dense csym', Acs), ('sp sym', sps.csc_matrix(As)), ('sp gen', sps.csr_matrix(An)), ('sp herm', sps.csc_matrix(Ah)), ('sp csym', sps.coo_matrix(Acs)), ('diag', np.diag(b6+3)), ('sp diag', sps.diags(b6+3)), ('dense indef', As-2*n*np.eye(n)), ('tri', np.triu(An))]:
    for rn, r in [('vec', b6), ('block', B6), ('cvec', c6)]:
        try: print(name, rn, ls(M, r))
        except Exception as e: print(name, rn, 'EXC', type(e).__name__, str(e)[:100].replace('\n',' '))
