import numpy as np, warnings, traceback, scipy.sparse as sps, os, tempfile
import pymoto as pym
np.set_printoptions(precision=4, suppress=True)
def tryit(name, f):
    try:
        r = f(); print(name, 'OK', r if np.size(r)<12 else np.shape(r))
    except Exception as e:
        print(name, 'FAIL', type(e).__name__, str(e)[:160].replace('\n',' '))
td = tempfile.mkdtemp()
# ScalarToFile
def stf(state):
    s = pym.Signal('a', state)
    p = os.path.join(td, 'log%d.txt'%np.random.randint(1e9))
    m = pym.ScalarToFile([s], saveto=p); m.response(); m.response()
    return open(p).read()
tryit('stf float', lambda: stf(1.5))
tryit('stf np0d', lambda: stf(np.array(1.5)))
tryit('stf shape(1,)', lambda: stf(np.array([1.5])))
tryit('stf vec', lambda: stf(np.array([1.5, 2.5])))
tryit('stf 2d', lambda: stf(np.array([[1.5, 2.5],[3,4]])))
tryit('stf int', lambda: stf(3))
tryit('stf complex', lambda: stf(3+1j))
# StaticCondensation with dense
A = np.random.rand(6,6); A = A+A.T+6*np.eye(6)
def sc(Ain):
    s = pym.Signal('A', Ain)
    m = pym.StaticCondensation(s, main=np.array([0,1]), free=np.array([2,3,4]))
    m.response(); return m.sig_out[0].state
tryit('SC sparse', lambda: sc(sps.csc_matrix(A)))
tryit('SC dense', lambda: sc(A))
# Signal add complex to real
def addc():
    s = pym.Signal('x', np.ones(3)); s.add_sensitivity(np.ones(3)); s.add_sensitivity(1j*np.ones(3)); return s.sensitivity
tryit('add complex to real sens', addc)
def slc():
    s = pym.Signal('x', np.ones(3)); s[0:2].add_sensitivity(1j*np.ones(2)); return s.sensitivity
tryit('slice add complex to real state', slc)
def slint():
    s = pym.Signal('x', np.arange(3)); s[0:2].add_sensitivity(0.5*np.ones(2)); return s.sensitivity
tryit('slice add float to int state', slint)
# finite_difference with sparse input
import io, contextlib
def fds():
    sA = pym.Signal('A', sps.csc_matrix(A)); sb = pym.Signal('b', np.random.rand(6))
    m = pym.LinSolve([sA, sb])
    with contextlib.redirect_stdout(io.StringIO()):
        pym.finite_difference(m)
    return 'done'
tryit('fd sparse input', fds)
# symmetric scale
from pymoto.solvers import matrix_is_symmetric, auto_determine_solver
B = np.array([[2.,1.],[0.,3.]])*1e-9
print('tiny nonsym is sym?', matrix_is_symmetric(B), type(auto_determine_solver(B)).__name__)
s = auto_determine_solver(B); s.update(B); b=np.array([1.,1.]); x=s.solve(b); print('res', B@x-b)
B = np.array([[2.,1.],[0.,3.]])*1e+9
print('big', matrix_is_symmetric(B), type(auto_determine_solver(B)).__name__)
Bs = np.array([[2.,1.],[1.+1e-7,3.]])
print('nearly sym', matrix_is_symmetric(Bs), type(auto_determine_solver(Bs)).__name__)
