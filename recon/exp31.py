import numpy as np, scipy.sparse as sps, warnings, sys, itertools
from pymoto.solvers import *
warnings.simplefilter('ignore')
np.set_printoptions(precision=4, suppress=True)
src = open('exp29.py').read().replace("main()\n", "", 1) if False else open('exp29.py').read()
src = src[:src.rindex("main()")]
exec(src)
# find first failing real dense history with verbose trace
rng = np.random.default_rng(0)
n=3
pairs = [(i,j) for i in range(n) for j in range(n) if i!=j]
import copy
for trial in range(2000):
    mask = rng.integers(0,2,len(pairs))
    A = np.diag(rng.uniform(2,4,n)*rng.choice([-1,1],n))
    for (i,j),mm in zip(pairs,mask):
        if mm: A[i,j] = rng.uniform(0.3,1)
    if abs(np.linalg.det(A))<0.3: continue
    st = copy.deepcopy(rng.bit_generator.state)
    bad = hist(rng, A, False, lambda: SolverDenseLU())
    bad = [b for b in bad if 'res' in b[3]]
    if bad:
        print('A=\n',A,'\nbad',bad)
        # replay verbosely
        rng.bit_generator.state = st
        import pymoto.solvers.solvers as SS
        orig = SS.LDAWrapper._do_solve_1rhs
        def traced(self, Am, rhs, x_data, b_data, solve_fn, x0=None):
            out = orig(self, Am, rhs, x_data, b_data, solve_fn, x0=x0)
            Ad = Am.toarray() if sps.issparse(Am) else Am
            print('   solve: ndb', len(x_data), 'did', self._did_solve, 'rtol', self._last_rtol, 'rhs', np.asarray(rhs).T, 'res', np.linalg.norm(Ad@out-rhs), 'db consistency', [float(np.linalg.norm((Ad@np.pad(x,(0,0)) if len(x)==Ad.shape[0] else 0) - b)) if len(x)==Ad.shape[0] else 'sel' for x,b in zip(x_data,b_data)])
            return out
        SS.LDAWrapper._do_solve_1rhs = traced
        hist(rng, A, False, lambda: SolverDenseLU())
        break
