import numpy as np, warnings, sys, copy
import pymoto as pym
warnings.simplefilter('ignore')
S = pym.Signal
# Atoms: each has fwd(list of arrays)->list of arrays, jvp(xs, dxs)->list of dys ; and a pymoto Module with hand-written adjoint
class Atom(pym.Module):
    def _prepare(self, kind, par): self.kind, self.par = kind, par
    def _response(self, *xs):
        self.xs = [np.array(x, dtype=float, copy=True) for x in xs]
        out = fwd(self.kind, self.par, self.xs); return out if len(out)>1 else out[0]
    def _sensitivity(self, *dys):
        return adj(self.kind, self.par, self.xs, dys)
def fwd(kind, par, xs):
    if kind=='affine': return [par['A']@xs[0] + par['b']]
    if kind=='square': return [xs[0]**2]
    if kind=='had': return [xs[0]*xs[1]]
    if kind=='sumsq': return [np.array([np.sum(xs[0]**2)])]
    if kind=='split': return [par['A']@xs[0], np.sin(xs[0])]
    if kind=='add3': return [xs[0] + 2*xs[1] - xs[2]]
def jvp(kind, par, xs, dxs):
    if kind=='affine': return [par['A']@dxs[0]]
    if kind=='square': return [2*xs[0]*dxs[0]]
    if kind=='had': return [dxs[0]*xs[1] + xs[0]*dxs[1]]
    if kind=='sumsq': return [np.array([2*np.sum(xs[0]*dxs[0])])]
    if kind=='split': return [par['A']@dxs[0], np.cos(xs[0])*dxs[0]]
    if kind=='add3': return [dxs[0] + 2*dxs[1] - dxs[2]]
def adj(kind, par, xs, dys):
    z = lambda i: np.zeros_like(xs[i])
    if kind=='affine': return [par['A'].T@dys[0]]
    if kind=='square': return [2*xs[0]*dys[0]]
    if kind=='had': return [dys[0]*xs[1], dys[0]*xs[0]]
    if kind=='sumsq': return [2*xs[0]*dys[0][0]]
    if kind=='split':
        g = z(0)
        if dys[0] is not None: g = g + par['A'].T@dys[0]
        if dys[1] is not None: g = g + np.cos(xs[0])*dys[1]
        return [g]
    if kind=='add3': return [dys[0], 2*dys[0], -dys[0]]
def gen_program(rng):
    nsrc = int(rng.integers(1,4)); 
    nodes = []   # signal table: dict(name, size, producer)
    sig = []     # entries: ('src', k) or ('out', node, j) ; plus slices as consumers
    sizes = []
    for k in range(nsrc): sizes.append(int(rng.integers(2,6))); sig.append(('src',k))
    prog = []
    nmod = int(rng.integers(2,9))
    for m in range(nmod):
        kind = str(rng.choice(['affine','square','had','sumsq','split','add3']))
        def pick(size=None):
            # choose an existing signal (optionally sliced) with given size
            cands = list(range(len(sig)))
            rng.shuffle(cands)
            for c in cands:
                if size is None: 
                    if rng.random()<0.3 and sizes[c]>=3:
                        a = int(rng.integers(0,sizes[c]-1)); b = int(rng.integers(a+2, sizes[c]+1)); return (c, slice(a,b)), b-a
                    return (c,None), sizes[c]
                if sizes[c]==size: return (c,None), size
                if sizes[c]>size:
                    if rng.random()<0.5:
                        a = int(rng.integers(0,sizes[c]-size+1)); return (c, slice(a,a+size)), size
                    idx = rng.permutation(sizes[c])[:size]; return (c, idx), size
            return None, None
        if kind in ['affine','square','sumsq','split']:
            i0, n0 = pick()
            ins = [i0]
            if kind=='affine': mo = int(rng.integers(1,5)); par = dict(A=rng.standard_normal((mo,n0)), b=rng.standard_normal(mo)); outs=[mo]
            elif kind=='square': par={}; outs=[n0]
            elif kind=='sumsq': par={}; outs=[1]
            else: mo = int(rng.integers(2,4)); par=dict(A=rng.standard_normal((mo,n0))); outs=[mo, n0]
        elif kind=='had':
            i0, n0 = pick(); i1,_ = pick(n0) if rng.random()<0.8 else (i0, n0)   # sometimes same signal twice
            if i1 is None: i1 = i0
            ins=[i0,i1]; par={}; outs=[n0]
        else:
            i0, n0 = pick(); i1,_ = pick(n0); i2,_ = pick(n0)
            ins=[i0, i1 or i0, i2 or i0]; par={}; outs=[n0]
        prog.append(dict(kind=kind, par=par, ins=ins, outs=list(range(len(sig), len(sig)+len(outs)))))
        for o in outs: sizes.append(o); sig.append(('out', m, len(sig)))
    return dict(nsrc=nsrc, sizes=sizes, prog=prog, nsig=len(sig))
def build(P, x0, nest_rng):
    sigs = [S(f's{i}') for i in range(P['nsig'])]
    for k in range(P['nsrc']): sigs[k].state = x0[k].copy()
    def ref(i):
        c, sl = i
        return sigs[c] if sl is None else sigs[c][sl]
    mods = [Atom([ref(i) for i in node['ins']], [sigs[o] for o in node['outs']], node['kind'], node['par']) for node in P['prog']]
    # random nesting: group a contiguous run into a sub-network
    if len(mods)>=3 and nest_rng.random()<0.6:
        a = int(nest_rng.integers(0,len(mods)-1)); b = int(nest_rng.integers(a+1,len(mods)))
        inner = pym.Network(*mods[a:b+1])
        if nest_rng.random()<0.3 and b-a>=1: inner = pym.Network(pym.Network(*mods[a:a+1]), *mods[a+1:b+1])
        net = pym.Network(*mods[:a], inner, *mods[b+1:])
    else: net = pym.Network(*mods)
    return net, sigs
def interp(P, x0, dx0=None):
    vals = [None]*P['nsig']; tans=[None]*P['nsig']
    for k in range(P['nsrc']): vals[k]=x0[k]; tans[k]= None if dx0 is None else dx0[k]
    for node in P['prog']:
        xs = [vals[c] if sl is None else vals[c][sl] for c,sl in node['ins']]
        ys = fwd(node['kind'], node['par'], xs)
        if dx0 is not None:
            dxs = [tans[c] if sl is None else tans[c][sl] for c,sl in node['ins']]
            dys = jvp(node['kind'], node['par'], xs, dxs)
        for j,o in enumerate(node['outs']):
            vals[o]=ys[j]
            if dx0 is not None: tans[o]=dys[j]
    return vals, tans
bad=0; tot=0; skipped_total=0
for seed in range(int(sys.argv[1]), int(sys.argv[1])+400):
    rng = np.random.default_rng(seed)
    P = gen_program(rng)
    x0 = [rng.standard_normal(P['sizes'][k]) for k in range(P['nsrc'])]
    net, sigs = build(P, x0, rng)
    try:
        net.response()
        vals, _ = interp(P, x0)
        fwd_ok = all(np.allclose(sigs[i].state, vals[i]) for i in range(P['nsig']))
        # seeds on random subset of non-source signals
        outs = [i for i in range(P['nsrc'], P['nsig']) if rng.random()<0.4] or [P['nsig']-1]
        w = {i: rng.standard_normal(P['sizes'][i]) for i in outs}
        for i,wi in w.items(): sigs[i].sensitivity = wi.copy()
        net.sensitivity()
        g = [sigs[k].sensitivity for k in range(P['nsrc'])]
        ok = fwd_ok
        for trial in range(2):
            v = [rng.standard_normal(P['sizes'][k]) for k in range(P['nsrc'])]
            _, tans = interp(P, x0, v)
            exact = sum(float(w[i]@tans[i]) for i in outs)
            an = sum(0.0 if g[k] is None else float(g[k]@v[k]) for k in range(P['nsrc']))
            if abs(exact-an) > 1e-9*max(1,abs(exact)): ok=False
        net.reset()
        if any(s.sensitivity is not None and np.any(s.sensitivity != 0) for s in sigs): ok=False
        tot+=1
        if not ok: bad+=1; print('BAD seed', seed, 'fwd_ok', fwd_ok, exact, an)
    except Exception as e:
        bad+=1; print('EXC seed', seed, type(e).__name__, str(e)[:150].replace('\n',' '))
print('programs', tot, 'bad', bad)
