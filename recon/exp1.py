import numpy as np, warnings, traceback
import pymoto as pym
from pymoto.solvers import *
from pymoto.solvers.solvers import get_diagonal_indices
np.set_printoptions(precision=4, suppress=True)
# 1. LDAWrapper with triangular coupling
A = np.array([[1.,2.],[0.,3.]])
print('diag idx', get_diagonal_indices(A))
s = LDAWrapper(SolverDenseLU()); s.update(A)
b = np.array([1.,1.])
x = s.solve(b); print('LDAS upper-tri x', x, 'res', A@x-b)
A2 = A.T.copy(); s = LDAWrapper(SolverDenseLU()); s.update(A2); x=s.solve(b); print('LDAS lower-tri x', x, 'res', A2@x-b)
# 2. x0 with nonempty db
A = np.random.rand(5,5)+5*np.eye(5)
s = LDAWrapper(SolverDenseLU()); s.update(A)
x1 = s.solve(np.random.rand(5))
try:
    x2 = s.solve(np.random.rand(5), x0=np.random.rand(5)); print('x0 ok')
except Exception as e: print('x0 fail', type(e).__name__, str(e)[:100])
try:
    x2 = s.solve(np.random.rand(5,2), x0=np.random.rand(5,2)); print('x0 block ok')
except Exception as e: print('x0 block fail', type(e).__name__, str(e)[:100])
# 3. complex then real rhs
s = LDAWrapper(SolverDenseLU()); s.update(A)
bc = np.random.rand(5)+1j*np.random.rand(5)
xc = s.solve(bc); print('cplx res', np.linalg.norm(A@xc-bc))
try:
    with warnings.catch_warnings():
        warnings.simplefilter('ignore')
        br = np.random.rand(5); xr = s.solve(br); print('real after cplx res', np.linalg.norm(A@xr-br), xr.dtype)
except Exception as e: print('real-after-complex fail', type(e).__name__, str(e)[:150])
# 4. zero rhs
s = LDAWrapper(SolverDenseLU()); s.update(A)
with warnings.catch_warnings():
    warnings.simplefilter('ignore')
    print('zero rhs', s.solve(np.zeros(5)))
    print('zero col', s.solve(np.stack([np.zeros(5), np.ones(5)],axis=1)).T)
