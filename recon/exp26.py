import numpy as np, warnings, sys, io, contextlib
import pymoto as pym
import pymoto.common.mma as mma_mod
warnings.simplefilter('ignore')
exec(open('exp13.py').read().split("def run(seed, version):")[0])
exec(open('exp16.py').read().split("class Rec(")[0].split("S = pym.Signal")[1])
def run(seed, version):
    rng = np.random.default_rng(seed)
    sizes = [int(rng.integers(1,6)) for _ in range(int(rng.integers(1,4)))]; n = sum(sizes)
    c = rng.uniform(0.1,5,n); lo = np.full(n, 0.01); hi = np.full(n, 1.0)
    V = rng.uniform(0.2,0.7)
    x0 = np.full(n, V)
    sigs=[]; k=0
    for sz in sizes: sigs.append(S(f'v{len(sigs)}', x0[k:k+sz].copy())); k+=sz
    f = InvSum(sigs, S('f'), c)
    g = Lin(sigs, S('g'), np.ones(n)/n/V*10, None, 10.0)   # 10*(mean(x)/V - 1)
    # scale objective
    sc = pym.Scaling(f.sig_out[0], S('fs'), scaling=100.0)
    net = pym.Network(f, sc, g)
    log=[]; orig = mma_mod.subsolv
    def spy(*a, **k):
        buf = io.StringIO()
        with contextlib.redirect_stdout(buf): out = orig(*a, **k)
        x,y,z,lam,xsi,eta,mu,zet,s = out
        r = kkt(x,y,z,lam,xsi,eta,mu,zet,s,a[1],a[2],a[3],a[4],a[5],a[6],a[7],a[8],a[9],a[10],a[11])
        log.append((buf.getvalue().count('Subsolver'), r/a[0])); return out
    mma_mod.subsolv = spy
    hist=[]
    with contextlib.redirect_stdout(io.StringIO()):
        pym.minimize_mma(net, sigs, [sc.sig_out[0], g.sig_out[0]], xmin=0.01, xmax=1.0, move=0.2, maxit=80, verbosity=0, mmaversion=version, tolx=1e-6, fn_callback=lambda: hist.append(np.concatenate([s.state.ravel() for s in sigs])))
    mma_mod.subsolv = orig
    def xof(l): return np.clip(np.sqrt(c/l), lo, hi)
    a,b = 1e-12,1e12
    for _ in range(200):
        mid = np.sqrt(a*b)
        if xof(mid).mean() > V: a = mid
        else: b = mid
    xs = xof(np.sqrt(a*b)); xf = hist[-1]
    return dict(n=n, its=len(log), exhausted=sum(1 for l in log if l[0]), maxkkt=max(l[1] for l in log), maxkkt_conv=max([l[1] for l in log if not l[0]]+[0]), dist=np.abs(xf-xs).max(), dist0=np.abs(hist[0]-xs).max(), g=xf.mean()/V-1)
for seed in range(int(sys.argv[1]), int(sys.argv[1])+12):
    for v in ['Svanberg2007','Svanberg1987']:
        try: print(seed, v[-4:], {k:(f'{v_:.2e}' if isinstance(v_,float) else v_) for k,v_ in run(seed, v).items()})
        except Exception as e: print(seed, v, 'EXC', type(e).__name__, str(e)[:200])
