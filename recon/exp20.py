import numpy as np, scipy.sparse as sps, warnings, sys, copy
import pymoto as pym
from adj import *
warnings.simplefilter('ignore')
src = open('exp5.py').read().split("for name, c in cases.items():")[0]
exec(src)
def snap(v):
    if v is None: return None
    if isinstance(v, DyadCarrier): return v.todense().copy()
    if sps.issparse(v): return v.toarray().copy()
    return np.array(v, copy=True)
def same(a,b):
    if a is None or b is None: return a is None and b is None
    return a.shape==b.shape and np.array_equal(a,b)
def close(a,b,tol=1e-9):
    if a is None or b is None: return a is None and b is None
    sc = max(np.abs(a).max() if a.size else 0, np.abs(b).max() if b.size else 0, 1e-300)
    return a.shape==b.shape and (np.abs(a-b).max() if a.size else 0) <= tol*sc
for name, c in cases.items():
    make = c[0] if isinstance(c, tuple) else c
    try:
        mod, x0 = make()
        for s,x in zip(mod.sig_in,x0): s.state = copy.deepcopy(x)
        mod.response()
        st_in = [snap(s.state) for s in mod.sig_in]; st_out = [snap(s.state) for s in mod.sig_out]
        w1 = [rand_like(rng, todense(s.state)) for s in mod.sig_out]; w2 = [rand_like(rng, todense(s.state)) for s in mod.sig_out]
        a, b = 0.7, -1.3
        def backprop(w, times=1):
            mod.reset()
            for s, wi in zip(mod.sig_out, w): s.sensitivity = copy.deepcopy(wi)
            seeds_before = [snap(s.sensitivity) for s in mod.sig_out]
            for _ in range(times): mod.sensitivity()
            seeds_after = [snap(s.sensitivity) for s in mod.sig_out]
            g = [snap(s.sensitivity) for s in mod.sig_in]
            return g, all(same(p,q) for p,q in zip(seeds_before, seeds_after))
        g1, k1 = backprop(w1); g2, k2 = backprop(w2)
        g12, _ = backprop([a*p+b*q for p,q in zip(w1,w2)])
        g11, k11 = backprop(w1, times=2)
        lin = all(close(x12, (0 if x1 is None else a*x1)+(0 if x2 is None else b*x2)) if x12 is not None else (x1 is None and x2 is None) for x12,x1,x2 in zip(g12,g1,g2))
        twice = all(close(x11, 2*x1) if x11 is not None else x1 is None for x11,x1 in zip(g11,g1))
        st_ok = all(same(p, snap(s.state)) for p,s in zip(st_in, mod.sig_in)) and all(same(p, snap(s.state)) for p,s in zip(st_out, mod.sig_out))
        mod.reset()
        st_ok2 = all(same(p, snap(s.state)) for p,s in zip(st_in, mod.sig_in)) and all(same(p, snap(s.state)) for p,s in zip(st_out, mod.sig_out))
        none_after = all(s.sensitivity is None for s in mod.sig_in+mod.sig_out)
        flag = '' if (lin and twice and st_ok and st_ok2 and none_after) else '  <<<<<<'
        sflag = '' if (k1 and k11) else '  (seed mutated)'
        print(f'{name:34s} linear={lin} twice={twice} states={st_ok and st_ok2} reset={none_after}{flag}{sflag}')
    except Exception as e:
        print(f'{name:34s} EXC {type(e).__name__}: {str(e)[:100]!r}')
