import sys, re, os, time, io, contextlib, runpy, warnings
os.environ['MPLBACKEND']='Agg'
import matplotlib; matplotlib.use('Agg')
import pymoto as pym
warnings.simplefilter('ignore')
path = sys.argv[1]
src = open(path).read()
# shrink sizes
src = re.sub(r'^nx, ny, nz = \d+, \d+, (\d+)', lambda m: f'nx, ny, nz = 12, 6, {0 if m.group(1)=="0" else 4}', src, flags=re.M)
src = re.sub(r'^nx, ny = \d+, \d+', 'nx, ny = 12, 6', src, flags=re.M)
orig_mma, orig_oc = pym.minimize_mma, pym.minimize_oc
def mma(*a, **k): k['maxit'] = 4; k['verbosity']=0; return orig_mma(*a, **k)
def oc(*a, **k): k['maxit'] = 4; k['verbosity']=0; return orig_oc(*a, **k)
pym.minimize_mma, pym.minimize_oc = mma, oc
t=time.time()
g = {'__name__':'__main__', '__file__': path}
try:
    with contextlib.redirect_stdout(io.StringIO()):
        exec(compile(src, path, 'exec'), g)
    print(os.path.basename(path), 'OK', f'{time.time()-t:.1f}s')
except SystemExit: print(os.path.basename(path), 'exit')
except Exception as e:
    print(os.path.basename(path), 'EXC', type(e).__name__, str(e)[:150].replace('\n',' '))
