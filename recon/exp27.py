import numpy as np, warnings, sys, io, contextlib, pickle
import pymoto as pym
import pymoto.common.mma as mma_mod
exec(open('exp13.py').read().split("def run(seed, version):")[0])
n=4
c0 = np.array([1.,2.,0.5,3.]); t0 = np.array([0.3,-0.2,0.5,0.1])
sig = S('x', np.zeros(n)+0.9)
f = Quad([sig], S('f'), c0, t0, 1.0); g = Lin([sig], S('g'), np.ones(n), None, 5.0)
net = pym.Network(f, g); log=[]
orig = mma_mod.subsolv
def spy(*a, **k):
    buf = io.StringIO()
    with contextlib.redirect_stdout(buf): out = orig(*a, **k)
    log.append((a, k, buf.getvalue()))
    return out
mma_mod.subsolv = spy
with contextlib.redirect_stdout(io.StringIO()):
    pym.minimize_mma(net, [sig], [f.sig_out[0], g.sig_out[0]], xmin=-1.0, xmax=1.0, move=0.3, maxit=16, verbosity=0, tolx=1e-9)
mma_mod.subsolv = orig
for a,k,msg in log:
    if msg:
        print(msg)
        epsimin, low, upp, alfa, beta, P, Q, a0, aa, b, c, d = a
        print('low',low,'upp',upp,'alfa',alfa,'beta',beta,'x0',k['x0'])
        print('P',P,'Q',Q,'b',b)
        pickle.dump((a,k), open('fail_sub.pkl','wb'))
        break
