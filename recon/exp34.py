import sys, time, io, contextlib
sys.argv = ['x','0']
import mon
t=time.time()
if len(sys.argv)>0 and __import__('os').environ.get('MON')=='1':
    mon.start(prefix=__import__('os').environ['PFX'], line_funcs=('LDAWrapper._do_solve_1rhs','get_diagonal_indices','OverhangFilter._sensitivity'))
with contextlib.redirect_stdout(io.StringIO()):
    exec(open('exp5.py').read())
print('elapsed', time.time()-t, file=sys.stderr)
if mon.calls:
    print(len(mon.calls), 'functions;', sum(mon.calls.values()), 'calls', file=sys.stderr)
    print({k: len(v) for k,v in mon.lines.items()}, file=sys.stderr)
    print(mon.calls.most_common(5), file=sys.stderr)
