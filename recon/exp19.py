import numpy as np, warnings, sys, os, tempfile, base64, struct, re
import xml.etree.ElementTree as ET
import pymoto as pym
warnings.simplefilter('ignore')
S = pym.Signal
rng = np.random.default_rng(0)
td = tempfile.mkdtemp()
def parse_vti(path):
    raw = open(path,'rb').read()
    root = ET.fromstring(raw)
    img = root.find('ImageData'); piece = img.find('Piece')
    out = dict(extent=img.get('WholeExtent'), origin=img.get('Origin'), spacing=img.get('Spacing'), pextent=piece.get('Extent'), arrays={})
    for kind in ['PointData','CellData']:
        node = piece.find(kind)
        if node is None: continue
        for da in node.findall('DataArray'):
            txt = da.text.strip()
            hdr = struct.unpack('<Q', base64.b64decode(txt[:12]))[0]
            data = np.frombuffer(base64.b64decode(txt[12:]), dtype='<f4')
            out['arrays'][da.get('Name')] = (kind, int(da.get('NumberOfComponents')), da.get('type'), hdr, len(txt[12:]), data)
    return out
for (nx,ny,nz) in [(4,3,0),(3,3,2),(5,2,0)]:
    d = pym.DomainDefinition(nx,ny,nz, unitx=0.5, unity=2.0, unitz=1.5)
    print('nel',d.nel,'nnodes',d.nnodes)
    sigs = [S('rho', rng.random(d.nel)), S('T', rng.random(d.nnodes)), S('u', rng.random(d.nnodes*d.dim)), S("U", rng.random((d.nnodes*d.dim, 5))), S("Ut", rng.random((7, d.nnodes*d.dim))), S('R', rng.random((d.nel,2)))]
    p = os.path.join(td, f'o{nx}{ny}{nz}.vti')
    m = pym.WriteToVTI(sigs, domain=d, saveto=p, scale=2.0); m.response(); m.response()
    print(sorted(os.listdir(td)))
    r = parse_vti(p.replace('.vti','.0001.vti'))
    print(r['extent'], '|', r['origin'], '|', r['spacing'], '|', r['pextent'])
    for k,(kind,nc,ty,hdr,enc,data) in r['arrays'].items():
        print('  ', k, kind, nc, ty, 'hdr', hdr, 'enclen', enc, 'rawbytes', data.nbytes, 'n', data.size)
    # compare
    a = r['arrays']
    print('  rho ok', np.array_equal(a['rho'][5], sigs[0].state.astype('f4')), 'T ok', np.array_equal(a['T'][5], sigs[1].state.astype('f4')))
    u = sigs[2].state.astype('f4')
    if d.dim==2:
        up = np.zeros(3*d.nnodes,'f4'); up[0::3]=u[0::2]; up[1::3]=u[1::2]; print('  u ok', np.array_equal(a['u'][5], up))
    else: print('  u ok', np.array_equal(a['u'][5], u))
