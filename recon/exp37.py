import numpy as np, warnings, sys
from fractions import Fraction
import pymoto as pym
warnings.simplefilter('ignore')
S = pym.Signal
rng = np.random.default_rng(0)
viol = []
# bounds
for t in range(3000):
    n = int(rng.integers(1,12)); x = rng.uniform(0.05,5,n)
    if rng.random()<0.2: x[:] = x[0]
    if rng.random()<0.2 and n>1: x[1]=x[0]
    p = float(rng.choice([-1,1])*rng.uniform(0.5,30))
    mx, mn = x.max(), x.min(); ln = np.log(n)
    def run(cls, **kw):
        m = cls(S('x',x), **kw); m.response(); return float(m.sig_out[0].state)
    y = run(pym.PNorm, p=p)
    lo, hi = (mx, mx*n**(1/p)) if p>0 else (mn*n**(1/p), mn)
    if not (lo*(1-1e-12) <= y <= hi*(1+1e-12)): viol.append(('pnorm',n,p,y,lo,hi))
    y = run(pym.KSFunction, rho=p)
    lo, hi = (mx, mx+ln/p) if p>0 else (mn+ln/p, mn)
    if not (lo-1e-12 <= y <= hi+1e-12): viol.append(('ks',n,p,y,lo,hi))
    y = run(pym.SoftMinMax, alpha=p)
    lo, hi = (mx-ln/p, mx) if p>0 else (mn, mn-ln/p)
    if not (lo-1e-12 <= y <= hi+1e-12): viol.append(('soft',n,p,y,lo,hi))
    # undamped scaling exact
    for cls, kw in [(pym.PNorm, dict(p=p)), (pym.KSFunction, dict(rho=p)), (pym.SoftMinMax, dict(alpha=p))]:
        y = run(cls, scaling=pym.AggScaling('max' if p>0 else 'min'), **kw)
        tr = mx if p>0 else mn
        if abs(y-tr) > 1e-12*tr: viol.append(('scale', cls.__name__, n, p, y, tr))
print('bounds violations', len(viol), viol[:3])
# damping recurrence
viol=[]
for t in range(200):
    n = int(rng.integers(1,8)); d = rng.uniform(0,0.95); p = float(rng.uniform(2,10))
    sx = S('x', rng.uniform(0.1,3,n)); sc = pym.AggScaling('max', damping=d); m = pym.PNorm(sx, p=p, scaling=sc)
    s_prev=None
    for k in range(6):
        sx.state = rng.uniform(0.1,3,n); m.response()
        approx = np.sum(sx.state**p)**(1/p); ratio = sx.state.max()/approx
        s_exp = ratio if s_prev is None else d*s_prev+(1-d)*ratio
        if abs(m.sf-s_exp)>1e-12 or abs(m.sig_out[0].state - s_exp*approx)>1e-12: viol.append((t,k))
        s_prev = s_exp
print('damping violations', len(viol))
# active set oracle
viol=[]; amb=0
for t in range(5000):
    n = int(rng.integers(1,30)); x = rng.uniform(0,1,n)
    if rng.random()<0.3: x = np.round(x,1)  # ties
    lr = float(rng.choice([0, rng.uniform(0,0.5)])); ur = float(rng.choice([1, rng.uniform(0.55,1)]))
    la = float(rng.choice([0, rng.uniform(0,0.4)])); ua = float(rng.choice([1, rng.uniform(0.6,1)]))
    a = pym.AggActiveSet(lower_rel=lr, upper_rel=ur, lower_amt=la, upper_amt=ua)
    try: sel = a(x)
    except Exception as e: viol.append(('exc',n,type(e).__name__)); continue
    if x.max()==x.min():
        if sel is not Ellipsis: viol.append(('ellipsis',n))
        continue
    sel = np.asarray(sel)
    # expected counts
    def cnt(frac):
        ex = Fraction(n)*Fraction(frac); fl = n*frac
        return {int(ex), int(fl)}, abs(float(ex) - round(float(ex))) < 1e-9
    nlo_set, amb1 = cnt(la) if la>0 else ({0}, False)
    nhi_set, amb2 = cnt(1-ua) if ua<1 else ({0}, False)
    xrel = (x-x.min())/(x.max()-x.min())
    band = np.ones(n,bool)
    if lr>0: band &= xrel>=lr
    if ur<1: band &= xrel<=ur
    ok=False
    xs = np.sort(x)
    for nlo in nlo_set:
        for nhi in nhi_set:
            # entries removed by amount: nlo smallest and nhi largest (ties: by value multiset)
            thr_lo = xs[nlo-1] if nlo>0 else -np.inf; thr_hi = xs[n-nhi] if nhi>0 else np.inf
            must_remove = (x < thr_lo) | (x > thr_hi)
            may_remove = (x <= thr_lo) | (x >= thr_hi)
            removed_amt = band & ~sel
            kept_ok = np.all(~sel | band)   # nothing outside band kept
            # count of amount-removed in full set
            # reconstruct: sel = band & ~R where R has nlo lowest and nhi highest (by sorted order with ties arbitrary)
            R_count_ok = True
            cond = kept_ok and np.all(~(sel & must_remove)) and np.all(~removed_amt | may_remove)
            # number of removed among ties must match
            nrem_lo = np.sum(~sel & band & (x<=thr_lo)) ; 
            if cond: ok=True
    if not ok: viol.append(('set', n, lr,ur,la,ua))
print('active set violations', len(viol), viol[:5])
