import numpy as np, warnings, sys, io, contextlib
import pymoto as pym
import pymoto.common.mma as mma_mod
from svan import subsolv_ref
warnings.simplefilter('ignore')
exec(open('exp13.py').read().split("def run(seed, version):")[0])
stats=[]
def run(seed):
    rng = np.random.default_rng(seed)
    n = int(rng.integers(1,10)); m = int(rng.integers(1,4))
    lo = np.full(n,-1.0); hi = np.full(n, 1.0)
    c0 = rng.uniform(0.5,3,n); t0 = rng.uniform(-0.8,0.8,n)
    sig = S('x', rng.uniform(-0.9,0.9,n))
    f = Quad([sig], S('f'), c0, t0, 1.0)
    cons = [Lin([sig], S(f'g{j}'), rng.standard_normal(n), None, rng.uniform(3,50)) for j in range(m)]  # inactive
    net = pym.Network(f, *cons)
    orig = mma_mod.subsolv
    def spy(*a, **k):
        buf = io.StringIO()
        with contextlib.redirect_stdout(buf): out = orig(*a, **k)
        ex = buf.getvalue().count('Subsolver')
        r = kkt(*out, a[1],a[2],a[3],a[4],a[5],a[6],a[7],a[8],a[9],a[10],a[11])/a[0]
        (oref, exr) = subsolv_ref(*a, x0=k.get('x0'), maxn=400, maxls=400)
        rr = kkt(*oref, a[1],a[2],a[3],a[4],a[5],a[6],a[7],a[8],a[9],a[10],a[11])/a[0]
        stats.append((ex, r, exr, rr, np.abs(out[0]-oref[0]).max()))
        return out
    mma_mod.subsolv = spy
    with contextlib.redirect_stdout(io.StringIO()):
        pym.minimize_mma(net, [sig], [f.sig_out[0]]+[c.sig_out[0] for c in cons], xmin=-1.0, xmax=1.0, move=float(rng.choice([0.1,0.3,1.0])), maxit=25, verbosity=0, tolx=1e-9)
    mma_mod.subsolv = orig
for seed in range(int(sys.argv[1]), int(sys.argv[1])+12): run(seed)
st = np.array(stats)
print('calls', len(st), 'pymoto exhausted', int((st[:,0]>0).sum()), 'ref exhausted', int((st[:,2]>0).sum()))
print('r_pymoto/eps: max', st[:,1].max(), ' r_ref/eps: max', st[:,3].max())
ratio = st[:,1]/np.maximum(st[:,3], 20)
print('max r_pymoto/max(20,r_ref)', ratio.max(), 'count>1', int((ratio>1).sum()), 'count>10', int((ratio>10).sum()))
conv = (st[:,1]<=20)&(st[:,3]<=20)
print('both converged', int(conv.sum()), 'max x diff', st[conv,4].max() if conv.any() else None)
print('pymoto conv but ref not', int(((st[:,1]<=20)&(st[:,3]>20)).sum()), ' ref conv but pymoto not', int(((st[:,1]>20)&(st[:,3]<=20)).sum()))
