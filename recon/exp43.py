import numpy as np, scipy.sparse as sps, pymoto as pym, warnings
warnings.simplefilter('ignore')
rng = np.random.default_rng(0); n=6
A = rng.standard_normal((n,n)); A = A@A.T+n*np.eye(n)
sA = pym.Signal('A', sps.csc_matrix(A))
m = pym.SystemOfEquations([sA, pym.Signal('b', np.ones(4)), pym.Signal('x', np.zeros(2))], prescribed=np.array([0,1]))
print('before', sA.state.shape); m.response(); print('after SoE.response input A shape', sA.state.shape)
sA = pym.Signal('A', sps.csc_matrix(A))
m = pym.StaticCondensation(sA, main=np.array([0,1]), free=np.array([2,3,4]))
m.response(); print('after StaticCondensation.response input A shape', sA.state.shape)
# consequence: two consumers of K
sA = pym.Signal('A', sps.csc_matrix(A)); sb = pym.Signal('b', np.ones(n))
net = pym.Network(pym.SystemOfEquations([sA, pym.Signal('bf', np.ones(4)), pym.Signal('xp', np.zeros(2))], prescribed=np.array([0,1])), pym.LinSolve([sA, sb]))
try:
    net.response(); print('second consumer solved system of size', net.mods[1].sig_out[0].state.shape)
except Exception as e: print('second consumer fails:', type(e).__name__, str(e)[:100])
