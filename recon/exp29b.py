import numpy as np, scipy.sparse as sps, warnings, sys, itertools, time
from pymoto.solvers import *
warnings.simplefilter('ignore')
class Counting(LinearSolver):
    def __init__(self, inner): self.inner = inner; self.calls=0; self.cols=0
    def update(self, A): self.inner.update(A); return self
    def solve(self, rhs, x0=None, trans='N'):
        self.calls += 1; self.cols += (1 if rhs.ndim==1 else rhs.shape[1]); return self.inner.solve(rhs, x0=x0, trans=trans)
def hist(rng, A, sparse, mk, nops=8, tol=1e-7):
    n = A.shape[0]
    inner = Counting(mk()); w = LDAWrapper(inner, tol=tol)
    Acur = A; w.update(sps.csc_matrix(A) if sparse else A)
    solved = {'N':[], 'T':[], 'H':[]}
    bad=[]
    for k in range(nops):
        op = rng.choice(['new','repeat','combo','zero','block','update','x0'])
        trans = str(rng.choice(['N','T','H']))
        Mt = {'N':Acur, 'T':Acur.T, 'H':Acur.conj().T}[trans]
        x0=None
        if op=='update':
            Acur = Acur*rng.uniform(0.5,2) + np.diag(rng.uniform(0.1,1,n))*(1 if True else 0)
            w.update(sps.csc_matrix(Acur) if sparse else Acur); solved = {'N':[], 'T':[], 'H':[]}; continue
        if op=='new' or (op in ['repeat','combo'] and not solved[trans]): b = rng.standard_normal(n); kind='new'
        elif op=='repeat': b = solved[trans][int(rng.integers(len(solved[trans])))].copy(); kind='inspan'
        elif op=='combo':
            b = sum(rng.standard_normal()*v for v in solved[trans]); kind='inspan'
        elif op=='zero': b = np.zeros(n); kind='zero'
        elif op=='block':
            b = rng.standard_normal((n, 3)); b[:,2] = b[:,0]-2*b[:,1]; kind='new'
        elif op=='cplx': b = rng.standard_normal(n)+1j*rng.standard_normal(n); kind='new'
        elif op=='x0': b = rng.standard_normal(n); x0 = rng.standard_normal(n); kind='new'
        c0 = inner.calls
        try:
            x = w.solve(b, x0=x0, trans=trans)
        except Exception as e:
            bad.append((k, op, trans, 'EXC '+type(e).__name__+' '+str(e)[:60])); break
        nb = np.linalg.norm(b)
        r = np.linalg.norm(Mt@x-b)/(nb if nb>0 else 1)
        if x.shape != b.shape: bad.append((k,op,trans,'shape'))
        if not r < 100*tol: bad.append((k,op,trans,f'res {r:.1e}'))
        if kind in ['inspan','zero'] and inner.calls != c0 and np.isrealobj(b): bad.append((k,op,trans,'inner called for in-span rhs'))
        if b.ndim==1 and np.isrealobj(b) and nb>0: solved[trans].append(b.copy())
        # with symmetric matrix, T and N share
    return bad
def main():
    t=time.time()
    seed = int(sys.argv[1]) if len(sys.argv)>1 else 0
    rng = np.random.default_rng(seed)
    nbad=0; ntot=0; shown=0
    for n in [2,3]:
        pairs = [(i,j) for i in range(n) for j in range(n) if i!=j]
        for mask in itertools.product([0,1], repeat=len(pairs)):
            for cplx in [False, True]:
                A = np.diag(rng.uniform(2,4,n)*rng.choice([-1,1],n)).astype(complex if cplx else float)
                for (i,j),mm in zip(pairs,mask):
                    if mm: A[i,j] = rng.uniform(0.3,1)*(1j if cplx and rng.random()<0.5 else 1)
                if abs(np.linalg.det(A))<0.3: continue
                for sparse in [False, True]:
                    if sparse and not cplx and False: continue
                    mk = (lambda: SolverSparseLU()) if sparse else (lambda: SolverDenseLU())
                    bad = hist(rng, A, sparse, mk)
                    # sparse real + complex rhs unsupported -> filter
                    bad = [b_ for b_ in bad if not (sparse and not cplx and 'TypeError' in b_[3])]
                    ntot+=1
                    if bad:
                        nbad+=1
                        if shown<10: shown+=1; print('n',n,'mask',mask,'cplx',cplx,'sparse',sparse,bad[:2])
    print('histories', ntot, 'bad', nbad, f'{time.time()-t:.1f}s')
main()
