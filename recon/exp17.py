import numpy as np, warnings, sys, copy
import pymoto as pym
warnings.simplefilter('ignore')
S = pym.Signal
def rand_index(rng, shape):
    kind = rng.choice(['basic','tuple','intarr','int','ellipsis'])
    if kind=='basic':
        n = shape[0]; a = int(rng.integers(0,n)); b = int(rng.integers(a+1,n+1)); st = int(rng.choice([1,1,2]))
        return slice(a,b,st)
    if kind=='tuple':
        idx=[]
        for n in shape:
            a = int(rng.integers(0,n)); b = int(rng.integers(a+1,n+1)); idx.append(slice(a,b))
        return tuple(idx)
    if kind=='intarr':
        n = shape[0]; k = int(rng.integers(1,n+1)); return rng.permutation(n)[:k]
    if kind=='int':
        return int(rng.integers(0,shape[0]))
    return Ellipsis
def run(seed):
    rng = np.random.default_rng(seed)
    ndim = int(rng.integers(1,4)); shape = tuple(int(rng.integers(2,5)) for _ in range(ndim))
    cplx = rng.random()<0.3
    def rnd(sh):
        a = rng.standard_normal(sh); return a+1j*rng.standard_normal(sh) if cplx else a
    state = rnd(shape)
    keep = rng.random()<0.3
    sig = S('x', state.copy(), sensitivity=(np.zeros(shape, dtype=state.dtype) if keep else None))
    mstate = state.copy(); msens = np.zeros(shape, dtype=state.dtype) if keep else None
    trace=[]
    for step in range(30):
        op = rng.choice(['add','add_slice','set_state_slice','reset','reset_slice','set_sens','alias','set_sens_slice','nested'])
        trace.append(op)
        if op=='add':
            v = rnd(shape); v0=v.copy(); sig.add_sensitivity(v); msens = v0.copy() if msens is None else msens+v0
            v[...] = 99  # mutate afterwards -> must not alias
        elif op=='add_slice':
            idx = rand_index(rng, shape); sub = np.zeros(shape)[idx]
            v = rnd(np.shape(sub)); 
            sig[idx].add_sensitivity(v if np.ndim(v) else v)
            if msens is None: msens = np.zeros(shape, dtype=state.dtype)
            msens[idx] += v
        elif op=='set_state_slice':
            idx = rand_index(rng, shape); v = rnd(np.shape(mstate[idx])); sig[idx].state = v; mstate[idx] = v
        elif op=='reset':
            ka = rng.choice([None, True, False]); ka = None if ka is None else bool(ka)
            sig.reset(keep_alloc=ka)
            eff = sig.keep_alloc if ka is None else ka
            if msens is not None: msens = np.zeros_like(msens) if eff else None
        elif op=='reset_slice':
            idx = rand_index(rng, shape); sig[idx].reset()
            if msens is not None: msens[idx] = 0
        elif op=='set_sens':
            v = rnd(shape); sig.sensitivity = v.copy(); msens = v.copy()
        elif op=='set_sens_slice':
            idx = rand_index(rng, shape); v = rnd(np.shape(mstate[idx])); sig[idx].sensitivity = v
            if msens is None: msens = np.zeros(shape, dtype=state.dtype)
            msens[idx] = v
        elif op=='alias':
            v = rnd(shape); s2 = S('y', state.copy()); sig.add_sensitivity(v); s2.add_sensitivity(v)
            msens = v.copy() if msens is None else msens+v
            s2.sensitivity *= 3
            if not np.allclose(v, v): pass
        elif op=='nested':
            if ndim>=1 and shape[0]>=3:
                sl = sig[1:][0:1]; v = rnd(np.shape(mstate[1:][0:1])); sl.add_sensitivity(v)
                if msens is None: msens = np.zeros(shape, dtype=state.dtype)
                msens[1:][0:1] += v
        # compare
        ok = np.array_equal(sig.state, mstate) and ((sig.sensitivity is None and msens is None) or (sig.sensitivity is not None and msens is not None and np.allclose(sig.sensitivity, msens)))
        if not ok:
            return f'MISMATCH seed={seed} step={step} ops={trace[-3:]} sens={None if sig.sensitivity is None else "arr"} model={None if msens is None else "arr"}'
    return None
bad=0
for seed in range(int(sys.argv[1]), int(sys.argv[1])+400):
    try:
        r = run(seed)
    except Exception as e:
        r = f'EXC seed={seed} {type(e).__name__} {str(e)[:150]!r}'
    if r: bad+=1; print(r) if bad<12 else None
print('bad', bad)
