import numpy as np, warnings, scipy.sparse as sps, sys, itertools
import pymoto as pym
warnings.simplefilter('ignore')
rng = np.random.default_rng(int(sys.argv[1]) if len(sys.argv)>1 else 0)
S = pym.Signal
def ref_overhang(d, x, direction, xi0, p, eps, ns):
    tiny = np.finfo(float).tiny
    q = p + np.log(ns)/np.log(xi0); shift = 100*tiny**(1/p); back = ns**(1/q)*shift**(p/q)*0.95
    size = [d.nelx, d.nely, max(d.nelz,1)]
    ax = int(np.argmax(np.abs(direction))); sg = int(np.sign(direction[ax]))
    o1, o2 = [a for a in range(3) if a != ax]
    if d.dim == 2:
        offs = [(-1,0),(0,0),(1,0)]  # offset along the single in-plane orthogonal axis (o1 is the non-z one)
        if o1 == 2: o1, o2 = o2, o1
    else:
        offs = [(-1,0),(0,0),(1,0),(0,-1),(0,1),(-1,-1),(-1,1),(1,-1),(1,1)][:ns]
    y = x.copy()
    layers = range(1, size[ax]) if sg > 0 else range(size[ax]-2, -1, -1)
    for L in layers:
        for a in range(size[o1]):
            for b in range(size[o2]):
                keep = 0.0
                for (da, db) in offs:
                    aa, bb = a+da, b+db
                    if 0 <= aa < size[o1] and 0 <= bb < size[o2]:
                        idx = [0,0,0]; idx[ax] = L-sg; idx[o1]=aa; idx[o2]=bb
                        keep += (y[d.get_elemnumber(*idx)]+shift)**p
                smax = keep**(1/q)-back
                idx = [0,0,0]; idx[ax]=L; idx[o1]=a; idx[o2]=b
                e = d.get_elemnumber(*idx)
                r1 = x[e]-smax
                y[e] = (x[e]+smax-np.sqrt(r1*r1+eps)+np.sqrt(eps))/2
    return y
nbad=0; nt=0
for trial in range(200):
    dim = rng.choice([2,3]); nx,ny = rng.integers(1,6,2); nz = int(rng.integers(1,5)) if dim==3 else 0
    d = pym.DomainDefinition(int(nx),int(ny),nz)
    ax = int(rng.integers(0,dim)); sg = rng.choice([-1,1])
    dirv = [0.0]*dim; dirv[ax] = float(sg)*rng.uniform(0.5,3)
    ns = 3 if dim==2 else int(rng.choice([5,9]))
    xi0 = rng.uniform(0.2,0.8); p = rng.uniform(5,40); eps = 10**rng.uniform(-6,-2)
    x = rng.random(d.nel); 
    if rng.random()<0.3: x = np.round(x)
    m = pym.OverhangFilter(S('x',x), domain=d, direction=dirv, xi_0=xi0, p=p, eps=eps, nsampling=ns); m.response()
    y = m.sig_out[0].state; yr = ref_overhang(d, x, np.array(dirv+[0]*(3-dim)), xi0, p, eps, ns)
    nt+=1
    if not np.allclose(y, yr, atol=1e-12, rtol=1e-10):
        nbad+=1; print('OH mismatch', (nx,ny,nz), dirv, ns, np.abs(y-yr).max())
    if (y - x).max() > np.sqrt(eps)/2 + 1e-12: print('exceeds', (y-x).max(), np.sqrt(eps)/2)
print('Overhang ref mismatches', nbad, '/', nt)
