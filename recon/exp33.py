import numpy as np, scipy.sparse as sps, warnings, sys
import pymoto as pym
from adj import *
warnings.simplefilter('ignore')
rng = np.random.default_rng(0); S = pym.Signal
n=6
A = rng.standard_normal((n,n)); As = A+A.T+2*n*np.eye(n); An = A+2*n*np.eye(n)
Ac = A+1j*rng.standard_normal((n,n)); Ah = Ac+Ac.conj().T+4*n*np.eye(n); Acs = Ac+Ac.T+3*n*np.eye(n); Acn = Ac+3*n*np.eye(n)
b = rng.standard_normal(n); B = rng.standard_normal((n,2)); bc_ = b+1j*rng.standard_normal(n)
f = np.array([0,2,3,5]); p = np.array([1,4])
def symdir(rng, x0):
    v = [rand_like(rng, xx) for xx in x0]; v[0] = sps.csc_matrix(v[0]+v[0].T) if sps.issparse(v[0]) else v[0]+v[0].T; return v
def hermdir(rng, x0):
    v = [rand_like(rng, xx) for xx in x0]; v[0] = sps.csc_matrix(v[0]+v[0].conj().T) if sps.issparse(v[0]) else v[0]+v[0].conj().T; return v
soe = lambda M, bf, xp: (lambda: (pym.SystemOfEquations([S('A'),S('b'),S('x')], free=f, prescribed=p), [M, bf, xp]))
cases = {
 'SoE sparse nonsym': (soe(sps.csc_matrix(An), b[f], b[p]), None),
 'SoE dense nonsym': (soe(An, b[f], b[p]), None),
 'SoE dense sym': (soe(As, b[f], b[p]), symdir),
 'SoE sparse herm': (soe(sps.csc_matrix(Ah), bc_[f], bc_[p]), hermdir),
 'SoE sparse cnonsym': (soe(sps.csc_matrix(Acn), bc_[f], bc_[p]), None),
 'SoE sparse nonsym block': (soe(sps.csc_matrix(An), B[f], B[p]), None),
 'SoE dense cnonsym block': (soe(Acn, B[f]+0j, B[p]+0j), None),
 'SC sparse csym': (lambda: (pym.StaticCondensation(S('A'), main=np.array([0,1]), free=np.array([2,3,5])), [sps.csc_matrix(Acs)]), symdir),
 'SC dense sym': (lambda: (pym.StaticCondensation(S('A'), main=np.array([0,1]), free=np.array([2,3,5])), [As]), symdir),
 'SC dense csym': (lambda: (pym.StaticCondensation(S('A'), main=np.array([0,1]), free=np.array([2,3,5])), [Acs]), symdir),
 'Concat arrays': (lambda: (pym.ConcatSignal([S('a'),S('b'),S('c'),S('d')]), [b, np.array(2.5), B, 1.5]), None),
 'LinSolve dep block': (lambda: (pym.LinSolve([S('A'),S('b')]), [As, np.stack([b, 2*b, B[:,0]], axis=1)]), symdir),
 'LinSolve triu': (lambda: (pym.LinSolve([S('A'),S('b')]), [np.triu(An), b]), lambda rng,x0: [np.triu(rand_like(rng,x0[0])), rand_like(rng,x0[1])]),
}
for seeds in ['all',[0],[1]]:
  for name,(make,dirs) in cases.items():
    if seeds!='all' and not name.startswith('SoE'): continue
    try:
        err, det = check_module(make, rng, seeds=seeds, dirs=dirs)
        print(f'{name:28s} seeds={seeds} err={err:.2e} est={det["est"]:.1e}', '' if err<1e-6 else '<<<<<')
    except Exception as e:
        print(f'{name:28s} EXC {type(e).__name__}: {str(e)[:140]!r}')
