import numpy as np, pickle, io, contextlib
import pymoto.common.mma as M
a,k = pickle.load(open('fail_sub.pkl','rb'))
epsimin, low, upp, alfa, beta, P, Q, a0, aa, b, c, d = a
# instrumented copy of the Newton loop at epsi levels to see stagnation
src = open('/repo/pymoto/common/mma.py').read()
src = src.replace("            residunorm = np.linalg.norm(residu)\n            residumax = np.max(np.abs(residu))\n\n        if ittt",
                  "            residunorm = np.linalg.norm(residu)\n            residumax = np.max(np.abs(residu))\n            if epsi<2e-5 and epsi>5e-6 and (ittt<12 or ittt%100==0): print('   ittt',ittt,'resmax %.3e'%residumax,'steg %.2e'%steg,'itto',itto, 'argmax', int(np.argmax(np.abs(residu))), 'lam',lam,'s',s,'y',y,'z',z)\n\n        if ittt")
ns = {}
exec(compile(src, 'mma_inst', 'exec'), ns)
out = ns['subsolv'](*a, **k)
