import numpy as np, warnings, sys, io, contextlib
import pymoto as pym
warnings.simplefilter('ignore')
S = pym.Signal
class InvSum(pym.Module):
    """ f = sum c_i / x_i  over several signals"""
    def _prepare(self, c): self.c = c
    def _response(self, *args):
        self.x = np.concatenate([np.atleast_1d(a).ravel() for a in args]); return np.sum(self.c/self.x)
    def _sensitivity(self, df):
        g = -df*self.c/self.x**2; out=[]; k=0
        for s in self.sig_in:
            n = np.size(s.state); out.append(g[k:k+n].reshape(np.shape(s.state))); k+=n
        return out
class Rec(pym.Module):
    def _prepare(self, log): self.log = log
    def _response(self, *args): self.log.append(np.concatenate([np.atleast_1d(a).ravel().copy() for a in args])); return []
    def _sensitivity(self): return [None for _ in self.sig_in]
def run(seed):
    rng = np.random.default_rng(seed)
    sizes = [int(rng.integers(1,6)) for _ in range(int(rng.integers(1,4)))]; n = sum(sizes)
    c = rng.uniform(0.1,5,n)
    xmin = 0.05; xmax = 1.0
    pervar = rng.random()<0.5
    lo = rng.uniform(0.01,0.2,n) if pervar else np.full(n,xmin); hi = rng.uniform(0.7,1.0,n) if pervar else np.full(n,xmax)
    x0 = lo + rng.random(n)*(hi-lo)*0.8
    sigs=[]; k=0
    for sz in sizes: sigs.append(S(f'v{len(sigs)}', x0[k:k+sz].copy())); k+=sz
    log=[]
    f = InvSum(sigs, S('f'), c)
    net = pym.Network(Rec(sigs, [], log), f)
    move = float(rng.choice([0.05,0.2,0.5]))
    maxvol = None if rng.random()<0.3 else float(rng.uniform(lo.sum()+0.1*(hi-lo).sum(), hi.sum()-0.1*(hi-lo).sum()))
    with contextlib.redirect_stdout(io.StringIO()):
        pym.minimize_oc(net, sigs, f.sig_out[0], xmin=(lo if pervar else xmin), xmax=(hi if pervar else xmax), move=move, maxvol=maxvol, maxit=150, tolx=1e-7, tolf=1e-12)
    X = np.array(log); V = x0.sum() if maxvol is None else maxvol
    issues=[]
    if (X[1:]<lo-1e-12).any() or (X[1:]>hi+1e-12).any(): issues.append('bounds')
    if (np.abs(np.diff(X,axis=0))>move+1e-12).any(): issues.append('move')
    volerr=[]
    for k in range(len(X)-1):
        xl = np.maximum(lo, X[k]-move); xu = np.minimum(hi, X[k]+move)
        if xl.sum() <= V <= xu.sum(): volerr.append(abs(X[k+1].sum()-V))
        else: volerr.append(np.nan)
    # analytic optimum: x_i = clip(sqrt(c_i/lam)) with sum = V
    def xof(l): return np.clip(np.sqrt(c/l), lo, hi)
    a,b = 1e-12,1e12
    for _ in range(200):
        mid = np.sqrt(a*b)
        if xof(mid).sum() > V: a = mid
        else: b = mid
    xs = xof(np.sqrt(a*b))
    return dict(n=n, its=len(X), pervar=pervar, move=move, issues=issues, maxvolerr=np.nanmax(volerr) if len(volerr) else None, nreach=int(np.sum(~np.isnan(volerr))), dist=np.abs(X[-1]-xs).max(), dist0=np.abs(X[0]-xs).max())
for seed in range(int(sys.argv[1]), int(sys.argv[1])+15):
    try: print(seed, run(seed))
    except Exception as e: print(seed, 'EXC', type(e).__name__, str(e)[:200])
