import numpy as np, warnings, traceback
import pymoto as pym
np.set_printoptions(precision=4, suppress=True)
# OverhangFilter direction
d = pym.DomainDefinition(4,5)
for dr in ['+x','-x','x-','y','-y','y-',[0,-1],[1,0],(0,1,0)]:
    m = pym.OverhangFilter(pym.Signal('x', np.random.rand(d.nel)), domain=d, direction=dr)
    print(dr, m.direction)
# in-place seed
x = np.random.rand(d.nel)
sx = pym.Signal('x', x.copy())
m = pym.OverhangFilter(sx, domain=d, direction=[0,1])
m.response()
w = np.random.rand(d.nel)
m.sig_out[0].sensitivity = w.copy()
m.sensitivity(); g1 = sx.sensitivity.copy()
print('seed changed:', np.abs(m.sig_out[0].sensitivity - w).max())
m.sensitivity(); g2 = sx.sensitivity.copy()
print('second call equals 2*g1?', np.abs(g2-2*g1).max())
# 1-layer thick
d1 = pym.DomainDefinition(4,1)
sx = pym.Signal('x', np.random.rand(4))
m = pym.OverhangFilter(sx, domain=d1, direction=[0,1]); m.response(); print('1layer resp same', np.allclose(m.sig_out[0].state, sx.state))
m.sig_out[0].sensitivity = np.ones(4)
try:
    m.sensitivity(); print('1layer sens', sx.sensitivity)
except Exception as e: print('1layer sens fail', type(e).__name__, str(e)[:100])
# AggActiveSet
for n, ua in [(5,0.9),(10,0.95),(3,0.8),(10,0.9),(10,0.7), (101,0.99)]:
    xs = np.arange(n)*1.0
    a = pym.AggActiveSet(upper_amt=ua)
    print(n, ua, 'n removed', n-np.count_nonzero(a(xs)), 'float prod', n*(1-ua))
for n, la in [(5,0.1),(10,0.3)]:
    a = pym.AggActiveSet(lower_amt=la); xs=np.arange(n)*1.0
    print(n, la, 'n removed', n-np.count_nonzero(a(xs)), n*la)
