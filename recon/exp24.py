import numpy as np, scipy.sparse as sps, warnings, sys
import pymoto as pym
from adj import *
warnings.simplefilter('ignore')
rng = np.random.default_rng(int(sys.argv[1]) if len(sys.argv)>1 else 0)
S = pym.Signal
cases = {}
d = pym.DomainDefinition(4,3, unitx=0.8, unity=1.2)
bc = (d.nodes[0,:]*2+np.arange(2)[None]).flatten()
x = rng.random(d.nel)*0.8+0.2
mK = pym.AssembleStiffness(S('x',x), domain=d, bc=bc); mK.response(); K = mK.sig_out[0].state
mM = pym.AssembleMass(S('x',x), domain=d, bc=bc, ndof=2, material_property=1.3); mM.response(); M = mM.sig_out[0].state
def symsp(rng, x0):
    out=[]
    for xx in x0:
        if sps.issparse(xx):
            v = rand_like(rng, xx); v = (v + v.T)*0.5; v = v.multiply(xx != 0) if False else v
            out.append(sps.csc_matrix(v))
        else: out.append(rand_like(rng, xx))
    return out
# perturbations of FE matrices must keep bc structure & symmetry: use direction via x instead -> network
def net_eig(gen, nmodes, seeds, cplx=False):
    def make():
        sx = S('x')
        n = pym.Network()
        sK = n.append(pym.AssembleStiffness(sx, domain=d, bc=bc, e_modulus=(1+0.3j) if cplx else 1.0))
        ins = [sK]
        if gen: ins.append(n.append(pym.AssembleMass(sx, domain=d, bc=bc, ndof=2)))
        n.append(pym.EigenSolve(ins, nmodes=nmodes))
        # wrap as module-like
        class W: pass
        w = W(); w.sig_in=[sx]; w.sig_out = n.mods[-1].sig_out; w.response = n.response; w.sensitivity = n.sensitivity
        return w, [x]
    return make
for gen in [False, True]:
    for seeds in ['all',[0],[1]]:
        cases[f'EigSparse gen={gen} seeds={seeds}'] = (net_eig(gen,3,seeds), None, seeds)
cases['EigSparse cplx gen seeds=[0]'] = (net_eig(True,3,[0],cplx=True), None, [0])
cases['EigSparse cplx gen seeds=all'] = (net_eig(True,3,'all',cplx=True), None, 'all')
n=6
A = rng.standard_normal((n,n)); As = A+A.T+2*n*np.eye(n); Acs = A+1j*rng.standard_normal((n,n)); Acs = Acs+Acs.T+3*n*np.eye(n)
b = rng.standard_normal(n); B = rng.standard_normal((n,2))
f = np.array([0,2,3,5]); p = np.array([1,4])
def symdir(rng, x0):
    v = [rand_like(rng, xx) for xx in x0]; v[0] = sps.csc_matrix(v[0]+v[0].T) if sps.issparse(v[0]) else v[0]+v[0].T; return v
for seeds in ['all',[0],[1]]:
    cases[f'SoE sym seeds={seeds}'] = (lambda: (pym.SystemOfEquations([S('A'),S('b'),S('x')], free=f, prescribed=p), [sps.csc_matrix(As), b[f], b[p]]), symdir, seeds)
cases['SoE csym'] = (lambda: (pym.SystemOfEquations([S('A'),S('b'),S('x')], free=f, prescribed=p), [sps.csc_matrix(Acs), b[f]+0j, b[p]+0j]), symdir, 'all')
cases['SoE csym realrhs'] = (lambda: (pym.SystemOfEquations([S('A'),S('b'),S('x')], free=f, prescribed=p), [sps.csc_matrix(Acs), b[f], b[p]]), symdir, 'all')
cases['SoE sym block'] = (lambda: (pym.SystemOfEquations([S('A'),S('b'),S('x')], free=f, prescribed=p), [sps.csc_matrix(As), B[f], B[p]]), symdir, [1])
cases['SoE only-prescribed'] = (lambda: (pym.SystemOfEquations([S('A'),S('b'),S('x')], prescribed=p), [sps.csc_matrix(As), b[f], b[p]]), symdir, 'all')
cases['StaticCond csym'] = (lambda: (pym.StaticCondensation(S('A'), main=np.array([0,1]), free=np.array([2,3,5])), [sps.csc_matrix(Acs)]), symdir, 'all')
cases['StaticCond sym 3free'] = (lambda: (pym.StaticCondensation(S('A'), main=np.array([0,1]), free=np.array([2,3,5])), [sps.csc_matrix(As)]), symdir, 'all')
em = rng.standard_normal((8,8)); Cst = sps.random(d.nnodes*2, d.nnodes*2, 0.05, format='csc', random_state=1)
cases['AssembleGeneral add_constant bc'] = (lambda: (pym.AssembleGeneral(S('x'), domain=d, element_matrix=em, bc=bc, bcdiagval=3.0, add_constant=Cst), [x]), None, 'all')
cases['AssembleGeneral complex elmat'] = (lambda: (pym.AssembleGeneral(S('x'), domain=d, element_matrix=em+1j*em.T), [x]), None, 'all')
cases['AssembleGeneral complex x'] = (lambda: (pym.AssembleGeneral(S('x'), domain=d, element_matrix=em), [x+1j*x[::-1]]), None, 'all')
cases['AssembleGeneral csr'] = (lambda: (pym.AssembleGeneral(S('x'), domain=d, element_matrix=em, matrix_type=sps.csr_matrix), [x]), None, 'all')
cases['AssembleStiffness complex E'] = (lambda: (pym.AssembleStiffness(S('x'), domain=d, e_modulus=1+0.5j), [x]), None, 'all')
w = rng.random((3,3))
cases['FilterConv weights consts'] = (lambda: (pym.FilterConv(S('x'), domain=d, weights=w, xmin_bc=0.3, xmax_bc=1.0, ymin_bc='wrap', ymax_bc='edge'), [x]), None, 'all')
cases['Strain voigt=False'] = (lambda: (pym.Strain(S('u'), domain=d, voigt=False), [rng.standard_normal(d.nnodes*2)]), None, 'all')
cases['ElementOperation ndof-repeat'] = (lambda: (pym.ElementOperation(S('u'), domain=d, element_matrix=rng.standard_normal((3,4))), [rng.standard_normal(d.nnodes*2)]), None, 'all')
cases['ElementOperation complex u'] = (lambda: (pym.ElementOperation(S('u'), domain=d, element_matrix=rng.standard_normal((3,8))), [rng.standard_normal(d.nnodes*2)+1j*rng.standard_normal(d.nnodes*2)]), None, 'all')
cases['NodalOperation 2d elmat'] = (lambda: (pym.NodalOperation(S('x'), domain=d, element_matrix=rng.standard_normal((8,))), [x]), None, 'all')
cases['NodalOperation x 2d'] = (lambda: (pym.NodalOperation(S('x'), domain=d, element_matrix=rng.standard_normal((3,8))), [rng.standard_normal((3,d.nel))]), None, 'all')
xv = rng.random(9)+0.5
class Frozen:
    def __init__(self, sf): self.sf = sf
    def __call__(self, x, fx): return self.sf
cases['PNorm frozen scaling'] = (lambda: (pym.PNorm(S('x'), p=5, scaling=Frozen(1.7)), [xv]), None, 'all')
cases['KS active lower_amt'] = (lambda: (pym.KSFunction(S('x'), rho=-3, active_set=pym.AggActiveSet(lower_amt=0.2, upper_rel=0.9)), [xv]), None, 'all')
cases['Math complex'] = (lambda: (pym.MathGeneral([S('x'),S('y')], expression='exp(x)*y + x*x'), [b[:3]+1j*b[3:], 1.5-0.3j]), None, 'all')
cases['Math scalar+vec sum'] = (lambda: (pym.MathGeneral([S('x'),S('y')], expression='x + y*y'), [2.0, b]), None, 'all')
cases['EinSum outer'] = (lambda: (pym.EinSum([S('a'),S('b')], expression='i,j->ij'), [b, b[:3]]), None, 'all')
cases['EinSum proj'] = (lambda: (pym.EinSum([S('V'),S('A'),S('V2')], expression='ji,jk,kl->il'), [B, A, B]), None, 'all')
cases['EinSum vecsum'] = (lambda: (pym.EinSum([S('a')], expression='i->'), [b]), None, 'all')
cases['EinSum same sig twice'] = None
cases['Inverse sym'] = (lambda: (pym.Inverse(S('A')), [As]), None, 'all')
cases['MakeComplex scalar'] = (lambda: (pym.MakeComplex([S('x'),S('y')]), [1.5, -0.3]), None, 'all')
cases['ComplexNorm real in'] = (lambda: (pym.ComplexNorm(S('z')), [b]), None, 'all')
cases['RealPart real in'] = (lambda: (pym.RealPart(S('z')), [b]), None, 'all')
cases['ImagPart real in'] = (lambda: (pym.ImagPart(S('z')), [b]), None, 'all')
cases['Concat arrays'] = (lambda: (pym.ConcatSignal([S('a'),S('b'),S('c')]), [b, np.array(2.5), B]), None, 'all')
cases['Concat complex'] = (lambda: (pym.ConcatSignal([S('a'),S('b')]), [b+1j*b, B[:,0]]), None, 'all')
cases['Scaling vec'] = None
for name, c in cases.items():
    if c is None: continue
    make, dirs, seeds = c
    try:
        err, det = check_module(make, rng, seeds=seeds, dirs=dirs)
        flag = '' if err < 1e-5 else '   <<<<<<<<<<'
        print(f'{name:38s} err={err:.2e} est={det["est"]:.1e} an={det["an"]:+.4e} fd={det["fd"]:+.4e}{flag}')
    except Exception as e:
        print(f'{name:38s} EXC {type(e).__name__}: {str(e)[:140]!r}')
