import numpy as np
def subsolv_ref(epsimin, low, upp, alfa, beta, P, Q, a0, a, b, c, d, x0=None, maxn=200, maxls=50):
    """Svanberg's subsolv.m transcribed (p0,q0 = P[0],Q[0]; P,Q = P[1:],Q[1:])"""
    p0, q0, Pm, Qm = P[0], Q[0], P[1:], Q[1:]
    n, m = len(alfa), len(a)
    een, eem = np.ones(n), np.ones(m)
    epsi = 1.0
    x = 0.5*(alfa+beta) if x0 is None else np.clip(x0, alfa+1e-10, beta-1e-10); y = eem.copy(); z = 1.0; lam = eem.copy()
    xsi = np.maximum(een/(x-alfa), een); eta = np.maximum(een/(beta-x), een); mu = np.maximum(eem, 0.5*c); zet = 1.0; s = eem.copy()
    exhausted = 0
    def resid(x,y,z,lam,xsi,eta,mu,zet,s,epsi):
        ux1 = upp-x; xl1 = x-low
        plam = p0 + Pm.T@lam; qlam = q0 + Qm.T@lam
        gvec = Pm@(1/ux1) + Qm@(1/xl1)
        dpsidx = plam/ux1**2 - qlam/xl1**2
        return np.concatenate([dpsidx-xsi+eta, c+d*y-mu-lam, [a0-zet-a@lam], gvec-a*z-y+s-b, xsi*(x-alfa)-epsi, eta*(beta-x)-epsi, mu*y-epsi, [zet*z-epsi], lam*s-epsi])
    while epsi > epsimin:
        residu = resid(x,y,z,lam,xsi,eta,mu,zet,s,epsi); residunorm = np.linalg.norm(residu); residumax = np.abs(residu).max()
        ittt = 0
        while residumax > 0.9*epsi and ittt < maxn:
            ittt += 1
            ux1 = upp-x; xl1 = x-low; ux2=ux1**2; xl2=xl1**2; ux3=ux1*ux2; xl3=xl1*xl2
            plam = p0 + Pm.T@lam; qlam = q0 + Qm.T@lam
            gvec = Pm@(1/ux1) + Qm@(1/xl1)
            GG = Pm/ux2 - Qm/xl2
            dpsidx = plam/ux2 - qlam/xl2
            delx = dpsidx - epsi/(x-alfa) + epsi/(beta-x)
            dely = c + d*y - lam - epsi/y
            delz = a0 - a@lam - epsi/z
            dellam = gvec - a*z - y - b + epsi/lam
            diagx = 2*(plam/ux3 + qlam/xl3) + xsi/(x-alfa) + eta/(beta-x)
            diagy = d + mu/y
            diaglam = s/lam; diaglamyi = diaglam + 1/diagy
            blam = dellam + dely/diagy - GG@(delx/diagx)
            bb = np.concatenate([blam, [delz]])
            Alam = np.diag(diaglamyi) + (GG/diagx)@GG.T
            AA = np.block([[Alam, a[:,None]],[a[None,:], np.array([[-zet/z]])]])
            solut = np.linalg.solve(AA, bb)
            dlam = solut[:m]; dz = solut[m]
            dx = -delx/diagx - (GG.T@dlam)/diagx
            dy = -dely/diagy + dlam/diagy
            dxsi = -xsi + epsi/(x-alfa) - (xsi*dx)/(x-alfa)
            deta = -eta + epsi/(beta-x) + (eta*dx)/(beta-x)
            dmu = -mu + epsi/y - (mu*dy)/y
            dzet = -zet + epsi/z - zet*dz/z
            ds = -s + epsi/lam - (s*dlam)/lam
            xx = np.concatenate([y,[z],lam,xsi,eta,mu,[zet],s]); dxx = np.concatenate([dy,[dz],dlam,dxsi,deta,dmu,[dzet],ds])
            stmxx = (-1.01*dxx/xx).max(); stmalfa = (-1.01*dx/(x-alfa)).max(); stmbeta = (1.01*dx/(beta-x)).max()
            steg = 1/max(stmalfa, stmbeta, stmxx, 1)
            xo,yo,zo,lo,xso,eo,mo,zto,so = x.copy(),y.copy(),z,lam.copy(),xsi.copy(),eta.copy(),mu.copy(),zet,s.copy()
            itto=0; resinew = 2*residunorm
            while resinew > residunorm and itto < maxls:
                itto += 1
                x = xo+steg*dx; y = yo+steg*dy; z = zo+steg*dz; lam = lo+steg*dlam; xsi = xso+steg*dxsi; eta = eo+steg*deta; mu = mo+steg*dmu; zet = zto+steg*dzet; s = so+steg*ds
                residu = resid(x,y,z,lam,xsi,eta,mu,zet,s,epsi); resinew = np.linalg.norm(residu); steg /= 2
            residunorm = resinew; residumax = np.abs(residu).max()
        if ittt >= maxn: exhausted += 1
        epsi *= 0.1
    return (x,y,z,lam,xsi,eta,mu,zet,s), exhausted
if __name__ == '__main__':
    import pickle, io, contextlib
    import pymoto.common.mma as M
    a,k = pickle.load(open('fail_sub.pkl','rb'))
    for x0 in [k['x0'], None]:
        out, ex = subsolv_ref(*a, x0=x0)
        with contextlib.redirect_stdout(io.StringIO()) as buf: o2 = M.subsolv(*a, x0=x0)
        print('x0 given' if x0 is not None else 'midpoint', 'ref exhausted levels', ex, '| pymoto msgs', buf.getvalue().count('Subsolver'), '| x diff', np.abs(out[0]-o2[0]).max(), 'lam', out[3], o2[3])
