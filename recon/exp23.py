import numpy as np, scipy.sparse as sps, warnings, sys, copy
from pymoto import DyadCarrier
warnings.simplefilter('ignore')
def rnd(rng, shape, c):
    a = rng.standard_normal(shape); return a+1j*rng.standard_normal(shape) if c else a
def mk(rng, n, m, k=None):
    k = int(rng.integers(0,4)) if k is None else k
    us = [rnd(rng, n, rng.random()<0.3) for _ in range(k)]; vs = [rnd(rng, m, rng.random()<0.3) for _ in range(k)]
    D = DyadCarrier(us, vs, shape=(n,m))
    M = np.zeros((n,m), dtype=complex)
    for u,v in zip(us,vs): M = M + np.outer(u,v)
    return D, M
fails = {}
def note(k, msg): fails.setdefault(k, []).append(msg)
def eq(D, M, what, seed):
    try:
        X = D.todense() if isinstance(D, DyadCarrier) else np.asarray(D)
    except Exception as e:
        note(what, f'seed={seed} todense EXC {type(e).__name__}'); return
    if X.shape != M.shape: note(what, f'seed={seed} shape {X.shape} vs {M.shape}'); return
    if not np.allclose(X, M, atol=1e-10): note(what, f'seed={seed} value diff {np.abs(X-M).max():.2e}')
    if np.isrealobj(X) and np.abs(np.imag(M)).max(initial=0) > 1e-12: note(what, f'seed={seed} real-typed but ref complex')
    if np.iscomplexobj(X) and isinstance(D, DyadCarrier) and False: pass
for seed in range(int(sys.argv[1]), int(sys.argv[1])+300):
    rng = np.random.default_rng(seed)
    n, m = int(rng.integers(1,5)), int(rng.integers(1,5))
    D, M = mk(rng, n, m)
    for step in range(6):
        op = rng.choice(['add','sub','neg','iadd','isub','smul','rsmul','matmul','rmatmul','T','conj','real','imag','slice','zero_row','zero_col','copy','matvec','rmatvec','diag','contract','contract_mat','contract_sp','getel','add_dense','rsub_dense','fancy'])
        D0 = D.todense().copy() if isinstance(D, DyadCarrier) else None
        try:
            if op in ['add','sub','iadd','isub']:
                E, N = mk(rng, *D.shape); E0 = E.todense().copy()
                if op=='add': R = D+E; MR = M+N
                elif op=='sub': R = D-E; MR = M-N
                elif op=='iadd': D += E; R = D; MR = M+N; D0=None
                else: D -= E; R = D; MR = M-N; D0=None
                if not np.array_equal(E.todense(), E0): note(op, f'seed={seed} operand E changed')
            elif op=='neg': R = -D; MR = -M
            elif op=='smul': a = complex(rng.standard_normal(), rng.standard_normal()) if rng.random()<0.3 else float(rng.standard_normal()); R = D*a; MR = M*a
            elif op=='rsmul': a = complex(rng.standard_normal(), rng.standard_normal()) if rng.random()<0.3 else float(rng.standard_normal()); R = a*D; MR = a*M
            elif op=='matmul': B = rnd(rng, (D.shape[1], int(rng.integers(1,4))), rng.random()<0.3); R = D@B; MR = M@B
            elif op=='rmatmul': B = rnd(rng, (int(rng.integers(1,4)), D.shape[0]), rng.random()<0.3); R = B@D; MR = B@M
            elif op=='T': R = D.T; MR = M.T
            elif op=='conj': R = D.conj(); MR = M.conj()
            elif op=='real': R = D.real; MR = M.real+0j
            elif op=='imag': R = D.imag; MR = M.imag+0j
            elif op=='copy': R = D.copy(); MR = M
            elif op=='slice':
                a = int(rng.integers(0,D.shape[0])); b = int(rng.integers(a+1, D.shape[0]+1)); c = int(rng.integers(0,D.shape[1])); e = int(rng.integers(c+1, D.shape[1]+1))
                R = D[a:b, c:e]; MR = M[a:b, c:e]
            elif op=='zero_row':
                a = int(rng.integers(0,D.shape[0])); D[a,:] = 0.0; M = M.copy(); M[a,:] = 0; R=D; MR=M; D0=None
            elif op=='zero_col':
                a = int(rng.integers(0,D.shape[1])); D[:,a] = 0.0; M = M.copy(); M[:,a] = 0; R=D; MR=M; D0=None
            elif op=='matvec':
                b = rnd(rng, D.shape[1], rng.random()<0.3); r = D@b; eq(r, M@b, op, seed); r2 = D.dot(b); eq(r2, M@b, 'dot', seed); R=D; MR=M
            elif op=='rmatvec':
                b = rnd(rng, D.shape[0], rng.random()<0.3); r = b@D; eq(r, b@M, op, seed); R=D; MR=M
            elif op=='diag':
                k = int(rng.integers(-3,4)); eq(D.diagonal(k), np.diagonal(M,k), op, seed); R=D; MR=M
            elif op=='contract':
                if D.shape[0]==D.shape[1]: eq(np.array(D.contract()), np.array(np.trace(M)), op, seed)
                R=D; MR=M
            elif op=='contract_mat':
                B = rnd(rng, (D.shape[0], D.shape[1]), rng.random()<0.3); eq(np.array(D.contract(B)), np.array(np.sum(M*B)), op, seed)
                Bb = rnd(rng, (3, D.shape[0], D.shape[1]), rng.random()<0.3); eq(D.contract(Bb), np.einsum('ij,pij->p', M, Bb), op+'_batch', seed)
                rows = rng.integers(0, D.shape[0], (3,2)); cols = rng.integers(0, D.shape[1], (3,2)); B2 = rnd(rng, (3,2,2), False)
                ref = np.array([np.sum(M[np.ix_(rows[p],cols[p])]*B2[p]) for p in range(3)])
                eq(D.contract(B2, rows, cols), ref, op+'_sliced', seed)
                R=D; MR=M
            elif op=='contract_sp':
                B = sps.random(D.shape[0], D.shape[1], 0.6, format='coo', random_state=int(seed)); eq(np.array(D.contract(B)), np.array(np.sum(M*B.toarray())), op, seed); R=D; MR=M
                eq(D.contract_multi([B, B.T.T]), np.array([np.sum(M*B.toarray())]*2), 'contract_multi', seed)
            elif op=='getel':
                i, j = int(rng.integers(0,D.shape[0])), int(rng.integers(0,D.shape[1])); eq(np.array(D[i,j]), np.array(M[i,j]), op, seed)
                eq(np.asarray(D[i,:]), M[i,:], 'getrow', seed); eq(np.asarray(D[:,j]), M[:,j], 'getcol', seed); R=D; MR=M
            elif op=='fancy':
                ii = rng.integers(0,D.shape[0],3); jj = rng.integers(0,D.shape[1],3); eq(np.asarray(D[ii,jj]), M[ii,jj], op, seed); R=D; MR=M
            elif op=='add_dense':
                B = rnd(rng, D.shape, False); eq(D+B, M+B, op, seed); eq(B+D, M+B, 'radd_dense', seed); R=D; MR=M
            elif op=='rsub_dense':
                B = rnd(rng, D.shape, False); eq(B-D, B-M, op, seed); eq(D-B, M-B, 'sub_dense', seed); R=D; MR=M
        except Exception as e:
            note(op, f'seed={seed} EXC {type(e).__name__}: {str(e)[:70]} ndyads={D.n_dyads if isinstance(D,DyadCarrier) else "?"}'); break
        if D0 is not None and isinstance(D, DyadCarrier) and not np.array_equal(D.todense(), D0): note(op, f'seed={seed} operand D changed')
        eq(R, MR, op, seed)
        D, M = R, MR
        if not isinstance(D, DyadCarrier): break
for k,v in fails.items(): print(k, len(v), v[:3])
print('done')
