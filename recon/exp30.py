import numpy as np, scipy.sparse as sps, warnings, sys, itertools
from pymoto.solvers import *
warnings.simplefilter('ignore')
np.set_printoptions(precision=4, suppress=True)
rng = np.random.default_rng(5)
A = np.array([[3.,0,0],[0,-2.5,0],[0.7,0.5,3.2]])
from pymoto.solvers.solvers import get_diagonal_indices
print('diag', get_diagonal_indices(A))
w = LDAWrapper(SolverDenseLU()); w.update(A)
for trans in ['N','T','H']:
    Mt = {'N':A,'T':A.T,'H':A.conj().T}[trans]
    b = rng.standard_normal(3); x = w.solve(b, trans=trans); print(trans, 'res', np.linalg.norm(Mt@x-b), 'flags sym', w.symmetric, 'herm', w.hermitian)
    b2 = rng.standard_normal(3); x = w.solve(b2, trans=trans); print(trans, 'res2', np.linalg.norm(Mt@x-b2))
    b3 = 2*b - b2; x = w.solve(b3, trans=trans); print(trans, 'res combo', np.linalg.norm(Mt@x-b3), 'did solve', w._did_solve)
