import numpy as np, warnings, sys, itertools
import pymoto as pym
warnings.simplefilter('ignore')
S = pym.Signal
rng = np.random.default_rng(0)
exec(open('exp8.py').read().split("def pad_axis")[0].split("S = pym.Signal")[1])  # to3d/from3d
# (b) overhang metamorphic: mirror and axis swap
bad=0; n=0
for t in range(200):
    dim = rng.choice([2,3]); shape = [int(rng.integers(1,5)) for _ in range(dim)] + ([0] if dim==2 else [])
    d = pym.DomainDefinition(*shape)
    ax = int(rng.integers(0,dim)); sg = float(rng.choice([-1,1])); dirv=[0.0]*3; dirv[ax]=sg
    ns = 3 if dim==2 else int(rng.choice([5,9]))
    x = rng.random(d.nel); X = to3d(d,x)
    def run(dom, xx, dv): 
        m = pym.OverhangFilter(S('x',xx), domain=dom, direction=dv[:3], nsampling=ns); m.response(); return m.sig_out[0].state
    y = to3d(d, run(d, x, dirv))
    # mirror along axis a
    a = int(rng.integers(0,dim)); Xm = np.flip(X, axis=a); dm = list(dirv); dm[a] = -dm[a]
    ym = to3d(d, run(d, from3d(d, Xm), dm))
    n+=1
    if not np.allclose(np.flip(ym,axis=a), y, atol=1e-13): bad+=1; print('mirror fail', shape, dirv, a)
    # axis swap (a,b) within dim
    if dim>=2:
        a,b = rng.choice(dim, 2, replace=False)
        perm = list(range(3)); perm[a],perm[b] = perm[b],perm[a]
        Xs = np.transpose(X, perm); sh2 = [Xs.shape[0], Xs.shape[1], Xs.shape[2] if dim==3 else 0]
        d2 = pym.DomainDefinition(*sh2); ds = [dirv[perm[i]] for i in range(3)]
        ys = to3d(d2, run(d2, from3d(d2, Xs), ds))
        n+=1
        if not np.allclose(np.transpose(ys, perm), y, atol=1e-13): bad+=1; print('swap fail', shape, dirv, a, b)
print('metamorphic', n, 'bad', bad)
# (c) wide kernels
bad=0; n=0
for t in range(300):
    dim = rng.choice([2,3]); nx,ny = rng.integers(1,4,2); nz = int(rng.integers(1,3)) if dim==3 else 0
    d = pym.DomainDefinition(int(nx),int(ny),nz)
    sh = [2*int(rng.integers(0,5))+1 for _ in range(dim)]
    w = rng.random(sh); w /= w.sum()
    modes = [str(m) for m in rng.choice(['symmetric','edge','wrap'], 6)]
    kw = dict(zip(['xmin_bc','xmax_bc','ymin_bc','ymax_bc','zmin_bc','zmax_bc'], modes))
    x = rng.random(d.nel)
    try:
        m = pym.FilterConv(S('x',x), domain=d, weights=w, **kw); m.response(); y = m.sig_out[0].state
        m2 = pym.FilterConv(S('x',np.full(d.nel,0.37)), domain=d, weights=w, **kw); m2.response(); yc = m2.sig_out[0].state
        n+=1
        if not np.allclose(yc, 0.37, atol=1e-13) or y.min() < x.min()-1e-13 or y.max() > x.max()+1e-13: bad+=1; print('invariant fail', (nx,ny,nz), sh, modes)
    except Exception as e:
        bad+=1; print('EXC', (nx,ny,nz), sh, modes, type(e).__name__, str(e)[:80])
print('wide kernels', n, 'bad', bad)
# (a) grid exhaustive small
bad=0
for nx,ny,nz in itertools.product(range(1,5), range(1,5), range(0,4)):
    d = pym.DomainDefinition(nx,ny,nz)
    dim = d.dim
    I,J,K = np.meshgrid(np.arange(nx), np.arange(ny), np.arange(max(nz,1)), indexing='ij')
    el = d.get_elemnumber(I,J,K).flatten()
    if sorted(el) != list(range(d.nel)): bad+=1
    I,J,K = np.meshgrid(np.arange(nx+1), np.arange(ny+1), np.arange(nz+1), indexing='ij')
    nd = d.get_nodenumber(I,J,K).flatten()
    if sorted(nd) != list(range(d.nnodes)): bad+=1
    ijk = d.get_node_indices(nd)
    if not (np.array_equal(ijk[0], I.flatten()) and np.array_equal(ijk[1], J.flatten()) and (dim==2 or np.array_equal(ijk[2], K.flatten()))): bad+=1
    for e in range(d.nel):
        i = e % nx; j = (e//nx) % ny; k = e//(nx*ny)
        corners = [d.get_nodenumber(i+a, j+b, k+c) for c in ([0,1] if dim==3 else [0]) for b in [0,1] for a in [0,1]]
        if list(d.conn[e]) != corners: bad+=1
print('grid bad', bad)
