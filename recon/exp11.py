import numpy as np, pymoto as pym
S = pym.Signal
d = pym.DomainDefinition(2,2, unitx=1.0, unity=1.0)
pos = d.get_node_position().T
G = np.array([[0.1, 0.3],[0.0, 0.2]])   # du/dx=0.1, du/dy=0.3, dv/dx=0, dv/dy=0.2
u = (pos@G.T).flatten()
for voigt in [True, False]:
    m = pym.Strain(S('u',u), domain=d, voigt=voigt); m.response(); print('voigt',voigt, m.sig_out[0].state[:,0])
m = pym.Stress(S('u',u), domain=d, e_modulus=1.0, poisson_ratio=0.3, plane='stress'); m.response(); print('stress', m.sig_out[0].state[:,0])
from pymoto.modules.assembly import get_D
D = get_D(1.0,0.3,'stress'); print('D@[exx,eyy,gxy]', D@np.array([0.1,0.2,0.3]))
