import numpy as np, scipy.sparse as sps, warnings, sys, copy
import pymoto as pym
from pymoto import DyadCarrier
warnings.simplefilter('ignore')
S = pym.Signal
def build(kind, rng_build):
    d = pym.DomainDefinition(4,3)
    bc = (d.nodes[0,:]*2+np.arange(2)[None]).flatten()
    sx = S('x', np.ones(d.nel)*0.5)
    net = pym.Network()
    if kind=='compliance':
        sf = net.append(pym.DensityFilter(sx, domain=d, radius=1.5))
        so = net.append(pym.OverhangFilter(sf, domain=d, direction='+y'))
        sK = net.append(pym.AssembleStiffness(so, domain=d, bc=bc))
        f = np.zeros(d.nnodes*2); f[-1] = 1.0
        sfv = S('f', f)
        su = net.append(pym.LinSolve([sK, sfv]))
        sc = net.append(pym.EinSum([su, sfv], expression='i,i->'))
        return net, [sx], [sc, su]
    if kind=='cg':
        sK = net.append(pym.AssembleStiffness(sx, domain=d, bc=bc))
        f = np.zeros(d.nnodes*2); f[-1] = 1.0; sfv = S('f', f)
        su = net.append(pym.LinSolve([sK, sfv], solver=pym.solvers.CG(preconditioner=pym.solvers.ILU(), tol=1e-10)))
        sc = net.append(pym.EinSum([su, sfv], expression='i,i->'))
        return net, [sx], [sc]
    if kind=='eig':
        sK = net.append(pym.AssembleStiffness(sx, domain=d, bc=bc))
        sM = net.append(pym.AssembleMass(sx, domain=d, bc=bc, ndof=2))
        sl, sV = net.append(pym.EigenSolve([sK, sM], nmodes=3))
        return net, [sx], [sl, sV]
    if kind=='soe':
        sK = net.append(pym.AssembleStiffness(sx, domain=d))
        p = bc; fr = np.setdiff1d(np.arange(d.nnodes*2), p)
        sbf = S('bf', np.ones(fr.size)*0.1); sxp = S('xp', np.linspace(0,0.1,p.size))
        sxx, sb = net.append(pym.SystemOfEquations([sK, sbf, sxp], free=fr, prescribed=p))
        return net, [sx, sbf, sxp], [sxx, sb]
    if kind=='sc':
        sK = net.append(pym.AssembleStiffness(sx, domain=d, bc=bc))
        main = np.array([d.nnodes*2-1, d.nnodes*2-2]); fr = np.setdiff1d(np.arange(d.nnodes*2), np.concatenate([bc, main]))
        sA = net.append(pym.StaticCondensation(sK, main=main, free=fr))
        return net, [sx], [sA]
def rand_inputs(rng, ins):
    return [rng.random(np.shape(s.state))*0.8+0.2 for s in ins]
def dense(v):
    if v is None: return None
    if isinstance(v, DyadCarrier): return v.todense()
    if sps.issparse(v): return v.toarray()
    return np.asarray(v)
def cycle(net, ins, outs, xs, seeds):
    for s,x in zip(ins,xs): s.state = x.copy()
    net.response()
    for o, w in zip(outs, seeds):
        if w is not None: o.sensitivity = w.copy()
    net.sensitivity()
    return [dense(o.state).copy() for o in outs], [None if s.sensitivity is None else dense(s.sensitivity).copy() for s in ins]
for kind in ['compliance','cg','eig','soe','sc']:
    worst=0; nops=0
    for seed in range(6):
        rng = np.random.default_rng(seed)
        net, ins, outs = build(kind, rng)
        # history
        for step in range(int(rng.integers(2,7))):
            op = rng.choice(['cycle','resp','reset','sens_noseed','cycle_noreset'])
            xs = rand_inputs(rng, ins); nops+=1
            if op=='cycle':
                net.reset(); net.response() if False else None
                for s,x in zip(ins,xs): s.state = x
                net.response(); outs[0].sensitivity = np.ones_like(dense(outs[0].state)); net.sensitivity(); net.reset()
            elif op=='resp':
                for s,x in zip(ins,xs): s.state = x
                net.response()
            elif op=='reset': net.reset()
            elif op=='sens_noseed':
                net.reset(); net.response(); net.sensitivity()
                assert all(s.sensitivity is None for s in ins), 'sens without seed changed something'
            elif op=='cycle_noreset':
                for s,x in zip(ins,xs): s.state = x
                net.response(); outs[-1].sensitivity = np.ones_like(dense(outs[-1].state)); net.sensitivity()
        net.reset()
        assert all(s.sensitivity is None for m in net.mods for s in m.sig_in+m.sig_out), 'reset left sensitivity'
        xs = rand_inputs(rng, ins)
        # final cycle on the used network
        net.response()  # dummy to have outputs' shapes
        seeds = [rng.standard_normal(np.shape(dense(o.state))) if rng.random()<0.7 else None for o in outs]
        if all(w is None for w in seeds): seeds[0] = rng.standard_normal(np.shape(dense(outs[0].state)))
        y1, g1 = cycle(net, ins, outs, xs, seeds)
        net2, ins2, outs2 = build(kind, rng)
        y2, g2 = cycle(net2, ins2, outs2, xs, seeds)
        for a,b in zip(y1+g1, y2+g2):
            if a is None or b is None:
                assert a is None and b is None; continue
            worst = max(worst, np.abs(a-b).max()/max(np.abs(b).max(),1e-30))
    print(kind, 'worst rel diff vs fresh', f'{worst:.2e}', 'ops', nops)
