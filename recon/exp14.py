import numpy as np, warnings, sys, io, contextlib
import pymoto as pym
import pymoto.common.mma as mma_mod
exec(open('exp13.py').read().split("def run(seed, version):")[0])
# simple: minimize sum c (x-t)^2, one inactive constraint
n=4
c0 = np.array([1.,2.,0.5,3.]); t0 = np.array([0.3,-0.2,0.5,0.1])
for version in ['Svanberg2007','Svanberg1987']:
  for maxit in [200]:
    sig = S('x', np.zeros(n)+0.9)
    f = Quad([sig], S('f'), c0, t0, 1.0); g = Lin([sig], S('g'), np.ones(n), None, 100.0)
    net = pym.Network(f, g); hist=[]
    itc = []
    orig = mma_mod.subsolv
    def spy(*a, **k):
        out = orig(*a, **k); itc.append(1); return out
    mma_mod.subsolv = spy
    buf = io.StringIO()
    with contextlib.redirect_stdout(buf):
        pym.minimize_mma(net, [sig], [f.sig_out[0], g.sig_out[0]], xmin=-1.0, xmax=1.0, move=0.3, maxit=maxit, verbosity=0, fn_callback=lambda: hist.append(np.abs(sig.state-t0).max()), mmaversion=version, tolx=1e-9)
    mma_mod.subsolv = orig
    print(version, len(hist), ['%.1e'%h for h in hist[::10]], 'subsolver msgs:', buf.getvalue().count('MMA Subsolver'))
