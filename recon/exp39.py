import numpy as np, warnings, sys
import pymoto as pym
from adj import *
warnings.simplefilter('ignore')
rng = np.random.default_rng(0); S = pym.Signal
res=[]
for t in range(40):
    dim = rng.choice([2,3]); nx,ny = rng.integers(1,6,2); nz = int(rng.integers(1,4)) if dim==3 else 0
    d = pym.DomainDefinition(int(nx),int(ny),nz)
    ax = int(rng.integers(0,dim)); dirv=[0.0]*dim; dirv[ax]=float(rng.choice([-1,1]))
    p = float(rng.choice([10,40])); eps = float(rng.choice([1e-4,1e-6])); ns = 3 if dim==2 else int(rng.choice([5,9]))
    x = rng.random(d.nel); 
    if rng.random()<0.3: x = np.clip(np.round(x)+rng.normal(0,0.01,d.nel),0,1)
    for h0 in [1e-4, 1e-5]:
        err, det = check_module(lambda: (pym.OverhangFilter(S('x'), domain=d, direction=dirv, p=p, eps=eps, nsampling=ns), [x]), rng, h0=h0)
        res.append((h0, p, eps, err, det['est']))
res = np.array(res)
for h0 in [1e-4,1e-5]:
    r = res[res[:,0]==h0]
    print('h0',h0,'max err', r[:,3].max(), 'max est', r[:,4].max(), 'n est>1e-4', int((r[:,4]>1e-4).sum()), 'n err>20est & err>1e-7', int(((r[:,3]>20*r[:,4])&(r[:,3]>1e-7)).sum()))
