import sys, os, hashlib, collections, numpy as np, scipy.sparse as sps, warnings, json
import pymoto as pym
from pymoto import DyadCarrier
from pymoto.core_objects import Module
from pymoto.solvers import LinearSolver, LDAWrapper
def digest(v):
    if v is None: return None
    if isinstance(v, DyadCarrier): return ('dyad', v.shape, tuple(digest(u) for u in v.u), tuple(digest(u) for u in v.v))
    if sps.issparse(v):
        c = v.tocsr(copy=True); c.sum_duplicates(); return ('sp', c.shape, str(c.dtype), hashlib.blake2b(c.data.tobytes()+c.indices.tobytes()+c.indptr.tobytes(), digest_size=12).hexdigest())
    if isinstance(v, np.ndarray): return ('nd', v.shape, str(v.dtype), hashlib.blake2b(np.ascontiguousarray(v).tobytes(), digest_size=12).hexdigest())
    try: return ('py', repr(v))
    except Exception: return ('obj', id(v))
stats = collections.Counter(); viol = collections.Counter(); examples = {}
def note(k, ex=None):
    viol[k]+=1
    if ex is not None and k not in examples: examples[k]=ex
def sigs_of(m): return list(m.sig_in)+list(m.sig_out)
orig_resp, orig_sens, orig_reset = Module.response, Module.sensitivity, Module.reset
def resp(self):
    try:
        ins = [digest(s.state) for s in self.sig_in]; sens = [digest(s.sensitivity) for s in sigs_of(self)]
    except Exception: return orig_resp(self)
    r = orig_resp(self); stats['response']+=1
    if ins != [digest(s.state) for s in self.sig_in]: note(('response changed input state', type(self).__name__))
    if sens != [digest(s.sensitivity) for s in sigs_of(self)]: note(('response changed a sensitivity', type(self).__name__))
    return r
def sens(self):
    try:
        st = [digest(s.state) for s in sigs_of(self)]; seeded = any(s.sensitivity is not None for s in self.sig_out)
        before = [digest(s.sensitivity) for s in sigs_of(self)]
    except Exception: return orig_sens(self)
    r = orig_sens(self); stats['sensitivity']+=1
    if st != [digest(s.state) for s in sigs_of(self)]: note(('sensitivity changed a state', type(self).__name__))
    if not seeded and len(self.sig_out)>0:
        stats['unseeded']+=1
        if before != [digest(s.sensitivity) for s in sigs_of(self)]: note(('unseeded sensitivity changed something', type(self).__name__))
    return r
def reset(self):
    try: st = [digest(s.state) for s in sigs_of(self)]
    except Exception: return orig_reset(self)
    r = orig_reset(self); stats['reset']+=1
    if st != [digest(s.state) for s in sigs_of(self)]: note(('reset changed a state', type(self).__name__))
    return r
Module.response, Module.sensitivity, Module.reset = resp, sens, reset
# Solver monitor
def allsubs(c):
    out=[]
    for s in c.__subclasses__(): out.append(s); out.extend(allsubs(s))
    return out
def wrap_solver(cls):
    if 'solve' in cls.__dict__:
        osolve = cls.__dict__['solve']
        def solve(self, rhs, x0=None, trans='N', _o=osolve, _c=cls):
            x = _o(self, rhs, x0=x0, trans=trans)
            A = getattr(self, '_pmv_A', None)
            if A is not None and _c.__name__ not in ('Preconditioner','DampedJacobi','SOR','ILU','GeometricMultigrid'):
                try:
                    Ad = A
                    M = {'N':Ad,'T':Ad.T,'H':Ad.conj().T}[trans]
                    nb = np.linalg.norm(rhs)
                    if nb>0 and np.all(np.isfinite(rhs)):
                        r = np.linalg.norm(M@x-rhs)/nb
                        stats['solve:'+_c.__name__]+=1
                        tol = 1e-5 if _c.__name__ in ('CG','LDAWrapper') else 1e-8
                        if not r < tol: note(('residual', _c.__name__, trans), float(r))
                        if np.shape(x)!=np.shape(rhs): note(('shape', _c.__name__))
                except Exception as e: stats['solve-monitor-error:'+type(e).__name__]+=1
            return x
        cls.solve = solve
    if 'update' in cls.__dict__:
        oupd = cls.__dict__['update']
        def update(self, A, _o=oupd):
            self._pmv_A = A
            return _o(self, A)
        cls.update = update
for c in allsubs(LinearSolver): wrap_solver(c)
def pytest_sessionfinish(session, exitstatus):
    report()
def report():
    out = dict(stats={k:v for k,v in stats.items()}, violations={str(k):v for k,v in viol.items()}, examples={str(k):v for k,v in examples.items()})
    p = os.environ.get('PMV_OUT', '/tmp/scratch/plug/out')
    os.makedirs(p, exist_ok=True)
    json.dump(out, open(os.path.join(p, f'mon_{os.getpid()}.json'),'w'))
import atexit; atexit.register(report)
