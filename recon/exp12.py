import numpy as np, warnings, scipy.sparse as sps, sys
import pymoto as pym
warnings.simplefilter('ignore')
rng = np.random.default_rng(int(sys.argv[1]) if len(sys.argv)>1 else 0)
S = pym.Signal
def chk(A, B, lam, Q, herm_real):
    Ad = A.toarray() if sps.issparse(A) else A
    Bd = np.eye(Ad.shape[0]) if B is None else (B.toarray() if sps.issparse(B) else B)
    res = np.abs(Ad@Q - (Bd@Q)*lam[None,:]).max()/np.abs(Ad).max()
    nrm = np.abs(np.array([Q[:,i]@Bd@Q[:,i] for i in range(len(lam))])-1).max()
    srt = np.all(np.diff(np.real(lam)) >= -1e-12) if herm_real else np.all(np.argsort(lam)==np.arange(len(lam)))
    mean = min(np.real(np.mean(Q[:,i])) for i in range(len(lam))) if herm_real else 0
    return f'res={res:.1e} norm={nrm:.1e} sorted={srt} minmean={mean:.1e} n={len(lam)} dtype={lam.dtype},{Q.dtype}'
n=6
A = rng.standard_normal((n,n)); As = A+A.T; Ac = A+1j*rng.standard_normal((n,n)); Ah = Ac+Ac.conj().T
Bm = rng.standard_normal((n,n)); Bm = Bm@Bm.T+n*np.eye(n)
Bc = rng.standard_normal((n,n))+1j*rng.standard_normal((n,n)); Bh = Bc@Bc.conj().T + n*np.eye(n)
for name, Am, Bmm, hr in [('sym',As,None,True),('gen',A,None,False),('herm',Ah,None,False),('cgen',Ac,None,False),('sym+B',As,Bm,True),('gen+B',A,Bm,False),('herm+Bh',Ah,Bh,False),('herm+Breal',Ah,Bm,False), ('csym', Ac+Ac.T, None, False)]:
    try:
        sigs = [S('A',Am)] + ([S('B',Bmm)] if Bmm is not None else [])
        m = pym.EigenSolve(sigs); m.response(); lam, Q = [s.state for s in m.sig_out]
        print(f'dense {name:12s}', chk(Am,Bmm,lam,Q,hr))
    except Exception as e: print('dense', name, 'EXC', type(e).__name__, str(e)[:100])
# sparse FE
d = pym.DomainDefinition(4,3)
x = rng.random(d.nel)*0.8+0.2
bc = (d.nodes[0,:]*2+np.arange(2)[None]).flatten()
mK = pym.AssembleStiffness(S('x',x), domain=d, bc=bc); mK.response(); K = mK.sig_out[0].state
mM = pym.AssembleMass(S('x',x), domain=d, bc=bc, ndof=2); mM.response(); M = mM.sig_out[0].state
import scipy.linalg as spla
for nm, sg in [(3,None),(6,0.0),(4,0.5),(5,2.0)]:
    for gen in [False, True]:
        sigs = [S('K',K)] + ([S('M',M)] if gen else [])
        try:
            m = pym.EigenSolve(sigs, nmodes=nm, sigma=sg); m.response(); lam,Q = [s.state for s in m.sig_out]
            Kd = K.toarray(); Md = M.toarray() if gen else np.eye(K.shape[0])
            # mass has zero diag at bc -> use pinv style: compare with dense generalized where M singular => restrict
            if gen:
                free = np.setdiff1d(np.arange(K.shape[0]), bc)
                lall = spla.eigh(Kd[np.ix_(free,free)], Md[np.ix_(free,free)], eigvals_only=True)
            else:
                lall = np.linalg.eigvalsh(Kd)
            s0 = 0.0 if sg is None else sg
            closest = np.sort(lall[np.argsort(np.abs(lall-s0))[:nm]])
            print(f'sparse nm={nm} sigma={sg} gen={gen}', chk(K, M if gen else None, lam, Q, True), 'closest ok:', np.allclose(np.sort(lam), closest, rtol=1e-8))
        except Exception as e: print('sparse', nm, sg, gen, 'EXC', type(e).__name__, str(e)[:150].replace('\n',' '))
