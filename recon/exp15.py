import numpy as np, warnings, sys, io, contextlib
import pymoto as pym
import pymoto.common.mma as mma_mod
exec(open('exp13.py').read().split("def run(seed, version):")[0])
n=4
c0 = np.array([1.,2.,0.5,3.]); t0 = np.array([0.3,-0.2,0.5,0.1])
for off in [100.0, 5.0, 0.9]:
    sig = S('x', np.zeros(n)+0.9)
    f = Quad([sig], S('f'), c0, t0, 1.0); g = Lin([sig], S('g'), np.ones(n), None, off)
    net = pym.Network(f, g); log=[]
    orig = mma_mod.subsolv
    def spy(*a, **k):
        buf = io.StringIO()
        with contextlib.redirect_stdout(buf):
            out = orig(*a, **k)
        log.append((a, k, out, buf.getvalue().count('Subsolver')))
        return out
    mma_mod.subsolv = spy
    with contextlib.redirect_stdout(io.StringIO()):
        pym.minimize_mma(net, [sig], [f.sig_out[0], g.sig_out[0]], xmin=-1.0, xmax=1.0, move=0.3, maxit=40, verbosity=0, tolx=1e-9)
    mma_mod.subsolv = orig
    print('off', off, 'nonconverged flags per iter:', [l[3] for l in log])
    # re-run a failing one with x0=None
    for a,k,out,fl in log:
        if fl:
            with contextlib.redirect_stdout(io.StringIO()) as b2:
                o2 = orig(*a, x0=None)
            x,y,z,lam,xsi,eta,mu,zet,s = out
            print('  fail case: lam',lam,'s',s,'y',y,'z',z,'b',a[9], ' with x0=None msgs:', b2.getvalue().count('Subsolver'), 'x diff', np.abs(o2[0]-x).max())
            break
