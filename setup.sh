#!/bin/bash
# Offline installation of the third-party packages the monitors need, beside the repository's interpreter.
set -e
cd "$(dirname "$0")"
if [ ! -d .deps/sympy ] || [ ! -d .deps/icontract ]; then
  rm -rf .deps.tmp
  PIP_NO_INDEX=1 /venv/bin/pip install -q --no-index --find-links /opt/veriftools/wheels --target .deps.tmp sympy mpmath icontract jsonschema >/dev/null 2>&1 \
    || PIP_NO_INDEX=1 /venv/bin/pip install --no-index --find-links /opt/veriftools/wheels --target .deps.tmp sympy mpmath icontract jsonschema
  rm -rf .deps && mv .deps.tmp .deps
fi
echo "setup ok: $(ls .deps | wc -l) entries in .deps"
