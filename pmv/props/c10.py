"""C10 — MMA iterates respect bounds and move limits and converge on convex problems.

minimize_mma is run on problems written as user modules with analytic values/gradients, with the design variables
spread over 1-3 signals (Python scalars and arrays) and bounds/move limits given as scalar / per signal / per variable.
A spy rebinds pymoto.common.mma.subsolv (module global, looked up at call time) and records the arguments and the
result of every subproblem; fn_callback records the variable signals before every response.
Per iteration: bounds, move limit, value/gradient reproduction of the convex approximations, asymptotes strictly
enclosing [alfa,beta], returned x strictly inside (alfa,beta), independent KKT residual <= 20*eps (or, where the
published algorithm itself exhausts its Newton steps, <= 10 x the residual of the executable model of Svanberg's
subsolv.m), write-back of the solution to the right signals.  Per run: approach to the known optimum, constraints."""
import contextlib
import io
import warnings

import numpy as np

from ..core import Violation, require, Inconclusive
from ..oracles.mma_model import subsolv_ref, kkt_residual

ID = "C10"
LEVEL = "exploration"
MONITORS = ["module"]
ANCHORS = ["common/mma.py", "routines.py", "utils.py"]
RULE = ("case = one minimize_mma run (problem class x sizes x bound/move specification x MMA version x asymptote parameters); distinct = "
        "(class, #signals, scalar/array mix, bound form, move form, version, m); non-trivial = at least 3 subproblems solved")
ASSUMPTIONS = [
    "KKT residual of a returned subproblem solution <= 20*epsimin_scaled (last barrier value in (eps,10eps], loop stops at 0.9*barrier); where "
    "pyMOTO prints 'MMA Subsolver: itt' (Newton steps exhausted) the residual is judged against the executable model of subsolv.m: "
    "<= max(20 eps, 10 x model residual)",
    "class A (well posed: monotone objective + active volume constraint, or strictly convex quadratic with optimum on active constraints/bounds): "
    "final distance to the reference optimum <= 2e-3*range and <= 5 % of the initial distance, constraints <= 1e-5 (measured on the unchanged "
    "tree: <= 2e-4 range, <= 1e-6); class B (interior optimum/inactive constraints): distance <= 3 % of range "
    "(oscillation amplitude from the minimum asymptote distance 1/asybound^2) and constraints <= 1e-5",
    "constraints are generated with unit gradient norm (multipliers << the elastic penalty c_i = 1000 of the MMA subproblem; beyond it MMA trades "
    "infeasibility against the objective by design)",
    "a run cut off by maxit on a problem with a coupled (non-separable) quadratic part only has to have reduced its distance to the optimum; a run "
    "that stops by its own step-size criterion must be within 2e-3 (tolx 1e-7) / 1e-2 (tolx 1e-4) of the range of every variable",
    "reference optimum of quadratic problems from scipy SLSQP (ftol 1e-14), of sum c_i/x_i from an analytic multiplier bisection",
]
FLOORS = {"quick": {"cases_held": 50, "subproblems_checked": 1200, "writebacks_checked": 1200, "multi_signal_runs": 25,
                    "scalar_signal_runs": 15, "pervar_bound_runs": 10, "persignal_bound_runs": 8},
          "thorough": {"cases_held": 1500, "subproblems_checked": 40000, "writebacks_checked": 40000, "multi_signal_runs": 700,
                       "scalar_signal_runs": 400, "pervar_bound_runs": 250, "persignal_bound_runs": 250}}
TIMEOUT_CASE = 600


def plan(tier, seed):
    n = 96 if tier == "quick" else 2400
    kinds = ["volume", "volume", "quad-active", "quad-active", "quad-interior", "quad-inactive", "scale-mix", "feasibility", "epigraph"]
    return [{"kind": kinds[i % len(kinds)], "i": i} for i in range(n)]


_CLS = {}


def classes():
    if _CLS:
        return _CLS
    import pymoto as pym

    class Sep(pym.Module):
        """scalar response of the concatenated inputs given by fun(x)->(value, gradient)"""

        def _prepare(self, fun, indep=()):
            self.fun = fun
            self.indep = tuple(indep)        # inputs the response does not depend on: their sensitivity is None, not zeros

        def _response(self, *args):
            self.x = np.concatenate([np.atleast_1d(np.asarray(a, dtype=float)).ravel() for a in args])
            return self.fun(self.x)[0]

        def _sensitivity(self, dy):
            g = dy * self.fun(self.x)[1]
            out, k = [], 0
            for s in self.sig_in:
                n = np.size(s.state)
                gi = g[k:k + n]
                k += n
                out.append(gi.reshape(np.shape(s.state)) if np.ndim(s.state) else float(gi[0]))
            return [None if i in self.indep else o for i, o in enumerate(out)]
    _CLS["Sep"] = Sep
    return _CLS


def make_problem(kind, rng):
    nsig = int(rng.integers(1, 4))
    sizes = [int(rng.choice([1, 1, 2, 3, 6])) for _ in range(nsig)]
    scalar = [sz == 1 and rng.random() < 0.6 for sz in sizes]
    n = sum(sizes)
    P = {"nsig": nsig, "sizes": sizes, "scalar": scalar, "n": n, "kind": kind}
    if kind == "volume":
        lo = np.full(n, 1e-2) if rng.random() < 0.5 else rng.uniform(0.01, 0.1, n)
        hi = np.ones(n) if rng.random() < 0.5 else rng.uniform(0.8, 1.5, n)
        c = rng.uniform(0.2, 3.0, n)
        V = float(rng.uniform(0.3, 0.6))
        vmax = V * np.sum(hi)
        use_scaling = rng.random() < 0.5
        f0 = None

        def fobj(x):
            return float(np.sum(c / x)), -c / x ** 2

        def g1(x):
            return float(np.sum(x) / vmax - 1.0), np.ones(n) / vmax
        # analytic optimum: x_i = clip(sqrt(c_i/lam)), sum x = vmax
        a, b = 1e-12, 1e12
        for _ in range(300):
            lam = np.sqrt(a * b)
            xs = np.clip(np.sqrt(c / lam), lo, hi)
            a, b = (lam, b) if xs.sum() > vmax else (a, lam)
        P.update(lo=lo, hi=hi, funs=[fobj, g1], xopt=xs, x0=np.clip(np.full(n, V) * hi, lo, hi), cls="A", scale_obj=use_scaling)
        return P
    if kind == "epigraph":
        # the bound (min-max) formulation  minimise t  s.t.  q_i(x) - t <= 0 : the objective *is* one of the design variables
        from scipy.optimize import minimize
        nx = int(rng.integers(1, 5))
        sizes = [nx, 1]
        scalar = [False, bool(rng.random() < 0.5)]
        n = nx + 1
        P.update(nsig=2, sizes=sizes, scalar=scalar, n=n)
        qs = []
        for _ in range(int(rng.integers(2, 4))):
            qs.append((rng.uniform(0.5, 2.0, nx), rng.uniform(0.0, 1.0, nx), float(rng.uniform(0.0, 0.3))))

        def q(i, x):
            c, a, b = qs[i]
            return float(np.sum(c * (x - a) ** 2) + b), 2 * c * (x - a)
        funs = [lambda z: (float(z[-1]), np.concatenate([np.zeros(nx), [1.0]]))]
        for i in range(len(qs)):
            funs.append(lambda z, i=i: (q(i, z[:nx])[0] - float(z[-1]), np.concatenate([q(i, z[:nx])[1], [-1.0]])))
        T = max(q(i, np.full(nx, 0.5))[0] for i in range(len(qs))) + 1.5
        lo, hi = np.zeros(n), np.concatenate([np.ones(nx), [T]])
        z0 = np.concatenate([np.full(nx, 0.5), [T - 1.0]])
        r = minimize(lambda z: z[-1], z0, jac=lambda z: np.concatenate([np.zeros(nx), [1.0]]), bounds=list(zip(lo, hi)),
                     constraints=[dict(type="ineq", fun=lambda z, f=f: -f(z)[0], jac=lambda z, f=f: -f(z)[1]) for f in funs[1:]],
                     method="SLSQP", options=dict(ftol=1e-15, maxiter=1000))
        P.update(lo=lo, hi=hi, funs=funs, xopt=r.x if r.success else None, x0=z0, cls="A", scale_obj=False, fixed_bounds=True, epigraph=True)
        return P
    if kind == "feasibility":
        # a pure feasibility problem: constant objective (zero gradient, bit-identical value in every iteration), started infeasible;
        # the run has to keep going until the constraints are satisfied
        lo, hi = np.zeros(n), np.ones(n)
        funs = [lambda x: (1.0, np.zeros(n))]
        xf = rng.uniform(0.55, 0.9, n)
        for _ in range(int(rng.integers(1, 3))):
            a = np.abs(rng.standard_normal(n)) + 0.1
            a = a / np.linalg.norm(a)
            bb = float(a @ xf + rng.uniform(0.02, 0.1))           # x >= ... : feasible around xf, infeasible near the origin
            funs.append(lambda x, a=a, bb=bb: (float(bb - 0.25 - a @ x), -a.copy()))
        P.update(lo=lo, hi=hi, funs=funs, xopt=np.clip(xf + 0.2, 0, 1), x0=np.full(n, 0.05), cls="F", scale_obj=False, fixed_bounds=True)
        return P
    if kind == "scale-mix":
        # two signals of very different physical scale: lengths in [0, 10^k] with a linear objective (they run into their bounds
        # and become stationary early) and thicknesses in [0, 1] coupled through a non-diagonal quadratic (they keep moving)
        from scipy.optimize import minimize
        for _ in range(20):
            nL, nt = int(rng.integers(2, 7)), int(rng.integers(2, 5))
            sL = 10.0 ** rng.integers(1, 4)
            n = nL + nt
            scale = np.concatenate([np.full(nL, sL), np.ones(nt)])
            cL = (3.0 + 2 * rng.random(nL)) * rng.choice([-1, 1], nL)
            Q = rng.standard_normal((nt, nt))
            H = Q @ Q.T / nt + 0.5 * np.eye(nt) + 0.3
            s0 = rng.uniform(0.2, 0.8, nt)
            # all lengths that pay off go to their upper bound, the thicknesses share what is left of the budget (active constraint)
            V = float((np.sum(cL > 0) + rng.uniform(0.5, 0.9) * s0.sum()) / n)

            def fobj(x, cL=cL, H=H, s0=s0, scale=scale, nL=nL):
                u = x / scale
                return float(-cL @ u[:nL] + (u[nL:] - s0) @ H @ (u[nL:] - s0)), np.concatenate([-cL, 2 * H @ (u[nL:] - s0)]) / scale

            def g1(x, scale=scale, n=n, V=V):
                return float(np.sum(x / scale) / n - V), 1.0 / (n * scale)
            r = minimize(lambda u: fobj(u * scale)[0], np.full(n, 0.5), jac=lambda u: fobj(u * scale)[1] * scale, bounds=[(0, 1)] * n,
                         constraints=[dict(type="ineq", fun=lambda u: -g1(u * scale)[0], jac=lambda u: -g1(u * scale)[1] * scale)],
                         method="SLSQP", options=dict(ftol=1e-15, maxiter=1000))
            uL = r.x[:nL]
            if r.success and np.all(np.minimum(uL, 1 - uL) < 1e-9):      # non-degenerate: every length sits at a bound
                break
        else:
            r = None
        P.update(nsig=2, sizes=[nL, nt], scalar=[False, False], n=n)
        P.update(lo=np.zeros(n), hi=scale.copy(), funs=[fobj, g1], xopt=(r.x * scale) if r is not None else None, x0=0.5 * scale, cls="A",
                 scale_obj=False, scaled=True, fixed_bounds=True)
        return P
    lo = rng.uniform(-2, 0, n)
    hi = lo + rng.uniform(0.5, 3, n)
    c0 = rng.uniform(0.5, 3, n)
    scaled = bool(rng.random() < 0.3)
    P["scaled"] = scaled
    if scaled:       # variables of very different ranges (e.g. a thickness in mm next to a density in [0,1])
        k = 0
        for sz in sizes:
            f = 10.0 ** rng.integers(0, 4)
            lo[k:k + sz], hi[k:k + sz] = lo[k:k + sz] * f, hi[k:k + sz] * f
            c0[k:k + sz] = c0[k:k + sz] / f ** 2      # comparable curvature in units of the range
            k += sz
    m = int(rng.integers(1, 4))
    if kind == "quad-active":
        t0 = lo + rng.uniform(-0.5, 1.5, n) * (hi - lo)        # unconstrained optimum partly outside the box
    else:
        t0 = lo + rng.uniform(0.2, 0.8, n) * (hi - lo)

    def fobj(x):
        return float(np.sum(c0 * (x - t0) ** 2) + 1.0), 2 * c0 * (x - t0)
    funs = [fobj]
    xfeas = lo + rng.uniform(0.2, 0.8, n) * (hi - lo)
    cons = []
    indep = {}
    for j in range(m):
        a = rng.standard_normal(n)
        if nsig >= 2 and rng.random() < 0.4:
            # a constraint on part of the design only: it does not depend on one of the variable signals (mostly not the last one)
            isg = int(rng.integers(0, nsig - 1)) if rng.random() < 0.8 else nsig - 1
            k0 = int(sum(sizes[:isg]))
            a[k0:k0 + sizes[isg]] = 0.0
            indep[j + 1] = (isg,)
        if kind == "quad-active" and j == 0:
            bb = a @ t0 - rng.uniform(0.1, 0.5) * np.linalg.norm(a)     # cuts off the unconstrained optimum -> active
            if a @ xfeas - bb > 0:
                xfeas = xfeas - (a @ xfeas - bb + 0.05) * a / (a @ a)
                xfeas = np.clip(xfeas, lo, hi)
        elif kind == "quad-inactive" or kind == "quad-interior":
            bb = max(a @ t0, a @ xfeas) + rng.uniform(0.5, 2.0)       # inactive at the optimum
        else:
            bb = a @ xfeas + rng.uniform(0.1, 1.0)
        # unit gradient: MMA treats constraints through elastic variables with the finite penalty c_i = 1000, so a constraint
        # whose gradient is tiny compared with the objective's (multiplier > 1000) is *meant* to be traded against the objective
        sc = 1.0 / np.linalg.norm(a)
        cons.append((a * sc, bb * sc))
        funs.append(lambda x, a=a * sc, bb=bb * sc: (float(a @ x - bb), a.copy()))
    from scipy.optimize import minimize
    r = minimize(lambda x: fobj(x)[0], np.clip(xfeas, lo, hi), jac=lambda x: fobj(x)[1], bounds=list(zip(lo, hi)),
                 constraints=[dict(type="ineq", fun=lambda x, a=a, bb=bb: -(a @ x - bb), jac=lambda x, a=a: -a) for a, bb in cons],
                 method="SLSQP", options=dict(ftol=1e-14, maxiter=1000))
    feas = all(a @ np.clip(xfeas, lo, hi) - bb <= 1e-9 for a, bb in cons)
    P.update(lo=lo, hi=hi, funs=funs, xopt=r.x if (r.success and feas) else None, x0=lo + rng.uniform(0.1, 0.9, n) * (hi - lo),
             cls="A" if kind == "quad-active" else "B", scale_obj=False, indep=indep)
    return P


def run_case(case, ctx):
    import pymoto as pym
    import pymoto.common.mma as mma_mod
    Sep = classes()["Sep"]
    rng = ctx.rng("c10", case["kind"], case["i"])
    P = make_problem(case["kind"], rng)
    if P["xopt"] is None:
        from ..core import Skip
        raise Skip("reference optimiser did not produce a feasible optimum")
    n, lo, hi = P["n"], P["lo"].copy(), P["hi"].copy()
    sizes, scalar = P["sizes"], P["scalar"]
    # bound / move specification
    mode = str(rng.choice(["scalar", "persig", "pervar"]))
    if P.get("scaled") and mode == "scalar":
        mode = "persig"      # one common bound pair for variables whose scales differ by 1e3 is not a sensible problem statement
    if mode == "scalar":
        lo[:], hi[:] = lo.min(), hi.max()
        xmin, xmax = float(lo[0]), float(hi[0])
    elif mode == "persig":
        k, xmin, xmax = 0, [], []
        for sz in sizes:
            lo[k:k + sz], hi[k:k + sz] = lo[k:k + sz].min(), hi[k:k + sz].max()
            xmin.append(float(lo[k]))
            xmax.append(float(hi[k]))
            k += sz
        if len(xmin) == n and P["nsig"] != n:
            mode = "pervar"
    if mode == "pervar":
        xmin, xmax = lo.copy(), hi.copy()
    if P.get("fixed_bounds"):
        pass       # per-signal / per-variable bounds equal the problem's own box
    elif mode != "pervar" or True:
        # bounds were widened: recompute the reference optimum for the actual box
        if P["kind"] == "volume":
            c = -P["funs"][0](np.ones(n))[1]
            vmax = 1.0 / P["funs"][1](np.ones(n))[1][0]
            a_, b_ = 1e-12, 1e12
            for _ in range(300):
                lam = np.sqrt(a_ * b_)
                xs = np.clip(np.sqrt(c / lam), lo, hi)
                a_, b_ = (lam, b_) if xs.sum() > vmax else (a_, lam)
            if np.sum(hi) <= vmax:
                xs = hi.copy()
            P["xopt"] = xs
        else:
            from scipy.optimize import minimize
            fobj = P["funs"][0]
            cons = P["funs"][1:]
            r = minimize(lambda x: fobj(x)[0], np.clip(P["xopt"], lo, hi), jac=lambda x: fobj(x)[1], bounds=list(zip(lo, hi)),
                         constraints=[dict(type="ineq", fun=lambda x, f=f: -f(x)[0], jac=lambda x, f=f: -f(x)[1]) for f in cons],
                         method="SLSQP", options=dict(ftol=1e-14, maxiter=1000))
            if not r.success:
                from ..core import Skip
                raise Skip("reference optimiser failed")
            P["xopt"] = r.x
    mvmode = str(rng.choice(["scalar", "scalar", "persig", "pervar"]))
    mv = float(rng.choice([0.05, 0.1, 0.2, 0.5]))
    if mvmode == "scalar":
        move, movev = mv, np.full(n, mv)
    elif mvmode == "persig" and P["nsig"] != n:
        ms = [float(rng.choice([0.05, 0.1, 0.3])) for _ in sizes]
        move, movev = ms, np.concatenate([np.full(sz, m_) for sz, m_ in zip(sizes, ms)])
    else:
        mvmode = "pervar"
        movev = rng.choice([0.05, 0.1, 0.3], n).astype(float)
        move = movev.copy()
    x0 = np.clip(P["x0"], lo, hi)
    # a start that happens to be stored with an integer type (Signal('x', 1), np.ones(n, dtype=int)) is a perfectly admissible start
    int_start, k = [], 0
    for sz in sizes:
        a, b = np.ceil(lo[k:k + sz]), np.floor(hi[k:k + sz])
        ok = bool(np.all(a <= b)) and rng.random() < 0.2
        if ok:
            x0[k:k + sz] = np.clip(np.round(x0[k:k + sz]), a, b)
            ctx.count("integer_typed_starts")
        int_start.append(ok)
        k += sz
    sigs, k = [], 0
    for (sz, sc), isint in zip(zip(sizes, scalar), int_start):
        if isint:
            sigs.append(pym.Signal(f"v{len(sigs)}", int(x0[k]) if sc else x0[k:k + sz].astype(int)))
            k += sz
            continue
        if not sc and rng.random() < 0.15:
            # a start design stored in single precision: bounds and move limits are those the user gave (doubles), not their float32 images
            sigs.append(pym.Signal(f"v{len(sigs)}", x0[k:k + sz].astype(np.float32)))
            x0[k:k + sz] = x0[k:k + sz].astype(np.float32).astype(float)
            ctx.count("single_precision_starts")
            k += sz
            continue
        if not sc and rng.random() < 0.3:     # a variable signal with a pre-allocated sensitivity (reset() zeroes it in place)
            sigs.append(pym.Signal(f"v{len(sigs)}", x0[k:k + sz].copy(), sensitivity=np.zeros(sz)))
            ctx.count("preallocated_variable_signals")
        else:
            sigs.append(pym.Signal(f"v{len(sigs)}", float(x0[k]) if sc else x0[k:k + sz].copy()))
        k += sz
    mods = [Sep(sigs, pym.Signal(f"g{j}"), f, indep=P.get("indep", {}).get(j, ())) for j, f in enumerate(P["funs"])]
    if P.get("epigraph"):
        mods = mods[1:]          # the objective is the last design-variable signal itself, no module computes it
    if P.get("indep"):
        ctx.count("responses_independent_of_a_variable_signal", len(P["indep"]))
    resp = [m.sig_out[0] for m in mods]
    if P.get("epigraph"):
        resp = [sigs[-1]] + resp
        ctx.count("runs_whose_objective_is_a_design_variable")
    objscale = 1.0
    if P["scale_obj"]:
        sc_mod = pym.Scaling(resp[0], pym.Signal("f_scaled"), scaling=10.0)
        mods.insert(1, sc_mod)
        resp[0] = sc_mod.sig_out[0]
        objscale = 10.0 / abs(P["funs"][0](x0)[0])
    net = pym.Network(*mods)
    version = str(rng.choice(["Svanberg2007", "Svanberg2007", "Svanberg1987"]))
    kw = dict(asyinit=float(rng.choice([0.5, 0.2])), asyincr=float(rng.choice([1.2, 1.1])), asydecr=float(rng.choice([0.7, 0.5])),
              albefa=float(rng.choice([0.1, 0.2])))
    relaxed = False
    if rng.random() < 0.12 and P["cls"] != "F":
        # Svanberg's general form with a_i > 0: the constraints may be relaxed through z at the price a0*z - the optimum of *that*
        # problem is not the reference optimum, so only the per-iteration clauses are judged for these runs
        kw.update(a=rng.uniform(0.1, 1.0, len(P["funs"]) - 1), a0=1.0)
        relaxed = True
        ctx.count("runs_with_nonzero_a")
    ccoef = None
    if rng.random() < 0.3:
        ccoef = float(rng.choice([1e4, 1e5, 3e3]))
        kw["cCoef"] = ccoef
    maxit = int(rng.choice([15, 40, 60]))
    tolx = float(rng.choice([1e-7, 1e-4]))       # 1e-4 is the default stopping tolerance on the relative (range-normalised) step
    log, states = [], []
    orig = mma_mod.subsolv

    def spy(epsimin, low, upp, alfa, beta, Pm, Qm, a0, a, b, c, d, x0=None):
        buf = io.StringIO()
        with contextlib.redirect_stdout(buf):
            out = orig(epsimin, low, upp, alfa, beta, Pm, Qm, a0, a, b, c, d, x0=x0)
        log.append(dict(eps=epsimin, low=low.copy(), upp=upp.copy(), alfa=alfa.copy(), beta=beta.copy(), P=Pm.copy(), Q=Qm.copy(), a0=a0,
                        a=np.array(a, dtype=float), b=b.copy(), c=np.array(c, dtype=float), d=np.array(d, dtype=float), x0=x0.copy(),
                        out=[np.copy(o) for o in out], exhausted="MMA Subsolver" in buf.getvalue()))
        return out

    def cb():
        states.append(np.concatenate([np.atleast_1d(np.asarray(s.state, dtype=float)).ravel() for s in sigs]))
        for s, sc, sz in zip(sigs, scalar, sizes):
            require(np.size(s.state) == sz, "write-back/variable-signal-changed-size", tag=s.tag, size=int(np.size(s.state)), want=sz)
    if rng.random() < 0.3:
        # the user looked at a gradient first: response, seed, sensitivity - and starts the optimisation without calling reset()
        with contextlib.redirect_stdout(io.StringIO()), warnings.catch_warnings():
            warnings.simplefilter("ignore")
            net.response()
            resp[int(rng.integers(0, len(resp)))].sensitivity = 1.0
            net.sensitivity()
        ctx.count("runs_started_with_sensitivities_left_on_the_signals")
    mma_mod.subsolv = spy
    try:
        with contextlib.redirect_stdout(io.StringIO()), warnings.catch_warnings():
            warnings.simplefilter("ignore")
            pym.minimize_mma(net, sigs, resp, xmin=xmin, xmax=xmax, move=move, maxit=maxit, verbosity=0, fn_callback=cb,
                             mmaversion=version, tolx=tolx, **kw)
    finally:
        mma_mod.subsolv = orig
    final = np.concatenate([np.atleast_1d(np.asarray(s.state, dtype=float)).ravel() for s in sigs])
    X = np.array(states)
    rngx = hi - lo
    desc = dict(kind=P["kind"], n=n, sizes=sizes, scalar=scalar, bounds=mode, move=mvmode, version=version, its=len(log), tolx=tolx)
    require(len(X) >= 1 and X.shape[1] == n, "recorder/variables-wrong-size", **desc)
    # ---- bounds and move limits on every design the optimiser evaluated
    tolb = 1e-12 * (1 + np.abs(hi) + np.abs(lo))
    for itn, xv in enumerate(np.vstack([X, final[None]])):
        if np.any(xv < lo - tolb) or np.any(xv > hi + tolb):
            raise Violation("iterate-outside-bounds", iteration=itn, worst=float(max((lo - xv).max(), (xv - hi).max())), **desc)
    allx = np.vstack([X, final[None]])
    steps = np.abs(np.diff(allx, axis=0))
    if steps.size and np.any(steps > movev * rngx * (1 + 1e-10) + 1e-13):
        it_ = int(np.argmax((steps - movev * rngx).max(axis=1)))
        raise Violation("step-exceeds-move-limit", iteration=it_, worst=float((steps - movev * rngx).max()), movelimit=float(mv), **desc)
    # ---- per subproblem
    worst_kkt, worst_app, nexh = 0.0, 0.0, 0
    for itn, L in enumerate(log):
        xv = L["x0"]
        require(np.max(np.abs(xv - X[itn])) == 0, "subproblem-built-at-a-different-design-than-the-signals-hold", iteration=itn, **desc)
        ok = np.all(L["low"] < L["alfa"]) and np.all(L["alfa"] <= xv + 1e-14 * (1 + abs(xv))) and \
            np.all(xv <= L["beta"] + 1e-14 * (1 + abs(xv))) and np.all(L["beta"] < L["upp"])
        require(bool(ok), "asymptotes-do-not-strictly-enclose-admissible-interval", iteration=itn, **desc)
        if ccoef is not None:
            require(bool(np.all(np.asarray(L["c"], dtype=float) == ccoef)), "subproblem-built-with-a-different-penalty-than-requested",
                    requested=ccoef, got=np.asarray(L["c"], dtype=float), iteration=itn, **desc)
        if relaxed:
            require(bool(np.allclose(L["a"], kw["a"])) and float(L["a0"]) == 1.0, "subproblem-built-with-different-a-than-requested", iteration=itn, **desc)
        require(np.all(L["alfa"] >= lo - tolb) and np.all(L["beta"] <= hi + tolb), "subproblem-bounds-outside-variable-bounds", iteration=itn, **desc)
        require(np.all(xv - L["alfa"] <= movev * rngx * (1 + 1e-10) + 1e-13) and np.all(L["beta"] - xv <= movev * rngx * (1 + 1e-10) + 1e-13),
                "subproblem-bounds-exceed-move-limit", iteration=itn, **desc)
        vals = [f(xv) for f in P["funs"]]
        sh, sl = L["upp"] - xv, xv - L["low"]
        for i in range(len(vals)):
            f_i, g_i = vals[i]
            if i == 0:
                f_i, g_i = f_i * objscale, g_i * objscale
            grad = L["P"][i] / sh ** 2 - L["Q"][i] / sl ** 2
            ea = float(np.max(np.abs(grad - g_i)) / max(1.0, np.max(np.abs(g_i))))
            if i > 0:
                val = L["P"][i] @ (1 / sh) + L["Q"][i] @ (1 / sl) - L["b"][i - 1]
                ea = max(ea, abs(val - f_i) / max(1.0, abs(f_i)))
            worst_app = max(worst_app, ea)
            if ea > 1e-9:
                raise Violation("approximation-does-not-reproduce-value-or-gradient", response=i, err=ea, iteration=itn, **desc)
            require(np.all(L["P"][i] >= 0) and np.all(L["Q"][i] >= 0), "approximation-not-convex", response=i, iteration=itn, **desc)
        x, y, z, lam, xsi, eta, mu, zet, s = L["out"]
        if not np.all(np.isfinite(x)):
            # the interior-point iteration broke down (1/0 when an iterate rounds onto its bound).  If the executable model of the
            # published algorithm breaks down on the same subproblem, the library is faithful to it and the finding is the listed one
            (xr, *_r), _n = subsolv_ref(L["eps"], L["low"], L["upp"], L["alfa"], L["beta"], L["P"], L["Q"], L["a0"], L["a"], L["b"], L["c"], L["d"],
                                        x0=L["x0"])
            same = not np.all(np.isfinite(xr))
            raise Violation("subproblem-solution-not-finite" + ("/published-subsolver-breaks-down-on-the-same-subproblem" if same else ""),
                            iteration=itn, max_abs_bound=float(max(np.max(np.abs(L["alfa"])), np.max(np.abs(L["beta"])))),
                            c=float(np.max(L["c"])), eps=float(L["eps"]), **desc)
        if not (np.all(x > L["alfa"]) and np.all(x < L["beta"])):
            raise Violation("subproblem-solution-not-strictly-inside-interval", iteration=itn, **desc)
        args = (L["low"], L["upp"], L["alfa"], L["beta"], L["P"], L["Q"], L["a0"], L["a"], L["b"], L["c"], L["d"])
        kk = kkt_residual(x, y, z, lam, xsi, eta, mu, zet, s, *args)
        lim = 20 * L["eps"]
        if kk > lim and (L["exhausted"] or P["cls"] == "B") and nexh >= 6:
            ctx.count("subproblems_beyond_model_budget")      # the executable model is expensive: at most 6 comparisons per run
            continue
        if kk > lim and (L["exhausted"] or P["cls"] == "B"):
            (xr, yr, zr, lr, xsr, er, mr, ztr, sr), nex = subsolv_ref(L["eps"], *args, x0=xv)
            kr = kkt_residual(xr, yr, zr, lr, xsr, er, mr, ztr, sr, *args)
            lim = max(lim, 10 * kr)
            nexh += 1
            ctx.count("subproblems_judged_against_model")
        worst_kkt = max(worst_kkt, kk / L["eps"])
        ctx.count("subproblems_checked")
        if kk > lim:
            raise Violation("subproblem-solution-violates-optimality-conditions", kkt=kk, eps=L["eps"], limit=lim, iteration=itn, **desc)
        if itn + 1 < len(X):      # the solution of the last subproblem is only written at the start of a next iteration
            nxt = X[itn + 1]
            ctx.count("writebacks_checked")
            if np.max(np.abs(nxt - x)) > 0:
                bad = int(np.argmax(np.abs(nxt - x)))
                raise Violation("solution-written-back-to-wrong-signal-or-entry", iteration=itn, entry=bad, **desc)
    # ---- per run: approach to the optimum
    xopt = P["xopt"]
    gfin = max([f(final)[0] for f in P["funs"][1:]] + [-1.0])
    d0 = float(np.max(np.abs(X[0] - xopt) / rngx))
    dist = float(np.max(np.abs(final - xopt) / rngx))
    converged_early = len(log) < maxit
    if relaxed or P.get("epigraph"):
        # (bound formulation: every constraint is active at the optimum and MMA creeps along the constraint boundaries - measured on the
        # unchanged tree: 3e-4 constraint violation after 60 iterations; only the per-iteration clauses are judged for these runs)
        pass
    elif (len(log) >= 12 and len(log) < 1.5 * float(np.max(np.abs(X[0] - xopt) / (movev * rngx))) + 6) and not converged_early:
        # (the move limit does not let the iterates get from the start to the optimum in the iterations allowed: 0.05 of the range per
        # iteration, 15 iterations, an infeasible start at the other end of the box - nothing is claimed for such a run)
        ctx.count("runs_too_short_to_reach_the_optimum_within_the_move_limit")
    elif len(log) >= 12 or converged_early:
        if gfin > 1e-5:
            raise Violation("constraints-not-satisfied-at-the-end", gmax=gfin, **desc)
        if P["cls"] == "F":
            ctx.count("feasibility_runs_judged")
        elif len(log) >= 30 or converged_early:
            limit = 2e-3 if P["cls"] == "A" else 3e-2
            if P["kind"] in ("scale-mix", "epigraph"):
                # coupled quadratic part: a first-order method may be slow, so a run cut off by maxit only has to have made progress;
                # a run that stopped by itself claims convergence (remaining error ~ step*rho/(1-rho): 1e-2 is generous for tolx=1e-4)
                limit = (1e-2 if tolx > 1e-5 else 2e-3) if converged_early else 0.9 * d0
            # a run that stopped by itself (step-size criterion, tolx = 1e-7) claims convergence: no allowance for "still on its way"
            if dist > limit and not (P["cls"] == "A" and dist <= 0.05 * d0 and not converged_early):
                raise Violation("iterates-do-not-approach-the-optimum", dist=dist, initial=d0, cls=P["cls"], **desc)
            ctx.count("convergence_checked")
    if P["nsig"] > 1:
        ctx.count("multi_signal_runs")
    if any(scalar):
        ctx.count("scalar_signal_runs")
    ctx.count({"scalar": "scalar_bound_runs", "persig": "persignal_bound_runs", "pervar": "pervar_bound_runs"}[mode])
    return {"key": f"{P['kind']}/{P['nsig']}/{''.join('s' if s else 'a' for s in scalar)}/{mode}/{mvmode}/{version[-4:]}/m{len(P['funs']) - 1}",
            "nontrivial": len(log) >= 3,
            "obs": {"its": len(log), "kkt_over_eps": worst_kkt, "approx_err": worst_app, "dist_to_opt": dist, "initial_dist": d0,
                    "gmax": gfin, "model_comparisons": nexh}}
