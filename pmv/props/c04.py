"""C04 — backpropagation is linear in the seed, accumulative, and leaves states untouched.

For every configuration of the module catalogue (the same as C01): g(a*w1+b*w2) = a*g(w1)+b*g(w2) for real scalars,
sensitivity() twice without reset() adds the same contribution twice, sensitivity()/reset() leave every state
digest-identical, response() leaves input states and all sensitivities digest-identical (explicit digests here and the
ModuleMonitor clauses on every monitored call), and the caller's seed arrays are not corrupted."""
import copy
import warnings

import numpy as np

from ..core import Violation, require, Skip, Inconclusive, digest, todense, rand_like, relerr, is_dyad
from ..oracles import catalogue

ID = "C04"
LEVEL = "exploration"
MONITORS = ["module", "dyad", "signal"]
ANCHORS = ["core_objects.py", "modules/filter.py", "modules/assembly.py", "modules/linalg.py"]
RULE = ("case = one configuration from the module catalogue; per case: 3 seedings for linearity (w1, w2, a*w1+b*w2 with partial seeds), "
        "one double sensitivity(), digests of all states/sensitivities around every call; distinct = option-class key; non-trivial = "
        "some back-propagated sensitivity is non-zero")
ASSUMPTIONS = [
    "scalars a, b are real: the map seed -> sensitivity is real-linear (real inputs of complex modules take real parts)",
    "identities to 1e-9 relative (max-norm) - they are exact linear-algebra identities of the same computation",
    "a seed array that a module masks idempotently in place (AssembleGeneral zeroes boundary-condition rows/columns of its seed) is "
    "reported as counter seed_mutated_idempotent, not as a violation; non-idempotent mutation shows through the 'twice' clause",
]
FLOORS = {"quick": {"cases_held": 600, "linearity_checks": 600, "twice_checks": 600, "mon_sensitivity": 3000, "mon_reset": 2000,
                    "examples_completed": 12, "example_monitored_calls": 1000},
          "thorough": {"cases_held": 20000, "linearity_checks": 20000, "twice_checks": 20000, "mon_sensitivity": 100000, "mon_reset": 60000,
                       "examples_completed": 36, "example_monitored_calls": 5000}}
TIMEOUT_CASE = 1800


def _examples():
    import glob
    import os
    root = os.path.join(os.environ.get("PMV_REPO", "/repo"), "examples")
    if not os.path.isdir(root):
        root = "/repo/examples"
    return sorted(os.path.relpath(p, root) for p in glob.glob(os.path.join(root, "**", "*.py"), recursive=True)), root


def plan(tier, seed):
    n = 1000 if tier == "quick" else 30000
    fams = []
    for f, w in catalogue.WEIGHTS.items():
        fams += [f] * w
    cases = [{"family": fams[i % len(fams)], "i": i} for i in range(n)]
    cases += [{"family": "nearspan", "i": i} for i in range(60 if tier == "quick" else 600)]
    if tier == "thorough":
        # the repository's own test-suite as a workload under all online monitors (one case per test file)
        cases += [{"family": "testsuite", "file": f} for f in _testfiles()]
    # the repository's own example scripts as end-to-end workloads under the purity monitors
    ex, _ = _examples()
    for mesh in ([(12, 6, 4)] if tier == "quick" else [(12, 6, 4), (8, 8, 2), (16, 4, 4)]):
        cases += [{"family": "example", "script": e, "mesh": list(mesh), "maxit": 4 if tier == "quick" else 8} for e in ex]
    return cases


def _testfiles():
    import glob
    import os
    root = os.path.join(os.environ.get("PMV_REPO", "/repo"), "tests")
    if not os.path.isdir(root):
        root = "/repo/tests"
    return sorted(os.path.basename(p) for p in glob.glob(os.path.join(root, "test_*.py")))


def run_testsuite(case, ctx):
    """one test file of the repository run by pytest in a child process with pmv.pytest_plugin: whatever the monitors flag while the
    tests drive the library is the verdict (the outcome of the tests is not: the baseline has failing tests)."""
    import json
    import os
    import subprocess
    import sys
    import tempfile
    repo = os.environ.get("PMV_REPO", "/repo")
    root = repo if os.path.isdir(os.path.join(repo, "tests")) else "/repo"
    here = os.path.dirname(os.path.dirname(os.path.dirname(os.path.abspath(__file__))))
    with tempfile.TemporaryDirectory() as tmp:
        out = os.path.join(tmp, "mon.json")
        env = dict(os.environ, PMV_PLUGIN_OUT=out, PYTHONPATH=os.pathsep.join([repo, here, os.path.join(here, ".deps")]), MPLBACKEND="Agg")
        # the tests import pymoto from the current directory: run them from a directory that only holds the tests
        tdir = os.path.join(tmp, "t")
        os.makedirs(tdir)
        import shutil
        shutil.copytree(os.path.join(root, "tests"), os.path.join(tdir, "tests"))
        r = subprocess.run([sys.executable, "-m", "pytest", "-q", "--no-header", "-p", "no:cacheprovider", "-p", "pmv.pytest_plugin",
                            "--timeout=1500", os.path.join("tests", case["file"])], cwd=tdir, env=env, capture_output=True, text=True,
                           timeout=1700)
        if not os.path.exists(out):
            raise Inconclusive("pytest child wrote no monitor report", tail=(r.stdout + r.stderr)[-300:])
        rep = json.load(open(out))
    n = sum(v for k, v in rep["counters"].items() if k.startswith("mon_"))
    ctx.count("testsuite_monitored_calls", n)
    ctx.count("testsuite_files")
    for mech, det in rep["violations"]:
        ctx.violate("testsuite/" + mech, **det)
    return {"key": "testsuite/" + case["file"], "nontrivial": n > 0, "obs": {"file": case["file"], "monitored_calls": n,
                                                                                "tests_started": rep["counters"].get("tests_started", 0)}}


def run_example(case, ctx):
    """exec one shipped example headless with a shrunk mesh and a few optimiser iterations; the verdict comes only from the
    ModuleMonitor / DyadInvariant clauses that fire while it runs (exceptions of the script itself are not C04's business)."""
    import contextlib
    import io
    import os
    import re
    import tempfile
    import pymoto as pym
    from ..monitors import STATE
    _, root = _examples()
    path = os.path.join(root, case["script"])
    src = open(path).read()
    nx, ny, nz = case["mesh"]
    src = re.sub(r"^nx, ny, nz = \d+, \d+, (\d+)", lambda m: f"nx, ny, nz = {nx}, {ny}, {0 if m.group(1) == '0' else nz}", src, flags=re.M)
    src = re.sub(r"^nx, ny = .*$", f"nx, ny = {nx}, {ny}", src, flags=re.M)
    o_mma, o_oc = pym.minimize_mma, pym.minimize_oc

    def mma(*a, **k):
        k["maxit"], k["verbosity"] = case["maxit"], 0
        return o_mma(*a, **k)

    def oc(*a, **k):
        k["maxit"], k["verbosity"] = case["maxit"], 0
        return o_oc(*a, **k)
    pym.minimize_mma, pym.minimize_oc = mma, oc
    before = STATE.counters["mon_response"] + STATE.counters["mon_sensitivity"]
    cwd = os.getcwd()
    status = "completed"
    with tempfile.TemporaryDirectory() as tmp:
        os.chdir(tmp)
        try:
            with contextlib.redirect_stdout(io.StringIO()), warnings.catch_warnings():
                warnings.simplefilter("ignore")
                exec(compile(src, path, "exec"), {"__name__": "__main__", "__file__": path})
        except SystemExit:
            status = "exit"
        except Exception as e:  # noqa: BLE001
            status = f"script raised {type(e).__name__}"
        finally:
            os.chdir(cwd)
            pym.minimize_mma, pym.minimize_oc = o_mma, o_oc
            try:
                import matplotlib.pyplot as plt
                plt.close("all")
            except Exception:
                pass
    calls = STATE.counters["mon_response"] + STATE.counters["mon_sensitivity"] - before
    ctx.count("example_monitored_calls", calls)
    ctx.count("examples_" + ("completed" if status == "completed" else "not_completed"))
    return {"key": "example/" + case["script"] + "/" + "x".join(map(str, case["mesh"])), "nontrivial": calls > 10,
            "obs": {"script": case["script"], "status": status, "monitored_calls": calls}}


def _states(mod):
    return [digest(s.state) for s in list(mod.sig_in) + list(mod.sig_out)]


def _grab(mod):
    return [copy.deepcopy(s.sensitivity) for s in mod.sig_in]


def _lin(a, g1, b, g2):
    out = []
    for x, y in zip(g1, g2):
        if x is None and y is None:
            out.append(None)
        else:
            xd = 0 if x is None else todense(x)
            yd = 0 if y is None else todense(y)
            out.append(a * xd + b * yd)
    return out


def _cmp(ga, gb, floor_abs=0.0):
    worst = 0.0
    # the sensitivity of one input may cancel to zero while its summands are as large as the other inputs' sensitivities (a scalar
    # input of MathGeneral: sum_i w_i df_i = 0 exactly for both seeds, 1e-16 of the summands for their combination): an input is
    # compared relative to its own size, but not below 1e-5 of the largest one (limit 1e-9: absolute errors above 1e-14 of the largest count)
    joint = 0.0
    for z in list(ga) + list(gb):
        if z is not None:
            zd = np.asarray(todense(z))
            if zd.size and np.all(np.isfinite(zd)):
                joint = max(joint, float(np.max(np.abs(zd))))
    for x, y in zip(ga, gb):
        if x is None and y is None:
            continue
        xd = np.zeros_like(todense(y)) if x is None else todense(x)
        yd = np.zeros_like(todense(x)) if y is None else todense(y)
        worst = max(worst, relerr(xd, yd, floor=max(1e-300, 1e-5 * joint, floor_abs)))
    return worst


def run_nearspan(case, ctx):
    """LinSolve re-uses stored solutions (LDAWrapper, documented default tolerance 1e-7).  A seed a*w1 + b*w2 whose second part is
    small but well above that tolerance must still contribute b*g(w2): linearity may only be lost below the wrapper tolerance."""
    import pymoto as pym
    from ..oracles import matgen
    rng = ctx.rng("nearspan", case["i"])
    n = int(rng.integers(4, 14))
    cls = str(rng.choice(["spd", "sym", "gen", "hpd", "csym"]))
    A = matgen.make(rng, cls, n, cond=10 ** rng.uniform(0, 2))
    cp = np.iscomplexobj(A)
    st = str(rng.choice(["dense", "csc"]))
    b = rng.standard_normal(n) + (1j * rng.standard_normal(n) if cp else 0)
    m = pym.LinSolve([pym.Signal("A", matgen.to_storage(A, st)), pym.Signal("b", b)], pym.Signal("x"))
    m.response()
    w2 = rng.standard_normal(n) + (1j * rng.standard_normal(n) if cp else 0)
    eps = float(10 ** rng.uniform(-5.7, -3))          # relative size of the second part: >= 20 x the documented tolerance 1e-7
    # w1: something the wrapper can answer from its database (for A = A^T the primal rhs; otherwise the seed solved just before)
    w1 = b.copy() if cls in ("spd", "sym", "csym") else rng.standard_normal(n) + (1j * rng.standard_normal(n) if cp else 0)

    def bp(w):
        m.sig_out[0].sensitivity = w.copy()
        m.sensitivity()
        g = np.array(m.sig_in[1].sensitivity)
        m.reset()
        return g
    g1 = bp(w1)
    bcoef = eps * np.linalg.norm(w1) / np.linalg.norm(w2)
    g12 = bp(w1 + bcoef * w2)
    g2 = bp(w2)
    err = np.linalg.norm(g12 - (g1 + bcoef * g2)) / np.linalg.norm(bcoef * g2)
    ctx.count("nearspan_checks")
    if not err <= 0.05:
        raise Violation("not-linear-in-seed/LinSolve-drops-small-seed-component-above-wrapper-tolerance", rel_size_of_component=eps,
                        fraction_of_its_contribution_lost=float(err), cls=cls, storage=st)
    return {"key": f"nearspan/{cls}/{st}", "nontrivial": True, "obs": {"eps": eps, "lost_fraction": float(err)}}


def run_case(case, ctx):
    if case["family"] == "example":
        return run_example(case, ctx)
    if case["family"] == "nearspan":
        return run_nearspan(case, ctx)
    if case["family"] == "testsuite":
        return run_testsuite(case, ctx)
    rng = ctx.rng("c04", case["family"], case["i"])
    with warnings.catch_warnings():
        warnings.simplefilter("ignore")
        if case["family"] == "aggregation":
            cfg = catalogue.gen_aggregation(rng, ctx.tier, damped_history=True)
        else:
            cfg = catalogue.GENERATORS[case["family"]](rng, ctx.tier)
        mod = cfg.build()
        ins0 = [digest(s.state) for s in mod.sig_in]
        mod.response()
    require(ins0 == [digest(s.state) for s in mod.sig_in], "response-changes-input-state", module=cfg.name, key=cfg.key)
    y0 = [s.state for s in mod.sig_out]
    nout = len(y0)

    def seeds(partial):
        mask = [True] * nout
        # (interaction of outputs: every output seeded, but only some columns of the matrix-valued ones - e.g. all eigenvalues and
        # one mode shape)
        allcols = partial and nout > 1 and rng.random() < 0.4
        if partial and nout > 1 and not allcols:
            mask = [bool(b) for b in rng.integers(0, 2, nout)]
            if not any(mask):
                mask[0] = True
        out = [(cfg.seed_gen(rng, y0[j], j) if cfg.seed_gen else rand_like(rng, todense(y0[j]))) if mask[j] else None for j in range(nout)]
        if partial:
            # matrix-valued seeds with only some columns set (one mode / one load case seeded, the others not)
            for j, w in enumerate(out):
                if isinstance(w, np.ndarray) and w.ndim == 2 and w.shape[1] > 1 and (allcols or rng.random() < 0.6):
                    keep = rng.integers(0, 2, w.shape[1]).astype(bool)
                    keep[int(rng.integers(w.shape[1]))] = True
                    w[:, ~keep] = 0
        # a seed whose entries cancel exactly (a relative displacement +1/-1 on two dofs) is not a zero seed
        for j, w in enumerate(out):
            if isinstance(w, np.ndarray) and w.ndim >= 1 and w.shape[0] >= 2 and rng.random() < 0.2:
                cols = [()] if w.ndim == 1 else [(c,) for c in range(w.shape[1]) if rng.random() < 0.6] if w.ndim == 2 else []
                for c in cols:
                    i1, i2 = rng.choice(w.shape[0], 2, replace=False)
                    col = np.zeros(w.shape[0], dtype=w.dtype)
                    col[i1], col[i2] = 1.0, -1.0
                    w[(slice(None),) + c] = col
                ctx.count("seeds_with_exactly_cancelling_entries")
        # scalar seeds are sometimes handed over as (mutable) 0-d arrays
        return [np.array(w) if (w is not None and np.ndim(w) == 0 and not hasattr(w, "todense") and rng.random() < 0.5) else w for w in out]

    # in one case out of four the caller keeps one seed buffer per output and writes each new seed into it (what a pre-allocated
    # output sensitivity or an optimiser's work array amounts to): the same array object then carries different values
    inplace = rng.random() < 0.25
    bufs = {}
    if inplace:
        ctx.count("cases_with_seed_buffers_reused_in_place")

    def backprop(w, times=1):
        st = _states(mod)
        if inplace:
            w = list(w)
            for j, wj in enumerate(w):
                if isinstance(wj, np.ndarray) and wj.ndim >= 1:
                    if j in bufs and bufs[j].shape == wj.shape and bufs[j].dtype == wj.dtype:
                        bufs[j][...] = wj
                        w[j] = bufs[j]
                    else:
                        bufs[j] = wj
        keep = [copy.deepcopy(wj) for wj in w]
        for s, wj in zip(mod.sig_out, w):
            s.sensitivity = wj
        try:
            with warnings.catch_warnings():
                warnings.simplefilter("ignore")
                for _ in range(times):
                    mod.sensitivity()
        except (RuntimeError, np.linalg.LinAlgError) as e:
            if cfg.key.startswith("EigenSolve/sparse") and ("exactly singular" in str(e) or "Singular matrix" in str(e)):
                # listed finding of C01 (the call does not complete); C04 says nothing about calls that raise
                raise Skip("sparse eigenvector adjoint raised 'exactly singular' (known finding of C01)")
            raise
        require(st == _states(mod), "sensitivity-changes-a-state", module=cfg.name, key=cfg.key)
        g = _grab(mod)
        # what happened to the caller's seed arrays?
        for wj, kj in zip(w, keep):
            if wj is not None and digest(wj) != digest(kj):
                ctx.count("seed_mutated:" + cfg.name)
        mod.reset()
        require(st == _states(mod), "reset-changes-a-state", module=cfg.name, key=cfg.key)
        for s in list(mod.sig_in) + list(mod.sig_out):
            sv = s.sensitivity
            require(sv is None or not np.any(todense(sv)), "reset-leaves-a-sensitivity", module=cfg.name, key=cfg.key)
        return g

    w1, w2 = seeds(False), seeds(True)
    a, b = float(rng.uniform(-2, 2)), float(rng.uniform(-2, 2))
    if rng.random() < 0.35:
        # linear means linear at every magnitude: a seed of 1e-10 (a response in nm, an objective weight) is not "numerically zero"
        k = 10.0 ** rng.uniform(-12, 5)
        a, b = a * k, b * k
        ctx.count("linearity_scaled_coefficients")
    g1 = backprop([copy.deepcopy(w) for w in w1])
    g2 = backprop([copy.deepcopy(w) for w in w2])
    w12 = []
    for x, y in zip(w1, w2):
        xd = todense(x)
        w12.append(a * xd + (b * todense(y) if y is not None else 0))
    g12 = backprop(w12)
    # natural size of a sensitivity: |seed| |output| / |input| (exact for modules that are homogeneous in their inputs); a sensitivity
    # whose summands cancel to 1e-16 of that (the thermal load of a single element against a rigid-body seed) is rounding noise, and is
    # compared on that scale: absolute deviations above 1e-14 of the natural size still count
    def _amax(v):
        m_ = 0.0
        for z in v:
            if z is not None:
                zd = np.asarray(todense(z))
                if zd.size and zd.dtype.kind in "fciu" and np.all(np.isfinite(zd)):
                    m_ = max(m_, float(np.max(np.abs(zd))))
        return m_
    xmax_, ymax_ = _amax([s_.state for s_ in mod.sig_in]), _amax(y0)
    wmax_ = max(abs(a) * _amax(w1), abs(b) * _amax(w2), _amax(w12))
    fl12 = 1e-5 * wmax_ * ymax_ / xmax_ if xmax_ > 0 else 0.0
    fl1 = 1e-5 * _amax(w1) * ymax_ / xmax_ if xmax_ > 0 else 0.0
    e_lin = _cmp(g12, _lin(a, g1, b, g2), fl12)
    ctx.count("linearity_checks")
    if not e_lin <= 1e-9:
        raise Violation(f"not-linear-in-seed/{cfg.name}", key=cfg.key, err=e_lin, a=a, b=b)
    # same module evaluated again with the same seed must reproduce g1 (the first backprop may not have disturbed anything)
    g1b = backprop([copy.deepcopy(w) for w in w1])
    e_rep = _cmp(g1b, g1, fl1)
    if not e_rep <= 1e-9:
        raise Violation(f"repeated-backprop-after-reset-differs/{cfg.name}", key=cfg.key, err=e_rep)
    gt = backprop([copy.deepcopy(w) for w in w1], times=2)
    e_tw = _cmp(gt, _lin(2.0, g1, 0.0, g1), fl1)
    ctx.count("twice_checks")
    if not e_tw <= 1e-9:
        raise Violation(f"second-sensitivity-call-adds-different-contribution/{cfg.name}", key=cfg.key, err=e_tw)
    big = max([float(np.max(np.abs(todense(g)))) for g in g1 if g is not None and np.size(todense(g))] + [0.0])
    if cfg.name == "ComplexNorm":
        # states stay untouched also where the module is not differentiable (|z| at z = 0: the sensitivity is not finite there and
        # is not judged, the states are)
        import pymoto as pym
        z = np.array(todense(cfg.x0[0]), dtype=complex if np.iscomplexobj(cfg.x0[0]) else float).reshape(-1)
        if z.size >= 2:
            z[int(rng.integers(z.size))] = 0.0
            m0 = pym.ComplexNorm(pym.Signal("z", z.copy()), pym.Signal("a"))
            with warnings.catch_warnings(), np.errstate(all="ignore"):
                warnings.simplefilter("ignore")
                m0.response()
                st = _states(m0)
                m0.sig_out[0].sensitivity = rng.standard_normal(z.size)
                m0.sensitivity()
                require(st == _states(m0), "sensitivity-changes-a-state", module="ComplexNorm", key="ComplexNorm/with-exact-zero-entry")
                m0.reset()
                require(st == _states(m0), "reset-changes-a-state", module="ComplexNorm", key="ComplexNorm/with-exact-zero-entry")
            ctx.count("purity_at_nondifferentiable_point")
    return {"key": cfg.key, "nontrivial": big > 0, "obs": {"module": cfg.name, "lin_err": e_lin, "twice_err": e_tw}}
