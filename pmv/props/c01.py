"""C01 — every module's sensitivity is the exact adjoint of its response.

Adjoint probe on the real modules: for a configuration from the catalogue (pmv/oracles/catalogue.py), seeds w on a
random subset of the outputs and a class-preserving direction v,
    an  = sum_inputs  Re sum(g * v)          (g = what sensitivity() added to the inputs)
    ref = sum_outputs Re sum(w * ydot)       (ydot = exact tangent of an independent reference model, or, for
                                              modules that are affine in their inputs, y(x+v) - y(x))
must agree to rounding.  No finite-difference step is involved (see DESIGN.md section 3 for why)."""
import copy
import warnings

import numpy as np
import scipy.sparse as sps

from ..core import Violation, require, Skip, Inconclusive, inner, todense, rand_like, is_cplx, all_finite, is_dyad
from ..oracles import catalogue

ID = "C01"
LEVEL = "exploration"
MONITORS = ["module", "dyad", "solver"]
ANCHORS = ["core_objects.py", "modules/assembly.py", "modules/filter.py", "modules/linalg.py", "modules/generic.py",
           "modules/complex.py", "modules/aggregation.py", "modules/scaling.py", "common/dyadcarrier.py"]
RULE = ("case = one configuration drawn from the module catalogue (family chosen round-robin, options/inputs random) probed with "
        "2 seed sets (full and partial) x 2 directions; distinct = option-class key of the configuration; non-trivial = "
        "|ref| or |an| > 1e-12 for at least one probe")
ASSUMPTIONS = [
    "tolerance |an-ref| <= tol*S, S=max(|an|,|ref|,1e-3*||g||*||v||), tol=1e-8 (1e-7 overhang/dense eig, 1e-6 CG and sparse eig)",
    "eigenvalue problems: simple eigenvalues enforced by a gap test (statement excludes non-differentiable points)",
    "aggregation active sets: data kept 1e-2 away from the band thresholds (derivative exists only there); scaling frozen",
    "matrix classes: directions keep the matrix inside its class (symmetric/Hermitian/triangular/diagonal, sparsity pattern)",
    "AutoMod (jax) is unreachable in this image",
]
UNREACHABLE = ["AutoMod (jax not installed)"]
FLOORS = {"quick": {"cases_held": 700, "probes": 2500, "distinct_nontrivial": 250, "reuse_probes": 800},
          "thorough": {"cases_held": 30000, "probes": 100000, "distinct_nontrivial": 1500}}
K7 = "EigenSolve-sparse/eigenvector-adjoint-factorises-exactly-singular-shifted-matrix"


def plan(tier, seed):
    n = 1100 if tier == "quick" else 40000
    fams = []
    for f, w in catalogue.WEIGHTS.items():
        fams += [f] * w
    return [{"family": fams[i % len(fams)], "i": i} for i in range(n)] + [{"family": "shared-scaling", "i": i} for i in range(n // 40)]


def _copy(v):
    return copy.deepcopy(v)


def _seed_for(rng, cfg, y, j):
    if cfg.seed_gen is not None:
        return cfg.seed_gen(rng, y, j)
    yd = todense(y)
    return rand_like(rng, yd)


def probe(cfg, rng, ctx, partial):
    mod = cfg.build()
    with warnings.catch_warnings():
        warnings.simplefilter("ignore")
        mod.response()
    y0 = [_copy(s.state) for s in mod.sig_out]
    for y in y0:
        require(all_finite(y), "response-output-not-finite", module=cfg.name, key=cfg.key)
    if getattr(cfg, "ref_y", None) is not None:
        # the reference tangent models the documented response: the response the module really computes has to be that one
        for j, (yj, rj) in enumerate(zip(y0, cfg.ref_y(cfg.x0))):
            a_, b_ = np.asarray(todense(yj)), np.asarray(rj)
            sc_ = max(float(np.max(np.abs(b_))) if b_.size else 0.0, 1e-300)
            ctx.count("forward_values_compared")
            if a_.shape != b_.shape or (b_.size and not float(np.max(np.abs(a_ - b_))) <= 1e-11 * sc_):
                raise Violation(f"response-differs-from-documented-formula/{cfg.name}", key=cfg.key, output=j, note=cfg.note,
                                err=float(np.max(np.abs(a_ - b_))) if a_.shape == b_.shape else None)
    nout = len(y0)
    mask = [True] * nout
    if partial and nout > 1:
        mask = [bool(b) for b in rng.integers(0, 2, nout)]
        if not any(mask):
            mask[int(rng.integers(nout))] = True
        if all(mask):
            mask[int(rng.integers(nout))] = False
    w = [_seed_for(rng, cfg, y0[j], j) if mask[j] else None for j in range(nout)]
    if rng.random() < 0.25:
        # seeds of any magnitude (objective weights, unit conversions): the adjoint identity is homogeneous in w
        k = 10.0 ** rng.uniform(-12, 6)
        w = [None if wj is None else wj * k for wj in w]
        ctx.count("probes_with_scaled_seed")
    for s, wj in zip(mod.sig_out, w):
        s.sensitivity = _copy(wj)
    try:
        with warnings.catch_warnings():
            warnings.simplefilter("ignore")
            mod.sensitivity()
    except (RuntimeError, np.linalg.LinAlgError) as e:
        if cfg.key.startswith("EigenSolve/sparse") and ("exactly singular" in str(e) or "Singular matrix" in str(e)) and mask[1]:
            # the eigenvector adjoint factorises A - lambda_i B, singular by construction; SuperLU raises on an exact zero pivot
            raise Violation(K7, key=cfg.key, error=str(e)[:120])
        raise
    g = [_copy(s.sensitivity) for s in mod.sig_in]
    x0 = cfg.x0
    for gi, xi in zip(g, x0):
        require(all_finite(gi), "sensitivity-not-finite", module=cfg.name, key=cfg.key)
        if gi is not None and not is_cplx(xi) and is_cplx(gi):
            # informational only: the statement constrains Re sum(g*v), not the imaginary part of g
            ctx.count("complex_sensitivity_for_real_input:" + cfg.name)
        if gi is not None and not is_dyad(gi):
            require(np.shape(todense(gi)) == np.shape(todense(xi)), "sensitivity-shape-differs-from-state", module=cfg.name,
                    key=cfg.key, got=list(np.shape(todense(gi))), want=list(np.shape(todense(xi))))
    out = []
    # one direction over all inputs, then one per input alone (inputs of very different magnitude - a stiffness in Pa, a load in
    # nN - would otherwise hide each other's contribution below the tolerance)
    dirsets = [cfg.dirs(rng)]
    if len(x0) > 1:
        full = cfg.dirs(rng)
        for i in range(len(x0)):
            dirsets.append([vi if k == i else vi * 0 for k, vi in enumerate(full)])
    else:
        dirsets.append(cfg.dirs(rng))
    for v in dirsets:
        if cfg.tangent is None:
            m2 = cfg.build()
            for s, xi, vi in zip(m2.sig_in, x0, v):
                s.state = (xi + vi) if not sps.issparse(xi) else (xi + vi).asformat(xi.format)
            with warnings.catch_warnings():
                warnings.simplefilter("ignore")
                m2.response()
            yd = []
            for s, y in zip(m2.sig_out, y0):
                yd.append(todense(s.state) - todense(y))
        else:
            yd = cfg.tangent(x0, y0, v)
        an = sum(inner(gi, vi) for gi, vi in zip(g, v))
        ref = sum(inner(todense(wj), ydj) for wj, ydj in zip(w, yd) if wj is not None)
        gn = np.sqrt(sum(float(np.linalg.norm(todense(gi))) ** 2 for gi in g if gi is not None))
        vn = np.sqrt(sum(float(np.linalg.norm(todense(vi))) ** 2 for vi in v))
        S = max(abs(an), abs(ref), 1e-3 * gn * vn, 1e-300)
        err = abs(an - ref) / S
        ctx.count("probes")
        out.append((err, an, ref))
        if not err <= cfg.tol:
            mech = f"adjoint-mismatch/{cfg.name}"
            raise Violation(mech, key=cfg.key, an=an, ref=ref, rel_err=err, partial_seeds=mask, note=cfg.note, tol=cfg.tol)
    return out


def _column_split(rng, w):
    """splits a seed set into two complementary ones: matrix-valued seeds by columns (one mode / load case at a time),
    the others by output"""
    a, b = [], []
    for wj in w:
        if wj is None or is_dyad(wj) or np.ndim(wj) != 2 or np.shape(wj)[1] < 2:
            first = bool(rng.integers(0, 2))
            a.append(wj if first else None)
            b.append(None if first else wj)
        else:
            m = rng.integers(0, 2, np.shape(wj)[1]).astype(bool)
            m[int(rng.integers(len(m)))] = True
            if m.all():
                m[int(rng.integers(len(m)))] = False
            wa, wb = np.array(wj, copy=True), np.array(wj, copy=True)
            wa[:, ~m] = 0
            wb[:, m] = 0
            a.append(wa)
            b.append(wb)
    if all(x is None for x in a):
        a, b = b, a
    return a, b


def probe_reuse(cfg, rng, ctx):
    """The same module instance is evaluated at a second input of the same class and back-propagated in two separate
    sensitivity() calls with complementary seeds (one mode / load case / output at a time, reset() in between): every call must
    still give the exact adjoint at the *current* input.  (Scaling keeps its first-value factor by documentation and aggregation
    active sets may change with the input: not probed here.)"""
    if cfg.name == "Scaling" or "activeTrue" in cfg.key:
        return []
    mod = cfg.build()
    with warnings.catch_warnings():
        warnings.simplefilter("ignore")
        mod.response()
        y_first = [_copy(s.state) for s in mod.sig_out]
        w0 = [_seed_for(rng, cfg, y, j) for j, y in enumerate(y_first)]
        wa0, _ = _column_split(rng, w0)
        for s_, wj in zip(mod.sig_out, wa0):
            s_.sensitivity = _copy(wj)
        try:
            mod.sensitivity()
        except (RuntimeError, np.linalg.LinAlgError) as e:
            if cfg.key.startswith("EigenSolve/sparse") and ("exactly singular" in str(e) or "Singular matrix" in str(e)):
                raise Violation(K7, key=cfg.key, error=str(e)[:120])
            raise
        mod.reset()
        # second input of the same class
        dv = cfg.dirs(rng)
        x1 = []
        for xi, vi in zip(cfg.x0, dv):
            if cfg.key.startswith("EigenSolve/sparse"):
                # entry-wise relative change (symmetric): keeps the pattern, the bc rows and the positive definiteness of the mass matrix
                nz = todense(vi) != 0
                fac = 1.0 + 2e-3 * np.where(nz, todense(vi) / max(abs(todense(vi)).max(), 1e-300), 0.0)
                x1.append(type(xi)(sps.csr_matrix(todense(xi) * fac)))
                continue
            rel = 0.05
            step = rel * (abs(todense(xi)).max() if np.size(todense(xi)) else 1.0) / max(abs(todense(vi)).max(), 1e-300) if np.size(todense(vi)) else 0.0
            xn = xi + step * vi
            if cfg.name == "OverhangFilter":
                xn = np.clip(xn, 0.0, 1.0)
            if sps.issparse(xi):
                xn = xn.asformat(xi.format)
            x1.append(xn)
        for s_, xn in zip(mod.sig_in, x1):
            s_.state = _copy(xn)
        mod.response()
    y1 = [_copy(s.state) for s in mod.sig_out]
    for y in y1:
        require(all_finite(y), "response-output-not-finite", module=cfg.name, key=cfg.key)
    if cfg.name == "EigenSolve":      # stay at a differentiable point
        lam = np.asarray(y1[0])
        if lam.size > 1 and np.min(np.abs(lam[:, None] - lam[None, :]) + np.eye(lam.size) * 1e9) < 1e-3 * max(1.0, np.abs(lam).max()):
            return []
    w = [_seed_for(rng, cfg, y, j) for j, y in enumerate(y1)]
    out = []
    for part, wpart in enumerate(_column_split(rng, w)):
        if all(x is None for x in wpart):
            continue
        for s_, wj in zip(mod.sig_out, wpart):
            s_.sensitivity = _copy(wj)
        try:
            with warnings.catch_warnings():
                warnings.simplefilter("ignore")
                mod.sensitivity()
        except (RuntimeError, np.linalg.LinAlgError) as e:
            if cfg.key.startswith("EigenSolve/sparse") and ("exactly singular" in str(e) or "Singular matrix" in str(e)):
                raise Violation(K7, key=cfg.key, error=str(e)[:120])
            raise
        g = [_copy(s.sensitivity) for s in mod.sig_in]
        mod.reset()
        v = cfg.dirs(rng)
        if cfg.tangent is None:
            m2 = cfg.build()
            with warnings.catch_warnings():
                warnings.simplefilter("ignore")
                ys = []
                for sgn in (0.0, 1.0):
                    for s_, xi, vi in zip(m2.sig_in, x1, v):
                        xn = xi + sgn * vi
                        s_.state = xn.asformat(xi.format) if sps.issparse(xi) else xn
                    m2.response()
                    ys.append([todense(s_.state) for s_ in m2.sig_out])
            yd = [b_ - a_ for a_, b_ in zip(*ys)]
        else:
            yd = cfg.tangent(x1, y1, v)
        an = sum(inner(gi, vi) for gi, vi in zip(g, v))
        ref = sum(inner(todense(wj), ydj) for wj, ydj in zip(wpart, yd) if wj is not None)
        gn = np.sqrt(sum(float(np.linalg.norm(todense(gi))) ** 2 for gi in g if gi is not None))
        vn = np.sqrt(sum(float(np.linalg.norm(todense(vi))) ** 2 for vi in v))
        S = max(abs(an), abs(ref), 1e-3 * gn * vn, 1e-300)
        err = abs(an - ref) / S
        ctx.count("reuse_probes")
        out.append((err, an, ref))
        if not err <= cfg.tol * 10:
            raise Violation(f"adjoint-mismatch-on-reused-instance/{cfg.name}", key=cfg.key, an=an, ref=ref, rel_err=err, call=part,
                            note=cfg.note)
    return out


def run_shared_scaling(case, ctx):
    """Two aggregation modules given the same AggScaling helper (undamped), evaluated in network order (both responses, then the
    sensitivities in reverse): the factor each module back-propagates with must be the one of its own last response
    (the 'frozen scaling' of the quantifier: g = s * w * d approx/dx with s = true/approx at this module's input)."""
    import pymoto as pym
    rng = ctx.rng("shared-scaling", case["i"])
    kinds = [str(rng.choice(["PNorm", "KSFunction", "SoftMinMax"])) for _ in range(2)]
    pars = [float(rng.uniform(2, 10)) for _ in range(2)]
    xs = [rng.uniform(0.5, 3.0, int(rng.integers(2, 8))) for _ in range(2)]
    helper = pym.AggScaling("max", damping=0.0)
    arg = {"PNorm": "p", "KSFunction": "rho", "SoftMinMax": "alpha"}
    mods = [getattr(pym, k)(pym.Signal("x", x.copy()), pym.Signal("y"), scaling=helper, **{arg[k]: p}) for k, p, x in zip(kinds, pars, xs)]
    for m in mods:
        m.response()

    def approx(k, p, z):
        if k == "PNorm":
            return np.sum(z ** p) ** (1 / p)
        if k == "KSFunction":
            return np.log(np.sum(np.exp(p * z))) / p
        e = np.exp(p * z - np.max(np.real(p * z)))
        return np.sum(z * e) / np.sum(e)
    worst = 0.0
    for m, k, p, x in reversed(list(zip(mods, kinds, pars, xs))):
        w = float(rng.standard_normal())
        m.sig_out[0].sensitivity = w
        m.sensitivity()
        g = np.asarray(m.sig_in[0].sensitivity)
        v = rng.standard_normal(x.size)
        h = 1e-30
        dap = float(np.imag(approx(k, p, x + 1j * h * v)) / h)
        sfac = float(np.max(x) / np.real(approx(k, p, x)))
        ref = w * sfac * dap
        an = float(g @ v)
        err = abs(an - ref) / max(abs(an), abs(ref), 1e-300)
        worst = max(worst, err)
        ctx.count("probes")
        if err > 1e-9:
            raise Violation(f"adjoint-mismatch/{k}-with-shared-scaling-helper", an=an, ref=ref, rel_err=err, kinds=kinds)
    return {"key": "shared-scaling/" + "-".join(kinds), "nontrivial": True, "obs": {"max_rel_err": worst}}


def run_case(case, ctx):
    if case["family"] == "shared-scaling":
        return run_shared_scaling(case, ctx)
    rng = ctx.rng("c01", case["family"], case["i"])
    with warnings.catch_warnings():
        warnings.simplefilter("ignore")
        cfg = catalogue.GENERATORS[case["family"]](rng, ctx.tier)
    res = []
    for partial in (False, True):
        res += probe(cfg, rng, ctx, partial)
    res += probe_reuse(cfg, rng, ctx)
    big = max(max(abs(a), abs(r)) for _, a, r in res)
    return {"key": cfg.key, "nontrivial": big > 1e-12,
            "obs": {"module": cfg.name, "max_rel_err": max(e for e, _, _ in res), "an": res[0][1], "ref": res[0][2]}}
