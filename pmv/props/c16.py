"""C16 — aggregations bound the true extreme; active sets select the requested band.

Four clauses, four oracles (all written here from the documentation, none calls the code it judges):

 bounds     PNorm / KSFunction / SoftMinMax on positive data lie inside the textbook interval around the
            true max (parameter > 0) or min (parameter < 0).  The intervals collapse to a point for n = 1
            and are attained for all-equal data, which makes them sharp on exactly those hostile corners.
 exact      with AggScaling(damping=0) the module output is the true extreme (two roundings).
 recurrence with damping d the carried factor is s_0 = t/a, s_k = d s_(k-1) + (1-d) t/a, where a is the
            unscaled aggregate observed on a twin module without scaling (so this clause judges AggScaling
            only) and t the extreme named by `which`; also on AggScaling called directly with arbitrary a.
 active set the boolean mask equals  band(normalised value in [lower_rel, upper_rel])  minus  floor(n*f)
            lowest / highest entries, floor evaluated in exact rational arithmetic on the binary values of
            the fractions, ties judged as multisets (per group of equal values only the *number* kept is
            determined), band membership decided exactly (Fractions) near the boundary.
"""
import functools
import itertools
import math
from fractions import Fraction

import numpy as np

from ..core import Violation

ID = "C16"
LEVEL = "exploration"
MONITORS = []
ANCHORS = ["modules/aggregation.py"]
RULE = ("families: 'agg' (every length n up to the tier bound x 10 positive value patterns (distinct, all equal, ties at "
        "max/min, one dominant, one tiny, nearly equal, decimal ties, log-wide, large) x 3 aggregations x parameter grid "
        "of both signs x {plain, undamped scaling, extreme-preserving active set, both, scaling to the other extreme}), "
        "'hist' (damped scaling over 2-8 response() calls with changing data and lengths, module + unscaled twin, and "
        "AggScaling called directly), 'aset-exh' (EVERY weak ordering = tie structure and arrangement of n<=bound entries "
        "x dyadic and random value maps x crossed grid of 17 bands x 69 amount pairs), 'aset-len' (every length up to the "
        "bound x 11 value patterns x fractions k/n with float neighbours, fractions rounding to zero, limits equal to an "
        "entry's normalised value), 'aset-rand' (random n<=200/2000). distinct = family x length x chunk/repetition; "
        "non-trivial = at least one oracle comparison on a vector with n>=2")
EXHAUSTIVE = {"quick": False, "thorough": False}
EXPLANATION = ("exhaustive in the tie structure of vectors up to length 5 (quick; n=5 with one of the two value maps per "
               "ordering) / 6 (thorough; plus n=7 with band and amount grids uncrossed + 40 random crossings) and in the "
               "length up to 12 / 40; values, parameters and fractions are sampled, hence not exhaustive overall")
ASSUMPTIONS = [
    "positive data in [1e-3, 1e3]; parameters |p|,|rho|,|alpha| in [0.5, 30]; KSFunction only where rho*max(x) <= 400 (rho>0) or |rho|*min(x) <= 400 (rho<0) "
    "(it evaluates exp(rho*x) unshifted and overflows beyond ~709: floating range is taken as the domain limit of the "
    "real-arithmetic bounds), PNorm only where |p*ln x| <= 600",
    "bounds: PNorm p>0 [max, n^(1/p) max], p<0 [n^(1/p) min, min]; KS rho>0 [max, max+ln n/rho], rho<0 [min+ln n/rho, min]; "
    "SoftMinMax alpha>0 [max-ln n/alpha, max], alpha<0 [min, min-ln n/alpha] (S = KS - H/alpha, 0<=H<=ln n)",
    "bound tolerance 1e-12 relative to the bound magnitude (PNorm) resp. 1e-12*(max|x| + (1+ln n)/|par|) (KS, SoftMinMax): "
    "rounding of pow/exp/log with pairwise summation is <= (|par*x|+log2 n+4)*2^-53 relative, i.e. <6e-14 in the domain",
    "undamped scaling: |y - t| <= 1e-15*|t|  ((t/a)*a is two roundings, 2.3e-16)",
    "recurrence: reference chain in float64, |s_obs - s_ref| <= 1e-12*max(|s_ref|,|s_prev|,|t/a|) (per step 3 roundings, "
    "damped accumulation <= 3u/(1-d) <= 7e-15 for d <= 0.95); output = s*a within 1e-12",
    "with an active set inside a module only extreme-preserving sets are used (lower_* for max, upper_* for min) and the "
    "bound is taken with the full length n (implied by the bound for the selected subset)",
    "active set: counts floor(n*f) in exact rational arithmetic, f = lower_amt resp. 1 - upper_amt; if n*f is within 1e-9 of "
    "an integer either neighbour is accepted (floating product); an entry whose exact normalised value is within 1e-13 of a "
    "band limit without being equal to it may be kept or dropped; exactly on the limit (and the float formula agrees) it "
    "must be kept (closed interval)",
    "all-equal data (normalised value undefined): accepted results are 'everything selected' (Ellipsis / all True) or the "
    "count-based removal alone; anything else is a violation",
    "lengths: quick n<=12 exhaustive, <=200 random; thorough n<=40 exhaustive, <=2000 random; 1-D float64 vectors",
]
FLOORS = {
    # about half of what the unchanged tree reaches (quick seeds 0,1,2,3,17,12345; thorough seeds 0,1); the number of weak
    # orderings is exact: 1+3+13+75+541 (n<=5) resp. +4683+47293 (n<=7) -- every tie structure must have been executed
    "quick": {"cases_held": 95, "distinct_nontrivial": 80, "bounds_checked": 25000, "bounds_checked_sharp": 4500,
              "exact_scaling_checked": 28000, "recurrence_steps_checked": 9500, "direct_scaling_calls": 4500,
              "masks_checked": 480000, "masks_with_ties": 340000, "masks_all_equal_data": 18000,
              "fractions_rounding_to_zero": 190000, "masks_with_ambiguous_count": 70000,
              "boundary_entries_decided": 90000, "weak_orderings": 633},
    "thorough": {"cases_held": 775, "distinct_nontrivial": 620, "bounds_checked": 230000, "bounds_checked_sharp": 32000,
                 "exact_scaling_checked": 260000, "recurrence_steps_checked": 47000, "direct_scaling_calls": 23000,
                 "masks_checked": 9600000, "masks_with_ties": 8000000, "masks_all_equal_data": 78000,
                 "fractions_rounding_to_zero": 3200000, "masks_with_ambiguous_count": 800000,
                 "boundary_entries_decided": 2800000, "weak_orderings": 52609},
}
TIMEOUT_CASE = 300

KINDS = ("PNorm", "KSFunction", "SoftMinMax")
PARNAME = {"PNorm": "p", "KSFunction": "rho", "SoftMinMax": "alpha"}
MAGS = (0.5, 1.0, 2.0, 4.0, 8.0, 16.0, 30.0, 48.0, 60.0)

# grids of the exhaustive active-set family
_LR = (0.0, 0.25, 1 / 3, 0.5, 0.75)
_UR = (1.0, 0.75, 2 / 3, 0.5, 0.25)
_LA = (0.0, 0.1, 0.2, 0.25, 1 / 3, 0.4, 0.5, 0.6, 0.75)
_UA = (1.0, 0.95, 0.9, 0.8, 0.75, 2 / 3, 0.6, 0.5, 0.3)
BANDS = [(a, b) for a in _LR for b in _UR if a < b]
AMTS = [(a, b) for a in _LA for b in _UA if a < b]


# =========================================================================== plan
def plan(tier, seed):
    q = tier == "quick"
    cases = []
    # --- aggregation bounds + undamped scaling: every length up to the bound, then random lengths
    nmax = 12 if q else 40
    for n in range(1, nmax + 1):
        for rep in range(1 if q else 2):
            cases.append({"fam": "agg", "n": n, "rep": rep, "rounds": 3 if q else 4})
    for rep in range(24 if q else 160):
        cases.append({"fam": "agg", "n": 0, "rep": rep, "nmax": 200 if q else 2000, "rounds": 2 if q else 3})
    # --- damped scaling histories
    for kind in KINDS:
        for sign in (1, -1):
            for rep in range(8 if q else 40):
                cases.append({"fam": "hist", "kind": kind, "sign": sign, "rep": rep, "histories": 40})
    # --- active set, exhaustive in the tie structure
    for n, nchunk, crossed in ([(1, 1, 1), (2, 1, 1), (3, 1, 1), (4, 4, 1), (5, 24, 1)] if q else
                               [(1, 1, 1), (2, 1, 1), (3, 1, 1), (4, 4, 1), (5, 24, 1), (6, 200, 1), (7, 400, 0)]):
        for c in range(nchunk):
            cases.append({"fam": "aset-exh", "n": n, "chunk": c, "nchunks": nchunk, "crossed": crossed,
                          "maps": 1 if (q and n == 5) or n == 7 else 2})
    # --- active set, exhaustive in the length
    for n in range(1, nmax + 1):
        cases.append({"fam": "aset-len", "n": n})
    # --- active set, random
    for rep in range(64 if q else 400):
        cases.append({"fam": "aset-rand", "rep": rep, "nmax": 200 if q else 2000, "count": 300})
    return cases


# =========================================================================== helpers
class _Rec:
    """Records the first witness per mechanism of a case (soft violations), so a case keeps going."""

    def __init__(self, ctx):
        self.ctx, self.seen = ctx, set()

    def __call__(self, mech, **w):
        if mech not in self.seen:
            self.seen.add(mech)
            self.ctx.violate(mech, **w)
            self.ctx.log("VIOLATION", mech, w)


def _scalar(v):
    """Output state of an aggregation module as a Python float (inf shape mismatch -> nan)."""
    a = np.asarray(v)
    if a.size != 1:
        return float("nan")
    return float(a.reshape(()))


# --------------------------------------------------------------------------- bounds oracle
def _interval(kind, par, n, mx, mn):
    ln = math.log(n)
    if kind == "PNorm":
        f = float(n) ** (1.0 / par)
        lo, hi = (mx, mx * f) if par > 0 else (mn * f, mn)
        tol = 1e-12 * max(abs(lo), abs(hi))
    elif kind == "KSFunction":
        lo, hi = (mx, mx + ln / par) if par > 0 else (mn + ln / par, mn)
        tol = 1e-12 * (mx + (1 + ln) / abs(par))
    else:
        lo, hi = (mx - ln / par, mx) if par > 0 else (mn, mn - ln / par)
        tol = 1e-12 * (mx + (1 + ln) / abs(par))
    return lo, hi, tol


def _in_domain(kind, par, x):
    mx, mn = float(x.max()), float(x.min())
    if kind == "KSFunction":
        # exp(rho*x) is evaluated unshifted: for rho > 0 the largest entry must not overflow, for rho < 0 the smallest
        # (dominant) entry must not underflow; a wide data range with rho < 0 is admissible (the other terms underflow to 0)
        return par * mx <= 400.0 if par > 0 else abs(par) * mn <= 400.0
    if kind == "PNorm":
        return abs(par) * max(abs(math.log(mx)), abs(math.log(mn))) <= 600.0
    return True


def _check_bound(rec, ctx, kind, par, x, y, variant):
    n = x.size
    mx, mn = float(x.max()), float(x.min())
    lo, hi, tol = _interval(kind, par, n, mx, mn)
    ctx.count("bounds_checked")
    if n == 1 or mx == mn:
        ctx.count("bounds_checked_sharp")
    if not (math.isfinite(y) and lo - tol <= y <= hi + tol):
        side = "not-finite" if not math.isfinite(y) else ("below-lower-bound" if y < lo else "above-upper-bound")
        what = "max" if par > 0 else "min"
        rec(f"bounds/{kind}-{what}-{side}", kind=kind, par=par, n=n, y=y, lo=lo, hi=hi, true=mx if par > 0 else mn,
            variant=variant, x=x)
        return False
    return True


# --------------------------------------------------------------------------- active-set oracle
IN, OUT, AMB = 1, 0, 2


@functools.lru_cache(maxsize=200000)
def _count_candidates(n, f):
    """Admissible numbers of removed entries for the fraction f (a float, taken at its binary value)."""
    return _count_from_fraction(n, Fraction(f))


@functools.lru_cache(maxsize=200000)
def _count_candidates_upper(n, ua):
    return _count_from_fraction(n, Fraction(1) - Fraction(ua))


def _count_from_fraction(n, F):
    P = n * F
    fl = P.numerator // P.denominator
    cand = [int(fl)]
    near = round(P)
    if near != fl and abs(P - near) < Fraction(1, 10 ** 9):
        cand.append(int(near))
    return tuple(cand)


class _XInfo:
    """Everything the mask oracle needs about one data vector (computed once, used for many configurations)."""

    def __init__(self, x):
        x = np.asarray(x)
        self.x = x
        self.n = x.size
        self.vals, self.inv, self.cnt = np.unique(x, return_inverse=True, return_counts=True)
        self.G = self.vals.size
        cum = np.cumsum(self.cnt)
        self.before = cum - self.cnt            # entries strictly smaller than the group
        self.after = self.n - cum               # entries strictly larger than the group
        self.flat = self.G == 1
        self.ties = bool(self.G < self.n)
        if not self.flat:
            xmin, xmax = self.vals[0], self.vals[-1]
            self.xr = (self.vals - xmin) / (xmax - xmin)   # float model of the documented normalisation
        self._exact = None
        self._band, self._rlo, self._rhi = {}, {}, {}

    def removed_low(self, a):
        """Per group of equal values: how many of its entries are among the a lowest of the sorted vector."""
        r = self._rlo.get(a)
        if r is None:
            r = self._rlo[a] = np.minimum(np.maximum(a - self.before, 0), self.cnt)
        return r

    def removed_high(self, b):
        r = self._rhi.get(b)
        if r is None:
            r = self._rhi[b] = np.minimum(np.maximum(b - self.after, 0), self.cnt)
        return r

    def exact_rel(self, g):
        if self._exact is None:
            fv = [Fraction(float(v)) for v in self.vals]
            rng_ = fv[-1] - fv[0]
            self._exact = [(v - fv[0]) / rng_ for v in fv]
        return self._exact[g]

    def band_status(self, lr, ur, counts=None):
        """IN / OUT / AMB per group of equal values (memoised per band)."""
        hit = self._band.get((lr, ur))
        if hit is None:
            c = {"boundary": 0}
            hit = self._band[(lr, ur)] = (self._band_status(lr, ur, c), c["boundary"])
        if counts is not None:
            counts["boundary"] += hit[1]
        return hit[0]

    def _band_status(self, lr, ur, counts):
        st = np.full(self.G, IN, dtype=np.int8)
        for bound, lower in ((lr, True), (ur, False)):
            if (lower and not bound > 0) or (not lower and not bound < 1):
                continue   # xrel >= 0 >= lower_rel resp. xrel <= 1 <= upper_rel holds for every entry
            d = self.xr - bound
            inside = (d >= 0) if lower else (d <= 0)
            near = np.abs(d) <= 1e-9
            s = np.where(inside, IN, OUT).astype(np.int8)
            if near.any():
                Fb = Fraction(float(bound))
                for g in np.nonzero(near)[0]:
                    de = self.exact_rel(int(g)) - Fb
                    if de == 0:
                        s[g] = IN if d[g] == 0 else AMB
                        if d[g] == 0 and counts is not None:
                            counts["boundary"] += int(self.cnt[g])
                    elif abs(de) <= Fraction(1, 10 ** 13):
                        s[g] = AMB
                    else:
                        s[g] = IN if ((de > 0) == lower) else OUT
            # combine: OUT dominates, then AMB
            st = np.where((st == OUT) | (s == OUT), OUT, np.where((st == AMB) | (s == AMB), AMB, IN)).astype(np.int8)
        return st


ZERO_NAME = "active-set/removes-everything-when-count-rounds-to-zero"


def _judge_mask(info, lr, ur, la, ua, sel, counts, zero_probe=None):
    """Returns None if the observed selection conforms, else (mechanism, witness).  `zero_probe(side)` tells whether
    the fraction of that side ALONE, whose count rounds to zero, empties the set (attribution of an empty result)."""
    n = info.n
    cl = _count_candidates(n, float(la)) if la > 0 else (0,)
    ch = _count_candidates_upper(n, float(ua)) if ua < 1 else (0,)
    counts["masks"] += 1
    if info.ties:
        counts["ties"] += 1
    if (la > 0 and cl == (0,)) or (ua < 1 and ch == (0,)):
        counts["zero"] += 1
    if len(cl) > 1 or len(ch) > 1:
        counts["ambiguous_counts"] += 1
    cfg = {"lower_rel": lr, "upper_rel": ur, "lower_amt": la, "upper_amt": ua}

    if sel is Ellipsis:
        selarr = np.ones(n, dtype=bool)
    else:
        selarr = np.asarray(sel)
        if selarr.shape != info.x.shape or selarr.dtype != np.bool_:
            return "active-set/result-is-not-a-boolean-mask-of-the-input-shape", dict(
                cfg, n=n, shape=list(selarr.shape), dtype=str(selarr.dtype))
    nkept = int(np.count_nonzero(selarr))

    def removes_everything():
        if nkept != 0 or zero_probe is None:
            return False
        return (ua < 1 and 0 in ch and zero_probe("upper")) or (la > 0 and 0 in cl and zero_probe("lower"))

    if info.flat:
        counts["flat"] += 1
        ok = nkept == n or any(nkept == n - a - b for a in cl for b in ch)
        if ok:
            return None
        if removes_everything():
            return ZERO_NAME, dict(cfg, n=n, kept=nkept, x=info.x)
        return "active-set/all-equal-data-neither-fully-selected-nor-count-based", dict(cfg, n=n, kept=nkept, x=info.x)

    st = info.band_status(lr, ur, counts)
    kept = np.bincount(info.inv, weights=selarr, minlength=info.G).astype(np.int64)
    first = None
    for a in cl:
        rlo = info.removed_low(a)
        for b in ch:
            rhi = info.removed_high(b)
            want = info.cnt - rlo - rhi
            ok = np.where(st == IN, kept == want, np.where(st == OUT, kept == 0, (kept == 0) | (kept == want)))
            if ok.all():
                return None
            if first is None or int((~ok).sum()) < int((~first[3]).sum()):
                first = (a, b, want, ok)      # the admissible count pair that explains most of the observation
    a, b, want, ok = first
    g = int(np.nonzero(~ok)[0][0])
    wit = dict(cfg, n=n, n_lowest_removed_expected=list(cl), n_highest_removed_expected=list(ch), kept_total=nkept,
               value=float(info.vals[g]), normalised=float(info.xr[g]), entries_with_value=int(info.cnt[g]),
               kept_with_value=int(kept[g]), expected_kept_with_value=int(want[g]) if st[g] != OUT else 0,
               x=info.x, mask=selarr)
    if removes_everything():
        return ZERO_NAME, wit
    if st[g] == OUT:
        return "active-set/keeps-entry-outside-value-band", wit
    if kept[g] > want[g]:
        return "active-set/keeps-entry-among-the-lowest-or-highest-fraction", wit
    # fewer kept than expected: was the band or the count too greedy?
    on_limit = (lr > 0 and abs(info.xr[g] - lr) <= 1e-9) or (ur < 1 and abs(info.xr[g] - ur) <= 1e-9)
    if on_limit and kept[g] == 0:
        return "active-set/drops-entry-whose-normalised-value-equals-the-band-limit", wit
    if la > 0 or ua < 1:
        return "active-set/removes-more-entries-than-the-rounded-down-fraction", wit
    return "active-set/drops-entry-inside-value-band", wit


def _flush_counts(ctx, counts):
    ctx.count("masks_checked", counts["masks"])
    ctx.count("masks_with_ties", counts["ties"])
    ctx.count("fractions_rounding_to_zero", counts["zero"])
    ctx.count("masks_all_equal_data", counts["flat"])
    ctx.count("masks_with_ambiguous_count", counts["ambiguous_counts"])
    ctx.count("boundary_entries_decided", counts["boundary"])


def _new_counts():
    return {"masks": 0, "ties": 0, "zero": 0, "flat": 0, "ambiguous_counts": 0, "boundary": 0}


def _run_mask(pym, rec, info, cfg, counts):
    lr, ur, la, ua = cfg
    aset = pym.AggActiveSet(lower_rel=lr, upper_rel=ur, lower_amt=la, upper_amt=ua)
    sel = aset(info.x)

    def zero_probe(side):
        # the suspected fraction on its own, same data: does it (requesting zero whole entries) empty the set?
        alone = pym.AggActiveSet(lower_amt=la) if side == "lower" else pym.AggActiveSet(upper_amt=ua)
        got = alone(info.x)
        return got is not Ellipsis and not np.any(np.asarray(got))

    bad = _judge_mask(info, lr, ur, la, ua, sel, counts, zero_probe)
    if bad is not None:
        if bad[0] != ZERO_NAME and (lr > 0 or ur < 1) and (la > 0 or ua < 1):
            # attribution only: judge the value band and the sorted counts separately on the same data
            for part in ((lr, ur, 0.0, 1.0), (0.0, 1.0, la, ua)):
                got = pym.AggActiveSet(lower_rel=part[0], upper_rel=part[1], lower_amt=part[2], upper_amt=part[3])(info.x)
                sub = _judge_mask(info, *part, got, _new_counts(), None)
                if sub is not None:
                    rec(sub[0], found_in_combination=bad[1], **{k: v for k, v in sub[1].items() if k != "x"})
                    return False
        rec(bad[0], **bad[1])
    return bad is None


def _optclass(cfg):
    lr, ur, la, ua = cfg
    return ("L" if lr > 0 else "-") + ("U" if ur < 1 else "-") + ("l" if la > 0 else "-") + ("u" if ua < 1 else "-")


# =========================================================================== data generators
def _positive_patterns(rng, n):
    """Positive value patterns for the bound / scaling clauses: name -> vector (max <= 12 unless 'large')."""
    s = float(rng.choice([0.01, 0.3, 1.0, 5.0, 12.0]))
    out = {}
    out["distinct"] = s * rng.uniform(0.05, 1.0, n)
    out["all-equal"] = np.full(n, s * rng.uniform(0.05, 1.0))
    x = s * rng.uniform(0.05, 1.0, n)
    k = int(rng.integers(1, n + 1))
    x[rng.permutation(n)[:k]] = x.max()
    out["tie-at-max"] = x
    x = s * rng.uniform(0.05, 1.0, n)
    k = int(rng.integers(1, n + 1))
    x[rng.permutation(n)[:k]] = x.min()
    out["tie-at-min"] = x
    x = s * rng.uniform(1e-3, 2e-3, n)
    x[int(rng.integers(0, n))] = s
    out["one-dominant"] = x
    x = s * rng.uniform(0.5, 1.0, n)
    x[int(rng.integers(0, n))] = s * 1e-3
    out["one-tiny"] = x
    out["near-equal"] = s * 0.7 * (1 + 1e-7 * rng.uniform(-1, 1, n))
    out["decimal-ties"] = s * np.round(rng.uniform(0.05, 1.0, n), 1).clip(0.1, None)
    out["log-wide"] = 10.0 ** rng.uniform(-3, 1, n)
    out["large"] = 10.0 ** rng.uniform(0, 3, n)
    out["very-wide"] = 10.0 ** rng.uniform(-4, 4, n)       # eight decades inside one vector (stresses next to void)
    return out


def _aset_kwargs(rng, which):
    """Extreme-preserving active set for the extreme `which`."""
    a, b = float(rng.uniform(0.05, 0.9)), float(rng.uniform(0.05, 0.9))
    mode = int(rng.integers(0, 3))
    if which == "max":
        return {"lower_rel": a if mode != 1 else 0.0, "lower_amt": b if mode != 0 else 0.0}
    return {"upper_rel": 1 - a if mode != 1 else 1.0, "upper_amt": 1 - b if mode != 0 else 1.0}


def _cfg_of(kw):
    return (kw.get("lower_rel", 0.0), kw.get("upper_rel", 1.0), kw.get("lower_amt", 0.0), kw.get("upper_amt", 1.0))


def _which_spelling(rng, which):
    return str(rng.choice([which, which.upper(), which.capitalize()]))


# =========================================================================== family: agg
def _case_agg(case, ctx, pym):
    rng = ctx.rng("agg", case["n"], case["rep"])
    n = case["n"] or int(np.exp(rng.uniform(np.log(2), np.log(case["nmax"]))))
    rec = _Rec(ctx)
    counts = _new_counts()
    sx = pym.Signal("x", np.ones(n))
    pars = [sg * m for m in MAGS for sg in (1, -1)]
    pars += [float(sg * np.exp(rng.uniform(np.log(0.5), np.log(30)))) for sg in (1, -1)]
    if case["n"] == 0:
        pars = [pars[i] for i in rng.permutation(len(pars))[:6]]
    mods = []
    for kind in KINDS:
        cls = getattr(pym, kind)
        for par in pars:
            kw = {PARNAME[kind]: par}
            which = "max" if par > 0 else "min"
            akw = _aset_kwargs(rng, which)
            ent = {"kind": kind, "par": par, "which": which, "akw": akw,
                   "plain": cls(sx, **kw),
                   "scaled": cls(sx, scaling=pym.AggScaling(_which_spelling(rng, which)), **kw),
                   "aset": cls(sx, active_set=pym.AggActiveSet(**akw), **kw),
                   "aset+scaled": cls(sx, scaling=pym.AggScaling(which, damping=0.0),
                                      active_set=pym.AggActiveSet(**akw), **kw)}
            if abs(par) in (2.0, 8.0):
                other = "min" if which == "max" else "max"
                ent["scaled-other-extreme"] = cls(sx, scaling=pym.AggScaling(other), **kw)
            mods.append(ent)
    patterns = []
    for _round in range(int(case.get("rounds", 1))):
        patterns += list(_positive_patterns(rng, n).items())
    worst_b, worst_e, ncmp = 0.0, 0.0, 0
    for pname, x in patterns:
        x = np.ascontiguousarray(x, dtype=float)
        sx.state = x
        info = _XInfo(x)
        mx, mn = float(x.max()), float(x.min())
        for ent in mods:
            kind, par = ent["kind"], ent["par"]
            if not _in_domain(kind, par, x):
                ctx.count("combinations_outside_domain")
                continue
            true = mx if par > 0 else mn
            mask_ok = _run_mask(pym, rec, info, _cfg_of(ent["akw"]), counts)
            for variant in ("plain", "scaled", "aset", "aset+scaled", "scaled-other-extreme"):
                m = ent.get(variant)
                if m is None or (variant.startswith("aset") and not mask_ok):
                    continue   # a wrong mask is reported as such; its aggregate is meaningless
                m.response()
                y = _scalar(m.sig_out[0].state)
                ncmp += 1
                if "scaled" in variant:
                    t = true if variant != "scaled-other-extreme" else (mn if par > 0 else mx)
                    ctx.count("exact_scaling_checked")
                    err = abs(y - t) / t if math.isfinite(y) else float("inf")
                    worst_e = max(worst_e, err)
                    if not err <= 1e-15:
                        rec("scaling/undamped-output-differs-from-true-extreme", kind=kind, par=par, n=n, y=y, true=t,
                            relerr=err, variant=variant, pattern=pname, x=x)
                else:
                    if _check_bound(rec, ctx, kind, par, x, y, variant + "/" + pname):
                        lo, hi, tol = _interval(kind, par, n, mx, mn)
                        worst_b = max(worst_b, max(lo - y, y - hi, 0.0) / max(abs(lo), abs(hi), 1e-300))
                    if variant == "plain" and rng.random() < 0.25:
                        # the same values stored as a column, a row or a block (a field kept as (n,1) or (nx,ny)): the aggregate is
                        # over all entries, whatever the shape
                        shp = [(n, 1), (1, n)] + ([(2, n // 2)] if n % 2 == 0 and n >= 4 else [])
                        sx.state = x.reshape(shp[int(rng.integers(len(shp)))])
                        m.response()
                        y2 = _scalar(m.sig_out[0].state)
                        sx.state = x
                        ctx.count("aggregates_of_2d_inputs")
                        if not (math.isfinite(y2) and abs(y2 - y) <= 1e-12 * max(abs(y), 1e-300)):
                            rec("bounds/aggregate-depends-on-the-shape-the-values-are-stored-in", kind=kind, par=par, n=n, flat=y, shaped=y2, x=x)
    # parameter continuation by attribute assignment on an existing module (m.p = ..., m.rho = ...: the pattern of the
    # library's own tests): the next response obeys the bounds of the *new* parameter
    x = np.ascontiguousarray(_positive_patterns(rng, n)["distinct"], dtype=float)
    sx.state = x
    for ent in mods:
        kind, par = ent["kind"], ent["par"]
        newpar = par * float(rng.choice([0.5, 2.0, 3.0]))
        if not (_in_domain(kind, par, x) and _in_domain(kind, newpar, x)):
            continue
        m = ent["plain"]
        m.response()
        setattr(m, PARNAME[kind], newpar)
        m.response()
        ctx.count("parameter_continuation_checked")
        _check_bound(rec, ctx, kind, newpar, x, _scalar(m.sig_out[0].state), "plain/after-parameter-reassignment")
        setattr(m, PARNAME[kind], par)
    _flush_counts(ctx, counts)
    nb = "1-12" if n <= 12 else ("13-40" if n <= 40 else ("41-200" if n <= 200 else ">200"))
    return {"key": f"agg|n={n if n <= 40 else nb}|rep={case['rep'] if n <= 40 else 0}", "nontrivial": n >= 2 and ncmp > 0,
            "obs": {"n": n, "comparisons": ncmp, "worst_bound_excess_rel": worst_b, "worst_exactness_relerr": worst_e}}


# =========================================================================== family: hist
def _case_hist(case, ctx, pym):
    kind, sign, rep = case["kind"], case["sign"], case["rep"]
    rng = ctx.rng("hist", KINDS.index(kind), sign + 1, rep)
    rec = _Rec(ctx)
    counts = _new_counts()
    cls = getattr(pym, kind)
    dgrid = [0.0, 0.1, 0.5, 0.9, 0.95]
    nsteps, worst = 0, 0.0
    classes = set()
    nh = int(case.get("histories", 10))
    for h in range(nh):
        d = float(dgrid[(rep + h) % len(dgrid)]) if h % 10 < 5 else float(rng.uniform(0, 0.95))
        par = float(sign * np.exp(rng.uniform(np.log(0.5), np.log(30))))
        which = "max" if par > 0 else "min"
        if h % 5 == 4:
            which = "min" if which == "max" else "max"      # the factor follows `which`, whatever the parameter sign
        use_aset = h % 2 == 1 and ((which == "max") == (par > 0))
        vary_n = h % 3 != 0
        ncalls = int(rng.integers(2, 9))
        n0 = int(rng.integers(1, 13)) if h % 4 else int(rng.integers(13, 200))
        akw = _aset_kwargs(rng, which) if use_aset else None
        kw = {PARNAME[kind]: par}
        sx = pym.Signal("x", np.ones(n0))
        scal = pym.AggScaling(_which_spelling(rng, which), damping=d)
        mk = (lambda **k: cls(sx, **kw, **k))
        m = mk(scaling=scal, **({"active_set": pym.AggActiveSet(**akw)} if akw else {}))
        twin = mk(**({"active_set": pym.AggActiveSet(**akw)} if akw else {}))
        classes.add((d == 0, use_aset, vary_n))
        s_ref = None
        for k in range(ncalls):
            n = n0 if not vary_n else int(rng.integers(1, 2 * n0 + 1))
            style = int(rng.integers(0, 4))
            smax = min(12.0, 400.0 / abs(par))
            sc = float(np.exp(rng.uniform(np.log(0.05), np.log(smax))))
            x = sc * rng.uniform(0.05, 1.0, n)
            if style == 1:
                x[:] = x[0]
            elif style == 2 and n > 1:
                x[rng.permutation(n)[: max(1, n // 2)]] = x.max() if rng.random() < 0.5 else x.min()
            if k > 0 and rng.random() < 0.5:
                # what an optimiser does between two responses: back-propagate and reset() - the recurrence is over the
                # response() calls and must not restart
                if rng.random() < 0.5:
                    m.sig_out[0].sensitivity = 1.0
                    m.sensitivity()
                m.reset()
                twin.reset()
                ctx.count("resets_between_responses")
            sx.state = x
            if akw is not None:
                if not _run_mask(pym, rec, _XInfo(x), _cfg_of(akw), counts):
                    break
            twin.response()
            m.response()
            a = _scalar(twin.sig_out[0].state)
            y = _scalar(m.sig_out[0].state)
            t = float(x.max() if which == "max" else x.min())
            if not (math.isfinite(a) and a != 0.0):
                break   # the bound clause (family 'agg') judges the aggregate itself
            ratio = t / a
            s_prev = s_ref
            s_ref = ratio if s_ref is None else d * s_ref + (1 - d) * ratio
            mag = max(abs(s_ref), abs(ratio), abs(s_prev) if s_prev is not None else 0.0)
            wit = dict(kind=kind, par=par, which=which, damping=d, call=k, n=n, true=t, approx=a, s_expected=s_ref,
                       s_previous=s_prev, active_set=akw, x=x)
            ctx.count("recurrence_steps_checked")
            nsteps += 1
            s_obs = scal.sf
            try:
                s_obs = float(s_obs)
            except (TypeError, ValueError):
                s_obs = float("nan")
            e = abs(s_obs - s_ref) / mag if math.isfinite(s_obs) else float("inf")
            worst = max(worst, e)
            if not e <= 1e-12:
                if k == 0:
                    rec("scaling/first-call-factor-is-not-true-over-approx", s_observed=s_obs, **wit)
                elif d == 0.0:
                    rec("scaling/undamped-factor-is-not-true-over-approx", s_observed=s_obs, **wit)
                else:
                    rec("scaling/damped-factor-does-not-follow-recurrence", s_observed=s_obs, **wit)
                break
            want = s_ref * a
            if not (math.isfinite(y) and abs(y - want) <= 1e-12 * max(abs(want), abs(a))):
                rec("scaling/output-is-not-scale-factor-times-approximation", y=y, expected=want, **wit)
                break
            if d == 0.0:
                ctx.count("exact_scaling_checked")
                if not abs(y - t) <= 1e-15 * abs(t):
                    rec("scaling/undamped-output-differs-from-true-extreme", kind=kind, par=par, n=n, y=y, true=t,
                        relerr=abs(y - t) / t, variant=f"history call {k}", x=x)
                    break

    # AggScaling called directly with arbitrary approximations (the clause does not depend on the aggregate)
    for h in range(nh):
        d = float(dgrid[h % 5]) if h % 10 < 5 else float(rng.uniform(0, 0.95))
        which = "max" if (h // 5 + rep) % 2 == 0 else "min"
        scal = pym.AggScaling(_which_spelling(rng, which), damping=d)
        s_ref = None
        for k in range(int(rng.integers(2, 9))):
            n = int(rng.integers(1, 30))
            x = float(np.exp(rng.uniform(-3, 3))) * rng.uniform(0.05, 1.0, n)
            a = float(np.exp(rng.uniform(-3, 3)))
            t = float(x.max() if which == "max" else x.min())
            got = scal(x, a)
            ratio = t / a
            s_prev = s_ref
            s_ref = ratio if s_ref is None else d * s_ref + (1 - d) * ratio
            mag = max(abs(s_ref), abs(ratio), abs(s_prev) if s_prev is not None else 0.0)
            ctx.count("recurrence_steps_checked")
            ctx.count("direct_scaling_calls")
            nsteps += 1
            try:
                got = float(got)
                held = float(scal.sf)
            except (TypeError, ValueError):
                got = held = float("nan")
            wit = dict(direct_call=True, which=which, damping=d, call=k, n=n, true=t, approx=a, s_expected=s_ref,
                       s_previous=s_prev, returned=got, stored=held, x=x)
            if not (abs(got - s_ref) <= 1e-12 * mag and abs(held - s_ref) <= 1e-12 * mag):
                rec("scaling/first-call-factor-is-not-true-over-approx" if k == 0 else
                    ("scaling/undamped-factor-is-not-true-over-approx" if d == 0.0 else
                     "scaling/damped-factor-does-not-follow-recurrence"), **wit)
                break
    _flush_counts(ctx, counts)
    return {"key": f"hist|{kind}|{'+' if sign > 0 else '-'}|rep={rep % 5}", "nontrivial": nsteps > 0,
            "obs": {"steps": nsteps, "worst_factor_relerr": worst, "history_classes": len(classes)}}


# =========================================================================== family: aset-exh
@functools.lru_cache(maxsize=None)
def _weak_orderings(n):
    """All rank vectors of n entries (ordered set partitions): every tie structure and arrangement."""
    out = []
    for r in itertools.product(range(n), repeat=n):
        k = max(r) + 1
        if len(set(r)) == k:
            out.append(r)
    return out


def _case_aset_exh(case, ctx, pym):
    n, c, nc = case["n"], case["chunk"], case["nchunks"]
    rng = ctx.rng("aset-exh", n, c)
    rec = _Rec(ctx)
    counts = _new_counts()
    pats = _weak_orderings(n)[c::nc]
    if case["crossed"]:
        cfgs = [b + a for b in BANDS for a in AMTS]
    else:
        cfgs = [b + (0.0, 1.0) for b in BANDS] + [(0.0, 1.0) + a for a in AMTS]
    nb, na = len(BANDS), len(AMTS)
    for ip, r in enumerate(pats):
        ctx.count("weak_orderings")
        r = np.asarray(r)
        k = int(r.max()) + 1
        # (a) dyadic equally spaced levels: float arithmetic is exact, limits are hit exactly for k-1 in {1,2,4}
        off = float(rng.choice([0.0, 1.0, -3.0, 0.125]))
        xa = off + r / 8.0
        # (b) random increasing positive levels
        lev = np.cumsum(rng.uniform(0.05, 1.0, k)) * float(np.exp(rng.uniform(-2, 2)))
        xb = lev[r]
        maps = (xa, xb) if case.get("maps", 2) == 2 else ((xa,) if ip % 2 == 0 else (xb,))
        for x in maps:
            info = _XInfo(x)
            use = cfgs
            if not case["crossed"]:
                extra = [BANDS[int(i)] + AMTS[int(j)] for i, j in zip(rng.integers(0, nb, 40), rng.integers(0, na, 40))]
                use = cfgs + extra
            for cfg in use:
                _run_mask(pym, rec, info, cfg, counts)
    _flush_counts(ctx, counts)
    return {"key": f"aset-exh|n={n}|chunk={c}", "nontrivial": n >= 2 and counts["masks"] > 0,
            "obs": {"n": n, "weak_orderings": len(pats), "masks": counts["masks"], "on_boundary": counts["boundary"],
                    "rounding_to_zero": counts["zero"]}}


# =========================================================================== family: aset-len
def _value_patterns(rng, n):
    out = {}
    out["sorted-distinct"] = np.arange(n, dtype=float)
    out["reversed-distinct"] = np.arange(n, dtype=float)[::-1].copy() + 2.0
    out["shuffled-distinct"] = rng.permutation(n).astype(float) * 0.37 - 1.0
    out["uniform"] = rng.uniform(0, 1, n)
    out["decimal-ties"] = np.round(rng.uniform(0, 1, n), 1)
    out["two-level"] = rng.integers(0, 2, n).astype(float) * 3.0 + 1.0
    out["all-equal"] = np.full(n, float(rng.uniform(0.1, 2)))
    x = rng.uniform(0, 1, n)
    x[rng.permutation(n)[: max(1, n // 3)]] = x.max()
    out["tie-at-max"] = x
    x = rng.uniform(0, 1, n)
    x[rng.permutation(n)[: max(1, n // 3)]] = x.min()
    out["tie-at-min"] = x
    out["dyadic-grid"] = rng.integers(0, 9, n) / 8.0 + float(rng.integers(-2, 3))
    out["positive-wide"] = 10.0 ** rng.uniform(-3, 3, n)
    return out


def _fractions_for_length(n):
    """Fractions at which n*f is an integer (as float division gives it), its float neighbours, half-way points and
    fractions that round to zero entries."""
    fs = set()
    for k in range(0, n + 1):
        f = k / n
        for v in (f, np.nextafter(f, 0.0), np.nextafter(f, 1.0), (k + 0.5) / n, (k + 0.999) / n, (k + 0.001) / n):
            v = float(v)
            if 0.0 < v < 1.0:
                fs.add(v)
    fs.update([0.5 / n, 0.9 / n, 0.99 / n, 1e-9, 1e-3])
    fs.update([0.05 * j for j in range(1, 20)] + [0.01, 0.99, 1 / 3, 2 / 3])
    return sorted(f for f in fs if 0.0 < f < 1.0)


def _case_aset_len(case, ctx, pym):
    n = case["n"]
    rng = ctx.rng("aset-len", n)
    rec = _Rec(ctx)
    counts = _new_counts()
    fr = _fractions_for_length(n)
    pats = _value_patterns(rng, n)
    for pname, x in pats.items():
        info = _XInfo(x)
        cfgs = []
        for f in fr:
            cfgs.append((0.0, 1.0, f, 1.0))                  # remove the lowest fraction f
            cfgs.append((0.0, 1.0, 0.0, 1.0 - f))            # remove the highest fraction f (upper_amt = 1-f)
        for _ in range(60):                                   # both ends
            f1, f2 = (float(v) for v in rng.choice(fr, 2))
            if f1 < 1.0 - f2:
                cfgs.append((0.0, 1.0, f1, 1.0 - f2))
        # value band: grid, limits equal to a float-normalised entry (boundary hit), and their float neighbours
        lims = [0.1, 0.25, 0.5, 0.75, 0.9, 1 / 3, 2 / 3]
        if not info.flat:
            for v in info.xr:
                v = float(v)
                lims += [v, float(np.nextafter(v, 0.0)), float(np.nextafter(v, 1.0))]
        lims = sorted({v for v in lims if 0.0 < v < 1.0})
        for v in lims:
            cfgs.append((v, 1.0, 0.0, 1.0))
            cfgs.append((0.0, v, 0.0, 1.0))
        for _ in range(80):                                   # everything together
            a, b = sorted(float(v) for v in rng.choice(lims, 2)) if len(lims) >= 2 else (0.2, 0.8)
            f1, f2 = (float(v) for v in rng.choice(fr, 2))
            if a < b and f1 < 1.0 - f2:
                cfgs.append((a, b, f1, 1.0 - f2))
        for cfg in cfgs:
            _run_mask(pym, rec, info, cfg, counts)
    _flush_counts(ctx, counts)
    return {"key": f"aset-len|n={n}", "nontrivial": n >= 2 and counts["masks"] > 0,
            "obs": {"n": n, "masks": counts["masks"], "on_boundary": counts["boundary"],
                    "rounding_to_zero": counts["zero"], "ambiguous_counts": counts["ambiguous_counts"]}}


# =========================================================================== family: aset-rand
def _case_aset_rand(case, ctx, pym):
    rng = ctx.rng("aset-rand", case["rep"])
    rec = _Rec(ctx)
    counts = _new_counts()
    classes = set()
    nmaxseen = 0
    for _ in range(case["count"]):
        n = int(np.exp(rng.uniform(0, np.log(case["nmax"]))))
        n = max(1, n)
        nmaxseen = max(nmaxseen, n)
        style = int(rng.integers(0, 11))
        if style >= 9:
            # values clustered around a common offset with a spread of a few ... 1e6 units in the last place (temperatures around 1000 K,
            # frequencies around 1e6 Hz): the normalised values k/K are exact, a de-normalised threshold is rounded onto the data grid
            c = float(rng.choice([1000.0, 1.0, 1e6, 273.15, 7.3e-3]))
            K = int(rng.choice([5, 10, 20, 50, 200]))
            step = float(np.spacing(c)) * float(rng.choice([1, 1, 2, 3, 1000, 1e6]))
            n = max(n, 3)
            kk = rng.integers(0, K + 1, n)
            kk[0], kk[1] = 0, K
            x = c + kk[rng.permutation(n)] * step
        elif style >= 7:
            # integer-valued data over a long range (percentages, counts): a band limit that coincides with an entry, lr = k/N, is
            # on the band only if the comparison is made on the normalised values ((k/N)*N need not be k in floating point)
            N = int(rng.choice([100, 100, 1000, 37, 49]))
            n = max(n, 3)
            x = rng.integers(0, N + 1, n).astype(float)
            x[0], x[1] = 0.0, float(N)
            x = x[rng.permutation(n)] + float(rng.choice([0.0, 0.0, 5.0]))
        elif style == 0:
            x = rng.uniform(0, 1, n)
        elif style == 1:
            x = np.round(rng.uniform(0, 1, n), int(rng.integers(1, 3)))
        elif style == 2:
            x = rng.integers(0, int(rng.integers(2, 12)), n).astype(float)
        elif style == 3:
            x = rng.integers(0, 17, n) / 16.0 + float(rng.integers(-3, 4))
        elif style == 4:
            x = rng.standard_normal(n) * float(np.exp(rng.uniform(-3, 3))) + float(rng.uniform(-5, 5))
        elif style == 5:
            x = 10.0 ** rng.uniform(-3, 3, n)
        else:
            x = np.full(n, float(rng.uniform(0.1, 2)))
        info = _XInfo(x)

        def frac():
            m = int(rng.integers(0, 6))
            if m == 0:
                return float(rng.uniform(0, 1))
            if m == 1:
                return float(rng.integers(0, n + 1)) / n
            if m == 2:
                return float(rng.uniform(0, 1.0 / n))                # rounds to zero entries
            if m == 3:
                return float(rng.integers(1, 20)) * 0.05
            if m == 4:
                return float(np.nextafter(float(rng.integers(0, n + 1)) / n, float(rng.integers(0, 2))))
            return float(rng.integers(0, n + 1) + rng.uniform(0, 1)) / n

        for _rep in range(4):
            lr = float(rng.choice([0.0, rng.uniform(0, 0.6), 0.25, 0.5]))
            ur = float(rng.choice([1.0, rng.uniform(0.4, 1.0), 0.75, 0.5]))
            if not info.flat and rng.random() < 0.3:
                v = float(rng.choice(info.xr))
                if rng.random() < 0.5:
                    lr = v
                else:
                    ur = v
            la = float(rng.choice([0.0, min(frac(), 0.999)]))
            ua = float(rng.choice([1.0, 1.0 - min(frac(), 0.999)]))
            if not (0.0 <= lr < ur <= 1.0 and 0.0 <= la < ua <= 1.0):
                continue
            cfg = (lr, ur, la, ua)
            classes.add(_optclass(cfg))
            _run_mask(pym, rec, info, cfg, counts)
    _flush_counts(ctx, counts)
    return {"key": f"aset-rand|rep={case['rep']}", "nontrivial": counts["masks"] > 0,
            "obs": {"masks": counts["masks"], "option_classes": sorted(classes), "largest_n": nmaxseen,
                    "rounding_to_zero": counts["zero"], "ambiguous_counts": counts["ambiguous_counts"]}}


# =========================================================================== dispatch
def run_case(case, ctx):
    import pymoto as pym
    fam = case["fam"]
    if fam == "agg":
        return _case_agg(case, ctx, pym)
    if fam == "hist":
        return _case_hist(case, ctx, pym)
    if fam == "aset-exh":
        return _case_aset_exh(case, ctx, pym)
    if fam == "aset-len":
        return _case_aset_len(case, ctx, pym)
    if fam == "aset-rand":
        return _case_aset_rand(case, ctx, pym)
    raise Violation("driver/unknown-family", fam=fam)
