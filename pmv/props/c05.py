"""C05 — every linear solver solves the requested (transposed/adjoint) system.

Workload: every solver class x every matrix class it documents x storage x trans N/T/H x
right-hand-side dtype x shapes (n),(n,1),(n,k) with a linearly dependent and (where admissible) a zero
column x optional initial guess x update() with a second matrix of the same class;
auto_determine_solver on every class (dense and sparse); CG with every preconditioner including
geometric multigrid (V/W, smoothers, two levels) on 2D/3D FE matrices; a scale sweep for the
classification tolerances.  Oracle: residual of the requested system against the matrix handed to
update(), shape and precision of the answer; the online SolverMonitor watches every inner solve too."""
import warnings

import numpy as np
import scipy.sparse as sps

from ..core import Violation, require, Skip
from ..oracles import matgen

ID = "C05"
LEVEL = "exploration"
MONITORS = ["solver"]
ANCHORS = ["solvers/dense.py", "solvers/sparse.py", "solvers/iterative.py", "solvers/auto_determine.py", "solvers/matrix_checks.py"]
RULE = ("case = (solver configuration, matrix class, storage, size draw); each case runs 2 matrices x 3 trans x 2 rhs dtypes x "
        "4 rhs shapes (+x0); distinct = (solver configuration, matrix class, storage); non-trivial = at least 12 solves judged")
ASSUMPTIONS = [
    "direct solvers: normwise backward error ||Mx-b||/(||M||_F||x||+||b||) <= 1e-11 and relative residual <= max(1e-9, 1e-13*cond)",
    "iterative (CG): relative residual per column <= 10*tol of the solver",
    "condition number <= 1e4 (quick) / 1e6 (thorough); matrix scale in [1e-3,1e3] in the main sweep",
    "documented exclusion: real SuperLU factorisation with a complex right-hand side (rejected explicitly by LinSolve)",
    "precision clause: answer is float64 for real matrix and real rhs, complex128 otherwise; same shape as rhs",
    "unreachable in this image (package not installed, defined=False): SolverSparsePardiso, SolverSparseCholeskyScikit, SolverSparseCholeskyCVXOPT",
]
UNREACHABLE = ["SolverSparsePardiso (pypardiso missing)", "SolverSparseCholeskyScikit (scikit-sparse missing)",
               "SolverSparseCholeskyCVXOPT (cvxopt missing)"]
FLOORS = {"quick": {"cases_held": 300, "solves_judged": 10000, "trans_T": 3000, "trans_H": 3000, "dependent_blocks": 2500,
                    "x0_solves": 2500, "mon_solve:CG": 1000, "multigrid_solves": 120},
          "thorough": {"cases_held": 9000, "solves_judged": 300000, "trans_T": 90000, "trans_H": 90000,
                       "dependent_blocks": 75000, "x0_solves": 75000, "mon_solve:CG": 30000, "multigrid_solves": 1500}}
K2 = "auto-determine/abs-tolerance-classification-of-tiny-scaled-matrix"

ALLC = matgen.ALL_CLASSES
TABLE = [
    # (solver config, classes, storages)
    ("SolverDiagonal", ["diag", "cdiag"], ["dense", "csc"]),
    ("SolverDenseQR", ALLC, ["dense"]),
    ("SolverDenseLU", ALLC, ["dense"]),
    ("SolverDenseCholesky", ["spd", "hpd", "sym", "herm", "nspd", "nhpd"], ["dense"]),       # sym/herm/negative definite: documented LDL fall-back
    ("SolverDenseLDL", ["diag", "spd", "hpd", "sym", "herm", "csym"], ["dense"]),
    ("SolverDenseLDL:hermitian=flag", ["spd", "hpd", "sym", "herm", "csym"], ["dense"]),
    ("SolverSparseLU", ALLC, ["csc", "csr", "csc_array", "csr_array"]),
    ("CG:Preconditioner", ["spd", "hpd"], ["dense", "csc"]),
    ("CG:DampedJacobi", ["spd", "hpd"], ["csc", "csr"]),
    ("CG:SOR", ["spd", "hpd"], ["csc"]),
    ("CG:ILU", ["spd", "hpd"], ["csc"]),
    ("auto", ALLC + ["nspd", "nhpd"], ["dense", "csc", "csr_array", "coo_array"]),
    # the linear-dependency-aware wrapper is a solver like the others (LinSolve's default): judged to its own tolerance; its history
    # semantics are C06's subject, here it only has to solve what is asked for every matrix class
    ("LDAWrapper:SolverDenseLU", ALLC, ["dense"]),
    ("LDAWrapper:SolverSparseLU", ALLC, ["csc"]),
]


def plan(tier, seed):
    reps = 4 if tier == "quick" else 120
    cases = []
    for cfg, classes, storages in TABLE:
        for cls in classes:
            for st in storages:
                for r in range(reps):
                    cases.append({"fam": "table", "cfg": cfg, "cls": cls, "storage": st, "r": r})
    mg = []
    for dim, n in ((2, (4, 4, 0)), (2, (6, 2, 0)), (3, (2, 2, 2))):
        for kind in ("stiffness", "poisson", "mass3"):
            for cyc in ("V", "W"):
                for sm in ("default", "SOR", "Jacobi0.8"):
                    mg.append({"fam": "mg", "dim": dim, "n": list(n), "kind": kind, "cycle": cyc, "smoother": sm, "levels": 1})
    mg.append({"fam": "mg", "dim": 2, "n": [8, 4, 0], "kind": "stiffness", "cycle": "V", "smoother": "default", "levels": 2})
    mg.append({"fam": "mg", "dim": 2, "n": [4, 8, 0], "kind": "poisson", "cycle": "W", "smoother": "SOR", "levels": 2})
    mg.append({"fam": "mg", "dim": 3, "n": [4, 4, 4], "kind": "poisson", "cycle": "V", "smoother": "default", "levels": 2})
    if tier == "quick":
        mg = mg[::3] + mg[-3:]
    for r in range(1 if tier == "quick" else 4):
        cases += [dict(c, r=r) for c in mg]
    for cls in ("gen", "sym", "triu", "cgen", "csym", "herm"):
        for st in ("dense", "csc"):
            for e in (0, -3, -6, -9, -12):
                cases.append({"fam": "scale", "cls": cls, "storage": st, "exp": e, "r": 0})
    # CG runs that need more iterations than the restart interval (50) of the explicit residual recomputation
    for r in range(2 if tier == "quick" else 12):
        for cls in ("spd", "hpd"):
            for pc in ("Preconditioner", "DampedJacobi"):
                cases.append({"fam": "cglong", "cls": cls, "pc": pc, "storage": ["dense", "csc"][r % 2] if pc == "Preconditioner" else "csc", "r": r})
    # symmetric indefinite saddle-point matrices with a tiny regularisation of the same sign on the diagonal: [[K, B^T], [B, eps I]]
    for r in range(3 if tier == "quick" else 30):
        for cfg, st in (("SolverSparseLU", "csc"), ("SolverSparseLU", "csr"), ("SolverDenseLDL", "dense"), ("SolverDenseLU", "dense"),
                        ("auto", "csc"), ("auto", "dense"), ("LDAWrapper:SolverSparseLU", "csc")):
            cases.append({"fam": "saddle", "cfg": cfg, "storage": st, "r": r})
    return cases


def make_solver(cfg, cls, A):
    import pymoto.solvers as S
    if cfg == "auto":
        return S.auto_determine_solver(A)
    if cfg.startswith("CG:"):
        pc = {"Preconditioner": lambda: S.Preconditioner(), "DampedJacobi": lambda: S.DampedJacobi(w=0.8),
              "SOR": lambda: S.SOR(w=1.2), "ILU": lambda: S.ILU()}[cfg[3:]]()
        return S.CG(preconditioner=pc, tol=1e-9, maxit=2000)
    if cfg.startswith("LDAWrapper:"):
        return S.LDAWrapper(getattr(S, cfg.split(":")[1])())
    if cfg == "SolverDenseLDL:hermitian=flag":
        return S.SolverDenseLDL(hermitian=cls in ("spd", "hpd", "sym", "herm"))
    return getattr(S, cfg)()


def judge(ctx, solver, A, cond, iterative_tol, allow_zero_col, rng, label, superlu_inside=False):
    """All trans modes x rhs dtypes x shapes (+x0) for the solver whose update(A) has been called."""
    n = A.shape[0]
    Ad = A.toarray() if sps.issparse(A) else np.asarray(A)
    cA = np.iscomplexobj(Ad)
    sname = type(solver).__name__
    # real SuperLU factors (SparseLU itself, or inside SOR / ILU / the multigrid coarse solver) do not accept a
    # complex right-hand side: the documented exclusion (LinSolve rejects real sparse matrix + complex rhs)
    real_superlu = (sname == "SolverSparseLU" or superlu_inside) and not cA
    nM = np.linalg.norm(Ad)
    judged = 0
    for trans in ("N", "T", "H"):
        M = {"N": Ad, "T": Ad.T, "H": Ad.conj().T}[trans]
        for cb in (False, True):
            if cb and real_superlu:
                ctx.count("excluded_real_superlu_complex_rhs")
                continue
            for shape in ("v", "c1", "blk", "blkdep", "blkscaled"):
                k = {"v": None, "c1": 1, "blk": 3, "blkdep": 4, "blkscaled": 3}[shape]
                b = rng.standard_normal(n if k is None else (n, k))
                if cb:
                    b = b + 1j * rng.standard_normal(b.shape)
                bscale = 10.0 ** rng.uniform(-6, 3)     # the requested accuracy is relative: any magnitude of rhs
                b = b * bscale
                if shape == "blkscaled":                # load cases of very different magnitude in one block
                    b[:, 1] *= 10.0 ** rng.uniform(-7, -4)
                if shape == "blkdep":
                    b[:, 2] = 2 * b[:, 0] - b[:, 1]
                    b[:, 3] = 0 if allow_zero_col else -b[:, 0]
                    ctx.count("dependent_blocks")
                x0 = None
                if rng.random() < (0.6 if shape == "blkscaled" else 0.3):
                    x0 = rng.standard_normal(b.shape)
                    if cb or cA:
                        x0 = x0 + 1j * rng.standard_normal(b.shape)
                    x0 = x0 * bscale / max(nM / np.sqrt(n), 1e-300)    # a guess of the magnitude of the solution
                    x0fac = 1.0
                    if rng.random() < 0.3:
                        # a poor guess (the solution of a load 10-300 times larger): worse than no guess, but the requested accuracy is
                        # relative to |b| and stays attainable (the rounding level of the first residual is eps*cond*x0fac)
                        x0fac = 10.0 ** rng.uniform(1.0, 2.5)
                        x0 = x0 * x0fac
                        ctx.count("poor_initial_guesses")
                    if shape == "blkscaled":
                        # warm start: the large load cases are (almost) solved already, the small one is not
                        xs = np.linalg.solve(M, b)
                        x0 = (xs * (1 + 1e-9 * rng.standard_normal(xs.shape))).astype(x0.dtype)
                        x0[:, 1] = 0
                    ctx.count("x0_solves")
                bk = b.copy()
                with warnings.catch_warnings():
                    warnings.simplefilter("ignore")
                    x = solver.solve(b, x0=x0, trans=trans)
                desc = {"solver": label, "class": type(solver).__name__, "trans": trans, "cplx_rhs": cb, "shape": shape,
                        "x0": x0 is not None, "n": n, "cplx_matrix": bool(cA)}
                require(np.array_equal(bk, b), "solve-mutates-right-hand-side", **desc)
                x = np.asarray(x)
                require(x.shape == b.shape, "answer-shape-differs-from-rhs", got=list(x.shape), **desc)
                want_c = cA or cb
                require(x.dtype == (np.complex128 if want_c else np.float64), "answer-precision-or-kind-differs",
                        got=str(x.dtype), **desc)
                require(bool(np.all(np.isfinite(x))), "answer-not-finite", **desc)
                xx, bb = x.reshape(n, -1), b.reshape(n, -1)
                r = np.linalg.norm(M @ xx - bb, axis=0)
                nb = np.linalg.norm(bb, axis=0)
                nz = nb > 0
                rel = float(np.max(r[nz] / nb[nz])) if np.any(nz) else 0.0
                if np.any(~nz):
                    if iterative_tol is None:
                        require(float(np.max(np.abs(xx[:, ~nz]), initial=0)) <= 1e-13 * (1 + np.max(np.abs(xx))),
                                "zero-column-gives-nonzero-answer", **desc)
                    else:   # iterative: the exact answer is 0; accept the solver's own (absolute) stopping accuracy
                        r0 = 1.0 if x0 is None else max(1.0, float(np.max(np.linalg.norm(M @ x0.reshape(n, -1)[:, ~nz], axis=0))))
                        require(float(np.max(r[~nz])) <= 10 * iterative_tol * r0, "zero-column-gives-nonzero-answer",
                                residual=float(np.max(r[~nz])), **desc)
                if iterative_tol is not None:
                    fl = 0.0 if x0 is None else 1e2 * np.finfo(float).eps * cond * (x0fac if shape != "blkscaled" else 1.0)
                    ok = rel <= max(10 * iterative_tol, fl)
                    bw = None
                else:
                    bw = float(np.max(r / (nM * np.linalg.norm(xx, axis=0) + nb + 1e-300)))
                    ok = bw <= 1e-11 and rel <= max(1e-9, 1e-13 * cond)
                ctx.count("solves_judged")
                ctx.count("trans_" + trans)
                judged += 1
                ctx.obs["max_rel"] = max(ctx.obs.get("max_rel", 0.0), rel)
                if not ok:
                    raise Violation(f"answer-does-not-solve-requested-system/{trans}", residual=rel, backward_error=bw, cond=cond, **desc)
    return judged


def run_table(case, ctx):
    cfg, cls, st = case["cfg"], case["cls"], case["storage"]
    rng = ctx.rng("table", cfg, cls, st, case["r"])
    cmax = 4 if ctx.tier == "quick" else 6
    n = int(rng.integers(1, 12)) if ctx.tier == "quick" else int(rng.integers(1, 41))
    if case["r"] == 0:
        n = 1 if cls in ("diag", "cdiag", "spd", "hpd", "gen", "cgen") else 2
    cond = 10 ** rng.uniform(0, cmax)
    if cfg.startswith("CG"):
        cond = min(cond, 1e4)
    scale = 10 ** rng.uniform(-3, 3)
    A = matgen.make(rng, cls, n, cond=cond, scale=scale)
    As = matgen.to_storage(A, st)
    with warnings.catch_warnings():
        warnings.simplefilter("ignore")
        solver = make_solver(cfg, cls, As)
        solver.update(As)
    it = getattr(solver, "tol", None) if type(solver).__name__ in ("CG", "LDAWrapper") else None
    allow_zero = True
    slu = cfg in ("CG:SOR", "CG:ILU", "LDAWrapper:SolverSparseLU")
    j = judge(ctx, solver, As, cond, it, allow_zero, rng, cfg, slu)
    # a second matrix of the same class through update(): nothing of the first factorisation may survive
    A2 = matgen.perturb_same_class(rng, A, cls)
    As2 = matgen.to_storage(A2, st)
    with warnings.catch_warnings():
        warnings.simplefilter("ignore")
        solver.update(As2)
    j += judge(ctx, solver, As2, cond * 16, it, allow_zero, rng, cfg + "+update", slu)
    if type(solver).__name__ == "SolverDenseCholesky" and n >= 2:
        # the documented LDL fall-back: the same solver object sees positive definite and indefinite (positive diagonal)
        # Hermitian matrices in both orders
        cp = cls in ("hpd", "herm")
        seq = ["hpd" if cp else "spd", "posdiag-indef", "hpd" if cp else "spd"] if rng.random() < 0.5 else \
            ["posdiag-indef", "hpd" if cp else "spd", "posdiag-indef"]
        for c3 in seq:
            if c3 == "posdiag-indef":
                B = matgen.make(rng, "herm" if cp else "sym", n, cond=min(cond, 100.0), scale=scale)
                B = B - np.diag(np.diag(B)) + np.diag(np.abs(np.diag(B)) + 0.05 * np.abs(B).sum(axis=1))
                if np.all(np.linalg.eigvalsh(B) > 0):   # still definite: push one eigenvalue through zero
                    w_, v_ = np.linalg.eigh(B)
                    B = B - 1.5 * w_[0] * np.outer(v_[:, 0], v_[:, 0].conj())
                    if not np.all(np.real(np.diag(B)) > 0):
                        continue
            else:
                B = matgen.make(rng, c3, n, cond=min(cond, 1e3), scale=scale)
            cB = np.linalg.cond(B)
            if cB > 1e6:
                continue
            with warnings.catch_warnings():
                warnings.simplefilter("ignore")
                solver.update(B)
            ctx.count("cholesky_definiteness_switches")
            j += judge(ctx, solver, B, cB, it, allow_zero, rng, cfg + "+switch:" + c3, slu)
    return {"key": f"{cfg}/{cls}/{st}", "nontrivial": j >= 12,
            "obs": {"n": n, "cond": cond, "scale": scale, "solver": type(solver).__name__, "judged": j, "max_rel_residual": ctx.obs.get("max_rel")}}


def run_mg(case, ctx):
    import pymoto as pym
    import pymoto.solvers as S
    rng = ctx.rng("mg", case["dim"], *case["n"], case["kind"], case["cycle"], case["smoother"], case["levels"], case["r"])
    nx, ny, nz = case["n"]
    kind = case["kind"]
    K, dom, bc = matgen.fe_matrix(rng, "mass" if kind == "mass3" else kind, case["dim"], (nx, ny, nz),
                                  ndof=3 if kind == "mass3" else None)
    if kind == "mass3":   # consistent mass matrix is SPD; keep the decoupled bc rows on the diagonal
        K = K.tocsc()

    def smoother():
        return {"default": None, "SOR": S.SOR(w=1.0), "Jacobi0.8": S.DampedJacobi(w=0.8)}[case["smoother"]]
    inner = None
    if case["levels"] == 2:
        d2 = pym.DomainDefinition(nx // 2, ny // 2, nz // 2, unitx=2, unity=2, unitz=2)
        inner = S.GeometricMultigrid(d2, cycle=case["cycle"], smoother=smoother())
    mg = S.GeometricMultigrid(dom, cycle=case["cycle"], inner_level=inner, smoother=smoother())
    solver = S.CG(preconditioner=mg, tol=1e-9, maxit=500)
    with warnings.catch_warnings():
        warnings.simplefilter("ignore")
        solver.update(K)
    j = judge(ctx, solver, K, 1e4, solver.tol, True, rng, f"CG:MG:{case['cycle']}:{case['smoother']}:{case['levels']}", True)
    ctx.count("multigrid_solves", j)
    # interpolation matrix: partition of unity over coarse nodes (each fine dof interpolates constants exactly)
    R = mg.R.toarray()
    require(np.allclose(R.sum(axis=1), 1.0, atol=1e-12), "multigrid/interpolation-does-not-reproduce-constants")
    return {"key": f"mg/{case['dim']}/{kind}/{case['cycle']}/{case['smoother']}/{case['levels']}", "nontrivial": True,
            "obs": {"n": K.shape[0], "judged": j, "max_rel_residual": ctx.obs.get("max_rel")}}


def run_scale(case, ctx):
    import pymoto.solvers as S
    rng = ctx.rng("scale", case["cls"], case["storage"], case["exp"])
    n = 5
    A = matgen.make(rng, case["cls"], n, cond=30.0, scale=10.0 ** case["exp"])
    As = matgen.to_storage(A, case["storage"])
    with warnings.catch_warnings():
        warnings.simplefilter("ignore")
        solver = S.auto_determine_solver(As)
        solver.update(As)
    from ..monitors import STATE
    try:
        # below 1e-8 the online monitor would report the same known mis-classification a second time
        STATE.enabled = case["exp"] > -9
        j = judge(ctx, solver, As, 30.0, None, True, rng, "auto@scale")
    except Violation as v:
        STATE.enabled = True
        if case["exp"] <= -9 and v.mech.startswith("answer-does-not-solve"):
            # all entries below the absolute tolerance 1e-8 of np.allclose: classified diagonal/symmetric
            raise Violation(K2, scale=10.0 ** case["exp"], chosen=type(solver).__name__, **v.detail)
        raise
    finally:
        STATE.enabled = True
    return {"key": f"scale/{case['cls']}/{case['storage']}/{case['exp']}", "nontrivial": True,
            "obs": {"solver": type(solver).__name__, "scale": 10.0 ** case["exp"], "judged": j}}


def run_cglong(case, ctx):
    import pymoto.solvers as S
    rng = ctx.rng("cglong", case["cls"], case["pc"], case["storage"], case["r"])
    n = int(rng.integers(120, 220))
    cond = 10 ** rng.uniform(3.0, 4.0)
    A = matgen.make(rng, case["cls"], n, cond=cond, scale=10 ** rng.uniform(-2, 2))
    As = matgen.to_storage(A, case["storage"])
    pc = S.Preconditioner() if case["pc"] == "Preconditioner" else S.DampedJacobi(w=0.8)
    solver = S.CG(preconditioner=pc, tol=1e-9, maxit=5000)
    with warnings.catch_warnings():
        warnings.simplefilter("ignore")
        solver.update(As)
    j = judge(ctx, solver, As, cond, solver.tol, True, rng, f"CG:{case['pc']}:long")
    ctx.count("long_cg_solves", j)
    return {"key": f"cglong/{case['cls']}/{case['pc']}/{case['storage']}/{case['r']}", "nontrivial": True,
            "obs": {"n": n, "cond": cond, "judged": j}}


def run_saddle(case, ctx):
    rng = ctx.rng("saddle", case["cfg"], case["storage"], case["r"])
    n1, n2 = int(rng.integers(5, 14)), int(rng.integers(1, 5))
    K = matgen.make(rng, "spd", n1, cond=10 ** rng.uniform(0.5, 2))
    B = rng.standard_normal((n2, n1))
    eps = 10.0 ** rng.uniform(-12, -8)
    A = np.block([[K, B.T], [B, eps * np.eye(n2)]])
    As = matgen.to_storage(A, case["storage"])
    cond = float(np.linalg.cond(A))
    with warnings.catch_warnings():
        warnings.simplefilter("ignore")
        solver = make_solver(case["cfg"], "sym", As)
        solver.update(As)
    it = getattr(solver, "tol", None) if type(solver).__name__ == "LDAWrapper" else None
    slu = type(solver).__name__ == "SolverSparseLU" or case["cfg"] == "LDAWrapper:SolverSparseLU" or \
        (case["cfg"] == "auto" and case["storage"] != "dense")
    j = judge(ctx, solver, As, cond, it, True, rng, case["cfg"] + "@saddle", slu)
    ctx.count("saddle_point_solves", j)
    return {"key": f"saddle/{case['cfg']}/{case['storage']}/{case['r']}", "nontrivial": True,
            "obs": {"n": n1 + n2, "cond": cond, "eps": eps, "solver": type(solver).__name__, "judged": j}}


def run_case(case, ctx):
    return {"table": run_table, "mg": run_mg, "scale": run_scale, "cglong": run_cglong, "saddle": run_saddle}[case["fam"]](case, ctx)
