"""C12 — element-level operators reproduce affine fields exactly and agree with assembly.

Four kinds of cases, one per group of clauses of the statement:

``strain``     Strain (both ``voigt`` flags), Stress and the energy identity for an affine displacement field
               ``u(p) = G p + c``:  strain = sym(G) in Voigt order with engineering shear, stress = D * that strain
               (own D, derived by inverting the compliance), ``sum_e x_e V_e s_e.e_e = u'Ku`` with pyMOTO's
               assembled K.
``average``    ElementAverage of an affine nodal field (1..3 dofs per node) is the value at the element centroid.
``transpose``  the complete matrices of ElementOperation and NodalOperation (response applied to every unit
               vector) are each other's transpose for one element matrix, for every operator shape
               ``(k,) (1,k) (m,k) (a,b,k)`` and the per-node forms ``(nodes,) (m,nodes)`` with 1..3 dofs per node.
``thermal``    ThermoMechanical load: zero work on every rigid-body mode (uniform and heterogeneous input) and,
               in plane stress and 3D, equal to ``K(x) * (alpha dT (p - p0))``.

Known finding K1 (``shear-rows-doubled``): get_B already yields engineering shear and Strain multiplies the shear
rows by two again.  The oracle classifies by mechanism: shear rows equal to the stated value -> conforming;
*every* shear row exactly twice the stated value, normal rows exact, Stress = D * (the doubled strain) and the
energy off by exactly three times the shear energy -> ``shear-rows-doubled``; anything else -> another mechanism.
"""
import numpy as np

from ..core import Violation, require, rng_for

ID = "C12"
LEVEL = "exploration"
MONITORS = []
ANCHORS = ["modules/assembly.py", "common/domain.py"]
RULE = ("case = kind (strain | average | transpose | thermal) x dimension x plane mode x field class (general, "
        "normal-only, rigid rotation, pure shear, every single entry of the displacement gradient, constant, "
        "large offset, tiny) x scaling-vector class x element-size class x Poisson class x dofs per node x "
        "operator shape, all enumerated; grid, sizes in [0.3,3], E in [1e-3,1e3], gradients and offsets random "
        "per VERIF_SEED. distinct = distinct option tuple + grid; non-trivial = field/operator not identically zero")
EXHAUSTIVE = {"quick": False, "thorough": False}   # only the transpose part is enumerated (grid x dofs x operator form)
EXPLANATION = ("A case in which the known finding 'shear-rows-doubled' is observed is recorded as violated under that one "
               "key (and every further clause of the case is still judged, against 'D times the strain the module "
               "returns' and 'uKu + 3 x shear energy'); it therefore never counts as held. Held cases are the strain "
               "cases whose stated shear strain is zero (normal-only, rigid rotation, constant, diagonal single entry) "
               "and all average / transpose / thermal cases; the floors on *_compared counters include both.")
ASSUMPTIONS = [
    "geometry (node positions, connectivity) is taken from DomainDefinition, which C13 judges",
    "the assembled stiffness matrix is pyMOTO's AssembleStiffness without boundary conditions (judged in C08), as the "
    "statement says; the constitutive matrix is the driver's own (inverse of the isotropic compliance)",
    "Stress in 2D and the energy identity are evaluated on unit out-of-plane thickness only (quantifier); Strain, "
    "ElementAverage and ThermoMechanical in 2D get a random thickness in [0.3,3]",
    "Strain(voigt=False) is expected to return the tensor shear e_ij = gamma_ij/2 (its documentation); "
    "Voigt order in 3D is xx,yy,zz,yz,zx,xy; the plane argument is ignored in 3D",
    "inputs are real float64 vectors of size dofs_per_node*nnodes; Poisson ratio in [-0.5,0.49]; E in [1e-3,1e3]; "
    "element sizes in [0.3,3]; scaling vector in [0,1] including exact zeros and 1e-9",
    "bounds: quick grids <=4x4 / <=3x3x3 (transpose: all grids <=3x3 and <=2x2x2); thorough grids <=8x8 / <=5x5x5, one "
    "in ten <=16x16 / <=7x7x7 (transpose: all grids <=6x6 and <=4x4x4)",
    "the thermal load is compared with K(x) times alpha*dT*(p-p0) for a uniform temperature step dT (either sign) and "
    "heterogeneous x; in plane strain only self-equilibrium is stated, so only that is judged there",
    "tol strain: 1e-12*max|u|/min(h) (a row of B has <= 2*2^dim entries of size 1/(2^(dim-1) h): rounding <= ~30 eps "
    "max|u|/h); measured worst error/tol 1.6e-3",
    "tol stress: 1e-12*max|D|*max|u|/min(h) (one more 6-term product; own D by a 6x6 inverse, cond <= 150); measured "
    "worst error/tol 9e-3",
    "tol energy: 1e-12*|u|'|K||u| (rounding bound gamma_n*|u|'|K||u| of the quadratic form, n <= 1700 -> 1.9e-13); "
    "measured worst error/tol 1.4e-3; comparisons whose tolerance exceeds 1e-6 of the energy (fields with a 1e4 rigid "
    "offset) are made but not counted as discriminating",
    "tol element average: 1e-12*max|v| (convex combination of 4/8 values with weights 2^-dim); measured 6e-4 of tol",
    "tol transpose: entries 1e-13*max|element matrix| (unit vectors: every entry is a copied number; measured "
    "difference exactly 0), dense probes 1e-12*(|M||v|) (measured 6e-16)",
    "tol thermal equilibrium: 1e-12*max|rigid mode|*sum|x dT|*sum_k|f_element,k| (closed-form element load as "
    "scale); measured 1.2e-4 of tol",
    "tol thermal = K u_free: 1e-12*max(|K||u_free|); measured 9e-4 of tol",
    "shear classification: 'equal to the stated value' and 'exactly twice the stated value' both within the strain "
    "tolerance; a stated shear below the tolerance matches both and counts as conforming",
]
FLOORS = {
    # about half of what the unchanged tree reaches
    # quick seed 0: 1338 held, 1124 distinct, 82944 / 27648 / 769 / 4110 / 106368 / 2880 / 12065
    "quick": {"cases_held": 650, "distinct_nontrivial": 550, "strain_entries_compared": 40000,
              "stress_entries_compared": 13000, "energy_identities_discriminating": 380,
              "average_entries_compared": 2000, "transpose_entries_compared": 50000,
              "thermal_rigid_modes_checked": 1400, "thermal_entries_compared": 6000},
    # thorough seed 0: 29600 held, 21085 distinct, 11.08e6 / 3.69e6 / 25610 / 306936 / 8.90e6 / 76800 / 915219
    "thorough": {"cases_held": 15000, "distinct_nontrivial": 10500, "strain_entries_compared": 5500000,
                 "stress_entries_compared": 1800000, "energy_identities_discriminating": 12800,
                 "average_entries_compared": 150000, "transpose_entries_compared": 4400000,
                 "thermal_rigid_modes_checked": 38000, "thermal_entries_compared": 440000},
}
TIMEOUT_CASE = 120

KNOWN_K1 = "shear-rows-doubled"

FIELDS = ["general", "normal", "rotation", "pure-shear", "zero", "large-offset", "tiny"]
XCLS = ["ones", "random", "with-zeros", "xmin-mixed"]
HCLS = ["random", "unit", "extreme", "random"]
NUCLS = ["random", "0", "0.3", "0.49", "-0.4"]
SHAPES = ["vec", "row", "mat", "ten", "pernode-vec", "pernode-mat"]
OFFS = ["plain", "large-offset", "constant"]


# --------------------------------------------------------------------------- plan
def _grid(r, dim, tier):
    if tier == "quick":
        hi = 4 if dim == 2 else 3
    elif r.random() < 0.1:          # thorough: one grid in ten is large (rounding grows with the number of dofs)
        hi = 16 if dim == 2 else 7
    else:
        hi = 8 if dim == 2 else 5
    n = [int(v) for v in r.integers(1, hi + 1, 3)]
    if dim == 2:
        n[2] = 0
    return n


def plan(tier, seed):
    r = rng_for(seed, "C12", "plan", tier)
    quick = tier == "quick"
    cases = []
    cnt = [0]

    def cyc(lst):
        cnt[0] += 1
        return lst[(cnt[0] + int(r.integers(0, len(lst)))) % len(lst)]

    # ---- strain / stress / energy
    reps = 6 if quick else 200
    for dim in (2, 3):
        fields = FIELDS + [f"single:{i}:{j}" for i in range(dim) for j in range(dim)]
        for plane in ("strain", "stress"):
            for fld in fields:
                for xc in XCLS:
                    for rep in range(reps if dim == 2 else max(1, reps // 2)):
                        cases.append({"kind": "strain", "n": _grid(r, dim, tier), "plane": plane, "field": fld,
                                      "x": xc, "h": cyc(HCLS), "nu": cyc(NUCLS), "rep": rep})
    # ---- element average
    reps = 16 if quick else 300
    for dim in (2, 3):
        for ndof in (1, 2, 3):
            for off in OFFS:
                for rep in range(reps):
                    cases.append({"kind": "average", "n": _grid(r, dim, tier), "ndof": ndof, "off": off,
                                  "h": cyc(HCLS), "rep": rep})
    # ---- ElementOperation / NodalOperation transpose: every grid up to the bound x dofs per node x operator form
    b2, b3 = (3, 2) if quick else (6, 4)
    grids = [[i, j, 0] for i in range(1, b2 + 1) for j in range(1, b2 + 1)]
    grids += [[i, j, k] for i in range(1, b3 + 1) for j in range(1, b3 + 1) for k in range(1, b3 + 1)]
    for g in grids:
        for ndof in (1, 2, 3):
            for shp in SHAPES:
                cases.append({"kind": "transpose", "n": list(g), "ndof": ndof, "shape": shp, "rep": 0})
    # ---- thermal load
    reps = 6 if quick else 160
    for dim, plane in ((2, "strain"), (2, "stress"), (3, "strain"), (3, "stress")):
        for xc in XCLS:
            for nu in NUCLS:
                for rep in range(reps if dim == 2 else max(1, reps // 2)):
                    cases.append({"kind": "thermal", "n": _grid(r, dim, tier), "plane": plane, "x": xc,
                                  "h": cyc(HCLS), "nu": nu, "rep": rep})
    # ---- a few meshes far beyond the enumerated bound (thousands of elements, counts that are not powers of two): size
    # thresholds inside the operators (chunking, buffers) only act there; normal-strain fields only, so that the doubled-shear
    # finding does not taint these cases
    big = [[70, 60, 0], [64, 65, 0], [17, 17, 15], [300, 250, 0], [45, 40, 38]] if quick else [[70, 60, 0], [64, 65, 0], [97, 43, 0], [130, 33, 0], [17, 17, 15], [16, 16, 17], [21, 13, 16], [300, 250, 0], [45, 40, 38], [257, 256, 0], [512, 129, 0]]
    for g in big:
        for kind, extra in (("strain", {"plane": "stress", "field": "normal", "x": XCLS[0], "nu": NUCLS[0]}),
                            ("average", {"ndof": 2, "off": OFFS[0]})):
            cases.append(dict({"kind": kind, "n": list(g), "h": HCLS[0], "rep": 0}, **extra))
    # ---- more dofs per node than space dimensions (temperature + displacements, 4 fields in 2D), on grids whose highest dof number
    # crosses 255 / 65535 while the highest node number times the dimension does not (and the other way round)
    wide = [([9, 9, 0], 3), ([10, 9, 0], 3), ([8, 8, 0], 4), ([7, 7, 0], 5), ([4, 3, 3], 4), ([3, 3, 3], 4), ([12, 12, 0], 3)]
    wide += [([150, 150, 0], 3)] if quick else [([150, 150, 0], 3), ([128, 127, 0], 4), ([27, 27, 27], 4), ([104, 104, 0], 5)]
    for g, ndof in wide:
        cases.append({"kind": "average", "n": list(g), "ndof": ndof, "off": OFFS[len(cases) % len(OFFS)], "h": HCLS[0], "rep": 0})
        if g[0] * g[1] * max(g[2], 1) <= 100:
            cases.append({"kind": "transpose", "n": list(g), "ndof": ndof, "shape": SHAPES[len(cases) % len(SHAPES)], "rep": 0})
    for i, c in enumerate(cases):
        c["id"] = i
    return cases


# --------------------------------------------------------------------------- generators
def _sizes(rng, cls):
    if cls == "unit":
        return np.array([1.0, 1.0, 1.0])
    if cls == "extreme":
        return rng.permutation(np.array([0.3, 3.0, float(rng.choice([0.3, 1.0, 3.0]))]))
    return rng.uniform(0.3, 3.0, 3)


def _material(rng, nucls):
    E = float(10.0 ** rng.uniform(-3, 3))
    nu = float(rng.uniform(-0.5, 0.49)) if nucls == "random" else float(nucls)
    if nucls == "0" and rng.random() < 0.5:
        nu = 0            # a Python integer zero is the same material as 0.0
    return E, nu


def _xvec(rng, nel, cls):
    if cls == "ones":
        return np.ones(nel)
    x = rng.uniform(0.0, 1.0, nel)
    if cls == "with-zeros":
        x[rng.random(nel) < 0.35] = 0.0
    elif cls == "xmin-mixed":
        x = np.where(rng.random(nel) < 0.5, 1e-9, 1.0)
    return x


def _field(rng, dim, fld):
    G = np.zeros((dim, dim))
    c = rng.standard_normal(dim)
    if fld in ("general", "large-offset", "tiny"):
        G = rng.standard_normal((dim, dim))
        if fld == "large-offset":
            c = 1e4 * rng.standard_normal(dim)
        if fld == "tiny":
            G, c = 1e-8 * G, 1e-8 * c
    elif fld == "normal":
        G = np.diag(rng.standard_normal(dim))
    elif fld == "rotation":
        A = rng.standard_normal((dim, dim))
        G = A - A.T
    elif fld == "pure-shear":
        A = rng.standard_normal((dim, dim))
        G = A + A.T
        np.fill_diagonal(G, 0.0)
    elif fld.startswith("single"):
        _, i, j = fld.split(":")
        G[int(i), int(j)] = float(rng.choice([-1, 1]) * rng.uniform(0.2, 2.0))
    elif fld == "zero":
        pass
    else:  # pragma: no cover
        raise ValueError(fld)
    return G, c


# --------------------------------------------------------------------------- reference models
def constitutive(E, nu, mode):
    """Isotropic constitutive matrix in Voigt order (xx,yy,zz,yz,zx,xy / xx,yy,xy) for engineering shear,
    obtained by inverting the compliance (Hooke's law e = C s), not by the closed formulas of the module."""
    C = np.zeros((6, 6))
    C[:3, :3] = (np.eye(3) * (1 + nu) - nu) / E
    C[3:, 3:] = np.eye(3) * 2 * (1 + nu) / E
    if mode == "3d":
        return np.linalg.inv(C)
    sel = [0, 1, 5]
    if mode == "stress":      # s_zz = s_yz = s_zx = 0: restrict the compliance, then invert
        return np.linalg.inv(C[np.ix_(sel, sel)])
    if mode == "strain":      # e_zz = e_yz = e_zx = 0: restrict the stiffness
        return np.linalg.inv(C)[np.ix_(sel, sel)]
    raise ValueError(mode)


def voigt_strain(G, engineering=True):
    s = (G + G.T) / 2
    f = 2.0 if engineering else 1.0
    if G.shape[0] == 2:
        return np.array([s[0, 0], s[1, 1], f * s[0, 1]])
    return np.array([s[0, 0], s[1, 1], s[2, 2], f * s[1, 2], f * s[2, 0], f * s[0, 1]])


def rigid_modes(pos):
    """Translations and infinitesimal rotations about the centroid; pos (nnodes, dim) -> list of dof vectors."""
    n, dim = pos.shape
    p = pos - pos.mean(axis=0)
    modes = []
    for a in range(dim):
        u = np.zeros((n, dim))
        u[:, a] = 1.0
        modes.append(u.ravel())
    pairs = [(0, 1)] if dim == 2 else [(0, 1), (1, 2), (2, 0)]
    for a, b in pairs:
        u = np.zeros((n, dim))
        u[:, a] = -p[:, b]
        u[:, b] = p[:, a]
        modes.append(u.ravel())
    return modes


def _domain(pym, n, h):
    return pym.DomainDefinition(int(n[0]), int(n[1]), int(n[2]), unitx=float(h[0]), unity=float(h[1]), unitz=float(h[2]))


def _geometry(dom):
    pos = np.asarray(dom.get_node_position(), dtype=float).T      # (nnodes, dim)
    conn = np.asarray(dom.conn)
    return pos, conn


def _out(mod):
    return np.asarray(mod.sig_out[0].state)


# --------------------------------------------------------------------------- strain / stress / energy
def _judge_strain(ctx, eps, ref_stated, dim, nel, tol, voigt, info):
    """Returns 'conforming' or 'doubled'; raises for anything else.  ref_stated: the strain the statement demands."""
    nstr = len(ref_stated)
    require(eps.shape == (nstr, nel), "strain/output-shape-wrong", got=eps.shape, want=(nstr, nel), voigt=voigt, **info)
    require(bool(np.all(np.isfinite(eps))), "strain/non-finite", voigt=voigt, **info)
    dn = float(np.max(np.abs(eps[:dim] - ref_stated[:dim, None])))
    ctx.count("strain_entries_compared", eps.size)
    if not dn <= tol:
        e = int(np.argmax(np.max(np.abs(eps[:dim] - ref_stated[:dim, None]), axis=0)))
        raise Violation("strain/normal-component-not-the-displacement-gradient", voigt=voigt, error=dn, tol=tol,
                        element=e, got=eps[:, e], want=ref_stated, **info)
    sh, rs = eps[dim:], ref_stated[dim:]
    d1 = float(np.max(np.abs(sh - rs[:, None])))
    d2 = float(np.max(np.abs(sh - 2 * rs[:, None])))
    if d1 <= tol:
        return "conforming", max(dn, d1)
    if d2 <= tol:
        return "doubled", max(dn, d2)
    e = int(np.argmax(np.max(np.abs(sh - rs[:, None]), axis=0)))
    with np.errstate(all="ignore"):
        ratio = np.where(np.abs(rs) > 100 * tol, sh[:, e] / np.where(rs == 0, 1, rs), np.nan)
    raise Violation("strain/shear-component-not-the-symmetric-gradient", voigt=voigt, error=d1, tol=tol, element=e,
                    got=eps[:, e], want=ref_stated, ratio_per_shear_row=ratio, **info)


def case_strain(case, ctx, pym):
    n = case["n"]
    dim = 2 if n[2] == 0 else 3
    rng = ctx.rng("strain", case["id"])
    h = _sizes(rng, case["h"])
    E, nu = _material(rng, case["nu"])
    plane = case["plane"]
    G, c = _field(rng, dim, case["field"])
    S = pym.Signal
    info = {"grid": n, "size": h, "field": case["field"]}

    # ---- Strain on the domain with arbitrary out-of-plane size
    dom = _domain(pym, n, h)
    pos, _ = _geometry(dom)
    nel = dom.nel
    x = _xvec(rng, nel, case["x"])
    u = (pos @ G.T + c).ravel()
    umax = float(np.max(np.abs(u)))
    hmin = float(np.min(h[:dim]))
    tol_e = 1e-12 * umax / hmin
    ref_v = voigt_strain(G, True)
    ref_t = voigt_strain(G, False)
    worst = 0.0
    m_v = pym.Strain(S("u", u.copy()), domain=dom)
    m_v.response()
    mode_v, w = _judge_strain(ctx, _out(m_v), ref_v, dim, nel, tol_e, True, info)
    worst = max(worst, w)
    m_kw = pym.Strain(S("u", u.copy()), domain=dom, voigt=True)
    m_kw.response()
    require(np.array_equal(_out(m_kw), _out(m_v)), "strain/voigt-default-differs-from-voigt-true", **info)
    m_t = pym.Strain(S("u", u.copy()), domain=dom, voigt=False)
    m_t.response()
    mode_t, w = _judge_strain(ctx, _out(m_t), ref_t, dim, nel, tol_e, False, info)
    worst = max(worst, w)

    # ---- Stress and energy on unit thickness (a deviation here must not hide the known finding seen above)
    try:
        dom1 = dom if dim == 3 else _domain(pym, n, [h[0], h[1], 1.0])
        D = constitutive(E, nu, "3d" if dim == 3 else plane)
        Dmax = float(np.max(np.abs(D)))
        m_s = pym.Stress(S("u", u.copy()), domain=dom1, e_modulus=E, poisson_ratio=nu, plane=plane)
        m_s.response()
        sig = _out(m_s)
        m_e = pym.Strain(S("u", u.copy()), domain=dom1)
        m_e.response()
        eps1 = _out(m_e)
        mode_1, w = _judge_strain(ctx, eps1, ref_v, dim, nel, tol_e, True, info)
        worst = max(worst, w)
        nstr = len(ref_v)
        require(sig.shape == (nstr, nel), "stress/output-shape-wrong", got=sig.shape, want=(nstr, nel), **info)
        tol_s = 1e-12 * Dmax * umax / hmin
        ref2 = ref_v.copy()
        ref2[dim:] *= 2
        ds_stated = float(np.max(np.abs(sig - (D @ ref_v)[:, None])))
        ds_doubled = float(np.max(np.abs(sig - (D @ ref2)[:, None])))
        ctx.count("stress_entries_compared", sig.size)
        stress_mode = "conforming"
        if not ds_stated <= tol_s:
            if mode_1 == "doubled" and ds_doubled <= tol_s:
                stress_mode = "doubled"      # D times the strain the module returns: consequence of K1 only
            else:
                e = int(np.argmax(np.max(np.abs(sig - (D @ ref_v)[:, None]), axis=0)))
                raise Violation("stress/not-constitutive-matrix-times-strain", error=ds_stated, tol=tol_s, element=e,
                                got=sig[:, e], want=D @ ref_v, strain_returned=eps1[:, e], E=E, nu=nu, plane=plane,
                                strain_mode=mode_1, **info)

        m_k = pym.AssembleStiffness(S("x", x.copy()), domain=dom1, e_modulus=E, poisson_ratio=nu, plane=plane)
        m_k.response()
        K = m_k.sig_out[0].state
        Ve = float(np.prod(h[:dim]))
        en = float(np.sum(x * Ve * np.sum(sig * eps1, axis=0)))
        uKu = float(u @ (K @ u))
        S_E = float(np.abs(u) @ (abs(K) @ np.abs(u)))
        tol_E = 1e-12 * S_E
        shear_energy = float(np.sum(x) * Ve * ((D @ ref_v)[dim:] @ ref_v[dim:]))
        ctx.count("energy_identities_compared")
        # with a large rigid offset the rounding bound of u'Ku exceeds the energy itself: compared, but not counted
        disc = bool(tol_E <= 1e-6 * abs(uKu) or (uKu == 0.0 and S_E == 0.0) or case["field"] == "rotation")
        if disc:
            ctx.count("energy_identities_discriminating")
        energy_mode = "conforming"
        e_en = abs(en - uKu)
        if not e_en <= tol_E:
            if mode_1 == "doubled" and stress_mode == "doubled" and abs(en - (uKu + 3 * shear_energy)) <= tol_E:
                energy_mode = "doubled"
                e_en = abs(en - (uKu + 3 * shear_energy))
            else:
                raise Violation("energy/stress-strain-work-differs-from-uKu", work=en, uKu=uKu, tol=tol_E,
                                predicted_if_shear_doubled=uKu + 3 * shear_energy, strain_mode=mode_1,
                                stress_mode=stress_mode, E=E, nu=nu, plane=plane, **info)
    except Violation:
        if "doubled" in (mode_v, mode_t):
            ctx.count("known_shear_doubling_observed")
            ctx.violate(KNOWN_K1, modes={"strain_voigt": mode_v, "strain_tensor": mode_t}, stated_strain=ref_v,
                        strain_returned=_out(m_v)[:, 0], tensor_strain_stated=ref_t,
                        tensor_strain_returned=_out(m_t)[:, 0],
                        note="another clause of this case deviates in a different way (separate mechanism)", **info)
        raise

    modes = {"strain_voigt": mode_v, "strain_tensor": mode_t, "strain_unit": mode_1, "stress": stress_mode,
             "energy": energy_mode}
    if "doubled" in modes.values():
        consistent = (mode_v == mode_1)
        if not consistent:
            raise Violation("strain/differs-between-out-of-plane-sizes", modes=modes, **info)
        ctx.count("known_shear_doubling_observed")
        ctx.violate(KNOWN_K1, modes=modes, stated_strain=ref_v, strain_returned=_out(m_v)[:, 0],
                    tensor_strain_stated=ref_t, tensor_strain_returned=_out(m_t)[:, 0],
                    stress_returned=sig[:, 0], stress_stated=D @ ref_v,
                    work=en, uKu=uKu, three_times_shear_energy=3 * shear_energy, **info)
    return {"key": "strain|%dD|%s|%s|x=%s|h=%s|nu=%s|%s" % (dim, plane, case["field"], case["x"], case["h"],
                                                            case["nu"], "x".join(map(str, n))),
            "nontrivial": bool(np.any(G)),
            "obs": {"nel": nel, "strain_err_over_tol": worst / tol_e if tol_e > 0 else 0.0,
                    "stress_err_over_tol": (ds_stated if stress_mode == "conforming" else ds_doubled) / tol_s if tol_s > 0 else 0.0,
                    "energy_err_over_tol": e_en / tol_E if tol_E > 0 else 0.0, "energy_discriminating": disc,
                    "E": E, "nu": nu,
                    "modes": modes}}


# --------------------------------------------------------------------------- ElementAverage
def case_average(case, ctx, pym):
    n = case["n"]
    dim = 2 if n[2] == 0 else 3
    ndof = case["ndof"]
    rng = ctx.rng("average", case["id"])
    h = _sizes(rng, case["h"])
    dom = _domain(pym, n, h)
    pos, conn = _geometry(dom)
    nel = dom.nel
    A = rng.standard_normal((ndof, dim))
    b = rng.standard_normal(ndof)
    if case["off"] == "large-offset":
        b = 1e6 * b
    if case["off"] == "constant":
        A[:] = 0.0
    v = (pos @ A.T + b)                       # (nnodes, ndof)
    cen = pos[conn].mean(axis=1)              # (nel, dim) centroid of the element's own corner nodes
    want = (cen @ A.T + b).T                  # (ndof, nel)
    if ndof == 1:
        want = want[0]
    m = pym.ElementAverage(pym.Signal("v", v.ravel().copy()), domain=dom)
    m.response()
    got = _out(m)
    require(got.shape == want.shape, "element-average/output-shape-wrong", got=got.shape, want=want.shape,
            ndof=ndof, grid=n)
    vmax = float(np.max(np.abs(v)))
    tol = 1e-12 * vmax
    err = float(np.max(np.abs(got - want))) if np.all(np.isfinite(got)) else float("inf")
    ctx.count("average_entries_compared", got.size)
    if not err <= tol:
        idx = np.unravel_index(int(np.argmax(np.abs(got - want))), got.shape)
        raise Violation("element-average/not-the-centroid-value", error=err, tol=tol, index=idx, got=got[idx],
                        want=want[idx], ndof=ndof, grid=n, size=h)
    return {"key": "average|%dD|ndof=%d|%s|h=%s|%s" % (dim, ndof, case["off"], case["h"], "x".join(map(str, n))),
            "nontrivial": bool(np.any(A)), "obs": {"nel": nel, "err_over_tol": err / tol if tol > 0 else 0.0}}


# --------------------------------------------------------------------------- transpose
def case_transpose(case, ctx, pym):
    n = case["n"]
    dim = 2 if n[2] == 0 else 3
    ndof = case["ndof"]
    shp = case["shape"]
    rng = ctx.rng("transpose", case["id"])
    h = _sizes(rng, "random")
    dom = _domain(pym, n, h)
    _, conn = _geometry(dom)
    nel, nnod, en = dom.nel, dom.nnodes, dom.elemnodes
    K = en * ndof
    pernode = shp.startswith("pernode")
    last = en if pernode else K
    lead = {"vec": (), "row": (1,), "mat": (int(rng.integers(2, 5)),),
            "ten": (int(rng.integers(1, 4)), int(rng.integers(2, 4))),
            "pernode-vec": (), "pernode-mat": (int(rng.integers(2, 5)),)}[shp]
    em = rng.standard_normal(lead + (last,))
    em.flat[rng.integers(0, em.size)] = 0.0            # a structural zero somewhere
    if pernode and ndof > 1:
        full = np.zeros((ndof,) + lead + (K,))
        for d in range(ndof):
            full[(d,) + (Ellipsis,) + (slice(d, None, ndof),)] = em
    else:
        full = em                                        # with one dof per node the two forms coincide
    olead = full.shape[:-1]
    P = int(np.prod(olead)) if olead else 1
    ndofs = ndof * nnod
    emax = float(np.max(np.abs(em)))

    # reference matrix of  y[lead, e] = sum_k full[lead, k] u[dof(e, k)]
    dc = (conn[:, :, None] * ndof + np.arange(ndof)[None, None, :]).reshape(nel, K)
    f2 = full.reshape(P, K)
    Mref = np.zeros((P, nel, ndofs))
    for e in range(nel):
        for k in range(K):
            Mref[:, e, dc[e, k]] += f2[:, k]
    Mref = Mref.reshape(P * nel, ndofs)

    su = pym.Signal("u", np.zeros(ndofs))
    Eop = pym.ElementOperation(su, domain=dom, element_matrix=em.copy())
    sx = pym.Signal("x", np.zeros(olead + (nel,)))
    Nop = pym.NodalOperation(sx, domain=dom, element_matrix=full.copy())

    def applyE(vec):
        su.state = vec
        Eop.response()
        return np.array(_out(Eop), dtype=float)

    def applyN(arr):
        sx.state = arr
        Nop.response()
        return np.array(_out(Nop), dtype=float)

    info = {"grid": n, "ndof": ndof, "operator_shape": list(em.shape), "form": shp}
    ME = np.zeros((P * nel, ndofs))
    for j in range(ndofs):
        ej = np.zeros(ndofs)
        ej[j] = 1.0
        y = applyE(ej)
        require(y.shape == olead + (nel,), "element-operation/output-shape-wrong", got=y.shape, want=olead + (nel,), **info)
        ME[:, j] = y.ravel()
    MN = np.zeros((ndofs, P * nel))
    for j in range(P * nel):
        xj = np.zeros(P * nel)
        xj[j] = 1.0
        f = applyN(xj.reshape(olead + (nel,)))
        require(f.shape == (ndofs,), "nodal-operation/output-shape-wrong", got=f.shape, want=(ndofs,), **info)
        MN[:, j] = f
    tol = 1e-13 * emax
    ctx.count("transpose_entries_compared", ME.size)
    dT = np.abs(MN - ME.T)
    if not (np.all(np.isfinite(dT)) and float(dT.max()) <= tol):
        i, j = np.unravel_index(int(np.nanargmax(dT)), dT.shape)
        eE = float(np.max(np.abs(ME - Mref)))
        eN = float(np.max(np.abs(MN - Mref.T)))
        side = "both" if (eE > tol and eN > tol) else ("ElementOperation" if eE > tol else "NodalOperation")
        raise Violation("nodal-operation/not-transpose-of-element-operation", dof=int(i), output_index=int(j),
                        nodal_entry=MN[i, j], element_entry=ME[j, i], reference_entry=Mref[j, i],
                        side_deviating_from_gather_scatter_reference=side, bad_entries=int(np.sum(~(dT <= tol))), **info)
    # the operators are the matrices just read off (dense arguments; accumulation over shared nodes)
    worst = 0.0
    for _ in range(3):
        uu = rng.standard_normal(ndofs)
        yy = rng.standard_normal(P * nel)
        arg_u, arg_y = uu.copy(), yy.reshape(olead + (nel,)).copy()
        if rng.random() < 0.35:
            # single-precision inputs (fields read from float32 files): the operators are the same double-precision matrices
            arg_u, arg_y = arg_u.astype(np.float32), arg_y.astype(np.float32)
            uu, yy = arg_u.astype(float), arg_y.astype(float).ravel()
            ctx.count("transpose_single_precision_probes")
        Eu = applyE(arg_u).ravel()
        Ny = applyN(arg_y)
        sE = np.abs(ME) @ np.abs(uu)
        sN = np.abs(ME.T) @ np.abs(yy)
        errE = float(np.max(np.abs(Eu - ME @ uu) / np.where(sE > 0, sE, 1.0)))
        errN = float(np.max(np.abs(Ny - ME.T @ yy) / np.where(sN > 0, sN, 1.0)))
        ctx.count("transpose_dense_probes")
        if not errN <= 1e-12:
            raise Violation("nodal-operation/dense-input-not-transpose-of-element-operation", error=errN, **info)
        if not errE <= 1e-12:
            raise Violation("element-operation/dense-input-differs-from-its-matrix", error=errE, **info)
        lhs, rhs = float(Eu @ yy), float(uu @ Ny)
        sc = float(np.abs(yy) @ sE)
        if not abs(lhs - rhs) <= 1e-12 * sc:
            raise Violation("nodal-operation/adjoint-identity-fails", Eu_y=lhs, u_Ny=rhs, scale=sc, **info)
        worst = max(worst, errE, errN)
    eref = float(np.max(np.abs(ME - Mref)))
    return {"key": "transpose|%dD|ndof=%d|%s|%s" % (dim, ndof, shp, "x".join(map(str, n))), "nontrivial": emax > 0,
            "obs": {"matrix": list(ME.shape), "max_transpose_diff": float(dT.max()), "probe_err": worst,
                    "diff_to_gather_reference": eref}}


# --------------------------------------------------------------------------- thermal load
def case_thermal(case, ctx, pym):
    n = case["n"]
    dim = 2 if n[2] == 0 else 3
    plane = case["plane"]
    rng = ctx.rng("thermal", case["id"])
    h = _sizes(rng, case["h"])                      # in 2D h[2] is the thickness: arbitrary here
    E, nu = _material(rng, case["nu"])
    alpha = float(10.0 ** rng.uniform(-6, 0))
    u_ = rng.random()
    if u_ < 0.08:
        alpha = 0.0          # a non-expanding phase (the boundary value of the parameter range): no load at all
    elif u_ < 0.2:
        alpha = -alpha       # materials that contract on heating
    dom = _domain(pym, n, h)
    pos, _ = _geometry(dom)
    nel, nnod = dom.nel, dom.nnodes
    x = _xvec(rng, nel, case["x"])
    dT = float(rng.choice([-1, 1]) * rng.uniform(0.1, 50.0))
    S = pym.Signal
    info = {"grid": n, "size": h, "plane": plane, "E": E, "nu": nu, "alpha": alpha}

    # closed-form size of one element's load vector (scale of the rounding bound only)
    D = constitutive(E, nu, "3d" if dim == 3 else plane)
    Phi = np.zeros(D.shape[0])
    Phi[:dim] = 1.0
    t = 1.0 if dim == 3 else float(h[2])
    V = float(np.prod(h[:dim]))
    fe_abs = abs(alpha) * t * float(np.sum(np.abs((D @ Phi)[:dim]) * V / h[:dim])) * 2.0   # sum_k |f_e,k|

    sxt = S("xt", x * dT)
    tm = pym.ThermoMechanical(sxt, domain=dom, e_modulus=E, poisson_ratio=nu, alpha=alpha, plane=plane)
    tm.response()
    f = np.array(_out(tm), dtype=float)
    require(f.shape == (dim * nnod,), "thermal-load/output-shape-wrong", got=f.shape, want=(dim * nnod,), **info)
    require(bool(np.all(np.isfinite(f))), "thermal-load/non-finite", **info)
    modes = rigid_modes(pos)
    worst_eq = 0.0

    def equilibrium(fv, xt, what):
        nonlocal worst_eq
        for im, mode in enumerate(modes):
            w = float(mode @ fv)
            sc = float(np.max(np.abs(mode))) * float(np.sum(np.abs(xt))) * fe_abs
            ctx.count("thermal_rigid_modes_checked")
            if not abs(w) <= 1e-12 * sc:
                raise Violation("thermal-load/not-self-equilibrated", rigid_mode=im, work=w, scale=sc, input=what,
                                kind="translation" if im < dim else "rotation", **info)
            if sc > 0:
                worst_eq = max(worst_eq, abs(w) / (1e-12 * sc))

    equilibrium(f, x * dT, "uniform temperature")
    # heterogeneous temperature field (any sign): still a sum of self-equilibrated element loads
    xt2 = x * rng.uniform(-50.0, 50.0, nel)
    sxt.state = xt2
    tm.response()
    f2 = np.array(_out(tm), dtype=float)
    require(f2.shape == (dim * nnod,), "thermal-load/output-shape-wrong", got=f2.shape, want=(dim * nnod,), **info)
    equilibrium(f2, xt2, "heterogeneous temperature")

    err_k = None
    if dim == 3 or plane == "stress":
        mk = pym.AssembleStiffness(S("x", x.copy()), domain=dom, e_modulus=E, poisson_ratio=nu, plane=plane)
        mk.response()
        K = mk.sig_out[0].state
        p0 = rng.uniform(0, 1, dim) * pos.max(axis=0)
        ufree = (alpha * dT * (pos - p0)).ravel()
        Ku = np.asarray(K @ ufree).ravel()
        sc = float(np.max(abs(K) @ np.abs(ufree)))
        tol = 1e-12 * sc
        err = float(np.max(np.abs(f - Ku)))
        ctx.count("thermal_entries_compared", f.size)
        if not err <= tol:
            i = int(np.argmax(np.abs(f - Ku)))
            with np.errstate(all="ignore"):
                ratio = f[i] / Ku[i]
            raise Violation("thermal-load/differs-from-stiffness-times-free-expansion", error=err, tol=tol, dof=i,
                            load=f[i], K_times_ufree=Ku[i], ratio=ratio, dT=dT, **info)
        err_k = err / tol if tol > 0 else 0.0
    return {"key": "thermal|%dD|%s|x=%s|h=%s|nu=%s|%s" % (dim, plane, case["x"], case["h"], case["nu"],
                                                         "x".join(map(str, n))),
            "nontrivial": bool(np.any(f)),
            "obs": {"nel": nel, "equilibrium_over_tol": worst_eq, "K_ufree_err_over_tol": err_k, "E": E, "nu": nu}}


# --------------------------------------------------------------------------- dispatch
def run_case(case, ctx):
    import pymoto as pym
    kind = case["kind"]
    if kind == "strain":
        return case_strain(case, ctx, pym)
    if kind == "average":
        return case_average(case, ctx, pym)
    if kind == "transpose":
        return case_transpose(case, ctx, pym)
    if kind == "thermal":
        return case_thermal(case, ctx, pym)
    raise ValueError(kind)
