"""C20 — result files decode back to the data that was written.

Workload (real WriteToVTI / ScalarToFile modules from the tree under test, driven through
Module.response() exactly like an optimisation loop does, 1..N iterations per module instance):

 (a) VTI: every 2D/3D grid up to the tier bound whose node count is not a multiple of its element count
     (enumerated) x every admissible vector class {element, nodal} x {1,2,3 components} x {1-D vector,
     block (N,m), block (m,N), single column (N,1), single row (1,N)} (enumerated per grid, incl. the block
     widths m for which the TOTAL size is a multiple of the other count) x storage variants (float64,
     float32, integer, strided / reversed / Fortran-ordered views, wide-range and special values), grouped
     randomly into files of 1..5 arrays; overwrite on/off, scale default/1/int/float, path forms, stale
     files already present, data replaced / changed in place / unchanged between iterations.
 (b) log: ScalarToFile over value kinds (Python and numpy scalars, 0-d, length-1, (1,1), vectors,
     matrices, views, complex) x number formats x separators x file extensions (enumerated), 1..N calls.

Oracle: after EVERY call the directory is re-scanned and the one file that was created/changed is read with
an independent reader (pmv/oracles/c20_files.py): XML well-formedness, VTK structure, extent / spacing /
origin arithmetic, section (cell/point) and component count per array, base64 payload compared bit for bit
with astype(float32) of the data at the time of the call; text log re-parsed line by line, every column
compared with Python's format(value, fmt) and parsed back with float()/complex()."""
import math
import os
import re
import shutil
import tempfile

import numpy as np

from ..core import Violation, require, rng_for, exc_site, short_exc
from ..oracles import c20_files as F

ID = "C20"
LEVEL = "exploration"
MONITORS = []
ANCHORS = ["common/domain.py", "modules/io.py"]
RULE = ("VTI case = one WriteToVTI instance on one grid writing 1-5 vectors for 1-5 (thorough 1-8) iterations; grids "
        "and vector classes (kind x components x form, incl. total-size-multiple corner) are enumerated per grid, the "
        "grouping / options / values are random; log case = one ScalarToFile instance with 1-4 signals, value kind x "
        "format and separator x extension grids enumerated, rest random. distinct = (grid, overwrite, scale class, "
        "vector classes) resp. (format, separator, extension, value kinds); non-trivial = at least one array / one "
        "value column was decoded and compared")
EXHAUSTIVE = {"quick": False, "thorough": False}
ASSUMPTIONS = [
    "grids: quick 2D<=8x8, 3D<=4^3; thorough 2D<=16x16, 3D<=8^3; only grids with nnodes % nel != 0 (quantifier)",
    "a vector is admissible iff exactly one reading exists: a 1-D vector of k*nel (k*nnodes) entries that is not a multiple "
    "of the other count; a 2-D block with one axis k*nel (k*nnodes) and the other axis (the number of vectors) not a "
    "multiple of nel or nnodes. The TOTAL size of a block may be a multiple of the other count (hostile corner, F10)",
    "float32 payload must equal numpy's astype(float32) of the data bit for bit (any NaN equals any NaN)",
    "length header of a binary block: any value in [raw byte length, base64 length] is accepted (DESIGN section 5: the code "
    "writes the encoded length where VTK specifies the raw length; readers only need it to cover the bytes they consume)",
    "spacing = element size x scale and origin (always 0 through WriteToVTI) to 1e-12 relative: one rounding of the "
    "product plus shortest-repr printing, which round-trips exactly; the z spacing of a 2D grid only has to be a finite number",
    "2-component data: nodal data on a 2D grid must be padded to 3 components (stated); for element data and 3D grids "
    "both the raw 2-component and the padded 3-component form are accepted (not stated)",
    "block-vector members may be named tag(i), tag_i or tag[i], with or without leading zeros",
    "file naming: one new .vti file per call without overwrite (earlier files byte-identical afterwards) whose name "
    "contains the iteration number (0- or 1-based, consistently); with overwrite always the same single file",
    "text log: a column must equal format(value, fmt) of the Python scalar (numpy scalars / array entries through .item()) "
    "up to surrounding blanks, and float()/complex() of the column must format back to the same string; array entries are "
    "attributed to columns through the index in the header label (tag[i, j]) when present, else C order; formats with "
    "a width are not combined with blank separators; '%' and 'd' formats, lists, empty arrays, bools are outside the domain, "
    "and so are value/format pairs whose text no number parser accepts by construction (zero-padded nan/inf such as "
    "'00000nan'; DBL_MAX, which a short format rounds up beyond the float range)",
    "signal tags are plain identifiers (XML meta-characters or separators inside tags are outside the quantifier)",
    "the memory layout of a logged array is constant over the iterations of one module instance",
]
FLOORS = {"quick": {"cases_held": 2500, "vti_files_decoded": 5500, "vti_arrays_compared": 65000, "vti_sizemult_blocks": 1300,
                    "vti_padded_arrays": 6000, "log_rows_checked": 1700, "log_values_compared": 6000,
                    "log_length1_values": 400},
          "thorough": {"cases_held": 60000, "vti_files_decoded": 230000, "vti_arrays_compared": 2800000,
                       "vti_sizemult_blocks": 28000, "vti_padded_arrays": 150000, "log_rows_checked": 44000,
                       "log_values_compared": 170000, "log_length1_values": 11000}}
TIMEOUT_CASE = 120

# A single-column nodal block vector with 2 components on a 2D grid, shape (2*nnodes,1) / (1,2*nnodes), is inside
# "vector and block-vector inputs".  Set to False to leave that class out of the workload.
INCLUDE_SINGLE_COLUMN_PAD = True

VEC_VARIANTS = ["f64", "f32", "int", "strided", "rev", "wide", "special", "f32strided", "f32rev", "f32be", "f64be"]
BLK_VARIANTS = ["f64", "f32", "int", "forder", "strided", "wide", "special", "f32strided", "f32forder", "f32be", "f64be"]
SCALES = ["default", "one", "float", "int", "npfloat"]
PATHS = ["plain", "nested", "noext", "upper", "dots", "digits"]
UPDATES = ["new", "inplace", "same"]
M_POOL = [2, 3, 4, 5, 7, 10, 11, 13]

LOG_KINDS = ["pyfloat", "pyint", "npf64", "npf32", "npi64", "arr0d", "arr0dint", "len1", "len1int", "shape11", "vec",
             "intvec", "f32vec", "mat", "matF", "vecrev", "vecstrided", "pycomplex", "npcomplex", "cvec"]
LOG_FMTS = ["default", "e", "f", ".3e", ".5g", ".10e", "g", "+.4e", ".0f", ".12g", ".17e", "14.6e", "08.3f", ".6%", ".2%"]
LOG_SEPS = ["default", "\t", " ", ";", ",", "|", " ; ", "  "]
LOG_EXTS = [".txt", ".csv", ".log", "", ".dat"]
LOG_TAGS = ["f", "g0", "vol", "lam"]


# ============================================================================================ planning
def _counts(n):
    nx, ny, nz = n
    return nx * ny * max(nz, 1), (nx + 1) * (ny + 1) * (nz + 1)


def _grids(tier):
    b2, b3 = (8, 4) if tier == "quick" else (16, 8)
    g = [[i, j, 0] for i in range(1, b2 + 1) for j in range(1, b2 + 1)]
    g += [[i, j, k] for i in range(1, b3 + 1) for j in range(1, b3 + 1) for k in range(1, b3 + 1)]
    return [n for n in g if _counts(n)[1] % _counts(n)[0] != 0]


def _admissible_m(N, m, nel, nn):
    return m % nel != 0 and m % nn != 0 and m >= 1


def _classes(n, rng):
    """All admissible vector classes of a grid: [kind, k, form, m, variant, sizemult]."""
    nel, nn = _counts(n)
    dim = 2 if n[2] == 0 else 3
    out = []
    for kind in "cp":
        cnt, other = (nel, nn) if kind == "c" else (nn, nel)
        for k in (1, 2, 3):
            N = k * cnt
            if N % other == 0:
                continue                      # a 1-D vector of this size could be read either way
            out.append([kind, k, "vec", 0, VEC_VARIANTS[int(rng.integers(len(VEC_VARIANTS)))], False])
            for form in ("cols", "rows"):
                pool = [m for m in M_POOL if _admissible_m(N, m, nel, nn)]
                m = pool[int(rng.integers(len(pool)))]
                out.append([kind, k, form, m, BLK_VARIANTS[int(rng.integers(len(BLK_VARIANTS)))], (N * m) % other == 0])
                # the block width for which the TOTAL size is a multiple of the other count
                mh = other // math.gcd(N, other)
                for mm in (mh, 2 * mh):
                    if 2 <= mm <= 16 and _admissible_m(N, mm, nel, nn):
                        out.append([kind, k, form, mm, BLK_VARIANTS[int(rng.integers(len(BLK_VARIANTS)))], True])
                        break
            for form in ("col1", "row1"):
                if not _admissible_m(N, 1, nel, nn):
                    continue
                if kind == "p" and k == 2 and dim == 2 and not INCLUDE_SINGLE_COLUMN_PAD:
                    continue
                out.append([kind, k, form, 1, BLK_VARIANTS[int(rng.integers(len(BLK_VARIANTS)))], False])
    return out


def _plan_vti(tier, seed):
    rounds = 3 if tier == "quick" else 12
    maxit = 5 if tier == "quick" else 8
    cases = []
    for n in _grids(tier):
        for r in range(rounds):
            rng = rng_for(seed, "c20-plan-vti", n[0], n[1], n[2], r)
            cl = _classes(n, rng)
            order = rng.permutation(len(cl))
            i, g = 0, 0
            while i < len(cl):
                sz = int(rng.integers(1, 6))
                grp = [cl[j] for j in order[i:i + sz]]
                i += sz
                cases.append({"t": "vti", "n": n, "arr": grp, "ow": bool((g + r) % 2),
                              "scale": SCALES[int(rng.integers(len(SCALES)))], "iters": int(rng.integers(1, maxit + 1)),
                              "upd": UPDATES[int(rng.integers(len(UPDATES)))], "path": PATHS[int(rng.integers(len(PATHS)))],
                              "stale": bool(rng.integers(2)), "r": r, "g": g})
                g += 1
    # arrays beyond 2^18 values (more than 1 MiB of raw data: block-wise encoders show here)
    for bi, n in enumerate([[520, 511, 0]] + ([] if tier == "quick" else [[70, 64, 60], [1, 270000, 0]])):
        rng = rng_for(seed, "c20-plan-vti-big", bi)
        cl = _classes(n, rng)
        order = rng.permutation(len(cl))
        for g in range(2 if tier == "quick" else 4):
            cases.append({"t": "vti", "n": n, "arr": [cl[int(order[g])]], "ow": bool(g % 2), "scale": SCALES[int(rng.integers(len(SCALES)))],
                          "iters": 1, "upd": UPDATES[0], "path": PATHS[0], "stale": False, "r": 0, "g": 1000 + g})
    return cases


def _fmt_ok(fmt, sep, kinds):
    width = fmt in ("14.6e", "08.3f")
    if width and sep in (" ", "  ", " ; "):
        return False
    if fmt == "08.3f" and any(k in ("pycomplex", "npcomplex", "cvec") for k in kinds):
        return False                              # Python: zero padding is not allowed for complex numbers
    if fmt.endswith("%") and any(k in ("pycomplex", "npcomplex", "cvec") for k in kinds):
        return False                              # Python: the percent type does not exist for complex numbers
    return True


def _plan_log(tier, seed):
    cases = []
    maxit = 5 if tier == "quick" else 12
    rep_a, rep_b = (3, 10) if tier == "quick" else (30, 150)
    idx = 0
    for rep in range(rep_a):
        for ki, kind in enumerate(LOG_KINDS):                     # every value kind alone with every format
            for fi, fmt in enumerate(LOG_FMTS):
                rng = rng_for(seed, "c20-plan-log-a", rep, ki, fi)
                sep = LOG_SEPS[(ki + fi + rep) % len(LOG_SEPS)]
                ext = LOG_EXTS[(ki + 2 * fi + rep) % len(LOG_EXTS)]
                if not _fmt_ok(fmt, sep, [kind]):
                    sep = ";"
                if not _fmt_ok(fmt, sep, [kind]):
                    continue
                cases.append({"t": "log", "fmt": fmt, "sep": sep, "ext": ext, "kinds": [kind],
                              "iters": int(rng.integers(1, maxit + 1)), "stale": bool(rng.integers(2)),
                              "nested": bool(rng.integers(2)), "upd": UPDATES[int(rng.integers(2))], "r": idx})
                idx += 1
    for rep in range(rep_b):
        for si, sep in enumerate(LOG_SEPS):                       # every separator with every extension, mixed signals
            for ei, ext in enumerate(LOG_EXTS):
                rng = rng_for(seed, "c20-plan-log-b", rep, si, ei)
                kinds = [LOG_KINDS[int(j)] for j in rng.integers(0, len(LOG_KINDS), int(rng.integers(1, 5)))]
                fmts = [f for f in LOG_FMTS if _fmt_ok(f, sep, kinds)]
                fmt = fmts[int(rng.integers(len(fmts)))]
                cases.append({"t": "log", "fmt": fmt, "sep": sep, "ext": ext, "kinds": kinds,
                              "iters": int(rng.integers(1, maxit + 1)), "stale": bool(rng.integers(2)),
                              "nested": bool(rng.integers(2)), "upd": UPDATES[int(rng.integers(2))], "r": idx})
                idx += 1
    return cases


def plan(tier, seed):
    a, b = _plan_vti(tier, seed), _plan_log(tier, seed)
    # interleave so that every shard gets both families
    out, ia, ib = [], 0, 0
    ratio = max(1, len(a) // max(len(b), 1))
    while ia < len(a) or ib < len(b):
        out.extend(a[ia:ia + ratio])
        ia += ratio
        if ib < len(b):
            out.append(b[ib])
            ib += 1
    return out


# ============================================================================================ helpers
def _tmpdir():
    base = "/dev/shm" if os.path.isdir("/dev/shm") and os.access("/dev/shm", os.W_OK) else None
    return tempfile.mkdtemp(prefix="pmv_c20_", dir=base)


def _scan(root):
    out = {}
    for d, _, files in os.walk(root):
        for f in files:
            p = os.path.join(d, f)
            with open(p, "rb") as fh:
                out[p] = fh.read()
    return out


def _changed(before, after):
    return sorted(p for p in after if p not in before or before[p] != after[p]), sorted(p for p in before if p not in after)


def _values(rng, shape, variant):
    """float64 values of a value class (cast / viewed later)."""
    x = rng.standard_normal(shape)
    if variant == "wide":
        x = x * 10.0 ** rng.uniform(-44, 39.5, shape)        # denormal float32 … overflow to inf
    elif variant == "special":
        pool = np.array([0.0, -0.0, np.inf, -np.inf, np.nan, 1e-45, 3.4028235e38, 1.0, -1.0, 16777217.0])
        x = np.where(rng.random(shape) < 0.5, pool[rng.integers(0, len(pool), shape)], x)
    elif variant == "int":
        x = np.rint(x * 1000)
    else:
        x = x * 10.0 ** rng.uniform(-3, 3)
    return x


def _make_array(rng, shape, variant):
    """An ndarray of the requested shape whose dtype / memory layout follows the variant."""
    if variant in ("f32be", "f64be"):
        # data read from another program's big-endian result file: the values are what counts, not their byte order
        with np.errstate(all="ignore"):
            return _values(rng, shape, "f64").astype(">f4" if variant == "f32be" else ">f8")
    if variant.startswith("f32"):
        # float32 data in every layout: a writer that skips the conversion for float32 input must still cope with views
        with np.errstate(all="ignore"):
            if variant == "f32strided":
                big = _values(rng, tuple(2 * s for s in shape), "f64").astype(np.float32)
                return big[tuple(slice(None, None, 2) for _ in shape)]
            x = _values(rng, shape, "f64").astype(np.float32)
        return x[::-1] if variant == "f32rev" else (np.asfortranarray(x) if variant == "f32forder" else x)
    if variant == "int":
        return _values(rng, shape, variant).astype(np.int64)
    if variant == "forder":
        return np.asfortranarray(_values(rng, shape, variant))
    if variant == "rev":
        return _values(rng, shape, variant)[::-1]
    if variant == "strided":
        big = _values(rng, tuple(2 * s for s in shape), variant)
        return big[tuple(slice(None, None, 2) for _ in shape)]
    return _values(rng, shape, variant)


def _refill(rng, arr, variant):
    """New values into the SAME array object (keeps dtype and layout)."""
    with np.errstate(all="ignore"):
        arr[...] = _values(rng, arr.shape, variant).astype(arr.dtype)


def _shape(form, N, m):
    return {"vec": (N,), "cols": (N, m), "rows": (m, N), "col1": (N, 1), "row1": (1, N)}[form]


def _label(kind, k, form, sizemult, dim):
    s = ("point" if kind == "p" else "cell") + "-"
    s += {"vec": "vector", "cols": "block", "rows": "block", "col1": "single-column-block", "row1": "single-column-block"}[form]
    if sizemult:
        s += "-total-size-multiple-of-" + ("nel" if kind == "p" else "nnodes")
    if form in ("col1", "row1") and kind == "p" and k == 2 and dim == 2:
        s += "-2comp-padded"
    return s


def _repo_raise(e):
    return exc_site(e) is not None


# ============================================================================================ VTI
def _check_vti_file(raw, n, size, scale_val, tags_expect, ctx):
    """Judge the bytes of one file against the grid and the vectors that were current when it was written."""
    nx, ny, nz = n
    dim = 2 if nz == 0 else 3
    nel, nn = _counts(n)
    v = F.read_vti(raw)
    ctx.count("vti_files_decoded")
    span = [h - l for l, h in zip(v["lo"], v["hi"])]
    require(span == [nx, ny, nz], "vti/extent-does-not-describe-the-grid", extent=[v["lo"], v["hi"]], grid=n)
    want_sp = [float(size[a]) * scale_val for a in range(3)]
    for a in range(dim):
        require(abs(v["spacing"][a] - want_sp[a]) <= 1e-12 * abs(want_sp[a]), "vti/spacing-is-not-element-size-times-scale",
                axis=a, got=v["spacing"], want=want_sp, scale=scale_val)
    require(all(math.isfinite(s) for s in v["spacing"]), "vti/spacing-not-finite", got=v["spacing"])
    for a in range(3):
        first = v["origin"][a] + v["lo"][a] * v["spacing"][a]
        require(abs(first) <= 1e-12 * abs(v["spacing"][a]), "vti/origin-does-not-describe-the-grid", axis=a,
                origin=v["origin"], lo=v["lo"])
    names = [a["name"] for a in v["arrays"]]
    require(len(set(names)) == len(names), "vti/array-names-not-unique", names=names)
    tags = list(tags_expect)
    found = {}
    for a in v["arrays"]:
        tag, idx = F.match_name(a["name"], tags)
        require(tag is not None, "vti/unexpected-array-in-file", name=a["name"], expected_tags=tags)
        require((tag, idx) not in found, "vti/array-names-not-unique", names=names)
        found[(tag, idx)] = a
    nvals = 0
    for tag, exp in tags_expect.items():
        for e in exp:
            a = found.pop((tag, e["index"]), None)
            if a is None and e["index"] is None:
                a = found.pop((tag, 0), None)      # a single vector written as member 0 of a block names it just as well
            if a is None:
                have = sorted(str(k) for k in found if k[0] == tag)
                raise Violation("vti/array-missing-from-file", tag=tag, index=e["index"], other_entries_of_tag=have, names=names)
            if a["section"] != e["section"]:
                raise Violation("vti/%s-written-as-%s" % ("element-data" if e["section"] == "CellData" else "nodal-data",
                                                         a["section"]), name=a["name"], grid=n)
            ntup = nel if e["section"] == "CellData" else nn
            alts = {nc: d for nc, d in e["alternatives"]}
            if a["ncomp"] not in alts:
                raise Violation("vti/number-of-components-wrong", name=a["name"], got=a["ncomp"], want=sorted(alts),
                                section=a["section"])
            want = alts[a["ncomp"]]
            require(a["rawlen"] == 4 * ntup * a["ncomp"], "vti/payload-length-is-not-4-bytes-per-value", name=a["name"],
                    payload_bytes=a["rawlen"], tuples=ntup, ncomp=a["ncomp"])
            require(a["rawlen"] <= a["header"] <= a["enclen"], "vti/block-length-header-wrong", name=a["name"],
                    header=a["header"], raw_bytes=a["rawlen"], base64_chars=a["enclen"])
            if not F.same_float32(a["data"], want):
                bad = np.flatnonzero(~((a["data"].view(np.uint32) == want.view(np.uint32)) | (np.isnan(a["data"]) & np.isnan(want))))
                mech = "vti/padded-2D-vector-differs-from-input" if (a["ncomp"] == 3 and e.get("k") == 2) else \
                    "vti/decoded-array-differs-from-float32-input"
                raise Violation(mech, name=a["name"], first_bad_index=int(bad[0]), nbad=int(bad.size),
                                got=a["data"][bad[:4]], want=want[bad[:4]])
            ctx.count("vti_arrays_compared")
            nvals += want.size
            if a["ncomp"] == 3 and e.get("k") == 2:
                ctx.count("vti_padded_arrays")
    require(not found, "vti/more-members-than-vectors-in-block", extra=[str(k) for k in found])
    ctx.count("vti_values_compared", nvals)
    return len(v["arrays"])


def _name_ints(path, saveto):
    """Integer fields of the file name that do not belong to the requested stem."""
    base, stem = os.path.basename(path), os.path.basename(os.path.splitext(saveto)[0])
    if base.lower().startswith(stem.lower()):
        base = base[len(stem):]
    return [int(t) for t in re.findall(r"\d+", base)]


def _run_vti(case, ctx):
    import pymoto as pym
    n = case["n"]
    nx, ny, nz = n
    dim = 2 if nz == 0 else 3
    nel, nn = _counts(n)
    rng = ctx.rng("c20-vti", nx, ny, nz, case["r"], case["g"])
    size = rng.uniform(0.1, 5.0, 3)
    dom = pym.DomainDefinition(nx, ny, nz, unitx=size[0], unity=size[1], unitz=size[2])
    require(dom.nel == nel and dom.nnodes == nn, "vti/domain-counts-unexpected", nel=dom.nel, nnodes=dom.nnodes)

    sc = case["scale"]
    scale = {"default": None, "one": 1.0, "float": float(10.0 ** rng.uniform(-3, 3)), "int": int(rng.integers(2, 4)),
             "npfloat": np.float64(10.0 ** rng.uniform(-2, 2))}[sc]
    scale_val = 1.0 if scale is None else float(scale)

    specs, sigs = [], []
    for i, (kind, k, form, m, variant, sizemult) in enumerate(case["arr"]):
        N = k * (nel if kind == "c" else nn)
        arr = _make_array(rng, _shape(form, N, m), variant)
        tag = "%s%d%s%d" % ("rho" if kind == "c" else "u", k, {"vec": "v", "cols": "bc", "rows": "br", "col1": "sc", "row1": "sr"}[form], i)
        specs.append({"tag": tag, "kind": kind, "k": k, "form": form, "m": m, "variant": variant, "sizemult": sizemult})
        sigs.append(pym.Signal(tag, arr))
        if sizemult:
            ctx.count("vti_sizemult_blocks")

    root = _tmpdir()
    try:
        rel = {"plain": "out.vti", "nested": os.path.join("res", "deeper", "out.vti"), "noext": "out",
               "upper": "OUT.VTI", "dots": "run.v2.vti", "digits": "case07.vti"}[case["path"]]
        saveto = os.path.join(root, rel)
        kw = {"domain": dom, "saveto": saveto}
        if case["ow"]:
            kw["overwrite"] = True
        elif rng.integers(2):
            kw["overwrite"] = False
        if scale is not None:
            kw["scale"] = scale
        mod = pym.WriteToVTI(sigs, **kw)
        if case["stale"]:
            # a longer file from an earlier run sits where the first output is going to be written
            os.makedirs(os.path.dirname(saveto), exist_ok=True)
            st, ex = os.path.splitext(saveto)
            ex = ex or ".vti"
            tgt = (st + ex) if case["ow"] else (st + ".0000" + ex)
            with open(tgt, "wb") as fh:
                fh.write(b"<stale>" + b"x" * (8 * sum(int(np.size(s.state)) for s in sigs) + 4000) + b"</stale>\n")

        written, offset, nfiles = [], None, 0
        for it in range(case["iters"]):
            if it > 0:
                for s, sp in zip(sigs, specs):
                    if case["upd"] == "new":
                        s.state = _make_array(rng, s.state.shape, sp["variant"])
                    elif case["upd"] == "inplace":
                        _refill(rng, s.state, sp["variant"])
            expect = {sp["tag"]: [dict(e, k=sp["k"]) for e in
                                  F.expected_arrays(sp["tag"], np.array(s.state, copy=True), sp["kind"], sp["k"], sp["form"], dim)]
                      for s, sp in zip(sigs, specs)}
            before = _scan(root)
            try:
                mod.response()
            except Exception as e:  # noqa: BLE001
                if not _repo_raise(e):
                    raise
                _attribute_vti_exception(pym, e, dom, sigs, specs, dim, root, ctx)
            after = _scan(root)
            changed, removed = _changed(before, after)
            require(not removed, "vti/call-removed-a-file", removed=[os.path.relpath(p, root) for p in removed])
            if not changed and case["ow"] and written:
                # identical bytes are possible when the data did not change; the file is judged against the current data below
                changed = [written[0]]
                ctx.count("vti_overwrite_identical_bytes")
            if len(changed) != 1:
                if not changed:
                    raise Violation("vti/no-file-written-or-changed-by-this-iteration", iteration=it, overwrite=case["ow"],
                                    files=[os.path.relpath(p, root) for p in after])
                raise Violation("vti/several-files-written-by-one-iteration", iteration=it,
                                changed=[os.path.relpath(p, root) for p in changed])
            path = changed[0]
            ctx.log("iteration", it, "->", os.path.relpath(path, root), len(after[path]), "bytes")
            require(path.lower().endswith(".vti"), "vti/file-name-without-vti-extension", name=os.path.relpath(path, root))
            require(os.path.dirname(path) == os.path.dirname(saveto), "vti/file-not-in-the-requested-directory",
                    name=os.path.relpath(path, root), saveto=rel)
            if case["ow"]:
                require(not written or path == written[0], "vti/overwrite-mode-writes-to-a-different-file", iteration=it,
                        first=os.path.relpath(written[0], root) if written else None, now=os.path.relpath(path, root))
            else:
                require(path not in written, "vti/earlier-iteration-file-overwritten-without-overwrite-mode", iteration=it,
                        name=os.path.relpath(path, root), earlier=[os.path.relpath(p, root) for p in written])
                ints = _name_ints(path, saveto)
                if offset is None:
                    offset = 0 if it in ints else 1
                require((it + offset) in ints, "vti/file-name-does-not-carry-the-iteration-number", iteration=it,
                        name=os.path.relpath(path, root))
            written.append(path)
            nfiles += 1
            _check_vti_file(after[path], n, size, scale_val, expect, ctx)
        if not case["ow"]:
            require(len(set(written)) == case["iters"], "vti/not-one-file-per-iteration", files=len(set(written)), iterations=case["iters"])
        classes = sorted("%s%d%s%s" % (sp["kind"], sp["k"], sp["form"], "*" if sp["sizemult"] else "") for sp in specs)
        return {"key": "vti|%dx%dx%d|ow%d|%s|%s" % (nx, ny, nz, case["ow"], sc, ",".join(classes)), "nontrivial": nfiles > 0,
                "obs": {"nel": nel, "nnodes": nn, "files": nfiles, "arrays": len(specs), "scale": scale_val,
                        "variants": [sp["variant"] for sp in specs], "path": case["path"], "update": case["upd"]}}
    finally:
        shutil.rmtree(root, ignore_errors=True)


def _attribute_vti_exception(pym, exc, dom, sigs, specs, dim, root, ctx):
    """response() raised inside the tree under test: find the vector class(es) that trigger it on their own."""
    culprits = []
    for j, (s, sp) in enumerate(zip(sigs, specs)):
        sub = os.path.join(root, "_attr%d" % j)
        try:
            pym.WriteToVTI([pym.Signal(sp["tag"], s.state)], domain=dom, saveto=os.path.join(sub, "a.vti")).response()
        except Exception as e2:  # noqa: BLE001
            if _repo_raise(e2):
                lab = _label(sp["kind"], sp["k"], sp["form"], sp["sizemult"], dim)
                try:    # does it depend on dtype / memory layout?  (same values as contiguous float64)
                    with np.errstate(all="ignore"):
                        plain = np.ascontiguousarray(np.array(s.state, dtype=float))
                    pym.WriteToVTI([pym.Signal(sp["tag"], plain)], domain=dom, saveto=os.path.join(sub, "b.vti")).response()
                    lab += "/only-as-" + {"f32": "float32", "f32strided": "float32-strided-view", "f32rev": "float32-reversed-view",
                                          "f32forder": "float32-fortran-order", "forder": "fortran-order", "strided": "strided-view",
                                          "rev": "reversed-view", "int": "integer", "wide": "wide-range-values",
                                          "special": "special-values", "f64": "float64", "f32be": "big-endian-float32",
                                          "f64be": "big-endian-float64"}[sp["variant"]]
                except Exception:  # noqa: BLE001
                    pass
                culprits.append((type(e2).__name__, lab, sp, e2))
        shutil.rmtree(sub, ignore_errors=True)
    if not culprits:
        raise Violation("vti/raises-%s/only-in-combination" % type(exc).__name__, error=short_exc(exc), site=exc_site(exc),
                        classes=[_label(sp["kind"], sp["k"], sp["form"], sp["sizemult"], dim) for sp in specs])
    seen = {}
    for en, lab, sp, e2 in culprits:
        cnt = dom.nel if sp["kind"] == "c" else dom.nnodes
        seen.setdefault("vti/raises-%s/%s" % (en, lab), dict(
            error=short_exc(e2, 200), site=exc_site(e2), grid=[dom.nelx, dom.nely, dom.nelz], nel=dom.nel, nnodes=dom.nnodes,
            shape=list(_shape(sp["form"], sp["k"] * cnt, sp["m"])), dtype_layout=sp["variant"]))
    items = list(seen.items())
    for m, d in items[1:]:
        ctx.violate(m, **d)
    raise Violation(items[0][0], **items[0][1])


# ============================================================================================ text log
def _log_value(rng, kind, vclass):
    def num(shape=()):
        x = rng.standard_normal(shape)
        if vclass == "huge":
            x = x * 10.0 ** rng.choice([-200.0, 200.0, 30.0, -30.0], size=shape)
        elif vclass == "special":
            pool = np.array([0.0, -0.0, np.inf, -np.inf, np.nan, 5e-324, 1e308, 0.5, 1e15, 123456.789])
            x = pool[rng.integers(0, len(pool), shape)]
        elif vclass == "round":
            x = np.rint(x * 50) / 4          # ties for the rounding of short formats
        else:
            x = x * 10.0 ** rng.uniform(-3, 3)
        return x

    def ints(shape=()):
        return rng.integers(-1000, 1000, shape)

    nv = int(rng.integers(2, 7))
    if kind == "pyfloat":
        return float(num())
    if kind == "pyint":
        return int(ints())
    if kind == "npf64":
        return np.float64(num())
    if kind == "npf32":
        with np.errstate(all="ignore"):
            return np.float32(num())
    if kind == "npi64":
        return np.int64(ints())
    if kind == "arr0d":
        return np.array(float(num()))
    if kind == "arr0dint":
        return np.array(int(ints()))
    if kind == "len1":
        return num((1,))
    if kind == "len1int":
        return ints((1,))
    if kind == "shape11":
        return num((1, 1))
    if kind == "vec":
        return num((nv,))
    if kind == "intvec":
        return ints((nv,))
    if kind == "f32vec":
        with np.errstate(all="ignore"):
            return num((nv,)).astype(np.float32)
    if kind == "mat":
        return num((int(rng.integers(1, 4)), int(rng.integers(2, 4))))
    if kind == "matF":
        return np.asfortranarray(num((int(rng.integers(2, 4)), int(rng.integers(2, 4)))))
    if kind == "vecrev":
        return num((nv,))[::-1]
    if kind == "vecstrided":
        return num((2 * nv,))[::2]
    re_, im_ = rng.standard_normal(2) * 10.0 ** rng.uniform(-3, 3)
    if kind == "pycomplex":
        return complex(re_, im_)
    if kind == "npcomplex":
        return np.complex128(complex(re_, im_))
    if kind == "cvec":
        return rng.standard_normal(nv) + 1j * rng.standard_normal(nv)
    raise ValueError(kind)  # pragma: no cover


def _kind_class(kind):
    if kind in ("len1", "len1int", "shape11"):
        return "length-1-array"
    if kind in ("arr0d", "arr0dint"):
        return "0-d-array"
    if kind in ("mat", "matF"):
        return "matrix"
    if kind in ("vec", "intvec", "f32vec", "vecrev", "vecstrided", "cvec"):
        return "vector"
    return "scalar"


def _pyitem(x):
    return x.item() if hasattr(x, "item") else x


def _snapshot(v):
    return np.array(v, copy=True) if isinstance(v, np.ndarray) else v


def _parse_number(txt, cplx):
    t = txt.strip()
    if t.endswith("%") and not cplx:      # Python's percent presentation type: the value times 100, followed by a percent sign
        return float(t[:-1]) / 100.0
    return complex(t) if cplx else float(t)


def _run_log(case, ctx):
    import pymoto as pym
    rng = ctx.rng("c20-log", case["r"])
    fmt = ".10e" if case["fmt"] == "default" else case["fmt"]
    sep_eff = "," if case["ext"] == ".csv" else ("\t" if case["sep"] == "default" else case["sep"])
    vclass = ["normal", "normal", "huge", "special", "round"][int(rng.integers(5))]
    if vclass in ("special", "huge") and fmt.startswith("0"):
        vclass = "round"        # Python zero-pads nan/inf ('00000nan', '-0000inf'; float32 overflow of the huge class gives inf),
        #                         which no number parser accepts: inherent to the chosen format, not to the module
    kinds = case["kinds"]
    tags = LOG_TAGS[:len(kinds)]
    vals = [_log_value(rng, k, vclass) for k in kinds]
    sigs = [pym.Signal(t, v) for t, v in zip(tags, vals)]
    ncols = 1 + sum(int(np.size(v)) for v in vals)

    root = _tmpdir()
    try:
        saveto = os.path.join(root, *((["logs", "run_3"]) if case["nested"] else []), "history" + case["ext"])
        kw = {"saveto": saveto}
        if case["fmt"] != "default":
            kw["fmt"] = case["fmt"]
        if case["sep"] != "default":
            kw["separator"] = case["sep"]
        mod = pym.ScalarToFile(sigs, **kw)
        if case["stale"]:
            os.makedirs(os.path.dirname(saveto), exist_ok=True)
            with open(saveto, "w") as fh:
                fh.write("Iteration\told\n" + "".join("%d\t1.0\n" % i for i in range(40)))
        prev, offset, colmap, header0 = None, None, None, None
        for it in range(case["iters"]):
            if it > 0:
                for s, k in zip(sigs, kinds):
                    if case["upd"] == "inplace" and isinstance(s.state, np.ndarray) and s.state.ndim > 0:
                        new = _log_value(rng, k, vclass)
                        if np.shape(new) == s.state.shape:
                            s.state[...] = new
                        else:               # random length differs: keep the shape, new numbers
                            s.state[...] = np.resize(np.asarray(new), s.state.shape)
                    else:
                        new = _log_value(rng, k, vclass)
                        if isinstance(new, np.ndarray) and new.ndim > 0 and new.shape != np.shape(s.state):
                            base = np.resize(np.asarray(new), np.shape(s.state))
                            new = np.asfortranarray(base) if k == "matF" else base
                            if k == "vecrev":
                                new = np.ascontiguousarray(new[::-1])[::-1]
                        s.state = new
            now = [_snapshot(s.state) for s in sigs]
            before = _scan(root)
            try:
                mod.response()
            except Exception as e:  # noqa: BLE001
                if not _repo_raise(e):
                    raise
                _attribute_log_exception(pym, e, kinds, [s.state for s in sigs], kw, root, ctx)
            after = _scan(root)
            changed, removed = _changed(before, after)
            require(changed or removed, "log/nothing-written-by-this-call", call=it)
            require(not removed and changed == [saveto] and len(after) == 1, "log/files-other-than-the-log-touched",
                    changed=[os.path.relpath(p, root) for p in changed], removed=len(removed), present=len(after))
            try:
                content = after[saveto].decode("utf-8")
            except UnicodeDecodeError:
                raise Violation("log/file-is-not-text")
            ctx.log(repr(content[-300:]))
            require(content.endswith("\n"), "log/last-line-not-terminated", tail=content[-40:])
            lines = content.split("\n")[:-1]
            if len(lines) != it + 2:
                nhead = sum(1 for ln in lines if ln == lines[0]) if lines else 0
                if lines and nhead > 1 and not _looks_like_row(lines[0], sep_eff):
                    raise Violation("log/header-line-repeated", calls=it + 1, lines=len(lines), headers=nhead)
                if lines and _looks_like_row(lines[0], sep_eff):
                    raise Violation("log/no-header-line", first_line=lines[0][:80])
                raise Violation("log/line-count-is-not-header-plus-one-row-per-call", calls=it + 1, lines=len(lines),
                                stale_file=case["stale"], head=lines[:3])
            if prev is not None:
                require(content.startswith(prev), "log/earlier-lines-changed-by-a-later-call", iteration=it)
            prev = content
            # ---- header (judged once, must stay the same)
            if header0 is None:
                header0 = lines[0]
                require(not _looks_like_row(header0, sep_eff), "log/no-header-line", first_line=header0[:80])
                colmap = _judge_header(header0, sep_eff, tags, now, ncols)
                ctx.count("log_files_checked")
            # ---- the row of this call
            row = lines[-1]
            cols = row.split(sep_eff)
            require(len(cols) == ncols, "log/row-column-count-wrong", got=len(cols), want=ncols, row=row[:200], separator=sep_eff)
            try:
                itnum = int(cols[0].strip())
            except ValueError:
                raise Violation("log/iteration-column-is-not-an-integer", column=cols[0])
            if offset is None:
                offset = 1 if itnum == 1 else 0
            require(itnum == it + offset, "log/iteration-column-is-not-the-iteration-number", got=itnum, call=it)
            c = 1
            for si, (v, k) in enumerate(zip(now, kinds)):
                cplx = np.iscomplexobj(v)
                if np.ndim(v) == 0:
                    entries = [(None, _pyitem(v))]
                else:
                    entries = [(idx, _pyitem(np.asarray(v)[idx])) for idx in colmap[si]]
                for idx, pv in entries:
                    txt = cols[c]
                    want = format(pv, fmt)
                    try:
                        back = _parse_number(txt, cplx)
                    except ValueError:
                        raise Violation("log/column-does-not-parse-as-a-number", column=txt, tag=tags[si], index=idx)
                    if format(back, fmt) != want:
                        raise Violation("log/column-differs-from-the-logged-value", column=txt, parsed=back, logged=pv,
                                        want=want, tag=tags[si], index=idx, fmt=fmt, kind=k)
                    if txt.strip() != want.strip():
                        raise Violation("log/column-not-in-the-chosen-format", column=txt, want=want, fmt=fmt, tag=tags[si], kind=k)
                    c += 1
                    ctx.count("log_values_compared")
                    if _kind_class(k) == "length-1-array":
                        ctx.count("log_length1_values")
            ctx.count("log_rows_checked")
        return {"key": "log|%s|%r|%s|%s" % (case["fmt"], case["sep"], case["ext"], ",".join(kinds)), "nontrivial": ncols > 1,
                "obs": {"rows": case["iters"], "columns": ncols, "fmt": fmt, "separator": sep_eff, "values": vclass,
                        "last_row": prev.split("\n")[-2][:120] if prev else None}}
    finally:
        shutil.rmtree(root, ignore_errors=True)


def _looks_like_row(line, sep):
    """True if the first column is an integer and every other column a number."""
    cols = line.split(sep)
    try:
        int(cols[0].strip())
        for t in cols[1:]:
            complex(t.strip())
    except ValueError:
        return False
    return True


def _judge_header(header, sep, tags, vals, ncols):
    """One label per column naming its signal; returns per signal the array index of each of its columns."""
    labels = F.split_outside_brackets(header, sep)
    require(len(labels) == ncols, "log/header-column-count-wrong", got=len(labels), want=ncols, header=header[:200], separator=sep)
    require(labels[0].strip() != "" and not labels[0].strip().lstrip("+-").isdigit(), "log/header-first-label-not-a-name",
            label=labels[0])
    colmap, c = [], 1
    for tag, v in zip(tags, vals):
        n = int(np.size(v))
        mine = labels[c:c + n]
        c += n
        for lab in mine:
            require(tag in lab, "log/header-label-does-not-name-its-signal", label=lab, tag=tag, header=header[:200])
        if np.ndim(v) == 0:
            colmap.append(None)
            continue
        parsed = [F.parse_label(lab)[1] for lab in mine]
        shape = np.shape(v)
        if all(p is None for p in parsed):
            colmap.append(list(np.ndindex(*shape)))
            continue
        ok = all(p is not None and len(p) == len(shape) and all(0 <= i < s for i, s in zip(p, shape)) for p in parsed) \
            and len(set(parsed)) == n
        require(ok, "log/header-labels-do-not-identify-the-array-entries", labels=mine, shape=list(shape))
        colmap.append(parsed)
    return colmap


def _attribute_log_exception(pym, exc, kinds, vals, kw, root, ctx):
    culprits = []
    for j, (k, v) in enumerate(zip(kinds, vals)):
        sub = os.path.join(root, "_attr%d" % j)
        kw2 = dict(kw, saveto=os.path.join(sub, os.path.basename(kw["saveto"])))
        try:
            pym.ScalarToFile([pym.Signal("x", v)], **kw2).response()
        except Exception as e2:  # noqa: BLE001
            if _repo_raise(e2):
                culprits.append(("log/raises-%s/%s" % (type(e2).__name__, _kind_class(k)),
                                 dict(error=short_exc(e2, 200), site=exc_site(e2), kind=k, value=v, fmt=kw.get("fmt", ".10e"))))
        shutil.rmtree(sub, ignore_errors=True)
    if not culprits:
        raise Violation("log/raises-%s/only-in-combination" % type(exc).__name__, error=short_exc(exc), site=exc_site(exc), kinds=kinds)
    seen = {}
    for m, d in culprits:
        seen.setdefault(m, d)
    items = list(seen.items())
    for m, d in items[1:]:
        ctx.violate(m, **d)
    raise Violation(items[0][0], **items[0][1])


# ============================================================================================ entry
def run_case(case, ctx):
    if case["t"] == "vti":
        return _run_vti(case, ctx)
    return _run_log(case, ctx)
