"""C06 — the linear-dependency-aware solver (LDAWrapper) is transparent and re-uses earlier solutions.

Workload: histories of update()/solve() on the real LDAWrapper around the real inner solvers:
 (a) every off-diagonal sparsity pattern for n<=3 (thorough: n=4) x real/complex x dense/sparse x
     inner solver x value class (non-symmetric / symmetric / Hermitian where the pattern allows);
 (b) larger random matrices of every class;
 (c) LinSolve-level histories (block loads, adjoint solve re-using the primal database).
Oracles (per solve): shape; residual of the *requested* system of the *current* matrix <= 10*tol;
a counting proxy around the inner solver: columns lying in the span of right-hand sides already solved
with the same mode for the current matrix, and zero columns, never reach the inner solver; an exception
is replayed on a fresh wrapper (succeeds there => violation); icontract class invariant on the database."""
import itertools
import warnings

import numpy as np
import scipy.sparse as sps

from ..core import Violation, require, Skip, short_exc, exc_site
from ..oracles import matgen

ID = "C06"
LEVEL = "exploration"
MONITORS = ["lda"]
ANCHORS = ["solvers/solvers.py", "modules/linalg.py"]
RULE = ("case = one update/solve history (6-20 operations) on one LDAWrapper; pattern cases enumerate all off-diagonal "
        "sparsity patterns for n=2,3 (thorough n=4 too) x dtype x storage x inner solver x value class; distinct = "
        "(family, n, pattern/class, dtype, storage, inner solver); non-trivial = at least one in-span or zero solve was "
        "judged by the counting proxy and at least 3 residuals were checked")
EXHAUSTIVE = {"quick": False, "thorough": False}
ASSUMPTIONS = [
    "residual tolerance 10*tol relative to ||b|| per column (the wrapper accepts a reconstruction at residual <= tol)",
    "re-use is asserted only for right-hand sides that are exact linear combinations (real coefficients for real data, "
    "complex otherwise) of right-hand sides solved with the same trans mode since the last update(); cross-mode re-use is not asserted",
    "the matrix class (symmetric/Hermitian flags cached at the first update) is kept constant over one history",
    "condition numbers <= 1e4, diagonally dominant pattern matrices",
    "pattern enumeration is exhaustive for n<=3 in both tiers and for n=4 in the thorough tier (4096 patterns x value class x dtype x storage, first inner solver)",
]
FLOORS = {"quick": {"cases_held": 1000, "solves_checked": 8000, "inspan_cols_judged": 2000, "zero_cols_judged": 400,
                    "inv_lda_nonempty": 8000, "patterns_n3": 64},
          "thorough": {"cases_held": 12000, "solves_checked": 150000, "inspan_cols_judged": 40000, "zero_cols_judged": 8000,
                       "inv_lda_nonempty": 150000, "patterns_n4": 4096}}
TIMEOUT_SHARD = {"quick": 900, "thorough": 5400}
K3 = "reuse/inner-solver-called-for-in-span-real-rhs-after-complex-rhs-on-real-matrix"

DENSE_INNER = {"nonsym": ["SolverDenseLU", "SolverDenseQR"], "sym": ["SolverDenseLU", "SolverDenseLDL"],
               "herm": ["SolverDenseLU", "SolverDenseLDL"], "diag": ["SolverDenseLU", "SolverDiagonal"]}


def plan(tier, seed):
    cases = []
    ns = [2, 3] if tier == "quick" else [2, 3, 4]
    for n in ns:
        for mask in matgen.all_masks(n):
            symmask = matgen.mask_is_symmetric(n, mask)
            kinds = ["nonsym"] if any(mask) else ["diag"]
            if symmask and any(mask):
                kinds += ["sym", "herm"]
            combos = [(kd, cp, st) for kd in kinds for cp in (False, True) for st in ("dense", "csc")]
            for kd, cp, st in combos:
                if kd == "herm" and not cp:
                    continue  # real Hermitian == real symmetric
                inners = DENSE_INNER[kd] if st == "dense" else ["SolverSparseLU"]
                if n == 4:
                    inners = inners[:1]
                for inner in inners:
                    cases.append({"fam": "pattern", "n": n, "mask": list(mask), "kind": kd, "cplx": cp, "storage": st,
                                  "inner": inner, "nops": 12})
    # (b) larger random matrices of every class
    nrand = 40 if tier == "quick" else 600
    table = [("diag", "dense", "SolverDiagonal"), ("spd", "dense", "SolverDenseCholesky"), ("spd", "csc", "CG"),
             ("spd", "csc", "SolverSparseLU"), ("sym", "dense", "SolverDenseLDL"), ("sym", "csc", "SolverSparseLU"),
             ("gen", "dense", "SolverDenseLU"), ("gen", "dense", "SolverDenseQR"), ("gen", "csr", "SolverSparseLU"),
             ("triu", "dense", "SolverDenseLU"), ("tril", "csc", "SolverSparseLU"),
             ("hpd", "dense", "SolverDenseCholesky"), ("hpd", "csc", "CG"), ("herm", "dense", "SolverDenseLDL"),
             ("csym", "dense", "SolverDenseLDL"), ("csym", "csc", "SolverSparseLU"), ("cgen", "dense", "SolverDenseLU"),
             ("cgen", "csc", "SolverSparseLU"), ("ctriu", "dense", "SolverDenseQR"), ("cdiag", "dense", "SolverDenseLU"),
             ("perm", "dense", "SolverDenseLU"), ("perm", "csc", "SolverSparseLU"), ("cperm", "dense", "SolverDenseQR"),
             ("cperm", "csr", "SolverSparseLU")]
    for r in range(nrand):
        for cls, st, inner in table:
            cases.append({"fam": "random", "cls": cls, "storage": st, "inner": inner, "r": r, "nops": 16})
    # (c) LinSolve-level histories
    nls = 20 if tier == "quick" else 150
    for r in range(nls):
        for cls in ("spd", "sym", "gen", "hpd", "csym", "cgen", "triu"):
            for st in ("dense", "csc"):
                cases.append({"fam": "linsolve", "cls": cls, "storage": st, "r": r})
    return cases


class Counting:
    """Transparent proxy around the real inner solver that counts the columns it is asked to solve."""

    def __init__(self, inner):
        self.inner = inner
        self.calls = 0
        self.cols = 0
        if hasattr(inner, "tol"):
            self.tol = inner.tol

    def update(self, A):
        self.inner.update(A)
        return self

    def solve(self, rhs, x0=None, trans="N"):
        self.calls += 1
        self.cols += 1 if rhs.ndim == 1 else rhs.shape[1]
        return self.inner.solve(rhs, x0=x0, trans=trans)


def make_inner(name):
    import pymoto.solvers as S
    if name == "CG":
        return S.CG(tol=1e-10)
    return getattr(S, name)()


def _matrix_for(case, rng):
    if case["fam"] == "pattern":
        kd = case["kind"]
        return matgen.pattern_matrix(rng, case["n"], case["mask"], kind="nonsym" if kd == "diag" else kd, cplx=case["cplx"])
    n = int(rng.integers(5, 25))
    return matgen.make(rng, case["cls"], n, cond=10 ** rng.uniform(0.5, 3.5), scale=10 ** rng.uniform(-2, 2))


def _next_matrix(case, rng, A, new_pattern):
    if case["fam"] == "pattern":
        n = case["n"]
        mask = case["mask"]
        if new_pattern and case["kind"] != "diag":
            sym_needed = case["kind"] in ("sym", "herm")
            for _ in range(50):
                m = list(rng.integers(0, 2, n * (n - 1)))
                if any(m) and (not sym_needed or matgen.mask_is_symmetric(n, m)):
                    mask = m
                    break
        kd = case["kind"]
        return matgen.pattern_matrix(rng, n, mask, kind="nonsym" if kd == "diag" else kd, cplx=case["cplx"])
    return matgen.perturb_same_class(rng, A, case["cls"])


def _in_span(b, basis):
    """Is every column of b an (numerically exact) complex-linear combination of the basis vectors?"""
    if not basis:
        return np.zeros(1 if b.ndim == 1 else b.shape[1], dtype=bool)
    B = np.stack(basis, axis=1)
    bb = b.reshape(len(b), -1)
    c, *_ = np.linalg.lstsq(B, bb, rcond=None)
    r = np.linalg.norm(B @ c - bb, axis=0)
    nb = np.linalg.norm(bb, axis=0)
    return r <= 1e-12 * np.where(nb == 0, 1, nb)


def run_history(case, ctx, rng):
    from pymoto.solvers import LDAWrapper
    tol = float(rng.choice([1e-7, 1e-7, 1e-9, 1e-5]))
    A = _matrix_for(case, rng)
    n = A.shape[0]
    st = case["storage"]
    inner = Counting(make_inner(case["inner"]))
    w = LDAWrapper(inner, tol=tol)
    # half of the sparse cases keep one fixed sparsity structure for every matrix of the history, zeros stored explicitly (what an
    # assembly from fixed (row, col) triplets hands over when elements are void): same structure, other couplings
    fixed = st in ("csc", "csr") and rng.random() < 0.5
    if fixed:
        ctx.count("histories_with_fixed_structure_and_explicit_zeros")

    def store(M_):
        if not fixed:
            return matgen.to_storage(M_, st)
        r_, c_ = np.indices(M_.shape)
        return sps.coo_matrix((np.asarray(M_).ravel(), (r_.ravel(), c_.ravel())), shape=M_.shape).asformat(st)
    w.update(store(A))
    cplxA = np.iscomplexobj(A)
    solved = {"N": [], "T": [], "H": []}
    had_complex_rhs = False
    ops = ["new", "new", "repeat", "combo", "combo", "zero", "block", "blockdep", "blockscaled", "cplx", "x0", "x0span", "blockx0", "update",
           "newpattern", "other", "nearspan", "nearspan", "blocknear"]
    # a second wrapper (own inner solver, own matrix of the same class) lives in the same process and is used in between:
    # the two must not know of each other
    other = None
    if rng.random() < 0.5:
        Ao = _next_matrix(case, rng, A, False)
        other = (LDAWrapper(make_inner(case["inner"]), tol=tol), Ao)
        other[0].update(matgen.to_storage(Ao, st))
    # the tolerances of the wrapper are relative: right-hand sides of any magnitude (nN loads, GPa stresses) are admissible
    bs = float(10.0 ** rng.uniform(-10, 10)) if rng.random() < 0.4 else 1.0
    nA = float(np.linalg.norm(A)) / np.sqrt(n)
    log = []
    nres = 0
    # the columns of one block are all solved in full and orthogonalised afterwards; a column that is *nearly* a combination of the
    # others (off by delta, e.g. loads read from a float32 file) leaves a remainder of relative size delta, whose normalisation used
    # to amplify the rounding of that subtraction to eps*cond/delta (repaired; see known_findings.json, "fixed").  Whether such a
    # column counts as dependent is the wrapper's call when delta is within two decades of its tolerance ("edge"): the re-use
    # clause is then not judged for right-hand sides that may contain it, every other clause is.
    near_ctx = {"on": False, "edge": False}

    for k in range(case["nops"]):
        op = str(rng.choice(ops))
        trans = str(rng.choice(["N", "N", "T", "H"]))
        if op in ("update", "newpattern"):
            A = _next_matrix(case, rng, A, op == "newpattern")
            w.update(store(A))
            near_ctx["on"] = near_ctx["edge"] = False
            solved = {"N": [], "T": [], "H": []}
            had_complex_rhs = False
            log.append(op)
            ctx.count("updates")
            continue
        if op == "other":
            if other is not None:
                wo, Ao = other
                if rng.random() < 0.3:
                    Ao = _next_matrix(case, rng, Ao, False)
                    wo.update(matgen.to_storage(Ao, st))
                    other = (wo, Ao)
                bo = rng.standard_normal(n) * bs
                with warnings.catch_warnings():
                    warnings.simplefilter("ignore")
                    xo = wo.solve(bo, trans=trans)
                Mo = {"N": Ao, "T": Ao.T, "H": Ao.conj().T}[trans]
                ro = float(np.linalg.norm(Mo @ xo - bo) / np.linalg.norm(bo))
                ctx.count("solves_checked")
                ctx.count("other_wrapper_solves")
                if not ro <= 10 * tol:
                    raise Violation("second-wrapper-in-the-same-process/answer-does-not-solve-its-system", residual=ro, history=log[-8:])
                log.append("other/" + trans)
            continue
        M = {"N": A, "T": A.T, "H": A.conj().T}[trans]
        prev = solved[trans]
        x0 = None
        cdata = cplxA or any(np.iscomplexobj(v) for v in prev)

        def coef(size):
            c = rng.standard_normal(size)
            if cdata and rng.random() < 0.5:
                c = c + 1j * rng.standard_normal(size)
            return c
        if op in ("repeat", "combo", "x0span", "nearspan") and not prev:
            op = "new"
        if op == "new":
            b = rng.standard_normal(n)
        elif op == "repeat":
            b = prev[int(rng.integers(len(prev)))].copy()
        elif op in ("combo", "x0span"):
            idx = rng.choice(len(prev), size=min(len(prev), int(rng.integers(1, 4))), replace=False)
            cs = coef(len(idx))
            b = sum(c * prev[i] for c, i in zip(cs, idx))
            if op == "x0span":
                x0 = rng.standard_normal(n).astype(b.dtype) / nA      # (scaled with bs below, like the solution itself)
        elif op == "nearspan":
            # almost, but not quite, a right-hand side solved before: off the span by somewhere between the wrapper tolerance and
            # its square root - the answer still has to meet the tolerance
            b0 = prev[int(rng.integers(len(prev)))]
            dlt = 10.0 ** rng.uniform(np.log10(tol) + 0.5, 0.5 * np.log10(tol) + 0.3)
            dv = rng.standard_normal(n) + (1j * rng.standard_normal(n) if np.iscomplexobj(b0) else 0)
            b = b0 + dlt * np.linalg.norm(b0) * dv / np.linalg.norm(dv)
            ctx.count("nearspan_rhs")
        elif op == "blocknear":
            b = rng.standard_normal((n, 3)).astype(complex if cdata else float)
            dlt = 10.0 ** rng.uniform(-9, -5)
            dv = rng.standard_normal(n)
            b[:, 2] = b[:, 0] - 2 * b[:, 1] + dlt * np.linalg.norm(b[:, 0]) * dv / np.linalg.norm(dv)
            near_ctx["on"] = True
            near_ctx["edge"] = near_ctx["edge"] or dlt < 100 * tol
            ctx.count("blocks_with_nearly_dependent_columns")
        elif op == "zero":
            b = np.zeros(n)
        elif op == "block":
            b = rng.standard_normal((n, int(rng.integers(1, 4))))
            if prev and rng.random() < 0.5:     # one in-span column inside the block
                b[:, 0] = np.real(prev[int(rng.integers(len(prev)))]) if not cdata else b[:, 0]
                if cdata:
                    b = b.astype(complex)
                    b[:, 0] = prev[int(rng.integers(len(prev)))]
        elif op == "blockdep":
            b = rng.standard_normal((n, 4))
            b[:, 2] = b[:, 0] - 2 * b[:, 1]      # linearly dependent column
            b[:, 3] = 0.0                        # zero column
        elif op == "blockscaled":
            b = rng.standard_normal((n, 3)) * np.array([1.0, 10.0 ** rng.uniform(-12, -8), 10.0 ** rng.uniform(2, 4)])
        elif op == "cplx":
            b = rng.standard_normal(n) + 1j * rng.standard_normal(n)
        elif op == "x0":
            b = rng.standard_normal(n)
            x0 = rng.standard_normal(n) / nA
        elif op == "blockx0":
            # block with an initial guess in which only some columns need the inner solver (zero / in-span / new columns mixed)
            b = rng.standard_normal((n, 3)).astype(complex if cdata else float)
            b[:, 1] = 0.0
            if prev:
                b[:, 2] = prev[int(rng.integers(len(prev)))] / bs
            x0 = rng.standard_normal((n, 3)).astype(b.dtype) / nA
        b = np.asarray(b)
        if op not in ("repeat", "combo", "x0span", "nearspan"):
            b = b * bs
        if x0 is not None:
            x0 = x0 * bs
        span = _in_span(b, prev)
        bb = b.reshape(n, -1)
        zero = np.linalg.norm(bb, axis=0) == 0
        c0 = inner.cols
        desc = {"k": k, "op": op, "trans": trans, "shape": list(b.shape), "cplx_rhs": bool(np.iscomplexobj(b)),
                "ndb": len(prev), "tol": tol}
        log.append(f"{op}/{trans}")
        try:
            with warnings.catch_warnings():
                warnings.simplefilter("ignore")
                x = w.solve(b.copy(), x0=None if x0 is None else x0.copy(), trans=trans)
        except Exception as e:  # noqa: BLE001
            # transparency: replay the same call on the bare inner solver (fresh instance, current matrix) ...
            bare_ok = True
            try:
                with warnings.catch_warnings():
                    warnings.simplefilter("ignore")
                    s2 = make_inner(case["inner"])
                    s2.update(matgen.to_storage(A, st))
                    s2.solve(b.copy(), x0=None if x0 is None else x0.copy(), trans=trans)
            except Exception:
                bare_ok = False
            if bare_ok:
                raise Violation(f"wrapped-call-fails-where-bare-inner-solver-succeeds/{type(e).__name__}@{exc_site(e)}",
                                op=desc, error=short_exc(e), history=log[-8:], inner=case["inner"])
            # ... and on a fresh wrapper around a fresh inner solver
            w2 = LDAWrapper(make_inner(case["inner"]), tol=tol)
            try:
                with warnings.catch_warnings():
                    warnings.simplefilter("ignore")
                    w2.update(matgen.to_storage(A, st))
                    w2.solve(b.copy(), x0=None if x0 is None else x0.copy(), trans=trans)
            except Exception:  # the call is outside the inner solver's domain (e.g. real SuperLU, complex rhs)
                ctx.count("ops_outside_inner_domain")
                w = LDAWrapper(inner, tol=tol)   # the failed call may have left a half-updated wrapper: start afresh
                w.update(store(A))
                solved = {"N": [], "T": [], "H": []}
                had_complex_rhs = False
                continue
            raise Violation(f"call-fails-where-fresh-wrapper-succeeds/{type(e).__name__}@{exc_site(e)}",
                            op=desc, error=short_exc(e), history=log[-8:])
        x = np.asarray(x)
        require(x.shape == b.shape, "answer-shape-differs-from-rhs", op=desc, got=list(x.shape))
        require(bool(np.all(np.isfinite(x))), "answer-not-finite", op=desc, history=log[-8:])
        xx = x.reshape(n, -1)
        res = np.linalg.norm(M @ xx - bb, axis=0)
        nb = np.linalg.norm(bb, axis=0)
        rel = res / np.where(nb == 0, 1, nb)
        nres += xx.shape[1]
        ctx.count("solves_checked", xx.shape[1])
        if np.any(zero):
            ctx.count("zero_cols_judged", int(zero.sum()))
            require(float(np.max(np.abs(xx[:, zero]), initial=0.0)) <= 1e-12 * (1 + float(np.max(np.abs(xx)))),
                    "zero-rhs-gives-nonzero-answer", op=desc)
        # an iterative inner solver started from a guess that is orders of magnitude larger than the solution cannot get below
        # the rounding level of its first residual, eps*|A||x0| (floating point, not a defect of the wrapper)
        fl = 0.0 if x0 is None else 1e3 * np.finfo(float).eps * float(np.linalg.norm(A, 2)) * float(np.max(np.linalg.norm(x0.reshape(n, -1), axis=0))) \
            / max(float(np.min(nb[nb > 0], initial=np.inf)), 1e-300)
        if float(np.max(rel)) > max(10 * tol, fl):
            raise Violation("answer-does-not-solve-requested-system-of-current-matrix", op=desc, residual=float(np.max(rel)),
                            history=log[-8:], n=n, kind=case.get("kind", case.get("cls")), storage=st, inner=case["inner"])
        # re-use clause
        free = span | zero
        passed = inner.cols - c0
        if np.any(free):
            ctx.count("inspan_cols_judged", int((span & ~zero).sum()))
        if passed > int((~free).sum()):
            mech = "reuse/inner-solver-called-for-in-span-or-zero-rhs"
            if (not cplxA) and had_complex_rhs and not np.iscomplexobj(b):
                mech = K3
            if near_ctx["edge"] and mech != K3 and passed - int((~free).sum()) <= int((span & ~zero).sum()):
                ctx.count("reuse_not_judged_at_tolerance_edge")       # (explained by non-zero in-span columns alone)
            else:
                ctx.violate(mech, op=desc, passed_to_inner=int(passed), columns_not_in_span=int((~free).sum()),
                            history=log[-8:], kind=case.get("kind", case.get("cls")), inner=case["inner"])
        # bookkeeping: everything answered is now "already solved" for this mode
        for j in range(bb.shape[1]):
            # (a near-span right-hand side that the wrapper answered from its basis within the tolerance was not "solved": it is
            # not part of the span later combinations are built from)
            if nb[j] > 0 and not (op == "nearspan" and passed == 0):
                solved[trans].append(bb[:, j].copy())
        had_complex_rhs = had_complex_rhs or np.iscomplexobj(b)
    return nres


def run_linsolve(case, ctx, rng):
    """LinSolve-level history: block loads, then the adjoint solve must re-use the primal database for a
    self-adjoint matrix; a repeated sensitivity() never reaches the inner solver again."""
    import pymoto as pym
    cls = case["cls"]
    n = int(rng.integers(4, 16))
    A = matgen.make(rng, cls, n, cond=10 ** rng.uniform(0.5, 3))
    cp = np.iscomplexobj(A)
    k = int(rng.integers(1, 4))
    b = rng.standard_normal((n, k)) if k > 1 else rng.standard_normal(n)
    if cp and case["storage"] == "dense" and rng.random() < 0.5:
        b = b + 1j * rng.standard_normal(b.shape)
    inner = Counting(make_inner("SolverSparseLU" if case["storage"] != "dense" else "SolverDenseLU"))
    sA, sb = pym.Signal("A", matgen.to_storage(A, case["storage"])), pym.Signal("b", b)
    m = pym.LinSolve([sA, sb], pym.Signal("x"), solver=inner)
    nres = 0
    for rep in range(3):
        m.response()
        x = np.asarray(m.sig_out[0].state)
        require(x.shape == b.shape, "linsolve-shape")
        r = np.linalg.norm(A @ x.reshape(n, -1) - b.reshape(n, -1), axis=0) / np.linalg.norm(b.reshape(n, -1), axis=0)
        require(float(r.max()) < 1e-6, "linsolve/answer-does-not-solve-system", residual=float(r.max()), cls=cls)
        nres += 1
        ctx.count("solves_checked", k)
        c0 = inner.cols
        # seed in the span of the loads: for A = A^T the adjoint system A^T lam = w is already solved
        cs = rng.standard_normal(k)
        wseed = (b.reshape(n, -1) @ cs) if k > 1 else cs[0] * b
        wfull = np.outer(wseed, np.ones(k)) if k > 1 else wseed
        m.sig_out[0].sensitivity = wfull.copy()
        m.sensitivity()
        c1 = inner.cols
        symmetric = cls in ("spd", "sym", "csym")
        if symmetric:
            ctx.count("inspan_cols_judged", k)
            if c1 != c0:
                ctx.violate("reuse/adjoint-solve-of-self-adjoint-system-reaches-inner-solver", cls=cls, cols=int(c1 - c0),
                            storage=case["storage"])
        m.sensitivity()          # same seed again: in the span of what has just been solved, whatever the class
        ctx.count("inspan_cols_judged", k)
        if inner.cols != c1:
            ctx.violate("reuse/repeated-adjoint-solve-reaches-inner-solver", cls=cls, cols=int(inner.cols - c1))
        m.reset()
        if rep == 1:   # new matrix of the same class: nothing of the old one may be used
            A = matgen.perturb_same_class(rng, A, cls)
            sA.state = matgen.to_storage(A, case["storage"])
    return nres


def run_case(case, ctx):
    fam = case["fam"]
    if fam == "pattern":
        rng = ctx.rng("pat", case["n"], *case["mask"], case["kind"], int(case["cplx"]), case["storage"], case["inner"])
        ctx.count(f"patterns_n{case['n']}_runs")
    else:
        rng = ctx.rng(fam, case["cls"], case["storage"], case.get("inner", ""), case["r"])
    if fam == "linsolve":
        nres = run_linsolve(case, ctx, rng)
        key = f"linsolve/{case['cls']}/{case['storage']}"
    else:
        nres = run_history(case, ctx, rng)
        if fam == "pattern":
            key = f"pattern/{case['n']}/{''.join(map(str, case['mask']))}/{case['kind']}/{case['cplx']}/{case['storage']}/{case['inner']}"
            if case["kind"] in ("nonsym", "diag") and not case["cplx"] and case["storage"] == "dense" and case["inner"] == "SolverDenseLU":  # one per pattern
                ctx.count(f"patterns_n{case['n']}")

        else:
            key = f"random/{case['cls']}/{case['storage']}/{case['inner']}"
    return {"key": key, "nontrivial": nres >= 3,
            "obs": {"residuals_checked": nres, "inspan": ctx.counters.get("inspan_cols_judged", 0),
                    "inner_domain_skips": ctx.counters.get("ops_outside_inner_domain", 0)}}
