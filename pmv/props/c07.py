"""C07 — linear-system modules satisfy their defining equations.

LinSolve: A x = b;  Inverse: A B = I;  SystemOfEquations: A x = b, x_p prescribed, b_f applied;
StaticCondensation: Schur complement of the free block, and the condensed system reproduces the
main-dof response of the full system.  All equations are evaluated with dense numpy on the outputs
of the real modules; the online solver monitor watches the inner solves."""
import warnings

import numpy as np
import scipy.sparse as sps

from ..core import Violation, require, relerr
from ..oracles import matgen

ID = "C07"
LEVEL = "exploration"
MONITORS = ["module", "solver"]
ANCHORS = ["modules/linalg.py", "solvers/solvers.py", "solvers/auto_determine.py"]
RULE = ("case = (module, matrix class, storage, rhs form, partition form, size draw); distinct = the descriptor without the draw; "
        "non-trivial = n >= 2 and every defining equation of the module was evaluated")
ASSUMPTIONS = [
    "relative residual <= max(1e-9, 1e-13*cond) per column for direct solvers, 10*tol for a CG override",
    "condition number <= 1e4, scale in [1e-2,1e2]; FE matrices with boundary-condition rows/columns decoupled",
    "real sparse matrix with complex right-hand side is rejected by LinSolve by design (not generated)",
    "StaticCondensation: dofs that are neither main nor free are prescribed to zero (module docstring)",
]
FLOORS = {"quick": {"cases_held": 600, "equations_checked": 2500}, "thorough": {"cases_held": 20000, "equations_checked": 80000}}

REALC = ["diag", "spd", "sym", "gen", "triu", "tril"]
CPLXC = ["cdiag", "hpd", "herm", "csym", "cgen", "ctriu"]


def plan(tier, seed):
    reps = 2 if tier == "quick" else 60
    cases = []
    for r in range(reps):
        for cls in REALC + CPLXC + ["fe2", "fe3", "fepoisson"]:
            for st in ("dense", "csc", "csr"):
                for rhs in ("v", "c1", "blk", "blkdep", "cv", "blkscaled"):
                    for override in ("auto",):
                        cases.append({"mod": "LinSolve", "cls": cls, "storage": st, "rhs": rhs, "solver": override, "r": r})
        for cls, st, sol in (("gen", "dense", "SolverDenseQR"), ("cgen", "dense", "SolverDenseLU"), ("spd", "csc", "CG"),
                             ("hpd", "csc", "CG"), ("spd", "dense", "SolverDenseLDL"), ("sym", "csc", "SolverSparseLU"),
                             ("sym", "dense", "flag:symmetric"), ("herm", "dense", "flag:hermitian"), ("spd", "csc", "nolda"),
                             # flags given truthfully for every class they are true for (complex symmetric is not Hermitian)
                             ("csym", "dense", "flag:symmetric"), ("csym", "csc", "flag:symmetric"), ("spd", "dense", "flag:symmetric"),
                             ("hpd", "dense", "flag:hermitian"), ("spd", "csc", "flag:hermitian"),
                             # saddle-point systems [[K, B^T], [B, eps I]] with a tiny regularisation (symmetric indefinite)
                             ("saddle", "csc", "auto"), ("saddle", "csr", "SolverSparseLU"), ("saddle", "dense", "auto")):
            for rhs in ("v", "blk"):
                cases.append({"mod": "LinSolve", "cls": cls, "storage": st, "rhs": rhs, "solver": sol, "r": r})
        for cls in REALC + CPLXC:
            cases.append({"mod": "Inverse", "cls": cls, "r": r})
        for cls in ("spd", "sym", "gen", "triu", "hpd", "herm", "csym", "cgen", "fe2"):
            for st in ("dense", "csc", "csr"):
                for part in ("both", "free", "prescribed"):
                    for rhs in ("v", "blk", "cv", "blkscaled"):
                        cases.append({"mod": "SystemOfEquations", "cls": cls, "storage": st, "part": part, "rhs": rhs, "r": r})
        for cls in ("spd", "sym", "gen", "hpd", "herm", "csym", "cgen", "fe2"):
            for st in ("dense", "csc"):
                for part in ("all", "some-prescribed"):
                    cases.append({"mod": "StaticCondensation", "cls": cls, "storage": st, "part": part, "r": r})
    return cases


def _matrix(rng, cls, tier):
    if cls in ("fe2", "fe3", "fepoisson"):
        kind = "poisson" if cls == "fepoisson" else "stiffness"
        dim = 3 if cls == "fe3" else 2
        n = (int(rng.integers(1, 4)), int(rng.integers(1, 4)), int(rng.integers(1, 3)) if dim == 3 else 0)
        K, dom, bc = matgen.fe_matrix(rng, kind, dim, n)
        return K.toarray(), 1e4
    if cls == "saddle":
        n1, n2 = int(rng.integers(4, 12)), int(rng.integers(1, 4))
        K = matgen.make(rng, "spd", n1, cond=10 ** rng.uniform(0.5, 2))
        B = rng.standard_normal((n2, n1))
        A = np.block([[K, B.T], [B, 10.0 ** rng.uniform(-12, -8) * np.eye(n2)]])
        return A, float(np.linalg.cond(A))
    n = int(rng.integers(1, 14 if tier == "quick" else 30))
    cond = 10 ** rng.uniform(0, 4)
    return matgen.make(rng, cls, n, cond=cond, scale=10 ** rng.uniform(-2, 2)), cond


def _rhs(rng, n, form, cplx):
    k = {"v": None, "c1": 1, "blk": 3, "blkdep": 4, "cv": None, "blkscaled": 3}[form]
    b = rng.standard_normal(n if k is None else (n, k))
    if form == "cv" or cplx:
        b = b + 1j * rng.standard_normal(b.shape)
    if form == "blkdep":
        b[:, 2] = b[:, 0] - 2 * b[:, 1]
        b[:, 3] = 0.0
    if form == "blkscaled":       # load cases of very different magnitude in one block (each column is its own system)
        b = b * np.array([1.0, 10.0 ** rng.uniform(-12, -8), 10.0 ** rng.uniform(2, 4)])
    return b


def _set_matrix(sig, new, rng, ctx):
    """hands a new matrix to the signal either as a new object or, where shapes/patterns allow, by updating the values of the
    object the signal already holds (user loops often do `K.data[:] = ...` / `Z[...] = ...`)"""
    old = sig.state
    if rng.random() < 0.5:
        try:
            if sps.issparse(old) and sps.issparse(new) and old.format == new.format and old.format in ("csc", "csr") \
                    and old.dtype == new.dtype and old.shape == new.shape:
                a, b_ = old.copy(), new.copy()
                a.sort_indices()
                b_.sort_indices()
                if np.array_equal(a.indices, b_.indices) and np.array_equal(a.indptr, b_.indptr):
                    old.sort_indices()
                    old.data[:] = b_.data
                    ctx.count("inplace_matrix_updates")
                    return
            elif isinstance(old, np.ndarray) and isinstance(new, np.ndarray) and old.shape == new.shape and old.dtype == new.dtype \
                    and old.flags.writeable:
                old[...] = new
                ctx.count("inplace_matrix_updates")
                return
        except Exception:
            pass
    sig.state = new


def _colres(A, x, b):
    n = A.shape[0]
    xx, bb = np.asarray(x).reshape(n, -1), np.asarray(b).reshape(n, -1)
    r = np.linalg.norm(A @ xx - bb, axis=0)
    nb = np.linalg.norm(bb, axis=0)
    nz = nb > 0
    rel = float(np.max(r[nz] / nb[nz])) if np.any(nz) else 0.0
    rz = float(np.max(np.abs(xx[:, ~nz]), initial=0.0))
    return rel, rz


def run_linsolve(case, ctx, rng):
    import pymoto as pym
    import pymoto.solvers as S
    A, cond = _matrix(rng, case["cls"], ctx.tier)
    n = A.shape[0]
    cA = np.iscomplexobj(A)
    st = case["storage"]
    form = case["rhs"]
    if form == "cv" and not cA and st != "dense":
        form = "v"      # documented exclusion
    b = _rhs(rng, n, form, cA and rng.random() < 0.5)
    kw, tol = {}, max(1e-9, 1e-13 * cond)
    sol = case["solver"]
    if sol == "CG":
        kw["solver"] = S.CG(tol=1e-10)
        tol = 1e-8
    elif sol.startswith("Solver"):
        kw["solver"] = getattr(S, sol)()
    elif sol == "flag:symmetric":
        kw["symmetric"] = True
    elif sol == "flag:hermitian":
        kw["hermitian"] = True
    # first evaluation with some dofs decoupled (rows/columns zero apart from the diagonal, as boundary conditions or void
    # elements produce); later evaluations of the same module instance couple them again (supports released)
    Afull = A
    if n >= 3 and rng.random() < 0.4 and case["cls"] not in ("diag", "cdiag", "saddle"):
        idx = rng.choice(n, size=int(rng.integers(1, n - 1)), replace=False)
        A = A.copy()
        dg = np.diag(A)[idx].copy()
        A[idx, :] = 0
        A[:, idx] = 0
        A[idx, idx] = np.where(np.abs(dg) > 1e-3 * np.max(np.abs(Afull)), dg, np.max(np.abs(Afull)))
        rest = np.setdiff1d(np.arange(n), idx)
        # keep the matrix inside its class: LinSolve chooses its solver for the class of the first matrix (a fully diagonal
        # first matrix would select the diagonal solver for good)
        if np.linalg.cond(A[np.ix_(rest, rest)]) > 1e6 or np.count_nonzero(A - np.diag(np.diag(A))) == 0 or \
                (case["cls"] in ("gen", "cgen") and np.allclose(A, A.T)) or (case["cls"] in ("triu", "tril", "ctriu") and np.allclose(A, A.T)):
            A = Afull
        else:
            ctx.count("decoupled_then_coupled")
            if rng.random() < 0.5:
                # a prescribed value of 1e6 on the decoupled (constrained) dofs next to O(1) loads elsewhere: the coupled part of the
                # right-hand side is 3e-7 ... 7e-5 of the whole and still has to be solved for
                bsc = 10.0 ** rng.uniform(4.7, 5.9)      # (beyond ~3e6 the coupled part drops below the wrapper's own tolerance 1e-7)
                b = np.array(b, copy=True)
                b[idx, ...] = b[idx, ...] * bsc
                ctx.count("rhs_dominated_by_decoupled_dofs")
                # LinSolve's default wrapper accepts a relative residual of 1e-7 of the *whole* right-hand side without solving: that
                # is its documented tolerance, so it is the accuracy that can be demanded here
                tol = max(tol, 2e-7)
    A_st = matgen.to_storage(A, st)
    if st != "dense" and A is not Afull and rng.random() < 0.6:
        # what an assembly routine produces: the sparsity pattern of the full matrix with *explicit zeros* where the couplings vanish
        # (void elements, a spring of zero stiffness) - later matrices then have the very same pattern
        P_ = sps.coo_matrix(Afull != 0)
        A_st = {"csc": sps.csc_matrix, "csr": sps.csr_matrix}[st]((np.asarray(A)[P_.row, P_.col], (P_.row, P_.col)), shape=A.shape)
        ctx.count("decoupled_with_explicit_zeros")
    sA, sb = pym.Signal("A", A_st), pym.Signal("b", b)
    m = pym.LinSolve([sA, sb], pym.Signal("x"), **kw)
    if sol == "nolda":
        m.use_lda_solver = False
    neq = 0
    for rep in range(3):
        with warnings.catch_warnings():
            warnings.simplefilter("ignore")
            m.response()
        x = m.sig_out[0].state
        require(np.shape(x) == np.shape(b), "LinSolve/answer-shape-differs-from-rhs", got=list(np.shape(x)), want=list(np.shape(b)))
        rel, rz = _colres(A, x, b)
        ctx.count("equations_checked")
        neq += 1
        if not (rel <= tol and rz <= 1e-12 * (1 + np.max(np.abs(x)))):
            raise Violation("LinSolve/Ax-differs-from-b", residual=rel, zero_col_answer=rz, cls=case["cls"], storage=st, rhs=form,
                            solver=type(m.solver).__name__ + "/" + type(getattr(m.solver, "solver", None)).__name__,
                            n=n, repetition=rep)
        # next repetition: a new matrix of the same class and a new rhs through the same module instance
        if case["cls"] in ("fe2", "fe3", "fepoisson"):
            A = Afull * rng.uniform(0.5, 2.0)
        else:
            A = matgen.perturb_same_class(rng, Afull, case["cls"])
        if case["cls"] in ("spd", "hpd") and st == "dense" and sol == "auto" and rep == 0 and n >= 2:
            # definiteness changes along the history (positive diagonal kept): Cholesky has to fall back to LDL and come back
            w_, v_ = np.linalg.eigh(Afull)
            A2 = Afull - (w_[0] + 0.3 * (w_[1] - w_[0] if n > 1 else w_[0])) * np.outer(v_[:, 0], v_[:, 0].conj()) * 1.0
            A2 = A2 - 1.2 * w_[0] * np.outer(v_[:, 0], v_[:, 0].conj()) * 0.0
            A2 = Afull - 1.5 * w_[0] * np.outer(v_[:, 0], v_[:, 0].conj())
            if np.all(np.real(np.diag(A2)) > 0) and np.linalg.cond(A2) < 1e6:
                A = (A2 + A2.conj().T) / 2
                ctx.count("definiteness_switches")
        b = _rhs(rng, n, form, np.iscomplexobj(b))
        if rep == 1 and form in ("v", "c1", "blk") and rng.random() < 0.35:
            # the number of load cases changes between two evaluations of the same module (a load case added or dropped, a block
            # replaced by a single vector): the solution of the previous evaluation has another shape
            ks = [kk for kk in (None, 1, 2, 5) if kk != {"v": None, "c1": 1, "blk": 3}[form]]
            kk = ks[int(rng.integers(len(ks)))]
            b2 = rng.standard_normal(n if kk is None else (n, kk))
            b = b2 + 1j * rng.standard_normal(b2.shape) if np.iscomplexobj(b) else b2
            ctx.count("linsolve_number_of_load_cases_changed_between_responses")
        _set_matrix(sA, matgen.to_storage(A, st), rng, ctx)
        sb.state = b
        tol = max(tol, 1e-13 * cond * 16)
    return neq, n


def run_inverse(case, ctx, rng):
    import pymoto as pym
    A, cond = _matrix(rng, case["cls"], ctx.tier)
    n = A.shape[0]
    m = pym.Inverse(pym.Signal("A", A), pym.Signal("B"))
    m.response()
    B = m.sig_out[0].state
    require(np.shape(B) == (n, n), "Inverse/shape")
    e1 = float(np.max(np.abs(A @ B - np.eye(n))))
    e2 = float(np.max(np.abs(B @ A - np.eye(n))))
    ctx.count("equations_checked", 2)
    tol = max(1e-9, 1e-13 * cond * n)
    if not (e1 <= tol and e2 <= tol):
        raise Violation("Inverse/AB-differs-from-identity", AB=e1, BA=e2, cls=case["cls"], n=n)
    return 2, n


def run_soe(case, ctx, rng):
    import pymoto as pym
    A, cond = _matrix(rng, case["cls"], ctx.tier)
    n = A.shape[0]
    if n < 2:
        A, cond = matgen.make(rng, case["cls"] if not case["cls"].startswith("fe") else "spd", 5, cond=100.0), 100.0
        n = 5
    cA = np.iscomplexobj(A)
    perm = rng.permutation(n)
    nf = int(rng.integers(1, n))
    f, p = np.sort(perm[:nf]), np.sort(perm[nf:])
    if rng.random() < 0.3:        # unsorted index sets are admissible too
        f, p = perm[:nf].copy(), perm[nf:].copy()
    # the free block must be well conditioned for the residual tolerance to be meaningful
    cf = np.linalg.cond(A[np.ix_(f, f)])
    if not np.isfinite(cf) or cf > 1e6:
        A = A + np.diag(np.abs(A).sum(axis=1)) * (1 if not cA else 1 + 0j)
        cf = np.linalg.cond(A[np.ix_(f, f)])
    form = case["rhs"]
    st = case["storage"]
    cplx_rhs = form == "cv"
    if cplx_rhs and not cA and st != "dense":
        cplx_rhs = False
    k = 3 if form in ("blk", "blkscaled") else None
    bf = rng.standard_normal(nf if k is None else (nf, k))
    xp = rng.standard_normal(n - nf if k is None else (n - nf, k))
    if form == "blkscaled":
        colsc = np.array([1.0, 10.0 ** rng.uniform(-12, -8), 10.0 ** rng.uniform(2, 4)])
        bf, xp = bf * colsc, xp * colsc
    if form != "blkscaled" and rng.random() < 0.3:
        # SI units: a stiff matrix (1e6 ... 1e11 N/m), support displacements of nanometres, loads of the matching size - the
        # prescribed values are small numbers, not zeros
        ka, kx = 10.0 ** rng.uniform(6, 11), 10.0 ** rng.uniform(-11, -8)
        A, xp, bf = A * ka, xp * kx, bf * (ka * kx)
        ctx.count("soe_cases_with_tiny_prescribed_values_on_a_stiff_matrix")
    if cplx_rhs or (cA and rng.random() < 0.5):
        bf = bf + 1j * rng.standard_normal(bf.shape) * float(np.max(np.abs(bf)))
        xp = xp + 1j * rng.standard_normal(xp.shape) * float(np.max(np.abs(xp)))
    # when only one index set is given the module completes the other one as the sorted complement
    if case["part"] == "free":
        p = np.sort(p)
    elif case["part"] == "prescribed":
        f = np.sort(f)
    f2, p2 = f, p
    kw = {"both": dict(free=f, prescribed=p), "free": dict(free=f), "prescribed": dict(prescribed=p)}[case["part"]]
    sA = pym.Signal("A", matgen.to_storage(A, st))
    m = pym.SystemOfEquations([sA, pym.Signal("bf", bf), pym.Signal("xp", xp)], [pym.Signal("x"), pym.Signal("b")], **kw)
    neq = 0
    for rep in range(2):
        with warnings.catch_warnings():
            warnings.simplefilter("ignore")
            m.response()
        x, b = (np.asarray(s.state) for s in m.sig_out)
        want = (n,) if k is None else (n, k)
        require(x.shape == want and b.shape == want, "SystemOfEquations/output-shape", x=list(x.shape), b=list(b.shape))
        xx_, bb_ = x.reshape(n, -1), b.reshape(n, -1)
        scale = np.maximum(np.max(np.abs(bb_), axis=0), np.max(np.abs(A)) * np.max(np.abs(xx_), axis=0))
        e_eq = float(np.max(np.max(np.abs(A @ xx_ - bb_), axis=0) / np.where(scale == 0, 1.0, scale)))      # per load case
        e_xp = float(np.max(np.abs(x[p2] - m.sig_in[2].state)))
        e_bf = float(np.max(np.abs(b[f2] - m.sig_in[1].state)))
        ctx.count("equations_checked", 3)
        neq += 3
        tol = max(1e-9, 1e-13 * cf)
        if e_xp > 0:
            raise Violation("SystemOfEquations/x-differs-from-prescribed-values", err=e_xp)
        if e_bf > 0:
            raise Violation("SystemOfEquations/b-differs-from-applied-loads-on-free-dofs", err=e_bf)
        if not e_eq <= tol:
            raise Violation("SystemOfEquations/Ax-differs-from-b", residual=e_eq, cls=case["cls"], storage=st, part=case["part"],
                            rhs=form, cplx_rhs=bool(np.iscomplexobj(bf)), n=n)
        # second evaluation of the same instance with new loads and a rescaled matrix
        m.sig_in[1].state = m.sig_in[1].state * rng.uniform(0.5, 2) + 0.1
        m.sig_in[2].state = m.sig_in[2].state[::-1].copy()
        A = A * rng.uniform(0.5, 2.0)
        _set_matrix(sA, matgen.to_storage(A, st), rng, ctx)
    return neq, n


def run_sc(case, ctx, rng):
    import pymoto as pym
    A, cond = _matrix(rng, case["cls"], ctx.tier)
    n = A.shape[0]
    if n < 3:
        A, cond = matgen.make(rng, case["cls"] if not case["cls"].startswith("fe") else "spd", 6, cond=100.0), 100.0
        n = 6
    perm = rng.permutation(n)
    if rng.random() < 0.25:
        perm = np.arange(n)[::-1] if rng.random() < 0.5 else np.arange(n)      # contiguous index ranges (main dofs at one end)
    nm = int(rng.integers(1, n - 1))
    npre = 0 if case["part"] == "all" else int(rng.integers(0, n - nm - 1 + 1))
    nfree = n - nm - npre
    if nfree < 1:
        nfree, npre = 1, n - nm - 1
    mi, fi = perm[:nm], perm[nm:nm + nfree]
    cA = np.iscomplexobj(A)
    cf = np.linalg.cond(A[np.ix_(fi, fi)])
    if not np.isfinite(cf) or cf > 1e6:
        A = A + np.diag(np.abs(A).sum(axis=1))
        cf = np.linalg.cond(A[np.ix_(fi, fi)])
    st = case["storage"]
    sA = pym.Signal("A", matgen.to_storage(A, st))
    # dof sets in any index form numpy accepts for the same dofs: arrays, lists, negative indices (counted from the end), sorted ranges
    def form(ix):
        u = rng.random()
        if u < 0.2:
            return np.where(rng.random(ix.size) < 0.5, ix, ix - n) if rng.random() < 0.5 else ix - n
        if u < 0.35:
            return [int(v) for v in ix]
        if u < 0.5:
            return np.sort(ix) - n
        return ix
    mi_arg, fi_arg = form(mi), form(fi)
    if isinstance(mi_arg, np.ndarray) and mi_arg.size and np.all(mi_arg < 0):
        ctx.count("sc_negative_index_sets")
    mi = np.asarray(mi_arg) % n        # the order given is the order of the condensed matrix
    fi = np.asarray(fi_arg) % n
    # keywords are handed on to the inner LinSolve: flags given truthfully for the class of the matrix
    kwf = {}
    if rng.random() < 0.5:
        if case["cls"] in ("hpd", "herm"):
            kwf["hermitian"] = True
        elif case["cls"] in ("spd", "sym", "fe2"):
            kwf[str(rng.choice(["symmetric", "hermitian"]))] = True
        elif case["cls"] == "csym":
            kwf["symmetric"] = True
        if kwf:
            ctx.count("sc_with_truthful_flags")
    m = pym.StaticCondensation(sA, pym.Signal("Ared"), main=mi_arg, free=fi_arg, **kwf)
    with warnings.catch_warnings():
        warnings.simplefilter("ignore")
        m.response()
    Ared = m.sig_out[0].state
    Ad = Ared.toarray() if sps.issparse(Ared) else np.asarray(Ared)
    require(Ad.shape == (nm, nm), "StaticCondensation/output-shape", got=list(Ad.shape))
    Amm, Amf, Afm, Aff = A[np.ix_(mi, mi)], A[np.ix_(mi, fi)], A[np.ix_(fi, mi)], A[np.ix_(fi, fi)]
    S = Amm - Amf @ np.linalg.solve(Aff, Afm)
    tol = max(1e-9, 1e-13 * cf)
    e = relerr(Ad, S)
    ctx.count("equations_checked")
    if not e <= tol * 10:
        raise Violation("StaticCondensation/output-is-not-the-Schur-complement", err=e, cls=case["cls"], storage=st, n=n)
    # behavioural form: the condensed system, used the way the library uses it (LinSolve on the output signal),
    # reproduces the main-dof response of the full system with zero load on the free dofs
    act = np.concatenate([mi, fi])
    bm = rng.standard_normal(nm) + (1j * rng.standard_normal(nm) if cA else 0)
    rhs = np.concatenate([bm, np.zeros(nfree)])
    xfull = np.linalg.solve(A[np.ix_(act, act)], rhs)[:nm]
    ls = pym.LinSolve([m.sig_out[0], pym.Signal("bm", bm)], pym.Signal("xm"))
    with warnings.catch_warnings():
        warnings.simplefilter("ignore")
        ls.response()
    xm = np.asarray(ls.sig_out[0].state)
    cs = np.linalg.cond(S)
    e2 = relerr(xm, xfull)
    ctx.count("equations_checked")
    if not e2 <= max(1e-8, 1e-12 * cs * cf):
        raise Violation("StaticCondensation/condensed-system-does-not-reproduce-main-dof-response", err=e2, cls=case["cls"],
                        storage=st, out_type=type(Ared).__name__)
    return 2, n


def run_case(case, ctx):
    rng = ctx.rng(*[str(v) for v in case.values()])
    fn = {"LinSolve": run_linsolve, "Inverse": run_inverse, "SystemOfEquations": run_soe, "StaticCondensation": run_sc}[case["mod"]]
    neq, n = fn(case, ctx, rng)
    key = "/".join(str(v) for k, v in case.items() if k != "r")
    return {"key": key, "nontrivial": n >= 2 and neq >= 1, "obs": {"n": n, "equations": neq}}
