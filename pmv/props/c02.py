"""C02 — network backpropagation yields the total derivative of any module graph.

Family 'atoms': random DAG programs over small user-defined modules with hand-written adjoints and an
independent forward/JVP pair; signals consumed several times, the same signal twice by one module, basic and
integer-array slices, nested Networks (two levels), random subsets of intermediate/sink signals seeded.
An interpreter written here evaluates the same program in topological order and propagates tangents
(exact forward mode): states must match and sum(w*ydot) must equal sum(g*v).
Family 'fe': library modules wired with fan-out of one assembled matrix into LinSolve + SystemOfEquations +
StaticCondensation (+ filter, SIMP, EinSum) with a dense-numpy reference tangent.
Family 'generic': ConcatSignal/MathGeneral/EinSum/PNorm/complex modules with slices.
Offline checker over the ModuleMonitor event log: sensitivity order = exact reverse of response order, every
module once per Network.sensitivity(); sources without a seeded descendant keep no sensitivity."""
import warnings

import numpy as np

from ..core import Violation, require, relerr
from .. import monitors

ID = "C02"
LEVEL = "exploration"
MONITORS = ["module", "signal", "dyad"]
ANCHORS = ["core_objects.py", "utils.py"]
RULE = ("case = one random program (atoms: 2-12 modules, 1-3 sources) or one library template with random sizes/seeds; 2 directions per "
        "program; distinct = (family, multiset of module kinds, #slices, nesting, #seeded signals); non-trivial = total derivative non-zero")
ASSUMPTIONS = ["total derivative agreement 1e-9 relative for atom programs (exact arithmetic identities), 1e-7 for library templates "
               "(linear solves with cond <= 1e4)",
               "atoms' own adjoints are hand-derived in the harness and are part of the trusted base (they are checked against their JVPs by the same identity)"]
FLOORS = {"quick": {"cases_held": 2500, "programs_with_slices": 500, "programs_nested": 500, "programs_shared_signal": 800,
                    "unseeded_sources_checked": 100, "eventlog_checked": 2500, "fe_templates": 50},
          "thorough": {"cases_held": 80000, "programs_with_slices": 15000, "programs_nested": 15000, "programs_shared_signal": 25000,
                       "unseeded_sources_checked": 3000, "eventlog_checked": 80000, "fe_templates": 1500}}


def plan(tier, seed):
    n = 3000 if tier == "quick" else 100000
    nfe = 120 if tier == "quick" else 4000
    cases = [{"fam": "atoms", "i": i} for i in range(n)]
    cases += [{"fam": "fe", "i": i} for i in range(nfe)]
    cases += [{"fam": "generic", "i": i} for i in range(nfe)]
    return cases


# ------------------------------------------------------------------------------------------------ atoms
def fwd(kind, par, xs):
    if kind == "affine":
        return [par["A"] @ xs[0] + par["b"]]
    if kind == "square":
        return [xs[0] ** 2]
    if kind == "had":
        return [xs[0] * xs[1]]
    if kind == "sumsq":
        return [np.array([np.sum(xs[0] ** 2)])]
    if kind == "split":
        return [par["A"] @ xs[0], np.sin(xs[0])]
    if kind == "add3":
        return [xs[0] + 2 * xs[1] - xs[2]]
    raise ValueError(kind)


def jvp(kind, par, xs, dxs):
    if kind == "affine":
        return [par["A"] @ dxs[0]]
    if kind == "square":
        return [2 * xs[0] * dxs[0]]
    if kind == "had":
        return [dxs[0] * xs[1] + xs[0] * dxs[1]]
    if kind == "sumsq":
        return [np.array([2 * np.sum(xs[0] * dxs[0])])]
    if kind == "split":
        return [par["A"] @ dxs[0], np.cos(xs[0]) * dxs[0]]
    if kind == "add3":
        return [dxs[0] + 2 * dxs[1] - dxs[2]]
    raise ValueError(kind)


def adj(kind, par, xs, dys):
    if kind == "affine":
        return [par["A"].T @ dys[0]]
    if kind == "square":
        return [2 * xs[0] * dys[0]]
    if kind == "had":
        return [dys[0] * xs[1], dys[0] * xs[0]]
    if kind == "sumsq":
        return [2 * xs[0] * dys[0][0]]
    if kind == "split":
        g = np.zeros_like(xs[0])
        if dys[0] is not None:
            g = g + par["A"].T @ dys[0]
        if dys[1] is not None:
            g = g + np.cos(xs[0]) * dys[1]
        return [g]
    if kind == "add3":
        return [dys[0], 2 * dys[0], -dys[0]]
    raise ValueError(kind)


_ATOM = None


def atom_class():
    global _ATOM
    if _ATOM is None:
        import pymoto as pym

        class Atom(pym.Module):
            def _prepare(self, kind, par):
                self.kind, self.par = kind, par

            def _response(self, *xs):
                self.xs = [np.array(x, dtype=float, copy=True) for x in xs]
                out = fwd(self.kind, self.par, self.xs)
                return out if len(out) > 1 else out[0]

            def _sensitivity(self, *dys):
                return adj(self.kind, self.par, self.xs, dys)
        _ATOM = Atom
    return _ATOM


def gen_program(rng):
    nsrc = int(rng.integers(1, 4))
    sizes = [int(rng.integers(2, 6)) for _ in range(nsrc)]
    prog = []
    nslices = 0
    for m in range(int(rng.integers(2, 13))):
        kind = str(rng.choice(["affine", "square", "had", "sumsq", "split", "add3"]))

        def pick(size=None):
            nonlocal nslices
            cands = list(range(len(sizes)))
            rng.shuffle(cands)
            for c in cands:
                if size is None:
                    if rng.random() < 0.3 and sizes[c] >= 3:
                        a = int(rng.integers(0, sizes[c] - 1))
                        b = int(rng.integers(a + 2, sizes[c] + 1))
                        nslices += 1
                        return (c, ("s", a, b)), b - a
                    return (c, None), sizes[c]
                if sizes[c] == size:
                    return (c, None), size
                if sizes[c] > size:
                    nslices += 1
                    if rng.random() < 0.5:
                        a = int(rng.integers(0, sizes[c] - size + 1))
                        return (c, ("s", a, a + size)), size
                    return (c, ("i", [int(k) for k in rng.permutation(sizes[c])[:size]])), size
            return None, None
        if kind in ("affine", "square", "sumsq", "split"):
            i0, n0 = pick()
            ins = [i0]
            if kind == "affine":
                mo = int(rng.integers(1, 5))
                par = dict(A=rng.standard_normal((mo, n0)), b=rng.standard_normal(mo))
                outs = [mo]
            elif kind == "square":
                par, outs = {}, [n0]
            elif kind == "sumsq":
                par, outs = {}, [1]
            else:
                mo = int(rng.integers(2, 4))
                par, outs = dict(A=rng.standard_normal((mo, n0))), [mo, n0]
        elif kind == "had":
            i0, n0 = pick()
            i1, _ = pick(n0) if rng.random() < 0.8 else (i0, n0)
            ins, par, outs = [i0, i1 or i0], {}, [n0]
        else:
            i0, n0 = pick()
            i1, _ = pick(n0)
            i2, _ = pick(n0)
            ins, par, outs = [i0, i1 or i0, i2 or i0], {}, [n0]
        prog.append(dict(kind=kind, par=par, ins=ins, outs=list(range(len(sizes), len(sizes) + len(outs)))))
        sizes += outs
    return dict(nsrc=nsrc, sizes=sizes, prog=prog, nsig=len(sizes), nslices=nslices)


def _sl(spec):
    if spec is None:
        return None
    if spec[0] == "s":
        return slice(spec[1], spec[2])
    return np.array(spec[1])


def _timing(rng):
    """the Network option print_timing (False / True / threshold in seconds) selects a different execution branch"""
    r = rng.random()
    return False if r < 0.6 else (True if r < 0.8 else 10.0)


def build(P, x0, rng):
    import pymoto as pym
    Atom = atom_class()
    sigs = [pym.Signal(f"s{i}") for i in range(P["nsig"])]
    for k in range(P["nsrc"]):
        if rng.random() < 0.3:      # a source with a pre-allocated sensitivity (kept allocation: reset() zeroes it in place)
            sigs[k] = pym.Signal(f"s{k}", sensitivity=np.zeros(P["sizes"][k]))
        sigs[k].state = x0[k].copy()

    def ref(i):
        c, sp = i
        if sp is None:
            return sigs[c]
        if sp[0] == "s" and sp[2] - sp[1] >= 2 and rng.random() < 0.2:     # nested basic slices
            return sigs[c][sp[1]:][: sp[2] - sp[1]]
        return sigs[c][_sl(sp)]
    mods = [Atom([ref(i) for i in node["ins"]], [sigs[o] for o in node["outs"]], node["kind"], node["par"]) for node in P["prog"]]
    nested = 0
    if len(mods) >= 3 and rng.random() < 0.6:
        a = int(rng.integers(0, len(mods) - 1))
        b = int(rng.integers(a + 1, len(mods)))
        inner = pym.Network(*mods[a:b + 1], print_timing=_timing(rng))
        nested = 1
        if rng.random() < 0.4 and b - a >= 1:
            inner = pym.Network(pym.Network(*mods[a:a + 1]), *mods[a + 1:b + 1], print_timing=_timing(rng))
            nested = 2
        net = pym.Network(*mods[:a], inner, *mods[b + 1:], print_timing=_timing(rng))
    else:
        net = pym.Network(*mods, print_timing=_timing(rng))
    return net, sigs, mods, nested


def interp(P, x0, dx0=None):
    vals, tans = [None] * P["nsig"], [None] * P["nsig"]
    for k in range(P["nsrc"]):
        vals[k] = x0[k]
        tans[k] = None if dx0 is None else dx0[k]
    for node in P["prog"]:
        xs = [vals[c] if sp is None else vals[c][_sl(sp)] for c, sp in node["ins"]]
        ys = fwd(node["kind"], node["par"], xs)
        if dx0 is not None:
            dxs = [tans[c] if sp is None else tans[c][_sl(sp)] for c, sp in node["ins"]]
            dys = jvp(node["kind"], node["par"], xs, dxs)
        for j, o in enumerate(node["outs"]):
            vals[o] = ys[j]
            if dx0 is not None:
                tans[o] = dys[j]
    return vals, tans


def check_eventlog(ctx, events, mods):
    """sensitivity order is the exact reverse of the response order; every module exactly once."""
    ids = {id(m) for m in mods}
    resp = [e[1] for e in events if e[0] == "response" and e[1] in ids]
    sens = [e[1] for e in events if e[0] == "sensitivity" and e[1] in ids]
    require(len(resp) == len(mods) and len(set(resp)) == len(mods), "eventlog/response-not-once-per-module", n=len(resp), mods=len(mods))
    require(len(sens) == len(mods), "eventlog/module-backpropagated-not-exactly-once", n=len(sens), mods=len(mods))
    require(sens == resp[::-1], "eventlog/backpropagation-order-not-reverse-of-response-order")
    ctx.count("eventlog_checked")


def run_atoms(case, ctx):
    rng = ctx.rng("atoms", case["i"])
    P = gen_program(rng)
    x0 = [rng.standard_normal(P["sizes"][k]) for k in range(P["nsrc"])]
    net, sigs, mods, nested = build(P, x0, rng)
    if rng.random() < 0.3:
        # an earlier back-propagation at a point where a seed is not finite (e.g. a sqrt at 0 upstream of the network), then reset():
        # nothing of it may survive into the evaluation that is judged
        net.response()
        sigs[P["nsig"] - 1].sensitivity = np.full(P["sizes"][P["nsig"] - 1], np.inf)
        net.sensitivity()
        net.reset()
        ctx.count("programs_after_nonfinite_round")
    monitors.STATE.events = []
    try:
        net.response()
        vals, _ = interp(P, x0)
        for i in range(P["nsig"]):
            e = relerr(sigs[i].state, vals[i])
            require(e <= 1e-12, "forward-state-differs-from-interpreter", signal=i, err=e)
        outs = [i for i in range(P["nsrc"], P["nsig"]) if rng.random() < 0.35] or [P["nsig"] - 1]
        # seeds of any magnitude (an objective in nm, a weight of 1e-10): back-propagation is homogeneous in the seed
        wscale = 10.0 ** rng.uniform(-12, 6) if rng.random() < 0.3 else 1.0
        if wscale != 1.0:
            ctx.count("programs_with_scaled_seeds")
        w = {i: rng.standard_normal(P["sizes"][i]) * wscale for i in outs}
        for i, wi in w.items():
            sigs[i].sensitivity = wi.copy()
        net.sensitivity()
        events = monitors.STATE.events
    finally:
        monitors.STATE.events = None
    check_eventlog(ctx, events, mods)
    g = [sigs[k].sensitivity for k in range(P["nsrc"])]
    # which sources have a seeded descendant?
    reach = {i: (i in w) for i in range(P["nsig"])}
    for node in reversed(P["prog"]):
        if any(reach[o] for o in node["outs"]):
            for c, _sp in node["ins"]:
                reach[c] = True
    for k in range(P["nsrc"]):
        if not reach[k]:
            ctx.count("unseeded_sources_checked")
            require(g[k] is None or not np.any(g[k]), "unseeded-branch-contributes-to-source", source=k)
    worst = 0.0
    tot = 0.0
    for trial in range(2):
        v = [rng.standard_normal(P["sizes"][k]) for k in range(P["nsrc"])]
        _, tans = interp(P, x0, v)
        exact = sum(float(w[i] @ tans[i]) for i in outs)
        an = sum(0.0 if g[k] is None else float(np.asarray(g[k]) @ v[k]) for k in range(P["nsrc"]))
        err = abs(exact - an) / max(wscale, abs(exact), abs(an))
        worst = max(worst, err)
        tot = max(tot, abs(exact) / wscale)
        if not err <= 1e-9:
            raise Violation("total-derivative-mismatch/atoms", exact=exact, backprop=an, err=err,
                            kinds=[n["kind"] for n in P["prog"]], nslices=P["nslices"], nested=nested, seeded=outs)
    net.reset()
    for i, s in enumerate(sigs):
        sv = s.sensitivity
        require(sv is None or not np.any(sv), "reset-leaves-nonzero-sensitivity", signal=i)
    shared = len({c for n in P["prog"] for c, _ in n["ins"]}) < sum(len(n["ins"]) for n in P["prog"])
    if P["nslices"]:
        ctx.count("programs_with_slices")
    if nested:
        ctx.count("programs_nested")
    if shared:
        ctx.count("programs_shared_signal")
    kinds = sorted(n["kind"] for n in P["prog"])
    return {"key": f"atoms/{'-'.join(kinds)}/s{P['nslices']}/n{nested}/w{len(outs)}", "nontrivial": tot > 0,
            "obs": {"modules": len(P["prog"]), "sources": P["nsrc"], "slices": P["nslices"], "nested": nested, "seeded": len(outs), "err": worst}}


# ------------------------------------------------------------------------------------------------ library templates
def run_fe(case, ctx):
    """x -> DensityFilter -> SIMP -> AssembleStiffness(bc) -> {LinSolve -> compliance, SystemOfEquations -> sum, StaticCondensation -> sum}"""
    import pymoto as pym
    rng = ctx.rng("fe", case["i"])
    nx, ny = int(rng.integers(2, 5)), int(rng.integers(2, 4))
    dom = pym.DomainDefinition(nx, ny, unitx=float(rng.uniform(0.5, 2)), unity=float(rng.uniform(0.5, 2)))
    ndof = 2 * dom.nnodes
    bc = (dom.nodes[0, :] * 2 + np.arange(2)[None]).flatten()
    free = np.setdiff1d(np.arange(ndof), bc)
    x0 = rng.uniform(0.3, 1.0, dom.nel)
    f = np.zeros(ndof)
    f[free] = rng.standard_normal(free.size)
    xmin = 1e-3
    # partition for SystemOfEquations: prescribe a few free dofs
    pres = np.sort(rng.choice(free, size=2, replace=False))
    pres_all = np.sort(np.concatenate([bc, pres]))
    fr = np.setdiff1d(np.arange(ndof), pres_all)
    xp = np.zeros(pres_all.size)
    xp[np.isin(pres_all, pres)] = rng.standard_normal(2) * 0.1
    bf = rng.standard_normal(fr.size)
    main = np.sort(rng.choice(free, size=3, replace=False))
    sfree = np.setdiff1d(free, main)

    sx = pym.Signal("x", x0.copy())
    net = pym.Network()
    sxf = net.append(pym.DensityFilter(sx, domain=dom, radius=float(rng.uniform(1.1, 2.5))))
    sE = net.append(pym.MathGeneral(sxf, expression=f"{xmin} + {1 - xmin}*inp0^3"))
    sK = net.append(pym.AssembleStiffness(sE, domain=dom, bc=bc, e_modulus=float(rng.uniform(0.5, 2))))
    su = net.append(pym.LinSolve([sK, pym.Signal("f", f)]))
    sc = net.append(pym.EinSum([su, pym.Signal("f2", f)], expression="i,i->"))
    sxs, sbs = net.append(pym.SystemOfEquations([sK, pym.Signal("bf", bf), pym.Signal("xp", xp)], free=fr, prescribed=pres_all))
    s1 = net.append(pym.EinSum([sxs, sbs], expression="i,i->"))
    sAr = net.append(pym.StaticCondensation(sK, main=main, free=sfree))
    s2 = net.append(pym.EinSum(sAr, expression="ij->"))
    with warnings.catch_warnings():
        warnings.simplefilter("ignore")
        net.response()
        w = rng.standard_normal(3)
        which = [bool(b) for b in rng.integers(0, 2, 3)]
        if not any(which):
            which[0] = True
        for s, wi, on in zip((sc, s1, s2), w, which):
            if on:
                s.sensitivity = float(wi)
        net.sensitivity()
    g = sx.sensitivity
    require(g is not None and np.shape(g) == x0.shape, "fe/no-sensitivity-on-source")
    # ---- dense reference (forward mode)
    H = net.mods[0].H.toarray() / np.asarray(net.mods[0].Hs)          # the filter is linear; its matrix is judged by C09
    asm = net.mods[2]

    def Kof(E):
        m = pym.AssembleStiffness(pym.Signal("E", E), domain=dom, bc=bc, e_modulus=asm.E)
        m.response()
        return m.sig_out[0].state.toarray()
    worst = 0.0
    for trial in range(2):
        v = rng.standard_normal(dom.nel)
        xf = H @ x0
        dxf = H @ v
        E = xmin + (1 - xmin) * xf ** 3
        dE = 3 * (1 - xmin) * xf ** 2 * dxf
        K = Kof(E)
        dK = Kof(E + dE) - K          # affine in E (bc diagonal cancels)
        ref = 0.0
        if which[0]:
            u = np.linalg.solve(K, f)
            du = -np.linalg.solve(K, dK @ u)
            ref += w[0] * float(f @ du)
        if which[1]:
            Kff, Kfp, Kpf, Kpp = K[np.ix_(fr, fr)], K[np.ix_(fr, pres_all)], K[np.ix_(pres_all, fr)], K[np.ix_(pres_all, pres_all)]
            xf_ = np.linalg.solve(Kff, bf - Kfp @ xp)
            dxf_ = np.linalg.solve(Kff, -dK[np.ix_(fr, pres_all)] @ xp - dK[np.ix_(fr, fr)] @ xf_)
            bp = Kpf @ xf_ + Kpp @ xp
            dbp = dK[np.ix_(pres_all, fr)] @ xf_ + Kpf @ dxf_ + dK[np.ix_(pres_all, pres_all)] @ xp
            # d/dt (x.b) = dxf.bf + dxp.bp + xp.dbp  (bf, xp constant)
            ref += w[1] * float(dxf_ @ bf + xp @ dbp)
        if which[2]:
            Kss = K[np.ix_(sfree, sfree)]
            X = np.linalg.solve(Kss, K[np.ix_(sfree, main)])
            dX = np.linalg.solve(Kss, dK[np.ix_(sfree, main)] - dK[np.ix_(sfree, sfree)] @ X)
            dS = dK[np.ix_(main, main)] - dK[np.ix_(main, sfree)] @ X - K[np.ix_(main, sfree)] @ dX
            ref += w[2] * float(np.sum(dS))
        an = float(np.asarray(g) @ v)
        err = abs(an - ref) / max(abs(an), abs(ref), 1e-12)
        worst = max(worst, err)
        if not err <= 1e-7:
            raise Violation("total-derivative-mismatch/fe-fan-out", backprop=an, exact=ref, err=err, seeded=which)
    ctx.count("fe_templates")
    net.reset()
    for m in net.mods:
        for s in list(m.sig_in) + list(m.sig_out):
            sv = s.sensitivity
            require(sv is None or not np.any(np.asarray(sv.todense() if hasattr(sv, "todense") else sv)), "reset-leaves-nonzero-sensitivity")
    return {"key": f"fe/{nx}x{ny}/{''.join(str(int(b)) for b in which)}", "nontrivial": True, "obs": {"err": worst, "nel": dom.nel, "seeded": which}}


def run_generic(case, ctx):
    """a, b -> MakeComplex -> z ; Concat(a[1:], c, z-real) ; MathGeneral ; EinSum ; PNorm ; Scaling(max)  (with slices and re-use)"""
    import pymoto as pym
    rng = ctx.rng("generic", case["i"])
    n = int(rng.integers(3, 7))
    a0, b0, c0 = rng.uniform(0.5, 2, n), rng.uniform(0.5, 2, n), float(rng.uniform(0.5, 2))
    sa, sb, scs = pym.Signal("a", a0.copy()), pym.Signal("b", b0.copy()), pym.Signal("c", c0)
    d0 = rng.uniform(0.5, 2, (2, 3))
    sd = pym.Signal("d", np.asfortranarray(d0) if rng.random() < 0.5 else np.ascontiguousarray(d0.T).T)     # column-major 2-D source
    net = pym.Network()
    sz = net.append(pym.MakeComplex([sa, sb]))
    sabs = net.append(pym.ComplexNorm(sz))                       # |a+ib|
    sre = net.append(pym.RealPart(sz))                            # a
    scat = net.append(pym.ConcatSignal([sa[1:], scs, sabs, sd]))  # length (n-1)+1+n+6 (2-D input flattened row-major)
    sm = net.append(pym.MathGeneral([scat, scs], expression="sin(inp0)*inp1 + inp0^2"))
    sdot = net.append(pym.EinSum([sm[: n], sre], expression="i,i->"))
    p = float(rng.uniform(2, 8))
    spn = net.append(pym.PNorm(sm, p=p))
    ssc = net.append(pym.Scaling(spn, scaling=10.0, maxval=float(rng.uniform(1, 4))))
    maxval = net.mods[-1].maxval
    # one signal used twice by one module, in positions that are not interchangeable: b^T E b and E E with a non-symmetric E
    e0, W0 = rng.uniform(-1, 1, (n, n)), rng.uniform(-1, 1, (n, n))
    se, sW = pym.Signal("e", e0.copy()), pym.Signal("W", W0.copy())
    sq = net.append(pym.EinSum([sb, se, sb], expression="i,ij,j->"))
    see = net.append(pym.EinSum([se, se], expression="ij,jk->ik"))
    sww = net.append(pym.EinSum([see, sW], expression="ij,ij->"))
    # a 2-D source consumed through a slice that mixes a basic slice with an index list (numpy hands out a copy for it)
    Wd0 = rng.uniform(-1, 1, (2, 2))
    cols = [0, 2] if rng.random() < 0.5 else [2, 1]
    ssl = net.append(pym.EinSum([sd[:, cols], pym.Signal("Wd", Wd0.copy())], expression="ij,ij->"))
    # a *scalar* complex intermediate signal with two consumers; the one that is back-propagated first (appended last) contributes a
    # real-typed sensitivity, the other a complex one
    ds0 = float(rng.uniform(0.5, 2))
    sds = pym.Signal("ds", ds0)
    szs = net.append(pym.MakeComplex([scs, sds]))
    sab = net.append(pym.ComplexNorm(szs))
    if "ReScale" not in _USER:
        class PmvReScale(pym.Module):
            """user module y = 2.5 Re(z); its sensitivity is real-typed although z is complex (a Python float)"""

            def _response(self, z):
                return 2.5 * float(np.real(z))

            def _sensitivity(self, dy):
                return 2.5 * float(np.real(dy))
        _USER["ReScale"] = PmvReScale
    srp = net.append(_USER["ReScale"](szs))
    with warnings.catch_warnings():
        warnings.simplefilter("ignore")
        net.response()
    w = rng.standard_normal(7)
    which = [bool(rng.integers(0, 2)) for _ in range(7)]
    if not any(which):
        which[1] = True
    if which[0]:
        sdot.sensitivity = float(w[0])
    if which[1]:
        ssc.sensitivity = float(w[1])
    if which[2]:
        sq.sensitivity = float(w[2])
    if which[3]:
        sww.sensitivity = float(w[3])
    if which[4]:
        ssl.sensitivity = float(w[4])
    if which[5]:
        sab.sensitivity = float(w[5])
    if which[6]:
        srp.sensitivity = float(w[6])
    net.sensitivity()
    ga, gb, gc, gd, ge = sa.sensitivity, sb.sensitivity, scs.sensitivity, sd.sensitivity, se.sensitivity
    gds = sds.sensitivity

    def F(a, b, c):
        z = a + 1j * b
        cat = np.concatenate([a[1:], [c], np.abs(z)])
        m = np.sin(cat) * c + cat ** 2
        dot = np.sum(m[:n] * a)
        pn = np.sum(np.abs(m) ** p) ** (1 / p)
        sc_ = 10.0 * (pn / maxval - 1)
        return (w[0] * dot if which[0] else 0.0) + (w[1] * sc_ if which[1] else 0.0)
    worst = 0.0
    for trial in range(2):
        va, vb, vc = rng.standard_normal(n), rng.standard_normal(n), float(rng.standard_normal())
        h = 1e-30      # complex-step on my own forward model is exact for these analytic real functions ... except |z|: use real formula
        # |a+ib| is not complex-analytic in (a,b): write it as sqrt(a^2+b^2), which is
        def Fcs(a, b, c, d, e, ds):
            cat = np.concatenate([a[1:], [c], np.sqrt(a * a + b * b), d.ravel()])
            m = np.sin(cat) * c + cat ** 2
            dot = np.sum(m[:n] * a)
            pn = np.sum(m ** p) ** (1 / p)
            sc_ = 10.0 * (pn / maxval - 1)
            return (w[0] * dot if which[0] else 0.0) + (w[1] * sc_ if which[1] else 0.0) + \
                (w[2] * (b @ e @ b) if which[2] else 0.0) + (w[3] * np.sum(W0 * (e @ e)) if which[3] else 0.0) + \
                (w[4] * np.sum(Wd0 * d[:, cols]) if which[4] else 0.0) + \
                (w[5] * np.sqrt(c * c + ds * ds) if which[5] else 0.0) + (w[6] * 2.5 * c if which[6] else 0.0)
        vd = rng.standard_normal((2, 3))
        ve = rng.standard_normal((n, n))
        vds = float(rng.standard_normal())
        ref = float(np.imag(Fcs(a0 + 1j * h * va, b0 + 1j * h * vb, c0 + 1j * h * vc, d0 + 1j * h * vd, e0 + 1j * h * ve, ds0 + 1j * h * vds)) / h)
        an = float(np.sum((0 if ga is None else ga) * va) + np.sum((0 if gb is None else gb) * vb) + (0 if gc is None else gc) * vc
                   + np.sum((0 if gd is None else np.asarray(gd)) * vd) + np.sum((0 if ge is None else np.asarray(ge)) * ve)
                   + float(np.real(0 if gds is None else gds)) * vds)
        err = abs(an - ref) / max(abs(an), abs(ref), 1e-12)
        worst = max(worst, err)
        if not err <= 1e-9:
            raise Violation("total-derivative-mismatch/generic-template", backprop=an, exact=ref, err=err, seeded=which)
    return {"key": f"generic/{n}/{which}", "nontrivial": True, "obs": {"err": worst}}


_USER = {}


def run_case(case, ctx):
    return {"atoms": run_atoms, "fe": run_fe, "generic": run_generic}[case["fam"]](case, ctx)
