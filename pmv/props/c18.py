"""C18 — signals and slices alias state, isolate accumulations and reset cleanly.

Workload: histories of state/sensitivity assignments, add_sensitivity, reset(keep_alloc) and
slicing operations executed on real pymoto.Signal / SignalSlice objects.  Oracle: a plain numpy
shadow model written here (flat arrays + explicit position sets: every index expression is
translated into the set of flat positions it denotes, so "exactly those entries and nothing else"
is decided entry by entry), compared with *everything* every signal of the history holds after
every single operation.  Aliasing is decided observably: the argument is poisoned after the call
(and a second signal that received the same object is accumulated into), and nothing any signal
holds may move; the `signal` monitor (np.shares_memory on every base add_sensitivity) runs on top.

Families
  enum    every sequence of L operations from a 15-letter alphabet on a tiny 2-signal world
          (exhaustive: all interleavings of add / slice add / fancy add / nested add / three resets /
          slice reset / whole, slice and nested assignments / pass-through / shared object), 8 world variants
  rand    random histories (10–60 operations) on 1–3 signals of rank 1–4 (thorough: 1–5), real/complex, with and
          without pre-allocated sensitivity, all index kinds, hostile argument kinds
  scalar  signals holding Python / numpy scalars and 0-d arrays (whole-signal operations)
  kinds   aliasing clause on the non-array values pyMOTO itself passes around (DyadCarrier, sparse)
"""
import itertools

import numpy as np

from ..core import Violation

ID = "C18"
LEVEL = "exploration"
MONITORS = ["signal"]
ANCHORS = ["core_objects.py"]
RULE = ("enum: one case = (world variant, first operation[, second operation]) running every completion to length "
        "L (quick 3, thorough 4) over the 15-operation alphabet — exhaustive; rand: one case = 6 random histories of "
        "10–60 operations (seeded by VERIF_SEED) on 1–3 signals of one shape/dtype; scalar/kinds: random histories on "
        "scalar-valued signals / DyadCarrier+sparse values. distinct = family × rank × dtype × number of signals × "
        "pre-allocation pattern (enum: variant × prefix); non-trivial = at least one slice accumulation, one reset and "
        "one aliasing probe were judged in the case")
EXHAUSTIVE = {"quick": False, "thorough": False}
ASSUMPTIONS = [
    "states are finite float64/complex128 numbers, bases have no zero-length axis. pyMOTO creates the zero sensitivity "
    "as state*0, so integer states (DESIGN: outside the convention) and states containing inf/nan (the created "
    "'zero' is nan there: Signal('x', [1, inf, 2])[0:1].add_sensitivity([2.]) -> [2, nan, 0]) are not generated",
    "contributions to a real signal are real, to a complex signal complex (real contributions to a complex signal only "
    "once a complex sensitivity exists or through a slice, where numpy's += keeps the complex array)",
    "slicing is exercised on arrays of rank>=1 (basic slices incl. negative/None bounds, negative steps and empty "
    "ranges, tuples of slices also mixed with integers and Ellipsis, integer, Ellipsis, 1-D/2-D integer arrays without "
    "repeats incl. negative entries, nested basic slices of depth 2-3); signals holding Python/numpy scalars or 0-d "
    "arrays get whole-signal operations only (Ellipsis/() on a 0-d array is not a slice in the sense of the quantifier; "
    "observed and not generated: Signal('x', np.array(3.0))[...].add_sensitivity(2.0) raises TypeError when no "
    "sensitivity exists, because np.array(3.0)*0 is an immutable numpy scalar)",
    "integer arrays index axis 0 and are only used un-nested (a nested fancy index reads a copy by numpy semantics)",
    "add_sensitivity(x) with the same shape as the target; scalar broadcasting only for state/sensitivity assignment "
    "through a slice (numpy assignment semantics)",
    "values: the model performs the same IEEE additions in the same order, so equality is expected bit for bit; "
    "accepted deviation 1e-12*(1+M), M = largest magnitude of any contribution or model sensitivity entry in the "
    "history, which admits any other summation order of the <=61 terms per entry ((n-1)*eps*sum|x_i| <= "
    "60*1.1e-16*61*M = 4e-13*M); states and the zeros after reset are compared exactly",
    "'zeroed in place' = an outside holder of the sensitivity array reads zeros after reset and the signal still "
    "holds that memory (np.shares_memory); for immutable scalar sensitivities only the value 0 is required",
    "whole-signal `sig.sensitivity = v` / `sig.state = v` are plain assignments (may alias v; not part of the "
    "statement) — the driver hands over private copies",
]
FLOORS = {
    # about half of what the unchanged tree reaches (minimum over VERIF_SEED 0,1,2,3,17,12345)
    "quick": {"cases_held": 412, "distinct_nontrivial": 115, "histories": 15000, "operations": 105000,
              "world_comparisons": 240000, "entries_compared": 16_000_000, "alias_probes": 43000,
              "shared_adds": 9500, "slice_adds": 20000, "slice_reads": 239000, "resets_in_place": 5800,
              "resets_clear": 8700, "slice_resets": 7100, "scalar_histories": 288, "value_histories": 48,
              "mon_add_sensitivity": 34000},
    "thorough": {"cases_held": 4500, "distinct_nontrivial": 975, "histories": 226000, "operations": 1_490_000,
                 "world_comparisons": 3_100_000, "entries_compared": 400_000_000, "alias_probes": 600000,
                 "shared_adds": 125000, "slice_adds": 290000, "slice_reads": 2_600_000, "resets_in_place": 91000,
                 "resets_clear": 137000, "slice_resets": 92000, "scalar_histories": 3840, "value_histories": 480,
                 "mon_add_sensitivity": 490000},
}
TIMEOUT_CASE = 300
UNREACHABLE = [
    "Signal/SignalSlice.add_sensitivity branch for sensitivity objects that define their own add_sensitivity() "
    "(user-defined types; aliasing there is the type's business)",
    "Signal.reset fallback '*= 0' + warning path for sensitivity types without item assignment other than Python/numpy "
    "scalars; the error-decoration branches of the SignalSlice getters/setters (only reached with inadmissible indices)",
]

ALPHABET = ["A", "S", "F", "N", "R", "RT", "RF", "RS", "W", "WS", "X", "XN", "XW", "P", "D"]
ENUM_VARIANTS = [(sh, c, p) for sh in ((3,), (2, 3)) for c in (0, 1) for p in (0, 1)]
RAND_PER_CASE = 6
SCALAR_KINDS = ["pyfloat", "pycomplex", "npfloat", "npcomplex", "0dreal", "0dcomplex"]
VALUE_KINDS = ["dyad", "dyadc", "csr", "csc", "coo"]


# =========================================================================== plan
def plan(tier, seed):
    cases = []
    if tier == "quick":
        for vi in range(len(ENUM_VARIANTS)):
            for a in range(len(ALPHABET)):
                cases.append({"fam": "enum", "var": vi, "prefix": [a], "L": 3})
        nrand, nscal, nkind = 640, 48, 16
    else:
        for vi in range(len(ENUM_VARIANTS)):
            for a in range(len(ALPHABET)):
                for b in range(len(ALPHABET)):
                    cases.append({"fam": "enum", "var": vi, "prefix": [a, b], "L": 4})
        nrand, nscal, nkind = 6400, 640, 160
    # families stay contiguous: case t goes to shard t % nshards, so every shard gets the same share (+-1) of each
    cases += [{"fam": "rand", "k": i, "n": RAND_PER_CASE} for i in range(nrand)]
    cases += [{"fam": "scalar", "k": i, "n": 12} for i in range(nscal)]
    cases += [{"fam": "kinds", "k": i, "n": 6} for i in range(nkind)]
    # long index arrays (thousands of dofs) that differ only in their interior (all dofs / all dofs but some / all but others)
    cases += [{"fam": "longindex", "k": i} for i in range(4 if tier == "quick" else 40)]
    return cases


# =========================================================================== index expressions
class _Idx:
    """An index expression: kind + chain of subscripts (length>1 = nested slicing)."""

    def __init__(self, kind, chain):
        self.kind, self.chain = kind, list(chain)

    def positions(self, pos):
        p = pos
        for i in self.chain:
            p = p[i]
        return np.asarray(p)

    def apply(self, sig):
        s = sig
        for i in self.chain:
            s = s[i]
        return s

    def __repr__(self):
        def f(i):
            if isinstance(i, np.ndarray):
                return f"array({i.tolist()},{i.dtype})"
            return repr(i)
        return self.kind + ":" + "".join(f"[{f(i)}]" for i in self.chain)


def _rand_slice(rng, n, allow_empty=True):
    if rng.random() < 0.08:
        return slice(None)
    a = int(rng.integers(0, n))
    b = int(rng.integers(a + 1, n + 1))
    step = int(rng.choice([1, 1, 1, 2, 3]))
    if allow_empty and rng.random() < 0.05:
        b = a
    if b > a and rng.random() < 0.2:
        # negative step: b-1, b-1-step, ... >= a
        stop = a - 1 if a > 0 else None
        if stop is not None and rng.random() < 0.3:
            stop -= n
        return slice(b - 1, stop, -step)
    start, stop, st = a, b, step
    if a == 0 and rng.random() < 0.5:
        start = None
    elif rng.random() < 0.25:
        start = a - n
    if b == n and rng.random() < 0.5:
        stop = None
    elif b == n and rng.random() < 0.5:
        stop = n + int(rng.integers(1, 7))       # a stop beyond the extent is clipped by numpy (matters for nested slices)
    elif b < n and rng.random() < 0.25:
        stop = b - n
    if step == 1 and rng.random() < 0.5:
        st = None
    return slice(start, stop, st)


def _rand_int(rng, n):
    i = int(rng.integers(0, n))
    return i - n if rng.random() < 0.3 else i


def _rand_tuple(rng, shape, allow_empty=True, ints=True):
    m = int(rng.integers(1, len(shape) + 1))
    t = []
    for n in shape[:m]:
        if ints and rng.random() < 0.2:
            t.append(_rand_int(rng, n))
        else:
            t.append(_rand_slice(rng, n, allow_empty))
    if ints and len(shape) >= 2 and rng.random() < 0.2:
        # one axis selected by an integer array or list (distinct entries), the others by slices / ints / Ellipsis: numpy returns a
        # copy for such an index, whatever its position
        a = int(rng.integers(0, len(t)))
        n = shape[a]
        if n >= 1:
            sel = rng.permutation(n)[: int(rng.integers(1, n + 1))]
            sel = np.where(rng.random(sel.size) < 0.25, sel - n, sel)
            t[a] = [int(v) for v in sel] if rng.random() < 0.4 else sel.astype(np.intp)
            if a == len(t) - 1 and len(t) == len(shape) and rng.random() < 0.3:
                t = [Ellipsis, t[a]]
            return tuple(t)
    if ints and len(shape) >= 2 and rng.random() < 0.15:
        # Ellipsis form: index the trailing axes
        m = int(rng.integers(1, len(shape)))
        t = [Ellipsis] + [_rand_slice(rng, n, allow_empty) for n in shape[len(shape) - m:]]
    return tuple(t)


def _rand_intarr(rng, n):
    k = int(rng.integers(1, n + 1))
    if rng.random() < 0.04:
        k = 0
    a = rng.permutation(n)[:k].astype(rng.choice([np.int64, np.int32, np.intp]))
    neg = rng.random(k) < 0.25
    a = np.where(neg, a - n, a).astype(a.dtype)
    if k >= 2 and k % 2 == 0 and rng.random() < 0.2:
        a = a.reshape(2, k // 2)
    return a


def _rand_index(rng, shape, kinds=None):
    kinds = kinds or ["slice", "slice", "tuple", "tuple", "intarr", "intarr", "int", "ellipsis", "nested", "nested"]
    kind = str(rng.choice(kinds))
    if kind == "slice":
        return _Idx(kind, [_rand_slice(rng, shape[0])])
    if kind == "tuple":
        return _Idx(kind, [_rand_tuple(rng, shape)])
    if kind == "intarr":
        return _Idx(kind, [_rand_intarr(rng, shape[0])])
    if kind == "int":
        return _Idx(kind, [_rand_int(rng, shape[0])])
    if kind == "ellipsis":
        return _Idx(kind, [Ellipsis])
    # nested basic slices, depth 2..3; intermediate levels keep every axis and are never empty
    depth = int(rng.integers(2, 4))
    chain, sh = [], tuple(shape)
    for lev in range(depth):
        last = lev == depth - 1
        if rng.random() < 0.5:
            i = _rand_slice(rng, sh[0], allow_empty=last)
        else:
            i = _rand_tuple(rng, sh, allow_empty=last, ints=False)
        chain.append(i)
        sh = np.empty(sh, dtype=bool)[i].shape
    return _Idx("nested", chain)


# =========================================================================== arguments
class _Arg:
    """A value handed to add_sensitivity: the object passed, a private copy of its value and a
    way to change the object's memory afterwards (None for immutable Python/numpy scalars)."""

    def __init__(self, obj, value, poison, kind):
        self.obj, self.value, self.poison, self.kind = obj, value, poison, kind


def _rnd(rng, shape, cplx, scale=1.0):
    a = rng.standard_normal(shape)
    if cplx:
        a = a + 1j * rng.standard_normal(shape)
    return a * scale


def _make_arg(rng, shape, cplx, kinds=None):
    shape = tuple(shape)
    scale = float(rng.choice([1.0, 1.0, 10.0, 0.1]))
    if len(shape) == 0:
        kind = str(rng.choice(kinds or ["py", "np", "0d", "0d"]))
        v = _rnd(rng, (), cplx, scale)
        val = np.array(v)
        if kind == "py":
            return _Arg(complex(val) if cplx else float(val), val.copy(), None, kind)
        if kind == "np":
            return _Arg(val[()], val.copy(), None, kind)
        obj = val.copy()

        def poison0(o=obj):
            o[...] = np.nan
        return _Arg(obj, val.copy(), poison0, kind)
    kind = str(rng.choice(kinds or ["plain", "plain", "plain", "view", "fortran", "readonly", "broadcast"]))
    if kind == "broadcast" and (len(shape) < 1 or shape[0] < 1):
        kind = "plain"
    if kind == "view":
        big = _rnd(rng, shape[:-1] + (2 * shape[-1] + 1,), cplx, scale)
        obj = big[..., 1::2][..., :shape[-1]]
        val = np.array(obj, copy=True)

        def poison(o=big):
            o[...] = np.nan
        return _Arg(obj, val, poison, kind)
    if kind == "broadcast":
        row = np.array(_rnd(rng, shape[1:], cplx, scale))
        obj = np.broadcast_to(row, shape)
        val = np.array(obj, copy=True)

        def poison(o=row):
            o[...] = np.nan
        return _Arg(obj, val, poison, kind)
    val = _rnd(rng, shape, cplx, scale)
    if kind == "fortran":
        obj = np.asfortranarray(val.copy())
    else:
        obj = val.copy()
    if kind == "readonly":
        obj.setflags(write=False)

        def poison(o=obj):
            o.setflags(write=True)
            o[...] = np.nan
        return _Arg(obj, val, poison, kind)

    def poison(o=obj):
        o[...] = np.nan
    return _Arg(obj, val, poison, kind)


# =========================================================================== comparison
def _differs(actual, model, tol):
    """None if `actual` equals the model array within tol, else (symptom, positions, info)."""
    if actual is None:
        return ("missing", None, {})
    try:
        a = np.asarray(actual)
    except Exception as e:  # noqa: BLE001
        return ("not-an-array", None, {"type": type(actual).__name__, "error": str(e)[:80]})
    if a.dtype == object:
        return ("not-an-array", None, {"type": type(actual).__name__})
    if a.shape != model.shape:
        return ("shape", None, {"got_shape": list(a.shape), "want_shape": list(model.shape)})
    if a.size == 0:
        return None
    if tol == 0:
        ok = a == model
    else:
        ok = np.abs(a - model) <= tol
    if np.all(ok):
        return None
    bad = np.flatnonzero(~np.asarray(ok).reshape(-1))
    return ("values", bad, {"got": a.reshape(-1)[bad[:6]], "want": model.reshape(-1)[bad[:6]]})


_READ_SYM = {"values": "differs-from-the-base-entries", "shape": "shape", "missing": "missing",
             "not-an-array": "not-an-array"}


class _World:
    """1..3 base signals of one shape/dtype together with their numpy shadow model."""

    def __init__(self, pym, rng, ctx, shape, cplx, pre, prefill=False):
        self.pym, self.rng, self.ctx = pym, rng, ctx
        self.shape = tuple(int(n) for n in shape)
        self.size = int(np.prod(self.shape)) if self.shape else 1
        self.cplx = bool(cplx)
        self.dtype = np.complex128 if cplx else np.float64
        self.pos = np.arange(self.size).reshape(self.shape)
        self.K = len(pre)
        self.pre = [bool(p) for p in pre]
        self.sigs, self.mstate, self.msens = [], [], []
        self.mag = 1.0
        self.trace = []
        self.flags = set()
        for k in range(self.K):
            st = self.rnd(self.shape)
            if self.pre[k]:
                s0 = self.rnd(self.shape) if prefill else np.zeros(self.shape, dtype=self.dtype)
                sig = pym.Signal(f"s{k}", st.copy(), sensitivity=s0.copy())
                self.msens.append(s0.reshape(-1).copy())
            else:
                sig = pym.Signal(f"s{k}", st.copy())
                self.msens.append(None)
            self.sigs.append(sig)
            self.mstate.append(st.reshape(-1).copy())
        self.persistent = []     # (k, _Idx, SignalSlice) created before the history starts

    # ----------------------------------------------------------------- helpers
    def rnd(self, shape):
        a = _rnd(self.rng, shape, self.cplx, float(self.rng.choice([1.0, 1.0, 10.0, 0.1])))
        self.note(a)
        return a

    def note(self, a):
        a = np.asarray(a)
        if a.size:
            self.mag = max(self.mag, float(np.max(np.abs(a))))

    def arg(self, shape, kinds=None, real=False):
        a = _make_arg(self.rng, shape, self.cplx and not real, kinds)
        self.note(a.value)
        return a

    def tol(self):
        return 1e-12 * (1.0 + self.mag)

    def add_persistent(self, k, idx):
        sl = idx.apply(self.sigs[k])
        self.persistent.append((k, idx, sl))
        return sl

    def log(self, s):
        self.trace.append(s)
        self.ctx.count("operations")
        self.ctx.log(f"op {len(self.trace):3d}: {s}")

    def fail(self, mech, **detail):
        raise Violation(mech, step=len(self.trace), ops=self.trace[-8:], shape=list(self.shape),
                        complex=self.cplx, prealloc=self.pre, **detail)

    def model_sens_zero(self, k):
        if self.msens[k] is None:
            self.msens[k] = np.zeros(self.size, dtype=self.dtype)

    # ----------------------------------------------------------------- the oracle
    def check(self, op, st_targets=None, se_targets=None, idx=None):
        """Compare everything every signal holds with the model. `st_targets`/`se_targets`:
        {signal: flat positions the operation was entitled to change}."""
        st_targets = st_targets or {}
        se_targets = se_targets or {}
        tol = self.tol()
        n = 0
        for k, sig in enumerate(self.sigs):
            for field, actual, model, targets, t in (
                    ("state", sig.state, self.mstate[k], st_targets, 0.0),
                    ("sensitivity", sig.sensitivity, self.msens[k], se_targets, tol)):
                if model is None:
                    if actual is not None:
                        self.fail(f"{op}/{field}-present-where-none-expected", signal=k, index=repr(idx),
                                  got=np.asarray(actual))
                    continue
                if field == "sensitivity" and model.size:
                    self.mag = max(self.mag, float(np.max(np.abs(model))))
                    t = self.tol()
                d = _differs(actual, model.reshape(self.shape), t)
                n += model.size
                if d is None:
                    continue
                sym, bad, info = d
                if sym != "values":
                    self.fail(f"{op}/{field}-{sym}", signal=k, index=repr(idx), **info)
                if k in targets:
                    tp = np.asarray(targets[k]).reshape(-1)
                    inside = np.isin(bad, tp)
                    if np.all(inside):
                        where = "wrong-in-target-entries"
                    elif not np.any(inside):
                        where = "changed-outside-target-entries"
                    else:
                        where = "wrong-inside-and-outside-target-entries"
                elif targets:
                    where = "changed-in-untouched-signal"
                elif st_targets or se_targets:
                    where = "changed-by-a-%s-operation" % ("sensitivity" if field == "state" else "state")
                else:
                    where = "changed"
                self.fail(f"{op}/{field}-{where}", signal=k, index=repr(idx), positions=bad[:10],
                          target=None if k not in targets else np.asarray(targets[k]).reshape(-1)[:12], **info)
        self.ctx.count("entries_compared", n)
        self.ctx.count("world_comparisons")

    def read_slices(self, extra=1):
        """Clause 'a sliced signal reads the corresponding entries': persistent slice objects
        (created before the history) and fresh random ones."""
        todo = list(self.persistent)
        if self.shape:
            for _ in range(extra):
                k = int(self.rng.integers(0, self.K))
                idx = _rand_index(self.rng, self.shape)
                todo.append((k, idx, idx.apply(self.sigs[k])))
        tol = self.tol()
        for k, idx, sl in todo:
            P = idx.positions(self.pos)
            d = _differs(sl.state, self.mstate[k][P], 0.0)
            if d is not None:
                self.fail(f"slice-read/state-{_READ_SYM[d[0]]}", signal=k, index=repr(idx), **d[2])
            got = sl.sensitivity
            if self.msens[k] is None:
                if got is not None:
                    self.fail("slice-read/sensitivity-present-where-none-expected", signal=k, index=repr(idx))
            else:
                d = _differs(got, self.msens[k][P], tol)
                if d is not None:
                    self.fail(f"slice-read/sensitivity-{_READ_SYM[d[0]]}", signal=k, index=repr(idx), **d[2])
            self.ctx.count("slice_reads")
            self.ctx.count("entries_compared", 2 * P.size)
        # reading changes nothing
        self.check("slice-read")

    # ----------------------------------------------------------------- operations
    def _opname(self, base, idx):
        if idx is None:
            return base
        return ("nested-slice-" if idx.kind == "nested" else "slice-") + base

    def _target(self, k, idx, sl=None):
        """(signal object to call, positions)"""
        if idx is None:
            return self.sigs[k], self.pos.reshape(-1)
        return (sl if sl is not None else idx.apply(self.sigs[k])), idx.positions(self.pos)

    def op_add(self, k, idx=None, sl=None, arg=None, probe=True):
        tgt, P = self._target(k, idx, sl)
        # a real contribution to a complex sensitivity that already exists (or is created from the state)
        real = self.cplx and (idx is not None or self.msens[k] is not None) and self.rng.random() < 0.15
        a = arg or self.arg(P.shape if idx is not None else self.shape, real=real)
        op = self._opname("add", idx)
        self.log(f"{op} s{k} {idx!r} arg={a.kind} real={real}")
        tgt.add_sensitivity(a.obj)
        if idx is None:
            if self.msens[k] is None:
                self.msens[k] = np.array(a.value, dtype=self.dtype).reshape(-1).copy()
            else:
                self.msens[k] = self.msens[k] + a.value.reshape(-1)
        else:
            self.model_sens_zero(k)
            self.msens[k][P.reshape(-1)] += a.value.reshape(-1)
            self.ctx.count("slice_adds")
            self.flags.add("slice_add")
        self.check(op, se_targets={k: P}, idx=idx)
        # the argument itself was not consumed/modified in a way that a second receiver would notice
        if probe and a.poison is not None:
            a.poison()
            self.check(op + "/after-mutating-the-argument", se_targets={}, idx=idx)
            self.ctx.count("alias_probes")
            self.flags.add("alias")

    def op_state_whole(self, k):
        v = self.rnd(self.shape)
        self.log(f"state-assign s{k}")
        self.sigs[k].state = v.copy()
        self.mstate[k] = v.reshape(-1).copy()
        self.check("state-assign", st_targets={k: self.pos})

    def op_state_slice(self, k, idx, sl=None, iadd=False):
        tgt, P = self._target(k, idx, sl)
        scalar = (not iadd) and self.rng.random() < 0.2
        v = self.rnd(()) if scalar else self.rnd(P.shape)
        op = self._opname("state-iadd" if iadd else "state-assign", idx)
        self.log(f"{op} s{k} {idx!r} scalar={scalar}")
        if iadd:
            tgt.state += (v.copy() if np.ndim(v) else v[()])
            self.mstate[k][P.reshape(-1)] += np.asarray(v).reshape(-1)
            self.note(self.mstate[k])
        else:
            tgt.state = v.copy() if np.ndim(v) else v[()]
            self.mstate[k][P.reshape(-1)] = v if scalar else v.reshape(-1)
        self.check(op, st_targets={k: P}, idx=idx)

    def op_sens_whole(self, k, none=False):
        self.log(f"sensitivity-assign s{k} none={none}")
        if none:
            self.sigs[k].sensitivity = None
            self.msens[k] = None
        else:
            v = self.rnd(self.shape)
            self.sigs[k].sensitivity = v.copy()
            self.msens[k] = v.reshape(-1).copy()
        self.check("sensitivity-assign", se_targets={k: self.pos})

    def op_sens_slice(self, k, idx, sl=None):
        tgt, P = self._target(k, idx, sl)
        scalar = self.rng.random() < 0.2
        v = self.rnd(()) if scalar else self.rnd(P.shape)
        if self.rng.random() < 0.25:
            # a value of a narrower type than the signal (a real seed on a complex signal, a single-precision one on a double
            # signal): the sensitivity of the base signal it lands in has to hold wider contributions later in the history
            v = np.real(v).copy() if self.cplx else np.asarray(v).astype(np.float32)
            self.ctx.count("slice_sensitivity_assigned_with_narrower_type")
        op = self._opname("sensitivity-assign", idx)
        self.log(f"{op} s{k} {idx!r} scalar={scalar}")
        tgt.sensitivity = v.copy() if np.ndim(v) else v[()]
        self.model_sens_zero(k)
        self.msens[k][P.reshape(-1)] = v if scalar else v.reshape(-1)
        self.check(op, se_targets={k: P}, idx=idx)

    def op_reset(self, k, ka):
        sig = self.sigs[k]
        eff = self.pre[k] if ka is None else bool(ka)
        held = sig.sensitivity
        op = "reset-keep-alloc" if eff else "reset"
        self.log(f"{op} s{k} keep_alloc={ka}")
        sig.reset() if (ka is None and self.rng.random() < 0.5) else sig.reset(keep_alloc=ka)
        if self.msens[k] is not None:
            self.msens[k] = np.zeros(self.size, dtype=self.dtype) if eff else None
        self.check(op, se_targets={k: self.pos})
        if self.msens[k] is None:
            self.ctx.count("resets_clear")
        if eff and self.msens[k] is not None and isinstance(held, np.ndarray):
            now = sig.sensitivity
            if held.size and (np.any(held != 0) or not isinstance(now, np.ndarray) or not np.shares_memory(now, held)):
                self.fail("reset-keep-alloc/not-zeroed-in-place", signal=k,
                          holder_sees=held.reshape(-1)[:6], same_object=now is held)
            self.ctx.count("resets_in_place")
            self.flags.add("reset")

    def op_reset_slice(self, k, idx, sl=None):
        tgt, P = self._target(k, idx, sl)
        ka = [None, True, False][int(self.rng.integers(0, 3))]
        op = self._opname("reset", idx)
        self.log(f"{op} s{k} {idx!r} keep_alloc={ka}")
        sens_ = self.sigs[k].sensitivity
        if self.msens[k] is not None and isinstance(sens_, np.ndarray) and sens_.dtype.kind in "fc" and P.size and self.rng.random() < 0.3:
            # a non-finite entry inside the slice (a derivative evaluated at a singular point): reset means zero, not 0*inf
            pos_ = int(P.reshape(-1)[int(self.rng.integers(0, P.size))])
            bad_ = [np.inf, -np.inf, np.nan][int(self.rng.integers(0, 3))]
            sens_.flat[pos_] = bad_
            self.msens[k][pos_] = bad_
            self.ctx.count("slice_resets_over_nonfinite_entries")
        tgt.reset() if ka is None else tgt.reset(keep_alloc=ka)
        if self.msens[k] is not None:
            self.msens[k][P.reshape(-1)] = 0
            self.ctx.count("slice_resets")
            self.flags.add("reset")
        self.check(op, se_targets={k: P}, idx=idx)

    def op_shared(self, k1, k2, idx1=None, idx2=None):
        """The same object added to two receivers; then the second receiver accumulates something
        else, then the object is changed: neither may move the other."""
        t1, P1 = self._target(k1, idx1)
        t2, P2 = self._target(k2, idx2)
        a = self.arg(P1.shape if idx1 is not None else self.shape)
        self.log(f"shared-add s{k1} {idx1!r} & s{k2} {idx2!r} arg={a.kind}")
        for k, idx, t, P in ((k1, idx1, t1, P1), (k2, idx2, t2, P2)):
            t.add_sensitivity(a.obj)
            if idx is None and self.msens[k] is None:
                self.msens[k] = np.array(a.value, dtype=self.dtype).reshape(-1).copy()
            else:
                self.model_sens_zero(k)
                self.msens[k][P.reshape(-1)] += a.value.reshape(-1)
        self.check("shared-add", se_targets={k1: P1, k2: P2} if k1 != k2 else {k1: np.union1d(P1, P2)}, idx=idx1)
        b = self.arg(P2.shape if idx2 is not None else self.shape, kinds=["plain"] if P2.shape else ["0d"])
        t2.add_sensitivity(b.obj)
        self.model_sens_zero(k2)
        self.msens[k2][P2.reshape(-1)] += b.value.reshape(-1)
        self.check("shared-add/after-accumulating-into-the-second-receiver", se_targets={k2: P2}, idx=idx2)
        if a.poison is not None:
            a.poison()
            self.check("shared-add/after-mutating-the-argument", se_targets={}, idx=idx1)
        self.ctx.count("alias_probes")
        self.ctx.count("shared_adds")
        self.flags.add("alias")

    def op_passthrough(self, ki, kj, idx=None, follow=None):
        """A signal's own sensitivity (or a slice view of it) is handed to another signal, as
        pass-through modules do; afterwards the source is changed in place."""
        if self.msens[ki] is None or ki == kj:
            return False
        src, P = self._target(ki, idx)
        dst, _ = self._target(kj, idx)
        self.log(f"passthrough-add s{ki}->s{kj} {idx!r}")
        val = self.msens[ki][P.reshape(-1)].copy()
        dst.add_sensitivity(src.sensitivity)
        if idx is None and self.msens[kj] is None:
            self.msens[kj] = val.copy()
        else:
            self.model_sens_zero(kj)
            self.msens[kj][P.reshape(-1)] += val
        self.note(self.msens[kj])
        self.check("passthrough-add", se_targets={kj: P}, idx=idx)
        # in-place change of the source
        follow = follow or str(self.rng.choice(["add", "reset-keep", "slice-assign"]))
        sig = self.sigs[ki]
        if follow == "add":
            b = self.arg(self.shape, kinds=["plain"] if self.shape else ["0d"])
            sig.add_sensitivity(b.obj)
            self.msens[ki] = self.msens[ki] + b.value.reshape(-1)
        elif follow == "reset-keep" or not self.shape:
            sig.reset(keep_alloc=True)
            self.msens[ki] = np.zeros(self.size, dtype=self.dtype)
        else:
            v = self.rnd(self.shape[1:])
            sig[0].sensitivity = v.copy() if np.ndim(v) else v[()]
            self.msens[ki][self.pos[0].reshape(-1)] = v.reshape(-1)
        self.check("passthrough-add/after-in-place-change-of-the-source", se_targets={ki: self.pos}, idx=idx)
        self.ctx.count("alias_probes")
        self.flags.add("alias")
        return True


# =========================================================================== families
def _history_rand(pym, ctx, rng):
    big = ctx.tier == "thorough"
    rank = int(rng.choice([1, 1, 1, 2, 2, 2, 3, 3, 4, 5] if big else [1, 1, 1, 2, 2, 2, 3, 3, 4]))
    shape = tuple(int(rng.choice([1, 2, 3, 3, 4, 5, 6] if big and rank < 4 else [1, 2, 3, 3, 4, 5]))
                  for _ in range(rank))
    if rank == 1 and rng.random() < 0.3:
        shape = (int(rng.integers(6, 41 if big else 13)),)
    cplx = rng.random() < 0.35
    K = int(rng.choice([1, 2, 2, 3]))
    pre = [rng.random() < 0.4 for _ in range(K)]
    w = _World(pym, rng, ctx, shape, cplx, pre, prefill=rng.random() < 0.2)
    for k in range(K):
        for _ in range(int(rng.integers(0, 3))):
            w.add_persistent(k, _rand_index(rng, shape))
    w.check("construction")
    nops = int(rng.integers(10, 61))
    ops = ["add", "add", "slice_add", "slice_add", "slice_add", "slice_add", "state_whole", "state_slice",
           "state_slice", "state_iadd", "sens_whole", "sens_slice", "sens_slice", "reset", "reset", "reset_slice",
           "reset_slice", "shared", "shared", "passthrough", "sens_none"]
    for _ in range(nops):
        op = str(rng.choice(ops))
        k = int(rng.integers(0, K))
        use_p = [(i, s) for (kk, i, s) in w.persistent if kk == k]
        if use_p and rng.random() < 0.4:
            idx, sl = use_p[int(rng.integers(0, len(use_p)))]
        else:
            idx, sl = _rand_index(rng, shape), None
        if op == "add":
            w.op_add(k)
        elif op == "slice_add":
            w.op_add(k, idx, sl)
        elif op == "state_whole":
            w.op_state_whole(k)
        elif op == "state_slice":
            w.op_state_slice(k, idx, sl)
        elif op == "state_iadd":
            w.op_state_slice(k, idx, sl, iadd=True)
        elif op == "sens_whole":
            w.op_sens_whole(k)
        elif op == "sens_none":
            if rng.random() < 0.3:
                w.op_sens_whole(k, none=True)
        elif op == "sens_slice":
            w.op_sens_slice(k, idx, sl)
        elif op == "reset":
            w.op_reset(k, [None, True, False][int(rng.integers(0, 3))])
        elif op == "reset_slice":
            w.op_reset_slice(k, idx, sl)
        elif op == "shared":
            k2 = int(rng.integers(0, K))
            mode = str(rng.choice(["whole-whole", "slice-slice", "whole-slice", "slice-whole"]))
            full = _Idx("ellipsis", [Ellipsis]) if rng.random() < 0.5 else _Idx("slice", [slice(None)])
            if mode == "whole-whole":
                w.op_shared(k, k2)
            elif mode == "slice-slice":
                w.op_shared(k, k2, idx, idx)
            elif mode == "whole-slice":
                w.op_shared(k, k2, None, full)
            else:
                w.op_shared(k, k2, full, None)
        elif op == "passthrough":
            k2 = int(rng.integers(0, K))
            pidx = None if rng.random() < 0.6 else _rand_index(rng, shape, ["slice", "tuple", "ellipsis", "int"])
            w.op_passthrough(k, k2, pidx)
        w.read_slices(extra=1)
    ctx.count("histories")
    return w, f"rand/rank{rank}/{'c' if cplx else 'r'}/K{K}/pre{''.join('1' if p else '0' for p in pre)}"


def _enum_indices(shape):
    if len(shape) == 1:
        return {"S": _Idx("slice", [slice(0, 2)]), "F": _Idx("intarr", [np.array([2, 0])]),
                "N": _Idx("nested", [slice(1, None), slice(0, 1)]), "RS": _Idx("slice", [slice(1, None)]),
                "WS": _Idx("slice", [slice(None, None, 2)]), "X": _Idx("slice", [slice(1, None)])}
    return {"S": _Idx("tuple", [(slice(None), slice(0, 2))]), "F": _Idx("intarr", [np.array([1, 0])]),
            "N": _Idx("nested", [(slice(None), slice(1, None)), (slice(0, 1),)]),
            "RS": _Idx("slice", [slice(1, None)]), "WS": _Idx("tuple", [(slice(None), slice(None, None, 2))]),
            "X": _Idx("int", [1])}


def _history_enum(pym, ctx, rng, variant, seq):
    shape, cplx, pre0 = ENUM_VARIANTS[variant]
    w = _World(pym, rng, ctx, shape, cplx, [pre0, not pre0])
    ix = _enum_indices(shape)
    per = {name: w.add_persistent(0, ix[name]) for name in ("S", "N", "RS")}
    for a in seq:
        o = ALPHABET[a]
        if o == "A":
            w.op_add(0)
        elif o in ("S", "N"):
            w.op_add(0, ix[o], per[o])
        elif o == "F":
            w.op_add(0, ix[o])
        elif o == "R":
            w.op_reset(0, None)
        elif o == "RT":
            w.op_reset(0, True)
        elif o == "RF":
            w.op_reset(0, False)
        elif o == "RS":
            w.op_reset_slice(0, ix[o], per[o])
        elif o == "W":
            w.op_sens_whole(0)
        elif o == "WS":
            w.op_sens_slice(0, ix[o])
        elif o == "X":
            w.op_state_slice(0, ix[o])
        elif o == "XN":
            w.op_state_slice(0, ix["N"], per["N"])
        elif o == "XW":
            w.op_state_whole(0)
        elif o == "P":
            w.op_passthrough(0, 1, None)
        elif o == "D":
            w.op_shared(0, 1)
    w.read_slices(extra=0)
    ctx.count("histories")
    return w


# --------------------------------------------------------------------------- scalars
def _scalar_value(rng, kind, cplx):
    v = _rnd(rng, (), cplx, float(rng.choice([1.0, 10.0, 0.1])))
    if kind.startswith("py"):
        return complex(v) if cplx else float(v)
    if kind.startswith("np"):
        return np.array(v)[()]
    return np.array(v)


def _history_scalar(pym, ctx, rng, kind):
    """Signals whose state is a Python scalar / numpy scalar / 0-d array: whole-signal operations."""
    cplx = kind.endswith("complex")
    K = 2
    pre = [rng.random() < 0.4 for _ in range(K)]
    sigs, mst, mse = [], [], []
    trace = []
    mag = [10.0]

    def val(k=None):
        kk = k or kind
        x = _scalar_value(rng, kk, cplx)
        mag[0] = max(mag[0], abs(complex(x)))
        return x

    def fail(mech, **d):
        raise Violation(mech, kind=kind, prealloc=pre, step=len(trace), ops=trace[-8:], **d)

    for k in range(K):
        st = val()
        if pre[k]:
            z = {"py": (0j if cplx else 0.0), "np": (np.complex128(0) if cplx else np.float64(0)),
                 "0d": np.zeros((), dtype=complex if cplx else float)}[kind[:2]]
            sigs.append(pym.Signal(f"s{k}", st, sensitivity=z))
            mse.append(complex(0))
        else:
            sigs.append(pym.Signal(f"s{k}", st))
            mse.append(None)
        mst.append(complex(np.asarray(st)))

    def check(op):
        tol = 1e-12 * (1 + 64 * mag[0])
        for k, s in enumerate(sigs):
            a = s.state
            if a is None or np.shape(a) != () or complex(np.asarray(a)) != mst[k]:
                fail(f"scalar/{op}/state-changed", signal=k, got=repr(a), want=mst[k])
            g = s.sensitivity
            if mse[k] is None:
                if g is not None:
                    fail(f"scalar/{op}/sensitivity-present-where-none-expected", signal=k, got=repr(g))
            else:
                if g is None:
                    fail(f"scalar/{op}/sensitivity-missing", signal=k, want=mse[k])
                if np.shape(g) != ():
                    fail(f"scalar/{op}/sensitivity-shape", signal=k, got=repr(g))
                if not abs(complex(np.asarray(g)) - mse[k]) <= tol:
                    fail(f"scalar/{op}/sensitivity-wrong", signal=k, got=repr(g), want=mse[k])
        ctx.count("entries_compared", 2 * K)
        ctx.count("world_comparisons")

    def argval():
        ak = str(rng.choice(["py", "np", "0d", "0d"]))
        x = val(ak + ("complex" if cplx else "float"))
        return ak, x, complex(np.asarray(x))

    def poison(ak, x, op):
        if ak == "0d":
            x[...] = np.nan
            check(op + "/after-mutating-the-argument")
            ctx.count("alias_probes")

    check("construction")
    for _ in range(int(rng.integers(8, 30))):
        op = str(rng.choice(["add", "add", "add", "state", "sens", "sens_none", "reset", "reset", "shared", "pass"]))
        k = int(rng.integers(0, K))
        s = sigs[k]
        trace.append(f"{op} s{k}")
        ctx.count("operations")
        ctx.log(trace[-1])
        if op == "add":
            ak, x, xv = argval()
            s.add_sensitivity(x)
            mse[k] = xv if mse[k] is None else mse[k] + xv
            check("add")
            poison(ak, x, "add")
        elif op == "state":
            x = val()
            s.state = x
            mst[k] = complex(np.asarray(x))
            check("state-assign")
        elif op == "sens":
            x = val()
            s.sensitivity = x
            mse[k] = complex(np.asarray(x))
            check("sensitivity-assign")
        elif op == "sens_none":
            if rng.random() < 0.3:
                s.sensitivity = None
                mse[k] = None
                check("sensitivity-assign")
        elif op == "reset":
            ka = [None, True, False][int(rng.integers(0, 3))]
            eff = pre[k] if ka is None else ka
            held = s.sensitivity
            s.reset() if ka is None else s.reset(keep_alloc=ka)
            if mse[k] is not None:
                mse[k] = complex(0) if eff else None
            check("reset-keep-alloc" if eff else "reset")
            if eff and mse[k] is not None and isinstance(held, np.ndarray):
                now = s.sensitivity
                if held != 0 or not isinstance(now, np.ndarray) or not np.shares_memory(now, held):
                    fail("scalar/reset-keep-alloc/not-zeroed-in-place", signal=k, holder_sees=repr(held))
                ctx.count("resets_in_place")
        elif op == "shared":
            k2 = 1 - k
            x = val("0d" + ("complex" if cplx else "real"))
            xv = complex(x)
            for kk in (k, k2):
                sigs[kk].add_sensitivity(x)
                mse[kk] = xv if mse[kk] is None else mse[kk] + xv
            check("shared-add")
            ak, y, yv = argval()
            sigs[k2].add_sensitivity(y)
            mse[k2] = mse[k2] + yv
            check("shared-add/after-accumulating-into-the-second-receiver")
            poison("0d", x, "shared-add")
            ctx.count("shared_adds")
        elif op == "pass":
            k2 = 1 - k
            if mse[k] is None:
                continue
            sigs[k2].add_sensitivity(s.sensitivity)
            mse[k2] = mse[k] if mse[k2] is None else mse[k2] + mse[k]
            mag[0] = max(mag[0], abs(mse[k2]))
            check("passthrough-add")
            if rng.random() < 0.5:
                ak, y, yv = argval()
                s.add_sensitivity(y)
                mse[k] = mse[k] + yv
            else:
                s.reset(keep_alloc=True)
                mse[k] = complex(0)
            check("passthrough-add/after-in-place-change-of-the-source")
            ctx.count("alias_probes")
    ctx.count("histories")
    ctx.count("scalar_histories")


# --------------------------------------------------------------------------- DyadCarrier / sparse values
def _history_kinds(pym, ctx, rng, kind):
    """Aliasing clause only, on the mutable non-array values pyMOTO passes to add_sensitivity."""
    import scipy.sparse as sps
    n, m = int(rng.integers(2, 6)), int(rng.integers(2, 6))
    cplx = kind == "dyadc"
    tag = "dyadcarrier" if kind.startswith("dyad") else "sparse"

    def make():
        if kind.startswith("dyad"):
            nd = int(rng.integers(1, 4))
            us = [_rnd(rng, n, cplx) for _ in range(nd)]
            vs = [_rnd(rng, m, cplx) for _ in range(nd)]
            d = pym.DyadCarrier(us, vs)
            dense = sum(np.outer(u, v) for u, v in zip(us, vs))

            def poison(d=d, us=us, vs=vs):
                for a in list(d.u) + list(d.v) + us + vs:
                    a[...] = np.nan
                d.add_dyad(np.ones(n), np.ones(m))
            return d, dense, poison
        A = sps.random(n, m, density=0.6, format=kind, random_state=int(rng.integers(0, 2 ** 31)))
        A.data[:] = rng.standard_normal(A.data.shape)
        dense = A.toarray().copy()

        def poison(A=A):
            A.data[:] = np.nan
        return A, dense, poison

    def dense_of(x):
        if x is None:
            return None
        return x.todense() if hasattr(x, "add_dyad") else np.asarray(x.toarray() if sps.issparse(x) else x)

    s1, s2 = pym.Signal("a"), pym.Signal("b")
    m1 = m2 = None

    def check(op):
        for name, s, mm in (("a", s1, m1), ("b", s2, m2)):
            g = dense_of(s.sensitivity)
            if mm is None:
                if g is not None:
                    raise Violation(f"value-{tag}/{op}/sensitivity-present-where-none-expected", signal=name)
                continue
            if g is None or np.shape(g) != mm.shape or not np.all(np.abs(np.asarray(g) - mm) <= 1e-12 * (1 + np.abs(mm).max())):
                raise Violation(f"value-{tag}/{op}/sensitivity-changed", signal=name, kind=kind,
                                got=g, want=mm)
        ctx.count("entries_compared", 2 * n * m)
        ctx.count("world_comparisons")

    for _ in range(int(rng.integers(2, 6))):
        x, dx, px = make()
        s1.add_sensitivity(x)
        s2.add_sensitivity(x)
        m1 = dx.copy() if m1 is None else m1 + dx
        m2 = dx.copy() if m2 is None else m2 + dx
        check("shared-add")
        y, dy, py_ = make()
        s2.add_sensitivity(y)
        m2 = m2 + dy
        check("shared-add/after-accumulating-into-the-second-receiver")
        px()
        check("shared-add/after-mutating-the-argument")
        py_()
        check("add/after-mutating-the-argument")
        ctx.count("alias_probes", 2)
        if rng.random() < 0.4:
            which = int(rng.integers(0, 2))
            (s1, s2)[which].reset(keep_alloc=False)
            if which == 0:
                m1 = None
            else:
                m2 = None
            check("reset")
    ctx.count("histories")
    ctx.count("value_histories")


# =========================================================================== run_case
def _run_longindex(case, ctx, pym):
    from ..core import require
    rng = ctx.rng("longindex", case["k"])
    n = int(rng.integers(1200, 4000))
    x0 = rng.standard_normal(n)
    s = pym.Signal("x", x0.copy())
    allidx = np.arange(n)
    a, b = sorted(int(v) for v in rng.integers(10, n - 10, 2))
    b = max(b, a + 5)
    sets = [allidx, np.concatenate([allidx[:a], allidx[b:]]), np.concatenate([allidx[:a + 2], allidx[b + 1:]]),
            allidx[::-1].copy(),                       # a contiguous descending range that ends at index 0 (reversed dof order)
            np.arange(b, a, -1), np.arange(a, b)]      # contiguous ranges away from the ends, descending and ascending
    order = rng.permutation(len(sets))
    want_sens = np.zeros(n)
    want_state = x0.copy()
    for o in order:
        ix = sets[int(o)]
        sl = s[ix]
        got = np.asarray(sl.state)
        require(got.shape == ix.shape and bool(np.array_equal(got, want_state[ix])), "long-index/slice-reads-other-entries", n=n, size=int(ix.size))
        v = rng.standard_normal(ix.size)
        sl.add_sensitivity(v)
        want_sens[ix] += v
        require(bool(np.allclose(np.asarray(s.sensitivity), want_sens, rtol=0, atol=1e-12)), "long-index/sensitivity-added-to-other-entries",
                n=n, size=int(ix.size), interior_gap=[a, b])
        w = rng.standard_normal(ix.size)
        sl.state = w
        want_state[ix] = w
        require(bool(np.array_equal(np.asarray(s.state), want_state)), "long-index/state-written-to-other-entries", n=n, size=int(ix.size))
        ctx.count("long_index_slices_checked")
    sl = s[sets[1]]
    sl.reset()
    want_sens[sets[1]] = 0
    sv = s.sensitivity
    require(sv is not None and bool(np.allclose(np.asarray(sv), want_sens, rtol=0, atol=1e-12)), "long-index/slice-reset-clears-other-entries", n=n)
    # a module wired to slices of the signal and reset on its own: only the entries of its slices are cleared
    s.sensitivity = None
    full = rng.standard_normal(n)
    s.add_sensitivity(full.copy())
    i0, i1 = sorted(int(v) for v in rng.integers(0, n, 2))
    i1 = max(i1, i0 + 2)
    ix = rng.permutation(n)[:5]
    m = pym.EinSum([s[i0:i1], s[ix]], pym.Signal("y"), expression="i,j->")
    m.response()
    m.reset()
    want = full.copy()
    want[i0:i1] = 0
    want[ix] = 0
    sv = s.sensitivity
    require(sv is not None and bool(np.array_equal(np.asarray(sv), want)), "module-reset/clears-entries-outside-the-slices-it-is-wired-to", n=n,
            slices=[[i0, i1], ix.tolist()], left=None if sv is None else int(np.count_nonzero(np.asarray(sv))), expected=int(np.count_nonzero(want)))
    ctx.count("module_resets_over_slices")
    return {"key": f"longindex/{case['k']}", "nontrivial": True, "obs": {"n": n, "gap": [a, b]}}


def run_case(case, ctx):
    import pymoto as pym
    fam = case["fam"]
    if fam == "longindex":
        return _run_longindex(case, ctx, pym)
    if fam == "enum":
        vi, prefix, L = case["var"], list(case["prefix"]), case["L"]
        nA = len(ALPHABET)
        nh = 0
        flags = set()
        for tail in itertools.product(range(nA), repeat=L - len(prefix)):
            seq = prefix + list(tail)
            # values are seeded by VERIF_SEED; the structure (the sequence) is enumerated
            rng = ctx.rng("enum", vi, *seq)
            w = _history_enum(pym, ctx, rng, vi, seq)
            flags |= w.flags
            nh += 1
        shape, cplx, pre0 = ENUM_VARIANTS[vi]
        return {"key": f"enum/{'x'.join(map(str, shape))}/{'c' if cplx else 'r'}/pre{pre0}/" +
                       "-".join(ALPHABET[a] for a in prefix),
                "nontrivial": {"slice_add", "reset", "alias"} <= flags,
                "obs": {"histories": nh, "length": L, "entries_compared": ctx.counters["entries_compared"]}}
    if fam == "rand":
        keys, flags = [], set()
        nops = 0
        for j in range(case["n"]):
            rng = ctx.rng("rand", case["k"], j)
            w, key = _history_rand(pym, ctx, rng)
            keys.append(key)
            flags |= w.flags
            nops += len(w.trace)
        return {"key": keys[0], "nontrivial": {"slice_add", "reset", "alias"} <= flags,
                "obs": {"histories": len(keys), "operations": nops, "worlds": keys,
                        "entries_compared": ctx.counters["entries_compared"]}}
    if fam == "scalar":
        kind = SCALAR_KINDS[case["k"] % len(SCALAR_KINDS)]
        for j in range(case["n"]):
            _history_scalar(pym, ctx, ctx.rng("scalar", case["k"], j), kind)
        return {"key": f"scalar/{kind}", "nontrivial": ctx.counters["alias_probes"] > 0 or kind[:2] != "0d",
                "obs": {"histories": case["n"], "ops": ctx.counters["world_comparisons"]}}
    if fam == "kinds":
        kind = VALUE_KINDS[case["k"] % len(VALUE_KINDS)]
        for j in range(case["n"]):
            _history_kinds(pym, ctx, ctx.rng("kinds", case["k"], j), kind)
        return {"key": f"kinds/{kind}", "nontrivial": True,
                "obs": {"histories": case["n"], "alias_probes": ctx.counters["alias_probes"]}}
    raise ValueError(f"unknown family {fam}")
