"""C15 — DyadCarrier behaves exactly like the dense matrix it represents.

A *program* is a sequence of public DyadCarrier operations executed on the real class while a
dense numpy shadow (value ``M`` and magnitude bound ``A``) is updated alongside by the
corresponding dense operation.  Every carrier that was ever created in a program stays alive in
a register, every array / list / sparse matrix that was ever handed to the class stays alive as
an *external*; after every single operation

* the result converted to dense is compared with the dense result (shape, real/complex type, value),
* the digest (bytes of all u and v vectors, shape, dtype) of every register other than the target
  of an in-place operation, and of every external, must be what it was before the operation —
  this also catches storage shared between a result and an operand as soon as one of them is the
  target of a later in-place operation (pairs op1;op2 are enumerated for exactly this reason).

Case kinds: ``single`` (exhaustive: operation x number of dyads x real/complex mixture),
``pair`` (exhaustive: carrier-producing operation followed by any operation on the result, and by
every in-place operation on the source / on the partner), ``seq`` (random programs),
``corner`` (deterministic hostile corners that have a dense meaning: a carrier added to itself in
place, zeroing with two full slices, two index lists, real and complex matrices in one
``contract_multi`` list).
"""
import operator
import signal

import numpy as np
import scipy.sparse as sps

from ..core import Violation, Skip, require, digest

ID = "C15"
LEVEL = "exploration"
MONITORS = ["dyad"]
ANCHORS = ["common/dyadcarrier.py"]
TIMEOUT_CASE = 60

RTOL = 1e-10
UNREACHABLE = ["DyadCarrier.min / max (documented as approximations; not part of the statement)",
               "DyadCarrier.toarray (alias of todense), iscomplex, size (not part of the statement)",
               "shapeless carriers DyadCarrier() and the (-1,-1) branches of __getitem__/__add__/size"]
EXPLANATION = ("Mechanisms are '<public operation>/<what is wrong>'.  Four deterministic corner programs "
               "(kind=corner) probe operations that have a dense meaning but sit on a boundary of the implementation; "
               "each has its own mechanism name so that a deviation there cannot hide behind, or be confused with, "
               "the random programs (which never contain these four constructs).")

# ----------------------------------------------------------------------------- operation catalogue
CONSTRUCT = ["construct"]
ADDSUB = ["add", "sub", "sum_builtin", "add_self", "sub_self"]
INPLACE_DYAD = ["iadd", "isub", "add_dyad"]
ZEROING = ["z_row", "z_col", "z_rows_slice", "z_cols_slice", "z_rows_arr", "z_cols_arr", "z_rows_mask",
           "z_cols_mask", "z_rows_list"]
ZERO_SCALAR = ["add_zero", "radd_zero", "sub_zero", "rsub_zero", "pos"]
DENSE_ADDSUB = ["add_dense", "radd_dense", "sub_dense", "rsub_dense"]
UNARY = ["neg", "T", "transpose", "conj", "real", "imag", "copy"]
SCALAR = ["mul_scalar", "rmul_scalar"]
MATMUL = ["matmul_dense", "rmatmul_dense", "matmul_sparse", "rmatmul_sparse", "dot2d", "matmul_dyad", "matmul_self"]
MATVEC = ["matvec", "rmatvec", "dot"]
DIAG = ["diagonal"]
GET_VALUES = ["g_elem", "g_row", "g_col", "g_rowpart", "g_colpart", "g_fancy1d", "g_fancy2d", "g_arr_int", "g_int_arr"]
GET_CARRIER = ["g_slice", "g_slice_step", "g_rows_arr", "g_cols_arr", "g_mask", "g_list"]
CONTRACT = ["contract_trace", "contract_mat", "contract_sparse", "contract_rows", "contract_cols",
            "contract_rows_cols", "contract_nomat_sliced", "contract_sparse_sliced", "contract_batch_mat",
            "contract_batch2_mat", "contract_batch_rows", "contract_batch_cols", "contract_batch_mat_rows1d",
            "contract_batch_all", "contract_batch_nomat", "contract_multi"]

FAMILIES = [(CONSTRUCT, 1), (ADDSUB, 3), (INPLACE_DYAD, 4), (ZEROING, 4), (ZERO_SCALAR, 1), (DENSE_ADDSUB, 2),
            (UNARY, 5), (SCALAR, 3), (MATMUL, 4), (MATVEC, 3), (DIAG, 2), (GET_VALUES, 3), (GET_CARRIER, 3),
            (CONTRACT, 5)]
ALL_OPS = [o for fam, _ in FAMILIES for o in fam]
INPLACE = INPLACE_DYAD + ZEROING
# operations that leave a (new or updated) carrier behind on which a second operation can act
PRODUCERS = ADDSUB + INPLACE + ZERO_SCALAR + UNARY + SCALAR + MATMUL + GET_CARRIER
WITH_PARTNER = ["add", "sub", "sum_builtin", "iadd", "isub", "matmul_dyad"]
CORNERS = ["iadd_self", "isub_self", "zero_all", "index_lists", "contract_multi_mixed"]

SHAPES = [(3, 4), (4, 2), (3, 3), (1, 3), (2, 1), (1, 1), (5, 2), (2, 2)]
SQUARE_OPS = {"contract_trace", "matmul_self"}

RULE = ("single: every operation name x k in 0..3 dyads x {real,complex}^3 for (u, v, operand) (exhaustive, "
        f"{len(ALL_OPS)} operations); pair: every carrier-producing operation followed by every operation on its "
        "result, and by every in-place operation on its source operand / partner operand (exhaustive); seq: random "
        "programs of depth 1..8 (thorough 1..12) over the same catalogue, shapes 0..5 (thorough 0..7), 0..4 dyads, "
        "every vector independently real/complex/integer/exactly zero, constructors from lists, tuples, bare vectors, "
        "blocks, symmetric form and incremental add_dyad; distinct = distinct (kind, shape, dyads, dtype mixture, "
        "operation sequence); non-trivial = at least one result was compared with the dense model")
EXHAUSTIVE = {"quick": False, "thorough": False}
ASSUMPTIONS = [
    "value tolerance 1e-10 * max|A| where A is the dense magnitude bound sum_k |u_k||v_k|^T propagated through the "
    "same operations (|a|A, A|B|, A+A', ...): rounding of <= 12 operations on <= 7x7 matrices is < 1e-13 * max|A|; "
    "cancellation (D-D) is covered because the scale is the magnitude bound, not the result",
    "type rule: result complex => the dense result is complex; result real => the dense result has zero imaginary "
    "part (<= tolerance).  Zero vectors are dropped on insertion by design, so a complex zero vector may leave a "
    "real carrier; counted in type_relaxed_real_result_for_complex_zero",
    "outside the domain (explicitly rejected by the class or without dense counterpart): adding a non-zero scalar, "
    "adding a sparse matrix, index arrays of unequal shapes, a single subscript, D[i,j]=0 with two specific "
    "subscripts, values other than 0 in __setitem__, complex `fac` in add_dyad, float32 data, carriers without a "
    "shape (DyadCarrier()), contract() without matrix on non-square carriers, None as *first* entry of "
    "contract_multi, min()/max() (documented as approximations, not in the statement)",
    "purity is judged on digests of the stored vectors (bytes), dtype and shape, for all live carriers and all "
    "operands ever passed (arrays, lists of arrays, sparse matrices, index arrays)",
    "a carrier added to itself in place is run under a 0.4 s CPU-time guard (ITIMER_VIRTUAL), every other operation "
    "under a 1.5 s CPU-time guard (a conforming operation on <= 7x7 data needs milliseconds; CPU time does not depend "
    "on the machine load); reaching the guard is reported as <operation>/does-not-terminate",
    "sparse operands: csr/csc/coo_matrix, csr/csc_array (coo_array only in contract_multi: scipy 1.18 returns a 0-d "
    "scalar for vector @ coo_array((n,1)), which is not pyMOTO's doing)",
    "mechanism names are <public operation>/<what is wrong>; the workload variant (e.g. g_row, contract_batch_all) is "
    "part of the witness; storage sharing is attributed to the operation that created it "
    "(<operation>/result-shares-storage-with-its-operand), the in-place operation that revealed it is in the witness",
]
FLOORS = {
    # about half of what the unchanged (repaired) tree reaches; every operation of the catalogue has its own floor
    "quick": {"cases_held": 7500, "distinct_nontrivial": 7500, "ops_checked": 65000, "entries_compared": 400000,
              "purity_digests": 600000, "sequence_steps": 20000, "ops_on_empty_carrier": 6500,
              "ops_mixed_real_complex": 13000, "inplace_with_bystanders": 3400, "inv_dyad": 1000000},
    "thorough": {"cases_held": 88000, "distinct_nontrivial": 85000, "ops_checked": 1250000,
                 "entries_compared": 11000000, "purity_digests": 15000000, "sequence_steps": 480000,
                 "ops_on_empty_carrier": 160000, "ops_mixed_real_complex": 260000, "inplace_with_bystanders": 78000,
                 "inv_dyad": 23000000},
}
for _o in ALL_OPS:
    FLOORS["quick"]["op:" + _o] = 80
    FLOORS["thorough"]["op:" + _o] = 900


# ----------------------------------------------------------------------------- plan
def plan(tier, seed):
    cases = [{"kind": "corner", "name": c} for c in CORNERS]
    dts = [a + b + c for a in "rc" for b in "rc" for c in "rc"]
    reps = 1 if tier == "quick" else 4
    i = 0
    for op in ALL_OPS:
        for k in (0, 1, 2, 3):
            for dt in dts:
                for rep in range(reps):
                    n, m = SHAPES[i % len(SHAPES)]
                    i += 1
                    if op in SQUARE_OPS:
                        m = n
                    cases.append({"kind": "single", "op": op, "k": k, "dt": dt, "shape": [n, m], "rep": rep})
    pair_cfg = [(2, "xxx", [3, 3])] if tier == "quick" else [(2, "xxx", [3, 3]), (0, "xxx", [2, 4]), (1, "crc", [4, 3]),
                                                             (3, "xxx", [3, 3]), (2, "rcr", [1, 2])]
    for k, dt, shape in pair_cfg:
        for op1 in PRODUCERS:
            for op2 in ALL_OPS:
                cases.append({"kind": "pair", "ops": [op1, op2], "on": "result", "k": k, "dt": dt, "shape": shape})
            for op2 in INPLACE:
                if op1 not in INPLACE:
                    cases.append({"kind": "pair", "ops": [op1, op2], "on": "source", "k": k, "dt": dt, "shape": shape})
                if op1 in WITH_PARTNER:
                    cases.append({"kind": "pair", "ops": [op1, op2], "on": "partner", "k": k, "dt": dt, "shape": shape})
    nseq = 9000 if tier == "quick" else 150000
    cases += [{"kind": "seq", "s": s} for s in range(nseq)]
    return cases


# ----------------------------------------------------------------------------- dense helpers
def _dig(D):
    return (digest(D), str(D.dtype), tuple(D.shape))


def _abs_dense(B):
    if sps.issparse(B):
        return np.abs(B.toarray())
    return np.abs(np.asarray(B))


def _dense(B):
    return B.toarray() if sps.issparse(B) else np.asarray(B)


def _ref_contract(M, B, rows, cols):
    """y_p = sum_ij M[rows_p[i], cols_p[j]] B_p[i, j]   (B = identity when absent), plain loops."""
    n, m = M.shape
    bs = ()
    if B is not None and B.ndim > 2:
        bs = B.shape[:-2]
    elif rows is not None and rows.ndim > 1:
        bs = rows.shape[:-1]
    elif cols is not None and cols.ndim > 1:
        bs = cols.shape[:-1]
    dt = np.result_type(M.dtype, B.dtype if B is not None else np.float64)
    out = np.zeros(bs, dtype=dt)
    for p in np.ndindex(*bs):
        r = np.arange(n) if rows is None else (rows if rows.ndim == 1 else rows[p])
        c = np.arange(m) if cols is None else (cols if cols.ndim == 1 else cols[p])
        Bp = None if B is None else (B if B.ndim == 2 else B[p])
        acc = 0.0
        for a, ia in enumerate(r):
            if Bp is None:
                acc = acc + M[ia, c[a]]
            else:
                for b, jb in enumerate(c):
                    acc = acc + M[ia, jb] * Bp[a, b]
        out[p] = acc
    return out if bs else out[()]


def _label(op):
    """stable mechanism prefix: the public operation, not the workload variant (which goes into the witness)"""
    if op.startswith("g_"):
        return "getitem"
    if op.startswith("z_"):
        return "setitem"
    if op.startswith("contract_") and op != "contract_multi":
        return "contract"
    return {"T": "transpose", "add_self": "add", "sub_self": "sub", "dot2d": "dot"}.get(op, op)


class _Guard(BaseException):
    pass


GUARD_S = 1.5     # CPU seconds granted to one operation (a conforming one needs milliseconds)


class _cpu_guard:
    """raise _Guard inside the block once it has used `seconds` of CPU time (ITIMER_VIRTUAL: independent of the
    machine load and of the shard's SIGALRM wall-clock watchdog)"""

    def __init__(self, seconds):
        self.seconds = seconds

    @staticmethod
    def _fire(*_):
        raise _Guard()

    def __enter__(self):
        self.old = signal.signal(signal.SIGVTALRM, self._fire)
        signal.setitimer(signal.ITIMER_VIRTUAL, self.seconds)

    def __exit__(self, *exc):
        signal.setitimer(signal.ITIMER_VIRTUAL, 0)
        signal.signal(signal.SIGVTALRM, self.old)
        return False


class Reg:
    __slots__ = ("D", "M", "A", "dig", "links")

    def __init__(self, D, M, A):
        self.D, self.M, self.A = D, M, A
        self.dig = _dig(D)
        self.links = []      # (operation, operand registers) that produced / updated this carrier


# ----------------------------------------------------------------------------- the program executor
class Prog:
    def __init__(self, pym, ctx, rng, force="xxx", deterministic=False, maxdim=5):
        self.DC = pym.DyadCarrier
        self.ctx, self.rng = ctx, rng
        self.force = force          # per role (u, v, operand): 'r' real, 'c' complex, 'x' random
        self.det = deterministic    # operate on self.focus instead of a random register
        self.regs, self.ext = [], []
        self.focus = None
        self.last_src = None
        self.last_partner = None
        self.maxdim = maxdim
        self.trace = []
        self.cur = "construct"

    # ---- random material
    def cflag(self, role):
        f = self.force["uvo".index(role)]
        if f == "r":
            return False
        if f == "c":
            return True
        return bool(self.rng.random() < 0.35)

    def arr(self, shape, cplx):
        a = self.rng.standard_normal(shape)
        if cplx:
            t = self.rng.random()
            if t < 0.10:          # purely imaginary
                a = 1j * a
            elif t < 0.15:        # complex dtype, zero imaginary part
                a = a + 0j
            else:
                a = a + 1j * self.rng.standard_normal(shape)
        return a

    def vec(self, n, role):
        """one model vector; hostile kinds only when the dtype mixture is not forced"""
        rng = self.rng
        c = self.cflag(role)
        if self.force == "xxx":
            t = rng.random()
            if t < 0.07:
                return np.zeros(n, dtype=complex if c else float)
            if t < 0.14 and not c:
                return rng.integers(-2, 3, n)
            if t < 0.20:
                a = self.arr(n, c)
                a[rng.random(n) < 0.5] = 0
                return a
            if t < 0.26 and c and n >= 2:
                # a non-zero complex vector whose *bilinear* self-product u.u is exactly zero (circular polarisation (1, i, 0)):
                # it is not a zero vector
                a = np.zeros(n, dtype=complex)
                i, j = rng.choice(n, 2, replace=False)
                sc = float(rng.choice([0.5, 1.0, 2.0]))
                a[i], a[j] = sc, 1j * sc * float(rng.choice([-1, 1]))
                return a
        return self.arr(n, c)

    def balance(self, us, vs):
        """badly scaled dyads: one factor tiny, the other huge, product O(1) (e.g. a normalised mode shape times a force in N);
        only in the unforced dtype mode and only for floating-point vectors"""
        if self.force != "xxx":
            return
        for i in range(len(us)):
            if self.rng.random() < 0.08 and us[i].dtype.kind in "fc" and vs[i].dtype.kind in "fc":
                k = float(10.0 ** self.rng.integers(6, 13))
                if self.rng.random() < 0.5:
                    us[i], vs[i] = us[i] / k, vs[i] * k
                else:
                    us[i], vs[i] = us[i] * k, vs[i] / k

    def operand(self, shape):
        return self.arr(shape, self.cflag("o"))

    def sparse(self, shape, fmt=None):
        rng = self.rng
        B = self.operand(shape) * (rng.random(shape) < 0.6)
        # coo_array is left out: in scipy 1.18  vector @ coo_array((n, 1))  returns a 0-d scalar (scipy quirk)
        fmt = fmt or ["csr_matrix", "csc_matrix", "coo_matrix", "csr_array", "csc_array"][int(rng.integers(5))]
        return getattr(sps, fmt)(B)

    def keep(self, *objs):
        """register operands handed to the class: they must never change"""
        for o in objs:
            if o is not None:
                self.ext.append((o, digest(o), _label(self.cur)))
        return objs[0] if len(objs) == 1 else objs

    # ---- judging
    def check(self, variant, R, Mref, Aref):
        ctx = self.ctx
        op = _label(variant)
        Mref = np.asarray(Mref)
        if isinstance(R, self.DC):
            require(tuple(R.shape) == tuple(Mref.shape), f"{op}/result-shape", variant=variant, got=R.shape,
                    want=Mref.shape)
            X = R.todense()
            if hasattr(R, "toarray") and self.rng.random() < 0.2:      # the scipy.sparse-style alias of todense()
                X2 = np.asarray(R.toarray())
                require(X2.shape == X.shape and X2.dtype == X.dtype and bool(np.array_equal(X2, X, equal_nan=True)),
                        f"{op}/toarray-differs-from-todense", variant=variant)
                ctx.count("toarray_compared")
        else:
            X = np.asarray(R)
        require(X.dtype != object, f"{op}/result-is-not-numeric", got=repr(R)[:100])
        require(X.shape == Mref.shape, f"{op}/result-shape", variant=variant, got=X.shape, want=Mref.shape,
                trace=self.trace[-6:])
        scale = float(np.max(np.abs(Aref))) if np.size(Aref) else 0.0
        tol = RTOL * max(scale, 1e-300)
        ctx.count("type_checks")
        if np.iscomplexobj(X) and not np.iscomplexobj(Mref):
            raise Violation(f"{op}/result-complex-although-dense-result-is-real", variant=variant, got=str(X.dtype),
                            want=str(Mref.dtype), trace=self.trace[-6:])
        if not np.iscomplexobj(X) and np.iscomplexobj(Mref):
            im = float(np.max(np.abs(Mref.imag))) if Mref.size else 0.0
            if im > tol:
                raise Violation(f"{op}/result-real-although-dense-result-has-imaginary-part", variant=variant,
                                max_imag=im, got=X, want=Mref, trace=self.trace[-6:])
            ctx.count("type_relaxed_real_result_for_complex_zero")
        if X.size:
            require(bool(np.all(np.isfinite(X))), f"{op}/result-not-finite", got=X)
            err = float(np.max(np.abs(X - Mref)))
            if not err <= tol:
                raise Violation(f"{op}/result-value", variant=variant, err=err, tol=tol, got=X, want=Mref,
                                trace=self.trace[-6:])
        ctx.count("entries_compared", int(X.size))
        ctx.count("ops_checked")

    def purity(self, variant, target=None, operands=(), mark=0):
        """nothing but the in-place target may have changed"""
        n = 0
        op = _label(variant)
        for r in self.regs:
            if r is target or (target is not None and r.D is target.D):
                continue
            n += 1
            if _dig(r.D) != r.dig:
                if any(r is o for o in operands):
                    raise Violation(f"{op}/changes-its-operand", variant=variant, trace=self.trace[-6:])
                culprit = self._culprit(r, target) if target is not None else None
                if culprit:     # an earlier operation left the two carriers on the same vectors
                    raise Violation(f"{culprit}/result-shares-storage-with-its-operand", revealed_by=variant,
                                    trace=self.trace[-6:])
                raise Violation(f"{op}/changes-another-carrier-through-shared-storage", variant=variant,
                                trace=self.trace[-6:])
        for i, (o, d, lab) in enumerate(self.ext):
            n += 1
            if digest(o) != d:
                if i >= mark:
                    raise Violation(f"{op}/changes-its-array-operand", variant=variant, operand_type=type(o).__name__,
                                    trace=self.trace[-6:])
                raise Violation(f"{lab}/result-shares-storage-with-its-array-operand", revealed_by=variant,
                                operand_type=type(o).__name__, trace=self.trace[-6:])
        if target is not None:
            target.dig = _dig(target.D)
            for r in self.regs:      # the same object held twice (a result that *is* its operand)
                if r is not target and r.D is target.D:
                    if not (r.M.shape == target.M.shape and np.array_equal(r.M, target.M)):
                        culprit = self._culprit(r, target) or op
                        raise Violation(f"{culprit}/result-shares-storage-with-its-operand", revealed_by=variant,
                                        note="an operation returned its operand itself instead of a new carrier",
                                        trace=self.trace[-6:])
                    r.dig = target.dig
            if len(self.regs) > 1:
                self.ctx.count("inplace_with_bystanders")
        self.ctx.count("purity_digests", n)

    @staticmethod
    def _culprit(a, b):
        for x, y in ((a, b), (b, a)):
            for lab, ops in reversed(x.links):
                if any(o is y for o in ops):
                    return lab
        return None

    def new(self, op, R, M, A, operands=(), mark=0):
        self.check(op, R, M, A)
        self.purity(op, None, operands, mark)
        if isinstance(R, self.DC):
            r = Reg(R, np.array(M), np.array(A, dtype=float))
            r.links.append((_label(op), tuple(operands)))
            self.regs.append(r)
            self.focus = r
            return r
        return None

    def value(self, op, R, Mref, Aref, operands=(), mark=0):
        self.check(op, R, Mref, Aref)
        self.purity(op, None, operands, mark)

    def inplace(self, op, r, R, M, A, operands=(), mark=0):
        r.D, r.M, r.A = R, np.array(M), np.array(A, dtype=float)
        r.links.append((_label(op), tuple(operands)))
        self.check(op, R, r.M, r.A)
        self.purity(op, r, operands, mark)
        self.focus = r

    # ---- registers
    def pick(self):
        if self.det and self.focus is not None:
            r = self.focus
        elif len(self.regs) == 1 or self.rng.random() < 0.7:
            r = self.regs[-1]
        else:
            r = self.regs[int(self.rng.integers(len(self.regs)))]
        if r.D.n_dyads == 0:
            self.ctx.count("ops_on_empty_carrier")
        if r.D.n_dyads > 0:
            kinds = {np.iscomplexobj(x) for x in list(r.D.u) + list(r.D.v)}
            if len(kinds) == 2:
                self.ctx.count("ops_mixed_real_complex")
        return r

    def partner(self, r, allow_same=True):
        cands = [q for q in self.regs if q.M.shape == r.M.shape and (allow_same or q.D is not r.D)]
        if cands and not self.det and self.rng.random() < 0.4:
            e = cands[int(self.rng.integers(len(cands)))]
        else:
            e = self.make(*r.M.shape)
        self.last_partner = e
        return e

    # ---- construction (also an operation of the statement)
    def make(self, n, m, k=None):
        rng = self.rng
        mark = len(self.ext)
        outer, self.cur = self.cur, "construct"
        if k is None:
            k = int(rng.integers(0, 5))
        us = [self.vec(n, "u") for _ in range(k)]
        vs = [self.vec(m, "v") for _ in range(k)]
        self.balance(us, vs)
        variants = ["list", "tuple", "keyword", "incremental", "block"]
        if k >= 1:
            variants.append("list_noshape")
        if k == 1:
            variants += ["bare", "bare_noshape"]
        if n == m:
            variants.append("sym")
        if n == 1 and m == 1 and k >= 1:
            variants.append("scalars")
        if (n == 1 or m == 1) and k >= 1:
            variants += ["zerod", "zerod"]
        var = variants[int(rng.integers(len(variants)))]
        self.trace.append(f"construct[{var},k={k},{n}x{m}]")
        fac = [1.0] * k
        if var == "sym":
            vs = [u for u in us]
            D = self.DC(self.keep(us), shape=(n, m)) if rng.random() < 0.5 or k == 0 else self.DC(self.keep(us))
        elif var == "list":
            D = self.DC(self.keep(us), self.keep(vs), shape=(n, m))
        elif var == "keyword":
            D = self.DC(u=self.keep(us), v=self.keep(vs), shape=(n, m))
        elif var == "list_noshape":
            D = self.DC(self.keep(us), self.keep(vs))
        elif var == "tuple":
            D = self.DC(self.keep(tuple(us)), self.keep(tuple(vs)), shape=(n, m))
        elif var == "bare":
            D = self.DC(self.keep(us[0]), self.keep(vs[0]), shape=(n, m))
        elif var == "bare_noshape":
            D = self.DC(self.keep(us[0]), self.keep(vs[0]))
        elif var == "scalars":
            ub = [u[0] for u in us]
            vb = [v[0] for v in vs]
            D = self.DC(ub, vb, shape=(1, 1)) if rng.random() < 0.5 else self.DC(ub, vb)
        elif var == "zerod":
            # the length-1 factor is handed over as a 0-d array (a scalar signal's state): it stays the caller's
            ub = [np.array(u[0]) if n == 1 else u for u in us]
            vb = [np.array(v[0]) if m == 1 else v for v in vs]
            if k == 1 and rng.random() < 0.5:
                D = self.DC(self.keep(ub[0]), self.keep(vb[0]), shape=(n, m))
            else:
                D = self.DC(self.keep(ub), self.keep(vb), shape=(n, m))
            for x in ub + vb:
                self.keep(x)
        elif var == "block":
            # blocks are summed over all but the last axis:  (sum_a U_a) (sum_b V_b)^T
            ub, vb = [], []
            for lst, out, ln in ((us, ub, n), (vs, vb, m)):
                for i, x in enumerate(lst):
                    t = rng.random()
                    if t < 0.3:
                        out.append(x)
                        continue
                    lead = (int(rng.integers(1, 4)),) if t < 0.7 else (int(rng.integers(1, 3)), int(rng.integers(1, 3)))
                    blk = self.arr(lead + (ln,), np.iscomplexobj(x))
                    out.append(blk)
                    lst[i] = blk.sum(axis=tuple(range(blk.ndim - 1)))
            if k == 1 and rng.random() < 0.5:
                D = self.DC(self.keep(ub[0]), self.keep(vb[0]), shape=(n, m))
            else:
                D = self.DC(self.keep(ub), self.keep(vb), shape=(n, m))
            for x in ub + vb:
                self.keep(x)
        else:  # incremental: empty carrier, then add_dyad in chunks, some with a real factor
            D = self.DC(shape=(n, m))
            i = 0
            while i < k:
                j = int(rng.integers(i + 1, k + 1))
                f = None if rng.random() < 0.5 else float(rng.standard_normal())
                if n == m and rng.random() < 0.3:
                    # the symmetric form: v omitted means v = u (also with a factor: fac * u u^T)
                    for t in range(i, j):
                        vs[t] = us[t]
                    ret = D.add_dyad(self.keep(us[i:j]), fac=f) if f is not None else D.add_dyad(self.keep(us[i:j]))
                    self.ctx.count("symmetric_add_dyad")
                else:
                    ret = D.add_dyad(self.keep(us[i:j]), self.keep(vs[i:j]), fac=f) if f is not None else \
                        D.add_dyad(self.keep(us[i:j]), self.keep(vs[i:j]))
                for t in range(i, j):
                    fac[t] = 1.0 if f is None else f
                i = j
        for x in us + vs:
            self.keep(x)
        cplx = any(np.iscomplexobj(x) for x in us + vs)
        M = np.zeros((n, m), dtype=complex if cplx else float)
        A = np.zeros((n, m))
        for f, u, v in zip(fac, us, vs):
            M = M + f * (np.asarray(u)[:, None] * np.asarray(v)[None, :])
            A = A + abs(f) * (np.abs(u)[:, None] * np.abs(v)[None, :])
        reg = self.new("construct", D, M, A, mark=mark)
        self.cur = outer
        return reg

    # ---- index material
    def axis_index(self, n, kind):
        """(subscript, ok) for one axis of length n"""
        rng = self.rng
        if kind == "full":
            return slice(None), True
        if kind == "int":
            if n == 0:
                return None, False
            return int(rng.integers(-n, n)), True
        if kind == "slice":
            a = int(rng.integers(0, n + 1))
            b = int(rng.integers(a, n + 1))
            if rng.random() < 0.6 and n > 0:
                a = int(rng.integers(0, n))
                b = int(rng.integers(a + 1, n + 1))
            return slice(a, b), True
        if kind == "slice_step":
            a = [None, int(rng.integers(-n - 1, n + 2))][int(rng.integers(2))]
            b = [None, int(rng.integers(-n - 1, n + 2))][int(rng.integers(2))]
            s = [-1, 2, -2, 3, 1][int(rng.integers(5))]
            return slice(a, b, s), True
        if kind == "arr":
            if n == 0:
                return np.zeros(0, dtype=int), True
            return rng.integers(-n, n, int(rng.integers(0, 5))), True
        if kind == "mask":
            mk = rng.random(n) < 0.5
            if rng.random() < 0.35:
                return [bool(b) for b in mk], True       # numpy reads a list of bools as a mask, not as indices 0/1
            return mk, True
        if kind == "list":
            if n == 0:
                return None, False
            return [int(x) for x in rng.integers(-n, n, int(rng.integers(1, 4)))], True
        raise KeyError(kind)

    # ---- the operations: each returns False when not applicable to the current shapes
    def run(self, op):
        r = self.pick()
        self.last_src = r
        self.last_partner = None
        self.trace.append(op)
        self.cur = op
        try:
            with _cpu_guard(GUARD_S):
                ok = getattr(self, "op_" + op)(r)
        except _Guard:
            for q in self.regs:       # release whatever the runaway operation piled up
                try:
                    q.D.u.clear()
                    q.D.v.clear()
                except Exception:
                    pass
            self.regs.clear()
            raise Violation(f"{_label(op)}/does-not-terminate", variant=op, cpu_guard_s=GUARD_S, trace=self.trace[-6:])
        if ok is False:
            self.trace.pop()
            return False
        self.ctx.count("op:" + op)
        return True

    def op_construct(self, r):
        rng = self.rng
        hi = self.maxdim
        n, m = (int(rng.integers(1, hi + 1)), int(rng.integers(1, hi + 1))) if not self.det else r.M.shape
        self.make(n, m)

    # carriers with carriers
    def op_add(self, r):
        e = self.partner(r)
        self.new("add", r.D + e.D, r.M + e.M, r.A + e.A, (r, e))

    def op_sub(self, r):
        e = self.partner(r)
        self.new("sub", r.D - e.D, r.M - e.M, r.A + e.A, (r, e))

    def op_add_self(self, r):
        self.new("add_self", r.D + r.D, r.M + r.M, 2 * r.A, (r,))

    def op_sub_self(self, r):
        self.new("sub_self", r.D - r.D, r.M - r.M, 2 * r.A, (r,))

    def op_sum_builtin(self, r):
        e = self.partner(r)
        f = self.partner(r) if self.rng.random() < 0.5 else None
        self.last_partner = e
        lst = [r.D, e.D] + ([f.D] if f else [])
        M = r.M + e.M + (f.M if f else 0)
        A = r.A + e.A + (f.A if f else 0)
        self.new("sum_builtin", sum(lst), M, A, (r, e) + ((f,) if f else ()))

    def op_iadd(self, r):
        e = self.partner(r, allow_same=False)
        self.inplace("iadd", r, operator.iadd(r.D, e.D), r.M + e.M, r.A + e.A, (e,))

    def op_isub(self, r):
        e = self.partner(r, allow_same=False)
        self.inplace("isub", r, operator.isub(r.D, e.D), r.M - e.M, r.A + e.A, (e,))

    def op_add_dyad(self, r):
        n, m = r.M.shape
        mark = len(self.ext)
        k = int(self.rng.integers(0, 3))
        us = [self.vec(n, "u") for _ in range(k)]
        vs = [self.vec(m, "v") for _ in range(k)]
        self.balance(us, vs)
        f = None if self.rng.random() < 0.4 else float(self.rng.standard_normal())
        M, A = r.M, r.A
        for u, v in zip(us, vs):
            M = M + (1.0 if f is None else f) * (u[:, None] * v[None, :])
            A = A + (1.0 if f is None else abs(f)) * (np.abs(u)[:, None] * np.abs(v)[None, :])
        self.keep(us, vs, *us, *vs)
        if k == 1 and self.rng.random() < 0.5:
            ret = r.D.add_dyad(us[0], vs[0], f) if f is not None else r.D.add_dyad(us[0], vs[0])
        else:
            ret = r.D.add_dyad(us, vs, fac=f) if f is not None else r.D.add_dyad(us, vs)
        self.inplace("add_dyad", r, r.D, M, A, (), mark)

    def op_matmul_dyad(self, r):
        n, m = r.M.shape
        p = int(self.rng.integers(1, 5))
        e = self.make(m, p)
        self.last_partner = e
        self.new("matmul_dyad", r.D @ e.D, r.M @ e.M, r.A @ e.A, (r, e))

    def op_matmul_self(self, r):
        if r.M.shape[0] != r.M.shape[1]:
            return False
        self.new("matmul_self", r.D @ r.D, r.M @ r.M, r.A @ r.A, (r,))

    # additive identity
    def _zero(self, left=False):
        z = [0, 0.0, np.array(0.0), np.array(0)] + ([] if left else [np.float64(0.0)])
        return z[int(self.rng.integers(len(z)))]

    def op_add_zero(self, r):
        self.new("add_zero", r.D + self._zero(), r.M, r.A, (r,))

    def op_radd_zero(self, r):
        self.new("radd_zero", self._zero(True) + r.D, r.M, r.A, (r,))

    def op_sub_zero(self, r):
        self.new("sub_zero", r.D - self._zero(), r.M, r.A, (r,))

    def op_rsub_zero(self, r):
        self.new("rsub_zero", self._zero(True) - r.D, -r.M, r.A, (r,))

    def op_pos(self, r):
        self.new("pos", +r.D, r.M, r.A, (r,))

    # carriers with dense matrices (dense result)
    def _bcast(self, shape):
        n, m = shape
        t = int(self.rng.integers(5))
        shp = [(n, m), (n, m), (m,), (1, m), (n, 1)][t]
        return self.keep(self.operand(shp))

    def op_add_dense(self, r):
        mark = len(self.ext)
        B = self._bcast(r.M.shape)
        self.value("add_dense", r.D + B, r.M + B, r.A + np.abs(B), (r,), mark)

    def op_radd_dense(self, r):
        mark = len(self.ext)
        B = self._bcast(r.M.shape)
        self.value("radd_dense", B + r.D, B + r.M, r.A + np.abs(B), (r,), mark)

    def op_sub_dense(self, r):
        mark = len(self.ext)
        B = self._bcast(r.M.shape)
        self.value("sub_dense", r.D - B, r.M - B, r.A + np.abs(B), (r,), mark)

    def op_rsub_dense(self, r):
        mark = len(self.ext)
        B = self._bcast(r.M.shape)
        self.value("rsub_dense", B - r.D, B - r.M, r.A + np.abs(B), (r,), mark)

    # unary
    def op_neg(self, r):
        self.new("neg", -r.D, -r.M, r.A, (r,))

    def op_T(self, r):
        self.new("T", r.D.T, r.M.T, r.A.T, (r,))

    def op_transpose(self, r):
        self.new("transpose", r.D.transpose(), r.M.T, r.A.T, (r,))

    def op_conj(self, r):
        self.new("conj", r.D.conj(), np.conj(r.M), r.A, (r,))

    def op_real(self, r):
        if r.D.n_dyads > 200:
            return False
        self.new("real", r.D.real, np.array(np.real(r.M), dtype=float), 2 * r.A, (r,))

    def op_imag(self, r):
        if r.D.n_dyads > 200:
            return False
        self.new("imag", r.D.imag, np.array(np.imag(r.M), dtype=float), 2 * r.A, (r,))

    def op_copy(self, r):
        self.new("copy", r.D.copy(), r.M, r.A, (r,))

    # scalars
    def _scalar(self):
        rng = self.rng
        c = self.cflag("o")
        t = rng.random()
        if t < 0.12:
            return [0, 0.0, 0j, 1, -1][int(rng.integers(5))] if self.force == "xxx" else (0j if c else 0.0)
        x = float(rng.standard_normal())
        if c:
            z = complex(x, float(rng.standard_normal()))
            return [z, np.complex128(z), np.array(z)][int(rng.integers(3))]
        return [x, np.float64(x), np.array(x), int(rng.integers(2, 4)), -int(rng.integers(2, 4))][int(rng.integers(5))]

    def op_mul_scalar(self, r):
        a = self._scalar()
        self.new("mul_scalar", r.D * a, r.M * a, r.A * abs(a), (r,))

    def op_rmul_scalar(self, r):
        a = self._scalar()
        self.new("rmul_scalar", a * r.D, a * r.M, abs(a) * r.A, (r,))

    # matrix products
    def op_matmul_dense(self, r):
        mark = len(self.ext)
        B = self.keep(self.operand((r.M.shape[1], int(self.rng.integers(1, 5)))))
        self.new("matmul_dense", r.D @ B, r.M @ B, r.A @ np.abs(B), (r,), mark)

    def op_rmatmul_dense(self, r):
        mark = len(self.ext)
        B = self.keep(self.operand((int(self.rng.integers(1, 5)), r.M.shape[0])))
        self.new("rmatmul_dense", B @ r.D, B @ r.M, np.abs(B) @ r.A, (r,), mark)

    def op_dot2d(self, r):
        mark = len(self.ext)
        B = self.keep(self.operand((r.M.shape[1], int(self.rng.integers(1, 5)))))
        self.new("dot2d", r.D.dot(B), r.M @ B, r.A @ np.abs(B), (r,), mark)

    def op_matmul_sparse(self, r):
        mark = len(self.ext)
        B = self.keep(self.sparse((r.M.shape[1], int(self.rng.integers(1, 5)))))
        self.new("matmul_sparse", r.D @ B, r.M @ B.toarray(), r.A @ _abs_dense(B), (r,), mark)

    def op_rmatmul_sparse(self, r):
        mark = len(self.ext)
        B = self.keep(self.sparse((int(self.rng.integers(1, 5)), r.M.shape[0])))
        self.new("rmatmul_sparse", B @ r.D, B.toarray() @ r.M, _abs_dense(B) @ r.A, (r,), mark)

    # matrix-vector products
    def op_matvec(self, r):
        mark = len(self.ext)
        b = self.keep(self.operand(r.M.shape[1]))
        self.value("matvec", r.D @ b, r.M @ b, r.A @ np.abs(b), (r,), mark)

    def op_rmatvec(self, r):
        mark = len(self.ext)
        b = self.keep(self.operand(r.M.shape[0]))
        self.value("rmatvec", b @ r.D, b @ r.M, np.abs(b) @ r.A, (r,), mark)

    def op_dot(self, r):
        mark = len(self.ext)
        b = self.keep(self.operand(r.M.shape[1]))
        self.value("dot", r.D.dot(b), r.M @ b, r.A @ np.abs(b), (r,), mark)

    def op_diagonal(self, r):
        n, m = r.M.shape
        self.value("diagonal", r.D.diagonal(), np.diagonal(r.M), np.diagonal(r.A), (r,))
        for k in range(-n - 1, m + 2):
            self.value("diagonal", r.D.diagonal(k), np.diagonal(r.M, k), np.diagonal(r.A, k), (r,))
        self.value("diagonal", r.D.diagonal(k=-1), np.diagonal(r.M, -1), np.diagonal(r.A, -1), (r,))

    # element access (values)
    def _get(self, op, r, kinds):
        n, m = r.M.shape
        mark = len(self.ext)
        i, ok1 = self.axis_index(n, kinds[0])
        j, ok2 = self.axis_index(m, kinds[1])
        if not (ok1 and ok2):
            return False
        for x in (i, j):
            if isinstance(x, (np.ndarray, list)):
                self.keep(x)
        self.trace[-1] = f"{op}[{i!r},{j!r}]"
        got = r.D[i, j]
        Mref, Aref = r.M[i, j], r.A[i, j]
        if isinstance(got, self.DC):
            self.new(op, got, Mref, Aref, (r,), mark)
        else:
            self.value(op, got, Mref, Aref, (r,), mark)

    def op_g_elem(self, r):
        return self._get("g_elem", r, ("int", "int"))

    def op_g_row(self, r):
        return self._get("g_row", r, ("int", "full"))

    def op_g_col(self, r):
        return self._get("g_col", r, ("full", "int"))

    def op_g_rowpart(self, r):
        return self._get("g_rowpart", r, ("int", ["slice", "slice_step"][int(self.rng.integers(2))]))

    def op_g_colpart(self, r):
        return self._get("g_colpart", r, (["slice", "slice_step"][int(self.rng.integers(2))], "int"))

    def op_g_arr_int(self, r):
        return self._get("g_arr_int", r, ("arr", "int"))

    def op_g_int_arr(self, r):
        return self._get("g_int_arr", r, ("int", "arr"))

    def _fancy(self, op, r, shape):
        n, m = r.M.shape
        if n == 0 or m == 0:
            return False
        mark = len(self.ext)
        ii = self.keep(self.rng.integers(-n, n, shape))
        jj = self.keep(self.rng.integers(-m, m, shape))
        self.value(op, r.D[ii, jj], r.M[ii, jj], r.A[ii, jj], (r,), mark)

    def op_g_fancy1d(self, r):
        return self._fancy("g_fancy1d", r, (int(self.rng.integers(0, 5)),))

    def op_g_fancy2d(self, r):
        return self._fancy("g_fancy2d", r, (int(self.rng.integers(1, 3)), int(self.rng.integers(1, 4))))

    # slicing (carrier results)
    def op_g_slice(self, r):
        return self._get("g_slice", r, ("slice", "slice"))

    def op_g_slice_step(self, r):
        kinds = [("slice_step", "slice_step"), ("slice_step", "full"), ("full", "slice_step"), ("slice", "slice_step")]
        return self._get("g_slice_step", r, kinds[int(self.rng.integers(4))])

    def op_g_rows_arr(self, r):
        return self._get("g_rows_arr", r, ("arr", ["full", "slice"][int(self.rng.integers(2))]))

    def op_g_cols_arr(self, r):
        return self._get("g_cols_arr", r, (["full", "slice"][int(self.rng.integers(2))], "arr"))

    def op_g_mask(self, r):
        kinds = [("mask", "full"), ("full", "mask"), ("mask", "slice"), ("slice", "mask")]
        return self._get("g_mask", r, kinds[int(self.rng.integers(4))])

    def op_g_list(self, r):
        kinds = [("list", "full"), ("full", "list"), ("list", "slice"), ("slice_step", "list")]
        return self._get("g_list", r, kinds[int(self.rng.integers(4))])

    # zeroing of rows / columns (in place)
    def _zero_out(self, op, r, axis, kind):
        n, m = r.M.shape
        mark = len(self.ext)
        idx, ok = self.axis_index((n, m)[axis], kind)
        if not ok:
            return False
        if isinstance(idx, (np.ndarray, list)):
            self.keep(idx)
        val = [0, 0.0][int(self.rng.integers(2))]
        sub = (idx, slice(None)) if axis == 0 else (slice(None), idx)
        self.trace[-1] = f"{op}[{sub!r}]"
        M, A = r.M.copy(), r.A.copy()
        M[sub] = 0
        A[sub] = 0
        r.D[sub] = val
        self.inplace(op, r, r.D, M, A, (), mark)

    def op_z_row(self, r):
        return self._zero_out("z_row", r, 0, "int")

    def op_z_col(self, r):
        return self._zero_out("z_col", r, 1, "int")

    def op_z_rows_slice(self, r):
        return self._zero_out("z_rows_slice", r, 0, ["slice", "slice_step"][int(self.rng.integers(2))])

    def op_z_cols_slice(self, r):
        return self._zero_out("z_cols_slice", r, 1, ["slice", "slice_step"][int(self.rng.integers(2))])

    def op_z_rows_arr(self, r):
        return self._zero_out("z_rows_arr", r, 0, "arr")

    def op_z_cols_arr(self, r):
        return self._zero_out("z_cols_arr", r, 1, "arr")

    def op_z_rows_mask(self, r):
        return self._zero_out("z_rows_mask", r, 0, "mask")

    def op_z_cols_mask(self, r):
        return self._zero_out("z_cols_mask", r, 1, "mask")

    def op_z_rows_list(self, r):
        return self._zero_out("z_rows_list", r, int(self.rng.integers(2)), "list")

    # contractions
    def _idx(self, n, shape):
        return self.rng.integers(0, n, shape)

    def _contract(self, op, r, B, rows, cols, mark):
        args = [B, rows, cols]
        Bd = None if B is None else _dense(B)
        ref = _ref_contract(r.M, Bd, rows, cols)
        sc = _ref_contract(r.A, None if B is None else np.abs(Bd), rows, cols)
        for x in args:
            self.keep(x)
        form = int(self.rng.integers(2))
        if cols is None and rows is None:
            got = r.D.contract(B) if (B is not None or form) else r.D.contract()
        elif cols is None:
            got = r.D.contract(B, rows) if form else r.D.contract(B, rows=rows)
        elif rows is None:
            got = r.D.contract(B, cols=cols)
        else:
            got = r.D.contract(B, rows, cols) if form else r.D.contract(mat=B, rows=rows, cols=cols)
        self.value(op, got, ref, sc, (r,), mark)

    def op_contract_trace(self, r):
        if r.M.shape[0] != r.M.shape[1]:
            return False
        self._contract("contract_trace", r, None, None, None, len(self.ext))

    def op_contract_mat(self, r):
        self._contract("contract_mat", r, self.operand(r.M.shape), None, None, len(self.ext))

    def op_contract_sparse(self, r):
        self._contract("contract_sparse", r, self.sparse(r.M.shape), None, None, len(self.ext))

    def _nr(self):
        return int(self.rng.integers(1, 4))

    def op_contract_rows(self, r):
        n, m = r.M.shape
        if n == 0:
            return False
        a = self._nr()
        self._contract("contract_rows", r, self.operand((a, m)), self._idx(n, a), None, len(self.ext))

    def op_contract_cols(self, r):
        n, m = r.M.shape
        if m == 0:
            return False
        b = self._nr()
        self._contract("contract_cols", r, self.operand((n, b)), None, self._idx(m, b), len(self.ext))

    def op_contract_rows_cols(self, r):
        n, m = r.M.shape
        if n == 0 or m == 0:
            return False
        a, b = self._nr(), self._nr()
        self._contract("contract_rows_cols", r, self.operand((a, b)), self._idx(n, a), self._idx(m, b), len(self.ext))

    def op_contract_nomat_sliced(self, r):
        n, m = r.M.shape
        if n == 0 or m == 0:
            return False
        a = self._nr()
        self._contract("contract_nomat_sliced", r, None, self._idx(n, a), self._idx(m, a), len(self.ext))

    def op_contract_sparse_sliced(self, r):
        n, m = r.M.shape
        if n == 0 or m == 0:
            return False
        a, b = self._nr(), self._nr()
        t = int(self.rng.integers(3))
        if t == 0:
            self._contract("contract_sparse_sliced", r, self.sparse((a, m)), self._idx(n, a), None, len(self.ext))
        elif t == 1:
            self._contract("contract_sparse_sliced", r, self.sparse((n, b)), None, self._idx(m, b), len(self.ext))
        else:
            self._contract("contract_sparse_sliced", r, self.sparse((a, b)), self._idx(n, a), self._idx(m, b), len(self.ext))

    def op_contract_batch_mat(self, r):
        P = int(self.rng.integers(1, 4))
        self._contract("contract_batch_mat", r, self.operand((P,) + r.M.shape), None, None, len(self.ext))

    def op_contract_batch2_mat(self, r):
        P, Q = int(self.rng.integers(1, 3)), int(self.rng.integers(1, 4))
        self._contract("contract_batch2_mat", r, self.operand((P, Q) + r.M.shape), None, None, len(self.ext))

    def op_contract_batch_rows(self, r):
        n, m = r.M.shape
        if n == 0:
            return False
        P, a = int(self.rng.integers(1, 4)), self._nr()
        self._contract("contract_batch_rows", r, self.operand((a, m)), self._idx(n, (P, a)), None, len(self.ext))

    def op_contract_batch_cols(self, r):
        n, m = r.M.shape
        if m == 0:
            return False
        P, b = int(self.rng.integers(1, 4)), self._nr()
        B = self.operand((n, b)) if self.rng.random() < 0.5 else self.operand((P, n, b))
        self._contract("contract_batch_cols", r, B, None, self._idx(m, (P, b)), len(self.ext))

    def op_contract_batch_mat_rows1d(self, r):
        n, m = r.M.shape
        if n == 0 or m == 0:
            return False
        P, a, b = int(self.rng.integers(1, 4)), self._nr(), self._nr()
        t = int(self.rng.integers(3))
        if t == 0:
            self._contract("contract_batch_mat_rows1d", r, self.operand((P, a, m)), self._idx(n, a), None, len(self.ext))
        elif t == 1:
            self._contract("contract_batch_mat_rows1d", r, self.operand((P, a, m)), self._idx(n, (P, a)), None, len(self.ext))
        else:
            self._contract("contract_batch_mat_rows1d", r, self.operand((P, a, b)), self._idx(n, (P, a)), self._idx(m, b),
                           len(self.ext))

    def op_contract_batch_all(self, r):
        n, m = r.M.shape
        if n == 0 or m == 0:
            return False
        lead = (int(self.rng.integers(1, 4)),) if self.rng.random() < 0.7 else (2, int(self.rng.integers(1, 3)))
        a, b = self._nr(), self._nr()
        self._contract("contract_batch_all", r, self.operand(lead + (a, b)), self._idx(n, lead + (a,)),
                       self._idx(m, lead + (b,)), len(self.ext))

    def op_contract_batch_nomat(self, r):
        n, m = r.M.shape
        if n == 0 or m == 0:
            return False
        P, a = int(self.rng.integers(1, 4)), self._nr()
        t = int(self.rng.integers(3))
        rows = self._idx(n, (P, a)) if t != 1 else self._idx(n, a)
        cols = self._idx(m, (P, a)) if t != 2 else self._idx(m, a)
        self._contract("contract_batch_nomat", r, None, rows, cols, len(self.ext))

    def op_contract_multi(self, r):
        rng = self.rng
        mark = len(self.ext)
        L = int(rng.integers(1, 4))
        c = self.cflag("o")
        mats = []
        for i in range(L):
            t = rng.random()
            if i > 0 and t < 0.15:
                mats.append(None)
                continue
            B = self.arr(r.M.shape, c) * (rng.random(r.M.shape) < 0.6)
            if t > 0.9:
                mats.append(B)                      # dense entries fall back to contract()
            else:
                fmt = ["coo_matrix", "coo_matrix", "csr_matrix", "csc_matrix", "coo_array"][int(rng.integers(5))]
                mats.append(getattr(sps, fmt)(B))
        self.keep(mats, *mats)
        ref = np.array([0.0 if B is None else np.sum(r.M * _dense(B)) for B in mats])
        sc = np.array([0.0 if B is None else np.sum(r.A * _abs_dense(B)) for B in mats])
        if rng.random() < 0.25:
            dt = np.result_type(r.M.dtype, complex if c else float)
            got = r.D.contract_multi(mats, dtype=dt)
        else:
            got = r.D.contract_multi(mats)
        self.value("contract_multi", got, ref, sc, (r,), mark)

    # ---- final sweep: every live carrier still is its dense shadow
    def sweep(self):
        for r in self.regs:
            self.check("final-state", r.D, r.M, r.A)
        self.purity("final-state")


# ----------------------------------------------------------------------------- corner programs
def _corner(name, pym, ctx):
    rng = ctx.rng("corner", name)
    DC = pym.DyadCarrier
    n, m = 3, 3
    us = [rng.standard_normal(n) for _ in range(2)]
    vs = [rng.standard_normal(m) for _ in range(2)]
    M = sum(np.outer(u, v) for u, v in zip(us, vs))
    D = DC(us, vs, shape=(n, m))
    P = Prog(pym, ctx, rng)
    A = sum(np.outer(np.abs(u), np.abs(v)) for u, v in zip(us, vs))
    P.check("construct", D, M, A)
    if name in ("iadd_self", "isub_self"):
        done = False
        try:
            with _cpu_guard(0.4):
                D2 = operator.iadd(D, D) if name == "iadd_self" else operator.isub(D, D)
                done = True
        except _Guard:
            pass
        if not done:
            nd = len(D.u)
            D.u.clear()
            D.v.clear()
            raise Violation("inplace-add-of-a-carrier-to-itself-does-not-terminate", operation=name,
                            dyads_stored_when_stopped=nd, cpu_guard_s=0.4, dense_result="2*M (iadd) / 0 (isub)")
        P.check(name, D2, 2 * M if name == "iadd_self" else 0 * M, 2 * A)
    elif name == "zero_all":
        before = _dig(D)
        D[:, :] = 0
        if _dig(D) == before:
            raise Violation("setitem/zeroing-with-two-full-slices-changes-nothing", statement="D[:, :] = 0",
                            got=D.todense(), want=np.zeros((n, m)))
        P.check("zero_all", D, np.zeros((n, m)), A)
    elif name == "index_lists":
        ii, jj = [0, 1], [1, 2]
        got = D[ii, jj]
        want = M[ii, jj]
        X = got.todense() if isinstance(got, DC) else np.asarray(got)
        if X.shape != want.shape and X.shape == (2, 2):
            raise Violation("getitem/two-index-lists-select-a-block-instead-of-pointwise-entries",
                            subscript=[ii, jj], got=X, want=want)
        P.check("index_lists", got, want, A[ii, jj])
    elif name == "contract_multi_mixed":
        B1 = sps.coo_matrix(rng.standard_normal((n, m)))
        B2 = sps.coo_matrix(rng.standard_normal((n, m)) + 1j * rng.standard_normal((n, m)))
        got = np.asarray(D.contract_multi([B1, B2]))
        want = np.array([np.sum(M * B1.toarray()), np.sum(M * B2.toarray())])
        if got.shape == want.shape and not np.iscomplexobj(got) and abs(got[0] - want[0]) < 1e-10 and \
                abs(got[1] - want[1].real) < 1e-10 and abs(want[1].imag) > 1e-6:
            raise Violation("contract_multi/real-first-matrix-fixes-a-real-result-and-drops-imaginary-parts",
                            got=got, want=want)
        P.check("contract_multi_mixed", got, want, np.array([np.sum(A * np.abs(B1.toarray())),
                                                              np.sum(A * np.abs(B2.toarray()))]))
    else:
        raise Skip("unknown corner")
    return {"key": "corner:" + name, "nontrivial": True, "obs": {"corner": name}}


# ----------------------------------------------------------------------------- run_case
def _draw_op(rng):
    w = np.array([x for _, x in FAMILIES], dtype=float)
    fam = FAMILIES[int(rng.choice(len(FAMILIES), p=w / w.sum()))][0]
    return fam[int(rng.integers(len(fam)))]


def run_case(case, ctx):
    import pymoto as pym
    kind = case["kind"]
    if kind == "corner":
        return _corner(case["name"], pym, ctx)

    if kind == "single":
        rng = ctx.rng("single", case["op"], case["k"], case["dt"], case["rep"])
        P = Prog(pym, ctx, rng, force=case["dt"], deterministic=True)
        n, m = case["shape"]
        P.make(n, m, case["k"])
        if P.run(case["op"]) is False:
            raise Skip("operation not applicable to the planned shape")
        P.sweep()
        key = f"single:{case['op']}:k{case['k']}:{case['dt']}:{n}x{m}"
    elif kind == "pair":
        op1, op2 = case["ops"]
        rng = ctx.rng("pair", op1, op2, case["on"], case["k"], case["dt"])
        P = Prog(pym, ctx, rng, force=case["dt"], deterministic=True)
        n, m = case["shape"]
        P.make(n, m, case["k"])
        if P.run(op1) is False:
            raise Skip("operation not applicable to the planned shape")
        if case["on"] == "source":
            P.focus = P.last_src
        elif case["on"] == "partner":
            if P.last_partner is None:
                raise Skip("operation had no partner")
            P.focus = P.last_partner
        if P.run(op2) is False:
            raise Skip("second operation not applicable to the shape left by the first")
        P.sweep()
        key = f"pair:{op1}>{op2}:{case['on']}:k{case['k']}:{case['dt']}:{n}x{m}"
    elif kind == "seq":
        rng = ctx.rng("seq", case["s"])
        thorough = ctx.tier == "thorough"
        hi = 7 if thorough else 5
        P = Prog(pym, ctx, rng, maxdim=hi)
        dims = [int(rng.integers(1, hi + 1)), int(rng.integers(1, hi + 1))]
        if rng.random() < 0.04:
            dims[int(rng.integers(2))] = 0
        if rng.random() < 0.15:
            dims[1] = dims[0]
        n, m = dims
        k = int(rng.integers(0, 5))
        depth = int(rng.integers(1, (12 if thorough else 8) + 1))
        P.make(n, m, k)
        done, tries = [], 0
        while len(done) < depth and tries < 6 * depth:
            tries += 1
            op = _draw_op(rng)
            if P.run(op) is not False:
                done.append(op)
        P.sweep()
        ctx.count("sequence_steps", len(done))
        key = f"seq:{n}x{m}:k{k}:" + ">".join(done)
    else:
        raise Skip("unknown case kind")
    ctx.log("trace:", " ; ".join(P.trace))
    return {"key": key, "nontrivial": True,
            "obs": {"trace": P.trace[:12], "live_carriers": len(P.regs), "operands_watched": len(P.ext),
                    "dyads_final": [int(r.D.n_dyads) for r in P.regs][:8]}}
