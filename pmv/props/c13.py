"""C13 — structured-grid numbering, connectivity and shape functions are consistent.

Exhaustive enumeration of grid sizes up to a bound (2D and 3D); for every grid the real
DomainDefinition is built and interrogated, and every answer is compared with independent
index arithmetic / geometry written here."""
import itertools

import numpy as np

from ..core import require, Violation

ID = "C13"
LEVEL = "exploration"
MONITORS = []
ANCHORS = ["common/domain.py"]
RULE = ("every (nelx,nely[,nelz]) up to the tier bound is one case (exhaustive), with random element sizes and "
        "ndof 1..4; distinct = distinct grid; non-trivial = grid with >=2 elements")
EXHAUSTIVE = {"quick": True, "thorough": True}
ASSUMPTIONS = ["bounds: quick 2D<=6x6, 3D<=4^3; thorough 2D<=12x12, 3D<=6^3; plus 3 (quick) / 8 (thorough) large grids up to 66 000 nodes (integer-width thresholds)", "1D domains are outside the statement"]
FLOORS = {"quick": {"cases_held": 103, "shape_points": 2000}, "thorough": {"cases_held": 360, "shape_points": 8000}}
TIMEOUT_CASE = 120


def plan(tier, seed):
    b2, b3 = (6, 4) if tier == "quick" else (12, 6)
    cases = [{"n": [i, j, 0]} for i in range(1, b2 + 1) for j in range(1, b2 + 1)]
    cases += [{"n": [i, j, k]} for i in range(1, b3 + 1) for j in range(1, b3 + 1) for k in range(1, b3 + 1)]
    # beyond the enumerated bound: a few grids whose node / dof numbers cross the limits of the narrow integer types
    # (int16: 32767 between nnodes and 4*nnodes, uint16: 65535)
    big = [[128, 128, 0], [25, 25, 25], [181, 180, 0]]
    if tier != "quick":
        big += [[255, 256, 0], [40, 40, 40], [1, 33000, 0], [20000, 1, 0], [31, 32, 33]]
    cases += [{"n": n, "big": True} for n in big]
    return cases


def run_case(case, ctx):
    import pymoto as pym
    nx, ny, nz = case["n"]
    rng = ctx.rng("c13", nx, ny, nz)
    size = rng.uniform(0.3, 3.0, 3)
    dom = pym.DomainDefinition(nx, ny, nz, unitx=size[0], unity=size[1], unitz=size[2])
    dim = 2 if nz == 0 else 3
    require(dom.dim == dim, "dim-wrong", got=dom.dim)
    nzz = max(nz, 1)
    nel, nnod = nx * ny * nzz, (nx + 1) * (ny + 1) * (nz + 1)
    require(dom.nel == nel and dom.nnodes == nnod and dom.elemnodes == 2 ** dim, "counts-wrong",
            nel=dom.nel, nnodes=dom.nnodes)

    # --- node numbers: bijection between Cartesian indices and 0..nnodes-1, inverse, positions
    I, J, K = np.meshgrid(np.arange(nx + 1), np.arange(ny + 1), np.arange(nz + 1), indexing="ij")
    num = np.asarray(dom.get_nodenumber(I, J, K))
    require(num.shape == I.shape, "nodenumber-shape")
    require(sorted(num.ravel().tolist()) == list(range(nnod)), "node-numbering-not-bijective",
            numbers=sorted(num.ravel().tolist())[:20])
    require(np.array_equal(np.asarray(dom.nodes), num), "nodes-helper-differs-from-get_nodenumber")
    # scalar calls agree with array calls
    for _ in range(5):
        i, j, k = int(rng.integers(0, nx + 1)), int(rng.integers(0, ny + 1)), int(rng.integers(0, nz + 1))
        require(int(dom.get_nodenumber(i, j, k)) == int(num[i, j, k]), "nodenumber-scalar-vs-array")
    ijk = np.asarray(dom.get_node_indices(num.ravel()))
    want = np.stack([I.ravel(), J.ravel(), K.ravel()][:dim], axis=0)
    require(ijk.shape == want.shape and np.array_equal(ijk, want), "node-indices-not-inverse-of-numbering")
    ijk_all = np.asarray(dom.get_node_indices())
    inv = np.empty((dim, nnod), dtype=int)
    inv[:, num.ravel()] = want
    require(np.array_equal(ijk_all, inv), "node-indices-default-argument-wrong")
    pos = np.asarray(dom.get_node_position(num.ravel()))
    require(pos.shape == want.shape and np.allclose(pos, want * size[:dim, None], rtol=1e-14, atol=0),
            "node-position-not-index-times-size")

    # --- element numbers
    EI, EJ, EK = np.meshgrid(np.arange(nx), np.arange(ny), np.arange(nzz), indexing="ij")
    enum = np.asarray(dom.get_elemnumber(EI, EJ, EK))
    require(sorted(enum.ravel().tolist()) == list(range(nel)), "element-numbering-not-bijective")
    require(np.array_equal(np.asarray(dom.elements), enum), "elements-helper-differs-from-get_elemnumber")

    # --- connectivity: exactly the 2^dim corners, in the documented local order
    conn = np.asarray(dom.conn)
    require(conn.shape == (nel, 2 ** dim), "conn-shape", shape=conn.shape)
    for (i, j, k) in itertools.product(range(nx), range(ny), range(nzz)):
        e = int(enum[i, j, k])
        expect = []
        for loc in range(2 ** dim):
            di, dj, dk = loc & 1, (loc >> 1) & 1, (loc >> 2) & 1
            expect.append(int(num[i + di, j + dj, (k + dk) if dim == 3 else 0]))
        got = conn[e].tolist()
        if sorted(got) != sorted(expect):
            raise Violation("connectivity-not-the-corner-nodes", element=[i, j, k], got=got, want=expect)
        if got != expect:
            raise Violation("connectivity-local-order-wrong", element=[i, j, k], got=got, want=expect)
        # geometric cross-check through the module's own positions: corner k sits at offset node_numbering[k]
        p = np.asarray(dom.get_node_position(conn[e]))
        c = p.mean(axis=1)
        off = (p - c[:, None]) / (size[:dim, None] / 2)
        nn = np.asarray(dom.node_numbering)[:, :dim].T
        require(np.allclose(off, nn, atol=1e-9), "connectivity-geometry-disagrees-with-node_numbering", element=[i, j, k])
    gc = np.asarray(dom.get_elemconnectivity(EI.ravel(), EJ.ravel(), EK.ravel()))
    require(np.array_equal(gc, conn[enum.ravel()]), "get_elemconnectivity-differs-from-conn")
    # index arrays of any shape (meshgrid / np.indices): entry [a, b, c] holds the connectivity of element (EI[a,b,c], EJ[a,b,c], EK[a,b,c])
    gg = np.asarray(dom.get_elemconnectivity(EI, EJ, EK))
    require(gg.shape == EI.shape + (2 ** dim,) and np.array_equal(gg, conn[enum]), "get_elemconnectivity-with-grid-shaped-indices-wrong",
            got_shape=list(gg.shape), want_shape=list(EI.shape) + [2 ** dim])
    g2 = np.asarray(dom.get_elemconnectivity(EI[:, :, 0], EJ[:, :, 0], EK[:, :, 0]))
    require(g2.shape == EI.shape[:2] + (2 ** dim,) and np.array_equal(g2, conn[enum[:, :, 0]]), "get_elemconnectivity-with-grid-shaped-indices-wrong",
            got_shape=list(g2.shape))

    # --- dof connectivity
    for ndof in (1, 2, 3, 4):
        dc = np.asarray(dom.get_dofconnectivity(ndof))
        exp = np.empty((nel, 2 ** dim * ndof), dtype=int)
        for loc in range(2 ** dim):
            for d in range(ndof):
                exp[:, loc * ndof + d] = conn[:, loc] * ndof + d
        require(dc.shape == exp.shape and np.array_equal(dc, exp), "dofconnectivity-not-per-dof-expansion", ndof=ndof)

    # --- the answers belong to the caller: editing a returned table in place must not change any later answer
    for ndof in (1, 2):
        t = dom.get_dofconnectivity(ndof)
        if isinstance(t, np.ndarray) and t.flags.writeable:
            t += 7
    for t in (dom.get_elemconnectivity(EI.ravel(), EJ.ravel(), EK.ravel()), dom.get_node_indices(num.ravel()), dom.get_node_position(num.ravel())):
        if isinstance(t, np.ndarray) and t.flags.writeable:
            t += 3
    require(np.array_equal(np.asarray(dom.conn), conn), "returned-table-aliases-the-domain-connectivity")
    for ndof in (1, 2):
        exp = np.empty((nel, 2 ** dim * ndof), dtype=int)
        for loc in range(2 ** dim):
            for d in range(ndof):
                exp[:, loc * ndof + d] = conn[:, loc] * ndof + d
        require(np.array_equal(np.asarray(dom.get_dofconnectivity(ndof)), exp), "dofconnectivity-changes-after-caller-edited-an-earlier-answer", ndof=ndof)
    require(np.array_equal(np.asarray(dom.get_elemconnectivity(EI.ravel(), EJ.ravel(), EK.ravel())), conn[enum.ravel()]),
            "elemconnectivity-changes-after-caller-edited-an-earlier-answer")
    require(np.array_equal(np.asarray(dom.get_node_indices(num.ravel())), want), "node-indices-change-after-caller-edited-an-earlier-answer")

    # --- shape functions
    nn = np.asarray(dom.node_numbering, dtype=float)
    pts = [nn[a] * size / 2 for a in range(2 ** dim)] + [np.zeros(3)]
    pts += [rng.uniform(-0.5, 0.5, 3) * size for _ in range(20)]
    for ip, p in enumerate(pts):
        p = np.array(p, dtype=float)
        if dim == 2:
            p[2] = 0.0
        N = np.asarray(dom.eval_shape_fun(p))
        ctx.count("shape_points")
        require(N.shape == (2 ** dim,), "shapefn-shape")
        require(abs(N.sum() - 1) < 1e-12, "shape-functions-not-partition-of-unity", point=p, sum=float(N.sum()))
        require(N.min() > -1e-13, "shape-function-negative", point=p, min=float(N.min()))
        if ip < 2 ** dim:
            e = np.zeros(2 ** dim)
            e[ip] = 1
            require(np.allclose(N, e, atol=1e-12), "shape-function-kronecker-property", corner=ip, N=N)
        # multilinear interpolation of an affine field is exact:  sum_a N_a x_a = p
        corners = nn[:, :dim] * size[:dim] / 2
        require(np.allclose(N @ corners, p[:dim], atol=1e-12), "shape-functions-do-not-interpolate-position")
        dN = np.asarray(dom.eval_shape_fun_der(p))
        require(dN.shape == (dim, 2 ** dim), "shapefn-derivative-shape")
        h = 1e-3
        for d in range(dim):
            e = np.zeros(3)
            e[d] = h * size[d]
            fd = (np.asarray(dom.eval_shape_fun(p + e)) - np.asarray(dom.eval_shape_fun(p - e))) / (2 * h * size[d])
            # central differences are exact for multilinear functions up to rounding
            if not np.allclose(dN[d], fd, rtol=1e-8, atol=1e-9 / size[d]):
                raise Violation("shape-function-derivative-is-not-the-gradient", axis=d, point=p, got=dN[d], fd=fd)
    # --- evaluation points given in single precision (coordinates read from a float32 mesh file): the functions of these points,
    # in double precision (element sizes are doubles)
    for _ in range(4):
        p32 = (rng.uniform(-0.5, 0.5, 3) * size).astype(np.float32)
        if dim == 2:
            p32[2] = 0
        pd = p32.astype(float)
        N32, N64 = np.asarray(dom.eval_shape_fun(p32)), np.asarray(dom.eval_shape_fun(pd))
        d32, d64 = np.asarray(dom.eval_shape_fun_der(p32)), np.asarray(dom.eval_shape_fun_der(pd))
        ctx.count("single_precision_points")
        require(bool(np.allclose(N32, N64, rtol=0, atol=1e-13)) and bool(np.allclose(d32, d64, rtol=1e-13, atol=1e-13 / float(np.min(size[:dim])))),
                "shape-functions-at-single-precision-point-differ-from-double-evaluation", point=pd, err=float(np.max(np.abs(N32 - N64))))
    # --- evaluation points given with an integer type (a list of ints, an index-like array) are points like any other
    sizeI = rng.uniform(2.5, 9.0, 3)
    domI = pym.DomainDefinition(nx, ny, nz, unitx=sizeI[0], unity=sizeI[1], unitz=sizeI[2])
    for _ in range(6):
        pi = np.array([int(rng.integers(-int(sizeI[d] / 2), int(sizeI[d] / 2) + 1)) for d in range(3)])
        if dim == 2:
            pi[2] = 0
        want = np.array([np.prod([0.5 + nn[a, d] * pi[d] / sizeI[d] for d in range(dim)]) for a in range(2 ** dim)])
        for form in (pi, [int(v) for v in pi]):
            Ni = np.asarray(domI.eval_shape_fun(form))
            ctx.count("integer_typed_points")
            require(Ni.shape == want.shape and bool(np.allclose(Ni, want, atol=1e-12)), "shape-functions-at-integer-typed-point-differ-from-formula",
                    point=pi, got=Ni, want=want, size=sizeI)
            dNi = np.asarray(domI.eval_shape_fun_der(form))
            dNf = np.asarray(domI.eval_shape_fun_der(pi.astype(float)))
            require(bool(np.allclose(dNi, dNf, atol=1e-12)), "shape-function-derivatives-at-integer-typed-point-differ-from-float-point", point=pi)
    # --- element sizes given with an integer type (unit cells of 2 x 1 x 3 mm): the domain is the same as with 2.0, 1.0, 3.0
    sizeN = [int(rng.integers(1, 5)) for _ in range(3)]
    forms = [sizeN, [np.int64(v) for v in sizeN], [np.int32(sizeN[0]), sizeN[1], np.int16(sizeN[2])]]
    domF = pym.DomainDefinition(nx, ny, nz, unitx=float(sizeN[0]), unity=float(sizeN[1]), unitz=float(sizeN[2]))
    for sz in forms[:2 if case.get("big") else 3]:
        domN = pym.DomainDefinition(nx, ny, nz, unitx=sz[0], unity=sz[1], unitz=sz[2])
        ctx.count("integer_typed_element_sizes")
        for _ in range(4):
            pf = np.array([rng.uniform(-0.5, 0.5) * sizeN[d] for d in range(3)])
            if dim == 2:
                pf[2] = 0
            want = np.array([np.prod([0.5 + nn[a, d] * pf[d] / sizeN[d] for d in range(dim)]) for a in range(2 ** dim)])
            Nn = np.asarray(domN.eval_shape_fun(pf))
            require(Nn.shape == want.shape and bool(np.allclose(Nn, want, atol=1e-12)), "shape-functions-of-integer-sized-elements-differ-from-formula",
                    point=pf, got=Nn, want=want, size=[int(v) for v in sizeN])
            require(bool(np.allclose(np.asarray(domN.eval_shape_fun_der(pf)), np.asarray(domF.eval_shape_fun_der(pf)), atol=1e-12)),
                    "shape-function-derivatives-of-integer-sized-elements-differ-from-float-sized-domain", point=pf, size=[int(v) for v in sizeN])
        if not case.get("big"):
            require(bool(np.allclose(np.asarray(domN.get_node_position(), dtype=float), np.asarray(domF.get_node_position(), dtype=float), atol=1e-12)),
                    "node-positions-of-integer-sized-elements-differ-from-float-sized-domain", size=[int(v) for v in sizeN])
    # --- instances are independent: customising one domain's local numbering table in place (the docstring allows users to
    # override it) must not leak into domains constructed afterwards
    try:
        dom.node_numbering.reverse()
    except AttributeError:
        pass
    else:
        # ... and the customised domain itself follows its new table everywhere (connectivity, shape functions, derivatives)
        nn2 = np.asarray(dom.node_numbering, dtype=float)
        i0, j0, k0 = int(rng.integers(0, nx)), int(rng.integers(0, ny)), int(rng.integers(0, nzz))
        want_c = [int(num[i0 + int(nn2[a, 0] > 0), j0 + int(nn2[a, 1] > 0), (k0 + int(nn2[a, 2] > 0)) if dim == 3 else 0]) for a in range(2 ** dim)]
        got_c = np.asarray(dom.get_elemconnectivity(i0, j0, k0)).ravel().tolist()
        require(got_c == want_c, "customised-numbering/get_elemconnectivity-does-not-follow-the-table", got=got_c, want=want_c)
        for a in range(2 ** dim):
            pc = nn2[a] * size / 2 * np.array([1, 1, 1 if dim == 3 else 0])
            Na = np.asarray(dom.eval_shape_fun(pc))
            ea = np.zeros(2 ** dim)
            ea[a] = 1
            require(bool(np.allclose(Na, ea, atol=1e-12)), "customised-numbering/shape-functions-do-not-follow-the-table", corner=a, N=Na)
        pr = rng.uniform(-0.4, 0.4, 3) * size * np.array([1, 1, 1 if dim == 3 else 0])
        dNr = np.asarray(dom.eval_shape_fun_der(pr))
        for d in range(dim):
            e = np.zeros(3)
            e[d] = 1e-3 * size[d]
            fd = (np.asarray(dom.eval_shape_fun(pr + e)) - np.asarray(dom.eval_shape_fun(pr - e))) / (2e-3 * size[d])
            require(bool(np.allclose(dNr[d], fd, rtol=1e-8, atol=1e-9 / size[d])), "customised-numbering/derivatives-are-not-the-gradients-of-the-shape-functions", axis=d)
        ctx.count("customised_numbering_checked")
    dom2 = pym.DomainDefinition(nx, ny, nz, unitx=size[0], unity=size[1], unitz=size[2])
    require(np.array_equal(np.asarray(dom2.conn), conn), "new-domain-inherits-customised-numbering-of-another-instance")
    N0 = np.asarray(dom2.eval_shape_fun(np.asarray(nn[0]) * size / 2 * np.array([1, 1, 1 if dim == 3 else 0])))
    e0 = np.zeros(2 ** dim)
    e0[0] = 1
    require(np.allclose(N0, e0, atol=1e-12), "new-domain-shape-functions-follow-another-instance's-numbering")
    return {"key": f"{nx}x{ny}x{nz}", "nontrivial": nel >= 2,
            "obs": {"nel": nel, "nnodes": nnod, "size": size, "conn0": conn[0], "points": len(pts)}}
