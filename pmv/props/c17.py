"""C17 — the optimality-criteria update keeps bounds, move limit and volume, converges on sum c_i/x_i and
writes the new designs back to the right variable signals.

Workload: the real ``pymoto.minimize_oc`` is run on small networks built from driver-defined modules
(a recorder that copies the state of every variable signal at every network response, followed by an
objective with a closed-form gradient: sum c/x, sum c/x^p, linear, a coupled compliance-like sum, objectives
with positive or zero gradient entries; as one module, as per-signal partial sums + adder, or behind a scaling
module).  1-3 variable signals of sizes 1-6 (1-D arrays, Python floats, 0-d and 2-D arrays), scalar /
per-variable / default bounds, move limits, volume targets (None, interior, tight, equal to the extreme
volumes, unreachable), stopping tolerances and iteration budgets from 1 to a few hundred.

Oracles (per produced design, i.e. every recorded design after the first and the design left in the signals
at return):
 * bounds:   lo <= x <= hi exactly (np.clip against max(xmin, x-move)/min(xmax, x+move) is exact);
 * move:     |x_new - x_prev| <= move up to two roundings;
 * volume:   an independent model of the clipped OC step x_i(lam) = clip(x_i sqrt(max(-g_i,0)/lam)) with the
             closed-form gradient g; the multipliers at which its volume meets the target are located by an
             independent multisection; as the final bracket of the code is at most l1l2tol wide and contains
             such a multiplier, monotonicity gives  vol(lam_hi+tol) <= sum(x_new) <= vol(lam_lo-tol);
 * write-back: every signal keeps its size at every response and at return; consecutive evaluated designs differ
             (a further response is only reached through a step >= tolx > 0); where the total volume is inside its
             bracket, each signal's state must lie component-wise inside the same monotone bracket
             [x_i(lam_hi+tol), x_i(lam_lo-tol)] of *its* slice of the OC step (stale, swapped, shifted or re-ordered
             slices conserve the volume and are invisible to the other clauses when bounds are uniform);
 * convergence (sum c_i/x_i only): the design at return lies component-wise between the analytic optima
             clip(sqrt(c_i/lam)) for lam = lam* +- l1l2tol (plus tolx*|x| when the run stopped on the step size)."""
import itertools
import math

import numpy as np

from ..core import rng_for

ID = "C17"
LEVEL = "exploration"
MONITORS = []
ANCHORS = ["routines.py", "utils.py"]
RULE = ("case = one minimize_oc run (12 % of the random cases: two consecutive runs, the second restarting from the design "
        "the first left in the signals). Blocks: 'enum' = every layout of 1-3 variable signals with sizes up to the tier "
        "bound (quick 3 plus [4],[5],[6]; thorough 6, i.e. all 258 layouts) x 6 objective classes (thorough: x 3 move "
        "limits x 2 replicates); 'conv' = sum c/x with tolf=0, tight tolx and the iteration budget x layouts x move x "
        "bounds kind; 'corner' = 32 named hostile corners x 8 (thorough 100) replicates; 'rand' = all options drawn at "
        "random; 'big' = up to 5 signals of up to 12 entries. Options not fixed by the block (state kind: 1-D / Python "
        "float / 0-d / 2-D / slices of one base signal, container, bounds kind, start on bounds, volume kind, history "
        "kind, l1l2tol, l1init, l2init, verbosity, objective return type, scale) are drawn from the plan generator and "
        "change with VERIF_SEED; the enumerated layout x objective (x move) grid does not. distinct = (objective, "
        "topology, bounds kind, number of signals, volume kind, move, history kind, slicing, restart); non-trivial = at "
        "least one design was produced")
EXHAUSTIVE = {"quick": False, "thorough": False}
ASSUMPTIONS = [
    "the initial design lies inside [xmin, xmax] (otherwise bounds and move limit cannot both hold) and is not identically zero",
    "bounds: tolerance 0 (clipping is exact); move: |dx| <= move + 1e-15*(|x|+move) (rounding of x-move and of the difference)",
    "volume clause judged when the target is reachable within the move limits by the OC family "
    "x_i(lam)=clip(x_i*sqrt(max(-g_i,0)/lam), max(xmin,x-move), min(xmax,x+move)) for some lam in [l1init, l2init] "
    "(standard OC step with damping 1/2, as in the anchored code); steps whose target is reachable by the box but not by "
    "the family (zero/positive gradient entries, zero design entries, multiplier outside [l1init,l2init]) are counted, not judged",
    "bisection tolerance: the returned multiplier is within l1l2tol of a multiplier at which the model volume equals the "
    "target up to delta=1e-12*(1+sum|upper|) (rounding of the volume sum); hence vol(lam_hi+tol)-delta <= sum(x) <= "
    "vol(lam_lo-tol)+delta, and the same component-wise with eps=1e-12*(1+|x_i|)",
    "write-back is judged slice-wise against the same reference family: signal i must hold entries cum[i]:cum[i+1] of the "
    "concatenated OC step (C-order flattening of N-D states), within the component-wise bracket; reported only when the "
    "total volume is inside its bracket (otherwise the volume mechanism already reports the step)",
    "maxvol=None means the volume of the initial design",
    "convergence is judged for f=sum c_i/x_i (c_i>0, possibly behind a positive diagonal scaling) when the target volume "
    "is feasible (>= sum xmin): at return the design must satisfy x*_i(lam*+tol)-s <= x_i <= x*_i(lam*-tol)+s with "
    "s = 1e-12*(1+|x_i|) (+ tolx*||x|| when the run ended by a stopping criterion). Derivation: a step that is not "
    "move-limited equals x*(lam_c) with |lam_c-lam*|<=tol because clipping is monotone and 1-Lipschitz. A run that ends "
    "by maxit while still move-limited is a violation only if the band [x*(lam*+tol), x*(lam*-tol)] is narrower than "
    "move/2 (otherwise the real iteration may legitimately limit-cycle with amplitude move around the optimum: observed "
    "with l1l2tol=1e-2, lam*=0.13, move=0.01) and only with history kind 'conv' whose budget is 3*ceil(max(xmax-xmin)/move)+30 "
    "iterations (measured on the unchanged tree: responses <= 1.5*ceil(max|x0-x*|/move)+10; histograms in counters conv_iterations_over_distance and conv_budget_used); a run stopped by tolf>0 right "
    "after a move-limited step is not judged",
    "objective values are non-zero and finite on the box; tolx > 0; 'consecutive evaluated designs differ' is asserted "
    "only while ||x|| > 0 in floating point (for ||x|| = 0 the relative step size of the code is undefined)",
]
FLOORS = {"quick": {"cases_held": 1200, "distinct_nontrivial": 1000, "designs_checked": 25000, "entries_bounds": 200000,
                    "steps_volume_judged": 17000, "oc_step_components_compared": 140000, "conv_runs_judged": 260,
                    "conv_components": 1800, "writeback_slices_compared": 60000, "steps_positive_gradient": 5000,
                    "final_unrecorded_designs": 400},
          "thorough": {"cases_held": 25000, "distinct_nontrivial": 15000, "designs_checked": 550000,
                       "entries_bounds": 5000000, "steps_volume_judged": 360000, "oc_step_components_compared": 3700000,
                       "conv_runs_judged": 6000, "conv_components": 57000, "writeback_slices_compared": 1400000,
                       "steps_positive_gradient": 130000, "final_unrecorded_designs": 9000}}
EXPLANATION = ("Steps whose target volume lies inside the move box but cannot be met by any multiplier in [l1init, l2init] "
               "(counter steps_volume_family_unreachable; of these steps_volume_multiplier_outside_l1init_l2init have strictly "
               "negative gradients and a positive design, i.e. only the multiplier range is in the way) are not judged for the "
               "volume clause: DESIGN.md states 'lambda* inside [l1init, l2init]' as an assumption of this property.")
TIMEOUT_CASE = 120
TIMEOUT_SHARD = {"quick": 900, "thorough": 5400}

OBJS = ["invsum", "invpow", "linear", "coupled", "mixed", "zerograd"]
MOVES = [0.05, 0.2, 0.5]
BOUNDS = ["ss", "vv", "sv", "vs", "default"]
VOLS = ["none", "interior", "near_lo", "near_hi", "eq_hi", "eq_lo", "above", "below"]
VOL_P = [0.25, 0.40, 0.08, 0.08, 0.04, 0.04, 0.055, 0.055]
HISTS = ["conv", "default", "short", "loose"]


# ===================================================================================== plan
def _layouts(maxsize, maxsig=3):
    out = []
    for ns in range(1, maxsig + 1):
        out += [list(t) for t in itertools.product(range(1, maxsize + 1), repeat=ns)]
    return out


def _pick(r, seq, p=None):
    return seq[int(r.choice(len(seq), p=p))]


def _mk(cid, r, blk, **f):
    """One case descriptor; every option that is not forced is drawn from r."""
    if f.get("big"):
        sizes = [int(r.integers(1, 13)) for _ in range(int(r.integers(1, 6)))]
    else:
        sizes = f.get("sizes") or [int(r.integers(1, 7)) for _ in range(int(r.integers(1, 4)))]
    n = sum(sizes)
    obj = f.get("obj") or _pick(r, OBJS)
    zg = None
    if obj == "zerograd":
        if n == 1:
            obj = "mixed"          # a single variable cannot have a zero coefficient (f would vanish)
        else:
            zg = f.get("zg") or ("unconnected" if (len(sizes) >= 2 and r.random() < 0.5) else "zerocoef")
            if zg == "unconnected" and len(sizes) < 2:
                zg = "zerocoef"
    topo = f.get("topo") or _pick(r, ["single", "split", "chain"])
    if obj == "coupled" and topo == "split":
        topo = "single"
    kinds = f.get("kinds")
    if kinds is None:
        kinds = []
        for s in sizes:
            if s == 1:
                kinds.append(_pick(r, ["vec", "scalar", "zerod"], [0.4, 0.4, 0.2]))
            else:
                kinds.append(_pick(r, ["vec", "mat"], [0.8, 0.2]))
    x0 = f.get("x0") or _pick(r, ["interior", "onbounds"], [0.75, 0.25])
    bounds = f.get("bounds") or _pick(r, BOUNDS)
    if x0 == "zeros":
        bounds = "default"
        if obj not in ("linear", "coupled"):
            obj, zg = "linear", None
    if obj in ("mixed", "zerograd") and bounds == "default":
        bounds = _pick(r, ["ss", "vv", "sv", "vs"])   # objective is singular at x=0 and these designs reach xmin
    hist = f.get("hist") or _pick(r, HISTS, [0.35, 0.25, 0.25, 0.15])
    d = {"id": cid, "blk": blk, "name": f.get("name", ""), "sizes": sizes, "kinds": kinds, "obj": obj, "zg": zg,
         "topo": topo, "bounds": bounds, "x0": x0,
         "move": f.get("move") or _pick(r, MOVES + [0.01, 0.1, 1.0], [0.27, 0.27, 0.26, 0.06, 0.08, 0.06]),
         "vol": f.get("vol") or _pick(r, VOLS, VOL_P), "hist": hist,
         "tol": f.get("tol") or _pick(r, ["default", 1e-2, 1e-6, 1e-8], [0.7, 0.1, 0.1, 0.1]),
         "l2": f.get("l2") or _pick(r, ["default", 1e3, 1e7], [0.8, 0.1, 0.1]),
         "l1": f.get("l1") or _pick(r, ["default", 0.0, 1e-3], [0.8, 0.1, 0.1]),
         "verb": int(r.integers(0, 3)), "fret": _pick(r, ["np", "py"]),
         "cont": f.get("cont") or (_pick(r, ["list", "tuple", "single"]) if len(sizes) == 1 else _pick(r, ["list", "tuple"])),
         "sc": f.get("sc") or (1.0 if bounds == "default" else _pick(r, [1.0, 0.3, 3.0, 1e-3, 1e-6, 1e3], [0.6, 0.1, 0.1, 0.08, 0.06, 0.06])),
         "eqb": bool(f.get("eqb", False)), "allpos": bool(f.get("allpos", False)), "fs": float(f.get("fs", 1.0))}
    # the variable signals may be slices of one larger base signal (SignalSlice writes through to its base)
    via = f.get("via") or _pick(r, ["direct", "slices", "strided"], [0.88, 0.08, 0.04])
    if via == "strided" and not (len(sizes) == 2 and sizes[0] - sizes[1] in (0, 1)):
        via = "slices"
    if via != "direct":
        d["kinds"] = ["vec"] * len(sizes)
    d["via"] = via
    d["runs"] = int(f.get("runs") or _pick(r, [1, 2], [0.88, 0.12]))
    # hostile initial states: the same array object given to two signals / an integer-typed initial design
    d["share"] = f.get("share") or (_pick(r, [None, "same-array", "int-ones"], [0.9, 0.06, 0.04]) if via == "direct" else None)
    return d


CORNERS = [
    dict(name="x0-on-bounds", x0="onbounds"),
    dict(name="x0-zero-entries-xmin-zero", x0="zeros", obj="linear"),
    dict(name="x0-zero-entries-xmin-zero-coupled", x0="zeros", obj="coupled"),
    dict(name="all-gradients-positive", obj="mixed", allpos=True),
    dict(name="unconnected-variable-signal", obj="zerograd", zg="unconnected", sizes=[2, 3]),
    dict(name="unconnected-scalar-signal", obj="zerograd", zg="unconnected", sizes=[3, 1], kinds=["vec", "scalar"]),
    dict(name="volume-equals-sum-xmax", vol="eq_hi"),
    dict(name="volume-equals-sum-xmin", vol="eq_lo"),
    dict(name="volume-above-sum-xmax", vol="above"),
    dict(name="volume-below-sum-xmin", vol="below"),
    dict(name="move-covers-range", move=2.0),
    dict(name="tiny-move-short-history", move=0.01, hist="short"),
    dict(name="all-python-float-signals", sizes=[1, 1, 1], kinds=["scalar"] * 3),
    dict(name="all-0d-array-signals", sizes=[1, 1], kinds=["zerod"] * 2),
    dict(name="2d-array-signals", sizes=[4, 6], kinds=["mat", "mat"]),
    dict(name="2d-and-scalar-signals", sizes=[1, 6, 1], kinds=["scalar", "mat", "zerod"]),
    dict(name="single-signal-not-in-list", sizes=[4], cont="single"),
    dict(name="single-scalar-signal-not-in-list", sizes=[1], kinds=["scalar"], cont="single"),
    dict(name="tuple-of-signals", sizes=[2, 2], cont="tuple"),
    dict(name="small-multiplier-range", l2=1.0),
    dict(name="coarse-bisection", tol=1e-1),
    dict(name="fine-bisection", tol=1e-9),
    dict(name="one-iteration", hist="one"),
    dict(name="equal-bounds-entries", bounds="vv", eqb=True),
    dict(name="all-defaults", bounds="default", hist="default", tol="default", l1="default", l2="default", move=0.2),
    dict(name="equal-sized-signals-distinct-bounds", sizes=[3, 3, 3], bounds="vv", obj="invsum", hist="conv"),
    dict(name="slices-of-one-base-signal", via="slices", sizes=[2, 3, 1]),
    dict(name="strided-slices-of-one-base-signal", via="strided", sizes=[3, 3]),
    dict(name="strided-slices-unequal", via="strided", sizes=[3, 2]),
    dict(name="restart-after-convergence", hist="conv", runs=2),
    dict(name="restart-after-short-run", hist="short", runs=2),
    dict(name="long-history-small-move", obj="invsum", hist="conv", move=0.01, bounds="ss", sc=1.0),
    dict(name="two-signals-initialised-from-the-same-array", sizes=[3, 3], kinds=["vec", "vec"], bounds="ss", share="same-array", via="direct"),
    # compliances of 1e-10 (SI units) make the multiplier tiny: the user then has to tighten the *absolute* bisection tolerance
    dict(name="tiny-sensitivities-tight-bisection", obj="invsum", tol=1e-14, fs=1e-10, hist="conv", bounds="ss"),
    dict(name="tiny-sensitivities-tight-bisection-vv", obj="invsum", tol=1e-15, fs=1e-9, bounds="vv"),
    dict(name="empty-variable-signal-in-the-middle", sizes=[3, 0, 2], kinds=["vec", "vec", "vec"], via="direct"),
    dict(name="empty-variable-signal-first", sizes=[0, 4], kinds=["vec", "vec"], via="direct", obj="invsum"),
    dict(name="single-precision-design", sizes=[4, 3], kinds=["vec", "vec"], share="float32", via="direct", obj="invsum", topo="single", bounds="ss"),
    dict(name="single-precision-design-vv", sizes=[5], kinds=["vec"], share="float32", via="direct", obj="invsum", topo="single", bounds="vv", hist="conv"),
    dict(name="integer-typed-initial-design", sizes=[4, 2], kinds=["vec", "vec"], bounds="default", share="int-ones", via="direct", obj="invsum"),
]


def plan(tier, seed):
    quick = tier == "quick"
    cases = []

    def add(blk, **f):
        cid = len(cases)
        cases.append(_mk(cid, rng_for(seed, "C17-plan", cid), blk, **f))

    # --- enumerated layouts x objective classes
    lays = _layouts(3) + [[4], [5], [6]] if quick else _layouts(6)
    for lay in lays:
        for obj in OBJS:
            if quick:
                add("enum", sizes=lay, obj=obj)
            else:
                for mv in MOVES:
                    for _ in range(2):
                        add("enum", sizes=lay, obj=obj, move=mv)
    # --- convergence block: sum c/x, tight tolerances, generous budget
    lays_c = _layouts(3) + [[4], [5], [6], [1, 5], [4, 4], [2, 3, 4], [6, 6, 6], [5, 1, 6]] if quick else _layouts(6)
    for lay in lays_c:
        for mv in MOVES:
            for b in (["ss", "vv"] if quick else ["ss", "vv", "sv", "vs", "default"]):
                for _ in range(1 if quick else 2):
                    add("conv", sizes=lay, obj="invsum", hist="conv", move=mv, bounds=b)
    # --- named corners
    for c in CORNERS:
        for _ in range(8 if quick else 100):
            add("corner", **c)
    # --- random block
    for _ in range(1500 if quick else 25000):
        add("rand")
    # --- beyond the enumerated bound: up to 5 signals of up to 12 entries
    for _ in range(150 if quick else 5000):
        add("big", big=True)
    return cases


# ===================================================================================== objective kernels
def _kernel(P, idx, y):
    """Closed-form value and gradient of the objective kernel on the components idx (y = its arguments)."""
    k = P["kind"]
    if k in ("invsum", "zerograd"):
        c = P["c"][idx]
        return np.sum(c / y), -c / y ** 2
    if k == "invpow":
        c, p = P["c"][idx], P["p"]
        return np.sum(c * y ** (-p)), -p * c * y ** (-p - 1)
    if k == "linear":
        w = P["w"][idx]
        return -np.sum(w * y), -w + 0.0 * y
    if k == "mixed":
        c, d = P["c"][idx], P["d"][idx]
        return np.sum(c / y) + np.sum(d * y), -c / y ** 2 + d
    if k == "coupled":
        K = P["K"][:, idx]
        den = P["k0"] + K @ y
        b2 = P["b"] ** 2
        return np.sum(b2 / den), -(K.T @ (b2 / den ** 2))
    raise ValueError(k)


def _ref_fg(P, x):
    """Objective and gradient with respect to the concatenated design (reference for the oracle)."""
    idx = P["idx"]
    y = P["a"] * x
    f, gy = _kernel(P, idx, y[idx])
    g = np.zeros(x.size)
    g[idx] = P["a"][idx] * gy
    return f + P["off"], g


_CLS = {}


def _classes():
    if _CLS:
        return _CLS
    import pymoto as pym

    class PmvC17Recorder(pym.Module):
        def _prepare(self, log):
            self.log = log

        def _response(self, *args):
            self.log.append([np.array(a, dtype=float, copy=True) for a in args])
            return []

        def _sensitivity(self):
            return [None for _ in self.sig_in]

    class PmvC17Objective(pym.Module):
        def _prepare(self, P, idx, off, pyfloat):
            self.P, self.idx, self.off, self.pyfloat = P, idx, off, pyfloat

        def _response(self, *args):
            self.shapes = [np.shape(a) for a in args]
            self.single = [getattr(a, "dtype", None) == np.float32 for a in args]
            y = np.concatenate([np.ravel(np.asarray(a, dtype=float)) for a in args])
            f, self.g = _kernel(self.P, self.idx, y)
            f = f + self.off
            return float(f) if self.pyfloat else np.float64(f)

        def _sensitivity(self, df):
            out, k = [], 0
            for sh in self.shapes:
                n = int(np.prod(sh, dtype=int))
                seg = np.array(df * self.g[k:k + n], dtype=float)
                k += n
                if self.single[len(out)]:
                    seg = seg.astype(np.float32)      # (numpy operations on a float32 state give float32 sensitivities)
                out.append(float(seg[0]) if sh == () else seg.reshape(sh))
            return out

    class PmvC17Scale(pym.Module):
        def _prepare(self, a):
            self.a = a

        def _response(self, x):
            self.sh = np.shape(x)
            return self.a * np.ravel(np.asarray(x, dtype=float))

        def _sensitivity(self, dy):
            g = self.a * np.ravel(np.asarray(dy, dtype=float))
            return float(g[0]) if self.sh == () else g.reshape(self.sh)

    class PmvC17Sum(pym.Module):
        def _prepare(self, off, pyfloat):
            self.off, self.pyfloat = off, pyfloat

        def _response(self, *args):
            f = sum(args) + self.off
            return float(f) if self.pyfloat else np.float64(f)

        def _sensitivity(self, df):
            return [df for _ in self.sig_in]

    _CLS.update(rec=PmvC17Recorder, obj=PmvC17Objective, scale=PmvC17Scale, sum=PmvC17Sum)
    return _CLS


# ===================================================================================== reference OC family
_LA, _LB = math.log(1e-30), math.log(1e30)


class _Family:
    """x_i(lam) = clip(s_i/sqrt(lam), lower_i, upper_i): non-increasing in lam for every component."""

    def __init__(self, s, lower, upper):
        self.s, self.lower, self.upper = s, lower, upper

    def x(self, lam):
        if lam <= 0:
            t = np.where(self.s > 0, np.inf, 0.0)
        elif math.isinf(lam):
            t = np.zeros_like(self.s)
        else:
            t = self.s / math.sqrt(lam)
        return np.minimum(np.maximum(t, self.lower), self.upper)

    def vol(self, lam):
        return float(np.sum(self.x(lam)))

    def vol_grid(self, lams):
        t = self.s[None, :] / np.sqrt(lams)[:, None]
        return np.minimum(np.maximum(t, self.lower), self.upper).sum(axis=1)

    def threshold(self, pred):
        """pred(vol) is monotone False..True for growing lam.  Returns (a, b): pred False at a (or a=0), True at b
        (or b=inf), a and b adjacent floats otherwise."""
        la, lb = _LA, _LB
        p = pred(self.vol_grid(np.exp(np.array([la, lb]))))
        if p[0]:
            return 0.0, math.exp(la)
        if not p[1]:
            return math.exp(lb), math.inf
        for _ in range(12):
            grid = np.linspace(la, lb, 65)
            pr = pred(self.vol_grid(np.exp(grid)))
            pr[0], pr[-1] = False, True
            i = int(np.argmax(pr))
            la, lb = grid[i - 1], grid[i]
        return math.exp(la), math.exp(lb)

    def bracket(self, V, delta, tol, l1, l2):
        """None if no multiplier in [l1, l2] gives the volume V (+-delta); otherwise (x_small, x_large): component-wise
        bounds of x(lam_c) for every lam_c within tol of a multiplier at which the volume equals V up to delta."""
        if not (self.vol(l2) <= V + delta and self.vol(l1) >= V - delta):
            return None
        a1, _ = self.threshold(lambda v: v <= V + delta)     # inf{lam: vol <= V+delta}
        _, b2 = self.threshold(lambda v: v < V - delta)      # sup{lam: vol >= V-delta}
        lam_small = max(a1 * (1 - 1e-12) - tol * (1 + 1e-12), l1)
        lam_large = min(b2 * (1 + 1e-12) + tol * (1 + 1e-12), l2)
        return self.x(lam_large), self.x(lam_small), lam_small, lam_large


def _perm_explains(q, xs, xl, eps):
    """True if the entries of q can be re-ordered into a vector lying in [xs-eps, xl+eps] (perfect matching in the
    bipartite 'entry j fits interval i' graph).  Diagnosis only: used to name a refutation, never to find one."""
    from scipy.optimize import linear_sum_assignment
    eps = float(np.max(eps))
    fits = (q[None, :] >= (xs - eps)[:, None]) & (q[None, :] <= (xl + eps)[:, None])
    if not np.all(fits.any(axis=0)) or not np.all(fits.any(axis=1)):
        return False
    r, c = linear_sum_assignment(1.0 - fits)
    return bool(np.all(fits[r, c]))


# ===================================================================================== one case
def _shape_for(kind, n):
    if kind == "mat":
        return {4: (2, 2), 6: (2, 3), 8: (2, 4), 9: (3, 3), 10: (5, 2), 12: (3, 4)}.get(n, (1, n))
    return None


def run_case(case, ctx):
    import pymoto as pym
    C = _classes()
    rng = ctx.rng("c17", case["id"])
    sizes = case["sizes"]
    nsig, n = len(sizes), int(sum(sizes))
    cum = np.concatenate([[0], np.cumsum(sizes)]).astype(int)
    sc = float(case["sc"])
    seen = set()
    cur = {"run": 0}

    def violate(mech, **w):
        if mech not in seen:
            seen.add(mech)
            ctx.violate(mech, case_name=case["name"], run=cur["run"], **w)

    # ---------------------------------------------------------------- bounds, move, start design
    bk = case["bounds"]
    lo_v = rng.uniform(0.01, 0.2, n) * sc
    hi_v = rng.uniform(0.7, 1.0, n) * sc
    lo_s = float(rng.choice([0.05, 0.001, 0.1, 0.2])) * sc
    hi_s = float(rng.choice([1.0, 0.8, 1.5])) * sc
    kw = {}
    if bk == "default":
        lo, hi = np.zeros(n), np.ones(n)
    else:
        lo = lo_v if bk[0] == "v" else np.full(n, lo_s)
        hi = hi_v if bk[1] == "v" else np.full(n, hi_s)
        if case["eqb"]:
            eq = rng.random(n) < 0.35
            eq[int(rng.integers(n))] = True
            if n > 1:
                eq[int(rng.integers(n))] = False
            hi = np.where(eq, lo, hi)
        kw["xmin"] = lo.copy() if bk[0] == "v" else lo_s
        kw["xmax"] = hi.copy() if bk[1] == "v" else hi_s
        if bk[0] == "v" and rng.random() < 0.15:
            kw["xmin"] = [float(v) for v in lo]          # a plain list is a vector, too
    move = float(case["move"]) * sc
    kw["move"] = move
    u = rng.uniform(0.05, 0.95, n)
    x0 = lo + u * (hi - lo)
    if case["x0"] == "onbounds":
        w = rng.random(n)
        at_lo = w < 0.3
        if case["obj"] not in ("linear", "coupled"):
            at_lo &= lo > 0                              # sum c/x and friends are singular at x = 0
        x0 = np.where(at_lo, lo, np.where(w > 0.7, hi, x0))
    elif case["x0"] == "zeros":
        z = rng.random(n) < 0.4
        if n > 1:
            z[int(rng.integers(n))] = True
        z[int(rng.integers(n))] = False
        x0 = np.where(z, 0.0, x0)
    if not np.any(x0 != 0):
        x0 = lo + 0.5 * (hi - lo)
    share = case.get("share")
    if share == "same-array" and not (nsig >= 2 and sizes[0] == sizes[1] and case["via"] == "direct" and case["kinds"][0] == case["kinds"][1] == "vec"
                                      and np.all(x0[cum[0]:cum[1]] >= lo[cum[1]:cum[2]]) and np.all(x0[cum[0]:cum[1]] <= hi[cum[1]:cum[2]])):
        share = None
    if share == "same-array":
        x0[cum[1]:cum[2]] = x0[cum[0]:cum[1]]          # both signals are initialised from one and the same array object
    if share == "int-ones" and not (case["via"] == "direct" and np.all(lo <= 1.0) and np.all(hi >= 1.0) and all(k in ("vec", "mat") for k in case["kinds"])):
        share = None
    if share == "int-ones":
        x0 = np.ones(n)                                # given to the signals as an integer-typed array
    if share == "float32" and not (case["via"] == "direct" and all(k in ("vec", "mat") for k in case["kinds"])):
        share = None
    if share == "float32":
        # a design stored in single precision (a density field read from a float32 file): bounds, move limits and the prescribed volume
        # are the user's doubles, and hold to double precision
        x0 = np.clip(x0.astype(np.float32).astype(float), lo, hi)
        x0 = np.where(x0.astype(np.float32).astype(float) == x0, x0, (lo + 0.5 * (hi - lo)).astype(np.float32).astype(float))

    # ---------------------------------------------------------------- objective
    kind = case["obj"]
    P = {"kind": kind, "a": np.ones(n), "off": 0.0, "idx": np.arange(n)}
    if kind in ("invsum", "mixed", "zerograd"):
        P["c"] = rng.uniform(0.1, 5.0, n) * sc ** 2 * float(case.get("fs", 1.0))
    if kind == "invpow":
        P["p"] = int(rng.choice([2, 3]))
        P["c"] = rng.uniform(0.01, 0.5, n) * sc ** (P["p"] + 1)
    if kind == "linear":
        P["w"] = rng.uniform(0.1, 5.0, n)
        P["off"] = -1.0
    if kind == "coupled":
        m = n + 2
        K = rng.uniform(0.1, 1.0, (m, n)) * (rng.random((m, n)) < 0.6)
        for j in range(n):
            if not np.any(K[:, j]):
                K[int(rng.integers(m)), j] = rng.uniform(0.1, 1.0)
        P["K"], P["k0"], P["b"] = K / sc, rng.uniform(0.5, 2.0, m), rng.uniform(0.5, 3.0, m)
    if kind == "mixed":
        if case["allpos"]:
            P["d"] = 5.0 * P["c"] / np.maximum(lo, 1e-3 * sc) ** 2
        else:
            sel = rng.random(n) < 0.5
            sel[int(rng.integers(n))] = True
            P["d"] = np.where(sel, rng.uniform(0.5, 3.0, n) * P["c"] / x0 ** 2, 0.0)
    conn = [True] * nsig
    if kind == "zerograd":
        if case["zg"] == "unconnected":
            conn[int(rng.integers(nsig))] = False
        else:
            z = rng.random(n) < 0.4
            z[int(rng.integers(n))] = True
            z[int(rng.integers(n))] = False
            if np.all(z):
                z[0] = False
            P["c"] = np.where(z, 0.0, P["c"])
    if case["topo"] == "chain":
        P["a"] = rng.uniform(0.5, 2.0, n)
    mask = np.concatenate([np.full(sizes[i], conn[i]) for i in range(nsig)])
    P["idx"] = np.flatnonzero(mask)
    pyfloat = case["fret"] == "py"

    # ---------------------------------------------------------------- signals and network
    sigs = []
    base = None
    if case["via"] != "direct":
        base = pym.Signal("base", np.zeros(n))
        if case["via"] == "slices":
            sigs = [base[int(cum[i]):int(cum[i + 1])] for i in range(nsig)]
        else:
            sigs = [base[0::2], base[1::2]]
        for i, s_ in enumerate(sigs):
            s_.state = x0[cum[i]:cum[i + 1]].copy()
    for i in range(nsig if base is None else 0):
        seg = x0[cum[i]:cum[i + 1]].copy()
        kd = case["kinds"][i]
        if kd == "scalar":
            st = float(seg[0])
        elif kd == "zerod":
            st = np.array(float(seg[0]))
        elif kd == "mat":
            st = seg.reshape(_shape_for("mat", sizes[i]))
            if case["id"] % 2:
                # the same matrix in column-major memory (what a transposed view or a Fortran routine hands over): the design is the
                # matrix, not its memory
                st = np.asfortranarray(st) if case["id"] % 4 == 1 else np.ascontiguousarray(st.T).T
                ctx.count("matrix_designs_in_column_major_memory")
        else:
            st = seg
        if share == "same-array" and i == 1:
            st = sigs[0].state
        if share == "int-ones":
            st = np.asarray(st).astype(int)
        if share == "float32":
            st = np.asarray(st).astype(np.float32)
        sigs.append(pym.Signal(f"v{i}", st))
    log = []
    mods = [C["rec"](sigs, [], log)]
    csig = [s for s, c_ in zip(sigs, conn) if c_]
    cidx = [np.arange(cum[i], cum[i + 1]) for i in range(nsig) if conn[i]]
    if case["topo"] == "chain":
        ys = []
        for s, ix in zip(csig, cidx):
            y = pym.Signal("y" + s.tag)
            mods.append(C["scale"](s, y, P["a"][ix]))
            ys.append(y)
        csig = ys
    fsig = pym.Signal("f")
    if case["topo"] == "split":
        parts = []
        for s, ix in zip(csig, cidx):
            ps = pym.Signal("p" + s.tag)
            mods.append(C["obj"]([s], ps, P, ix, 0.0, False))
            parts.append(ps)
        mods.append(C["sum"](parts, fsig, P["off"], pyfloat))
    else:
        mods.append(C["obj"](csig, fsig, P, P["idx"], P["off"], pyfloat))
    net = pym.Network(*mods)

    # ---------------------------------------------------------------- volume target, history options
    slo, shi = float(np.sum(lo)), float(np.sum(hi))
    R = shi - slo
    vk = case["vol"]
    V = {"none": None, "interior": float(rng.uniform(slo + 0.15 * R, shi - 0.15 * R)) if R > 0 else slo,
         "near_lo": slo + 0.02 * R, "near_hi": shi - 0.02 * R, "eq_hi": shi, "eq_lo": slo,
         "above": shi + 0.1 * R + 0.1 * sc, "below": slo - 0.1 * R - 0.01 * sc}[vk]
    if V is not None:
        kw["maxvol"] = V
    hk = case["hist"]
    tolx, tolf, maxit = 1e-4, 1e-4, 100
    budget = 3 * int(math.ceil(float(np.max(hi - lo)) / move)) + 30
    if hk == "conv":
        tolx, tolf, maxit = float(rng.choice([1e-6, 1e-9])), 0.0, budget
    elif hk == "short":
        tolx, tolf, maxit = float(rng.choice([1e-6, 1e-4])), float(rng.choice([0.0, 1e-12])), int(rng.choice([2, 3, 5, 8, 13]))
    elif hk == "one":
        tolx, tolf, maxit = 1e-6, 0.0, 1
    elif hk == "loose":
        tolx, tolf, maxit = 1e-2, 1e-3, int(rng.choice([30, 150]))
    if hk != "default":
        kw.update(tolx=tolx, tolf=tolf, maxit=maxit)
    tol = 1e-4 if case["tol"] == "default" else float(case["tol"])
    l1 = 0.0 if case["l1"] == "default" else float(case["l1"])
    l2 = 1e5 if case["l2"] == "default" else float(case["l2"])
    if case["tol"] != "default":
        kw["l1l2tol"] = tol
    if case["l1"] != "default":
        kw["l1init"] = l1
    if case["l2"] != "default":
        kw["l2init"] = l2
    if case["name"] != "all-defaults":
        kw["verbosity"] = case["verb"]
    else:
        kw.pop("move", None)
        move = 0.2
    variables = {"list": sigs, "tuple": tuple(sigs), "single": sigs[0]}[case["cont"]]

    # ---------------------------------------------------------------- the run(s); a second run restarts from the
    # design the first one left in the signals (states are 1-D arrays then)
    over_max = None
    tot = {"responses": 0, "designs": 0, "vol_judged": 0, "final_unrecorded": 0}
    for irun in range(int(case.get("runs", 1))):
        del log[:]
        cur["run"] = irun
        xstart = np.concatenate([np.ravel(np.asarray(s.state, dtype=float)) for s in sigs]).copy()
        Vt = float(np.sum(xstart)) if V is None else V
        pym.minimize_oc(net, variables, fsig, **kw)
        ctx.count("runs")
        final = [np.array(s.state, dtype=float, copy=True) for s in sigs]
        nresp = len(log)
        if nresp == 0:
            violate("network-never-evaluated")
            return {"key": "none", "nontrivial": False, "obs": {}}

        # ---------------------------------------------------------------- write-back: sizes
        rec_all = log + [final]
        for k, rec in enumerate(rec_all):
            for i, st in enumerate(rec):
                ctx.count("writeback_slices_compared")
                if st.size != sizes[i]:
                    violate("write-back/signal-size-changed", response=k, signal=i, size=int(st.size), expected=sizes[i],
                            at_return=k == nresp)
        if any(m.startswith("write-back/signal-size") for m in seen):
            return {"key": "size-changed", "nontrivial": True, "obs": {"responses": nresp}}
        D = [np.concatenate([np.ravel(st) for st in rec]) for rec in log]
        xf = np.concatenate([np.ravel(st) for st in final])
        extra = not np.array_equal(xf, D[-1])
        if extra:
            D.append(xf)
            ctx.count("final_unrecorded_designs")

        ctx.log(f"run {irun}: {nresp} responses, {len(D)} designs, kwargs", {k_: (v_ if np.ndim(v_) == 0 else "vector")
                                                                            for k_, v_ in kw.items()})
        for k_ in sorted(set(list(range(0, len(D), max(1, len(D) // 25))) + [len(D) - 1])):
            ctx.log(f"  design {k_}: volume {float(np.sum(D[k_])):.9g} (target {Vt:.9g})", np.round(D[k_], 6).tolist())
        # ---------------------------------------------------------------- per produced design
        nvol = nbox = nfam = npos = 0
        for k in range(len(D) - 1):
            p, q = D[k], D[k + 1]
            recorded = k + 1 < nresp
            ctx.count("designs_checked")
            if not np.all(np.isfinite(q)):
                violate("design-not-finite", step=k, design=q)
                break
            # bounds (exact)
            ctx.count("entries_bounds", n)
            if np.any(q < lo):
                j = int(np.argmax(lo - q))
                violate("bounds/design-below-xmin", step=k, entry=j, signal=int(np.searchsorted(cum, j, side="right") - 1),
                        value=float(q[j]), xmin=float(lo[j]), recorded_at_response=recorded)
            if np.any(q > hi):
                j = int(np.argmax(q - hi))
                violate("bounds/design-above-xmax", step=k, entry=j, signal=int(np.searchsorted(cum, j, side="right") - 1),
                        value=float(q[j]), xmax=float(hi[j]), recorded_at_response=recorded)
            # move limit
            ctx.count("steps_move")
            exc = np.abs(q - p) - move - 1e-15 * (np.abs(p) + move)
            if np.any(exc > 0):
                j = int(np.argmax(exc))
                violate("move-limit/step-exceeds-move-limit", step=k, entry=j,
                        signal=int(np.searchsorted(cum, j, side="right") - 1), previous=float(p[j]), new=float(q[j]),
                        move=move)
            # consecutive evaluated designs differ (a further response is only reached through a step >= tolx)
            # (undefined when ||x|| underflows to 0: the relative step is nan and the run goes on)
            if recorded and np.array_equal(p, q) and float(np.linalg.norm(p)) > 0:
                violate("write-back/design-unchanged-between-responses", step=k, design=q)
            # volume and slice-wise write-back against the reference OC family
            if np.any(p < lo) or np.any(p > hi):
                continue                                   # previous design already refuted
            _, g = _ref_fg(P, p)
            if share == "float32" and k == 0 and irun == 0:
                # the sensitivities the objective module hands over while the states are still single precision (minimize_oc writes
                # double-precision designs back from the first step on)
                g = g.astype(np.float32).astype(float)
            if np.any(g > 1e-15):
                npos += 1
            gc = np.minimum(g, 0.0)
            lower, upper = np.maximum(lo, p - move), np.minimum(hi, p + move)
            delta = 1e-12 * (1.0 + float(np.sum(np.abs(upper))))
            if not (float(np.sum(lower)) - delta <= Vt <= float(np.sum(upper)) + delta):
                nbox += 1
                continue
            fam = _Family(p * np.sqrt(-gc), lower, upper)
            br = fam.bracket(Vt, delta, tol, l1, l2)
            if br is None:
                nfam += 1
                if np.all(g < 0) and np.all(p > 0):         # only the multiplier range [l1init, l2init] is in the way
                    ctx.count("steps_volume_multiplier_outside_l1init_l2init")
                continue
            nvol += 1
            xs, xl, lam_s, lam_l = br
            vq = float(np.sum(q))
            vol_ok = True
            if vq > float(np.sum(xl)) + delta:
                vol_ok = False
                violate("volume/exceeds-target-beyond-bisection-tolerance", step=k, volume=vq, target=Vt,
                        upper_bound=float(np.sum(xl)), lam_interval=[lam_s, lam_l], l1l2tol=tol, previous=p, new=q)
            if vq < float(np.sum(xs)) - delta:
                vol_ok = False
                violate("volume/below-reachable-target-beyond-bisection-tolerance", step=k, volume=vq, target=Vt,
                        lower_bound=float(np.sum(xs)), lam_interval=[lam_s, lam_l], l1l2tol=tol, previous=p, new=q)
            # slice-wise: every signal holds its slice of the step (a wrong total is already reported above)
            eps = 1e-12 * (1.0 + np.abs(q))
            bad = (q > xl + eps) | (q < xs - eps)
            ctx.count("oc_step_components_compared", n)
            if vol_ok and np.any(bad):
                j = int(np.argmax(np.maximum(q - xl, xs - q)))
                i = int(np.searchsorted(cum, j, side="right") - 1)
                violate("slice-wise/signal-state-is-not-its-slice-of-the-clipped-oc-step", step=k, signal=i, entry=j,
                        state=q[cum[i]:cum[i + 1]], slice_of_oc_step_between=[xs[cum[i]:cum[i + 1]], xl[cum[i]:cum[i + 1]]],
                        previous_state=p[cum[i]:cum[i + 1]], volume=vq, target=Vt,
                        signals_bit_identical_to_previous=[ii for ii in range(nsig)
                                                           if np.array_equal(q[cum[ii]:cum[ii + 1]], p[cum[ii]:cum[ii + 1]])],
                        fits_after_reordering=_perm_explains(q, xs, xl, eps))
        ctx.count("steps_volume_judged", nvol)
        ctx.count("steps_volume_box_unreachable", nbox)
        ctx.count("steps_volume_family_unreachable", nfam)
        ctx.count("steps_positive_gradient", npos)

        # ---------------------------------------------------------------- a run that ends before maxit met a documented criterion
        # (tolf: relative objective change |f_k - f_(k-1)|/|f_k|;  tolx: relative step ||x_k - x_new||/||x_k||)
        maxit_used = int(kw.get("maxit", 100))
        if not extra and 2 <= nresp < maxit_used and all(np.all(np.isfinite(d_)) for d_ in D) and not seen:
            f1, g1 = _ref_fg(P, D[-1])
            f0, _g0 = _ref_fg(P, D[-2])
            tolf_used, tolx_used = float(kw.get("tolf", 1e-4)), float(kw.get("tolx", 1e-4))
            relf = abs(f1 - f0) / abs(f1) if f1 != 0 else float("inf")
            if relf < tolf_used * (1 + 1e-6):
                ctx.count("stops_explained_by_tolf")
            else:
                # could the step-size criterion have been met?  lower bound of the next step from the reference OC family
                p_ = D[-1]
                gc_ = np.minimum(g1, 0.0)
                lower_, upper_ = np.maximum(lo, p_ - move), np.minimum(hi, p_ + move)
                delta_ = 1e-12 * (1.0 + float(np.sum(np.abs(upper_))))
                br_ = None
                if float(np.sum(lower_)) - delta_ <= Vt <= float(np.sum(upper_)) + delta_:
                    br_ = _Family(p_ * np.sqrt(-gc_), lower_, upper_).bracket(Vt, delta_, tol, l1, l2)
                if br_ is None:
                    ctx.count("stops_not_judged")
                else:
                    dist = float(np.linalg.norm(np.maximum(np.maximum(br_[0] - p_, p_ - br_[1]), 0.0)))
                    if dist > tolx_used * float(np.linalg.norm(p_)) * (1 + 1e-6) + 1e-300:
                        violate("stop/run-ended-before-maxit-without-tolf-or-tolx-being-met", responses=nresp, maxit=maxit_used,
                                rel_objective_change=relf, tolf=tolf_used, smallest_possible_rel_step=dist / float(np.linalg.norm(p_)),
                                tolx=tolx_used, f_last=f1, f_previous=f0)
                    else:
                        ctx.count("stops_explained_by_tolx")

        # ---------------------------------------------------------------- convergence on sum c_i/x_i
        conv = "n/a"
        if kind == "invsum":
            xe = D[-1]
            ceff = P["c"] / P["a"]
            fam = _Family(np.sqrt(ceff), lo, hi)
            delta = 1e-12 * (1.0 + shi)
            limited = len(D) >= 2 and bool(np.any(np.abs(D[-1] - D[-2]) >= move * (1 - 1e-9)))
            slack = None
            if Vt < slo - delta:
                conv = "infeasible-volume"
            elif extra:                                    # budget exhausted, last step written but not evaluated
                if not limited:
                    slack = 0.0
                elif hk == "conv":
                    # A move-limited limit cycle around the optimum is legitimate when the bisection cannot resolve the
                    # multiplier finer than the move limit: the overshoot of a step is at most the width w of the band
                    # [x*(lam*+tol), x*(lam*-tol)]; for w <= move the next step absorbs it without being move-limited.
                    br_ = fam.bracket(Vt, delta, tol, l1, l2)
                    if br_ is None:
                        conv = "multiplier-outside-range"
                    elif float(np.max(br_[1] - br_[0])) > 0.5 * move:
                        conv = "bisection-band-wider-than-half-move"
                    else:
                        conv = "violated"
                        violate("convergence/still-move-limited-after-iteration-budget", iterations=nresp, move=move,
                                x0=xstart, final=xe, budget=budget, optimum_between=br_[:2], c_eff=ceff)
                else:
                    conv = "history-too-short"
            else:                                          # stopped by a criterion
                s_ = tolx * float(np.linalg.norm(xe))
                if s_ >= move:
                    conv = "tolx-not-below-move"
                elif tolf == 0.0 or not limited:
                    slack = s_
                else:
                    conv = "stopped-by-tolf-while-move-limited"
            if slack is not None:
                br = fam.bracket(Vt, delta, tol, l1, l2)
                if br is None:
                    conv = "multiplier-outside-range"
                else:
                    xs, xl, lam_s, lam_l = br
                    eps = 1e-12 * (1.0 + np.abs(xe)) + slack
                    ctx.count("conv_runs_judged")
                    ctx.count("conv_components", n)
                    bad = (xe > xl + eps) | (xe < xs - eps)
                    conv = "held"
                    if np.any(bad):
                        conv = "violated"
                        j = int(np.argmax(np.maximum(xe - xl, xs - xe)))
                        mech = "convergence/final-design-not-at-analytic-optimum"
                        violate(mech, entry=j, signal=int(np.searchsorted(cum, j, side="right") - 1), final=xe,
                                optimum_between=[xs, xl], distance=float(np.max(np.maximum(xe - xl, xs - xe))),
                                iterations=nresp, lam_interval=[lam_s, lam_l],
                                fits_after_reordering=_perm_explains(xe, xs, xl, eps))
                    if len(D) >= 2:
                        # evidence for the iteration budget: responses used beyond ceil(max|x0-x*|/move)
                        over = nresp - int(math.ceil(float(np.max(np.abs(xstart - 0.5 * (xs + xl)))) / move))
                        ctx.count("conv_iterations_over_distance:" + ("<=1" if over <= 1 else "2-3" if over <= 3 else "4-6" if over <= 6 else
                                                                      "7-15" if over <= 15 else "16-30" if over <= 30 else ">30"))
                        over_max = over if over_max is None else max(over_max, over)
                        if hk == "conv":                  # how much of the iteration budget the unchanged code needs
                            u_ = nresp / float(budget)
                            ctx.count("conv_budget_used:" + ("<=25%" if u_ <= 0.25 else "<=50%" if u_ <= 0.5 else
                                                             "<=75%" if u_ <= 0.75 else ">75%"))
            ctx.count("conv_" + conv)
        tot["responses"] += nresp
        tot["designs"] += len(D) - 1
        tot["vol_judged"] += nvol
        tot["final_unrecorded"] += int(extra)
        if irun:
            ctx.count("restarted_runs")

    key = "|".join([kind + ("/" + case["zg"] if case["zg"] else ""), case["topo"], bk, f"nsig{nsig}", vk,
                    f"mv{case['move']}", hk] + ([case["via"]] if case["via"] != "direct" else [])
                   + (["restart"] if case.get("runs", 1) > 1 else []))
    return {"key": key, "nontrivial": tot["designs"] >= 1,
            "obs": {"n": n, "runs": int(case.get("runs", 1)), "responses": tot["responses"],
                    "designs_produced": tot["designs"], "final_unrecorded": tot["final_unrecorded"],
                    "vol_judged": tot["vol_judged"], "convergence_last_run": conv, "iterations_over_distance": over_max}}
