"""C09 — density filters are the normalised local averages they are defined to be.

Two families of cases, both executed against the real modules and judged by reference models
written here from the defining formulas (plain numpy index arithmetic, no scipy.signal; np.pad only
in the second admissible reading for kernels wider than the domain, see ASSUMPTIONS):

* ``dens``: DensityFilter on a 2D/3D grid for several radii; reference = brute-force
  ``y_i = sum_j max(0, r-d_ij) x_j / sum_j max(0, r-d_ij)`` over ALL element pairs
  (d in element units, as documented: "radius in units of elements").
* ``conv``: FilterConv with a radius kernel (relative/absolute units) or an explicit odd kernel and
  any combination of the six boundary rules; reference = direct sum
  ``y_i = sum_k w_k X(i-k)`` where X is the field extended per axis (x, then y, then z; a later
  axis extends the already extended array, which fixes the corner semantics) by index maps:
  symmetric = repeated mirror (period 2n), wrap = periodic, edge = clip, number = that value.

Every module instance is evaluated for several fields (random, 0/1, constant, signed wide-range)
one after the other, so a history effect shows up as a formula mismatch as well.

Invariant clauses (constants, range, volume) are judged on the module's output directly, only
under the hypotheses the statement names.
"""
import itertools
import math

import numpy as np

from ..core import Violation, Skip, rng_for

ID = "C09"
LEVEL = "exploration"
MONITORS = []
ANCHORS = ["modules/filter.py"]
RULE = ("dens: every grid shape up to the tier bound (2D and 3D, one-element-wide included) x hostile+random radii "
        "(below one element ... larger than the domain); conv: (a) every ordered pair of boundary rules "
        "(symmetric/edge/wrap/0.0/1.0/0.37) on every axis, once with a kernel no wider than the domain and once with a "
        "wider one, (b) thorough: every one of the 4^6 (3D) / 4^4 (2D) rule-kind combinations, (c) random shapes x "
        "kernels (cone radius relative/absolute, signed, non-negative normalised, mirror-symmetric, single-tap shift) x "
        "rules incl. int/bool/numpy constants; each module instance is run on 4 fields. distinct = family x dim x "
        "kernel kind x rule kinds x (kernel wider than domain?) resp. shape x radius class; non-trivial = more than one "
        "element and a kernel/radius that reaches a neighbour")
EXHAUSTIVE = {"quick": False, "thorough": False}
TOL = 1e-11
ASSUMPTIONS = [
    "reference equality |y-yref| <= 1e-11 * S, S = max|extended field| * sum|kernel| (DensityFilter: S = max|x|): the "
    "module sums <= 13^3 products in double precision, direct or by FFT (scipy picks), i.e. rounding <= ~1e-13*S; the "
    "unchanged tree reaches ~1e-15",
    "constant preservation |y-c| <= 1e-11*|c|; range: min x - 1e-11*max|x| <= y <= max x + 1e-11*max|x|; volume: "
    "|sum y - sum x| <= 1e-11 * nel * max|x| (sum of nel outputs each accurate to ~1e-15*max|x|)",
    "DensityFilter distances are measured in elements (documentation: radius 'in units of elements'); nonpadding "
    "option is outside the statement ('normalised per element')",
    "radius kernel of FilterConv: cone max(0, r-d) on offsets |k_a| <= n_a (the module cuts the support at the domain "
    "size per axis), normalised; d in elements (relative_units) or in element sizes (absolute). Radii between 1e-13 "
    "and 1e-8 (relative) above a multiple of the element size are skipped: the module documents a 1e-10 cut-off there",
    "kernel wider than the domain on an axis (half-width p > n) with different rules on the two sides: 'extended by "
    "the selected rule' has two readings (a side's rule sees only the original data / sees the field as already "
    "extended on the other side, min side last); the output must equal one of them. For p <= n they coincide",
    "volume / constant / range clauses are only asserted when the hypotheses hold for all six boundary options as "
    "passed (also those on axes without padding)",
    "fields are float64; kernels given as 2D (nx,ny) or 3D arrays; a kernel with z-extent > 1 on a 2D domain is wider "
    "than the padded domain and outside the quantifier; FilterConv.override_values (interior overrides) has no "
    "semantics in the statement and is not exercised",
    "bounds: quick grids <= 6 per axis (3D DensityFilter exhaustive <= 4); thorough DensityFilter exhaustive <= 12x12 "
    "/ 7^3, random 3D <= 9, FilterConv grids <= 8 per axis; kernel half-width <= n+2 on one axis, <= 3 elsewhere",
]
FLOORS = {
    "quick": {"cases_held": 680, "distinct_nontrivial": 480, "dens_entries_compared": 22000,
              "conv_entries_compared": 60000, "constant_checks": 580, "range_checks": 2300, "volume_checks": 340,
              "conv_wide_kernel_cases": 160, "conv_padded_axes_checked": 1250},
    "thorough": {"cases_held": 15500, "distinct_nontrivial": 7000, "dens_entries_compared": 550000,
                 "conv_entries_compared": 2500000, "constant_checks": 9000, "range_checks": 36000,
                 "volume_checks": 8700, "conv_wide_kernel_cases": 2600, "conv_padded_axes_checked": 31000},
}
TIMEOUT_CASE = 120

MODES6 = ["symmetric", "edge", "wrap", 0.0, 1.0, 0.37]
KINDS4 = ["symmetric", "edge", "wrap", "const"]
CONSTS = [0.0, 1.0, 0.37, 0, 1, -2.5, 1000.0, True]
KERNELS = ["radius-rel", "radius-abs", "signed", "nonneg", "mirror", "shift"]
HOSTILE_R = [0.3, 0.999, 1.0, 1.0000001, math.sqrt(2.0), 1.5, 2.0, 2.0000001, math.sqrt(5.0), 2.5, 3.0, 3.7, 4.0, 50.0]
BC_NAMES = ["xmin_bc", "xmax_bc", "ymin_bc", "ymax_bc", "zmin_bc", "zmax_bc"]


# ------------------------------------------------------------------------------------------ plan
def _kind(m):
    return m if isinstance(m, str) else "const"


def _shape(rng, dim, nmax):
    n = [1 if rng.random() < 0.2 else int(rng.integers(2, nmax + 1)) for _ in range(dim)]
    return n + [0] * (3 - dim)


def _mode(rng, kind=None):
    if kind is None:
        kind = KINDS4[int(rng.integers(0, 4))]
    if kind != "const":
        return kind
    c = CONSTS[int(rng.integers(0, len(CONSTS)))]
    return c


def _kernel(rng, n, kind=None, wide_axis=None, narrow_axis=None):
    """kernel descriptor; half-widths p per axis (weights kernels), p[a] > n[a] on wide_axis, 1..n on narrow_axis"""
    dim = 2 if n[2] == 0 else 3
    if kind is None:
        kind = KERNELS[int(rng.integers(0, len(KERNELS)))]
    if wide_axis is not None and kind.startswith("radius"):
        kind = ["signed", "nonneg", "mirror", "shift"][int(rng.integers(0, 4))]
    if kind.startswith("radius"):
        # "rax" >= 0: absolute radius is rfac times the element size of that axis (exact multiples are hostile)
        return {"k": kind, "rfac": HOSTILE_R[int(rng.integers(0, len(HOSTILE_R)))] if rng.random() < 0.4
                else float(rng.uniform(0.3, max(n) + 2.0)), "rax": int(rng.integers(-1, dim))}
    p = []
    for a in range(dim):
        if a == wide_axis:
            p.append(int(n[a] + rng.integers(1, 3)))
        elif a == narrow_axis:
            p.append(int(rng.integers(1, n[a] + 1)))
        else:
            p.append(int(rng.integers(0, min(n[a], 3) + 1)))
    # 2D kernels for 2D domains are given as (a,b) or (a,b,1); for 3D domains (a,b) means no extent in z
    if dim == 2 and wide_axis in (None, 0) and narrow_axis in (None, 0) and rng.random() < 0.12:
        shape = [2 * p[0] + 1]          # a 1-D kernel acts along x only
    elif dim == 2:
        shape = [2 * q + 1 for q in p] + ([1] if rng.random() < 0.3 else [])
    elif wide_axis != 2 and narrow_axis != 2 and rng.random() < 0.15:
        shape = [2 * q + 1 for q in p[:2]]
    else:
        shape = [2 * q + 1 for q in p]
    return {"k": kind, "shape": shape}


def _conv_case(rng, dim, nmax, modes=None, kernel_kind=None, wide_axis=None, narrow_axis=None, n=None):
    n = n or _shape(rng, dim, nmax)
    if modes is None:
        u = rng.random()
        if u < 0.15:
            modes = ["symmetric"] * 6
        elif u < 0.45:
            modes = [KINDS4[int(rng.integers(0, 3))] for _ in range(6)]
        else:
            modes = [_mode(rng) for _ in range(6)]
    modes = [(_mode(rng) if m is None else m) for m in modes]
    if wide_axis is None and rng.random() < 0.15:
        wide_axis = int(rng.integers(0, dim))
    # element sizes in any physical unit (a micrometre-scale part in metres): one common factor on all axes
    us = float(10.0 ** rng.integers(-9, 4)) if rng.random() < 0.3 else 1.0
    return {"t": "conv", "n": n, "unit": [round(float(v), 3) * us for v in rng.uniform(0.4, 2.5, 3)], "modes": modes,
            "kernel": _kernel(rng, n, kernel_kind, wide_axis, narrow_axis),
            "npconst": bool(rng.random() < 0.2), "pass_z": bool(dim == 3 or rng.random() < 0.5)}


def plan(tier, seed):
    quick = tier == "quick"
    rng = rng_for(seed, "C09", "plan", tier)
    cases = []
    # ---- DensityFilter: all shapes up to the bound
    b2, b3 = (6, 4) if quick else (12, 7)
    shapes = [[i, j, 0] for i in range(1, b2 + 1) for j in range(1, b2 + 1)]
    shapes += [[i, j, k] for i in range(1, b3 + 1) for j in range(1, b3 + 1) for k in range(1, b3 + 1)]
    shapes += [_shape(rng, 3, 6 if quick else 9) for _ in range(24 if quick else 80)]
    for n in shapes:
        nr = 2 if quick else 3
        radii = [HOSTILE_R[int(i)] for i in rng.choice(len(HOSTILE_R), nr, replace=False)]
        radii += [float(max(n)) + 0.5, 2.0 * max(n) + 1.0][: 1 if quick else 2]
        radii += [float(rng.uniform(0.3, max(n) + 2.0)) for _ in range(2 if quick else 3)]
        us = float(10.0 ** rng.integers(-9, 4)) if rng.random() < 0.3 else 1.0
        cases.append({"t": "dens", "n": n, "unit": [round(float(v), 3) * us for v in rng.uniform(0.4, 2.5, 3)],
                      "radii": radii, "intr": bool(rng.random() < 0.3)})
    # ---- DensityFilter: radii beyond 11.3 elements on domains wide enough to contain such pairs (squared offsets >= 128)
    for n, radii in [[[14, 9, 0], [11.5, 12.7]], [[1, 15, 0], [12.2, 14.5]], [[9, 9, 3], [11.6, 12.9]]] + \
            [[[300, 1, 0], [182.5, 240.0]]] + \
            ([] if quick else [[[20, 12, 0], [11.4, 16.3, 23.0]], [[10, 10, 10], [11.5, 15.2]], [[13, 13, 0], [12.0, 18.1]], [[2, 400, 0], [185.0, 260.3]]]):
        cases.append({"t": "dens", "n": n, "unit": [1.0, 1.3, 0.7], "radii": radii, "intr": False})
    # ---- FilterConv (a): every ordered pair of rules on every axis, narrow and wide kernel
    nmax = 6 if quick else 8
    for dim in (2, 3):
        for ax in range(dim):
            for m0, m1 in itertools.product(MODES6, MODES6):
                for wide in (False, True):
                    for _ in range(1 if quick else 5):
                        modes = [None] * 6
                        modes[2 * ax], modes[2 * ax + 1] = m0, m1
                        # other axes: mostly non-constant so that the invariants stay decidable often
                        for o in range(6):
                            if modes[o] is None and rng.random() < 0.6:
                                modes[o] = KINDS4[int(rng.integers(0, 3))]
                        cases.append(_conv_case(rng, dim, 4 if wide else nmax, modes=modes,
                                                wide_axis=ax if wide else None, narrow_axis=None if wide else ax))
    # ---- (b) thorough: every combination of rule kinds on all boundaries
    if not quick:
        for dim in (2, 3):
            for kinds in itertools.product(KINDS4, repeat=2 * dim):
                modes = [_mode(rng, k) for k in kinds] + [None] * (6 - 2 * dim)
                n = [int(rng.integers(1, 5)) for _ in range(dim)] + [0] * (3 - dim)
                kk = ["signed", "nonneg", "mirror", "shift", "radius-rel", "radius-abs"][int(rng.integers(0, 6))]
                cases.append(_conv_case(rng, dim, 4, modes=modes, kernel_kind=kk, n=n,
                                        narrow_axis=int(rng.integers(0, dim))))
    # ---- (c) random
    for i in range(700 if quick else 20000):
        dim = 2 if rng.random() < 0.45 else 3
        cases.append(_conv_case(rng, dim, nmax))
    # all-symmetric + mirror/radius kernels (volume clause) and one-element-wide domains explicitly
    for i in range(120 if quick else 3000):
        dim = 2 if rng.random() < 0.5 else 3
        kk = ["mirror", "radius-rel", "radius-abs"][int(rng.integers(0, 3))]
        cases.append(_conv_case(rng, dim, nmax, modes=["symmetric"] * 6, kernel_kind=kk))
    for i in range(60 if quick else 1500):
        dim = 2 if rng.random() < 0.5 else 3
        n = _shape(rng, dim, nmax)
        n[int(rng.integers(0, dim))] = 1
        cases.append(_conv_case(rng, dim, nmax, n=n))
    for i, c in enumerate(cases):
        c["i"] = i
    return cases


# ------------------------------------------------------------------------------------------ shared
def _fields(rng, nel):
    cs = [0.0, 1.0, 0.37, -2.5, 1e3, float(rng.normal())]
    c = cs[int(rng.integers(0, len(cs)))]
    return [("random", rng.random(nel)),
            ("binary", (rng.random(nel) < 0.5).astype(float)),
            ("constant", np.full(nel, c)),
            ("signed-wide", rng.standard_normal(nel) * 10.0 ** rng.uniform(-3, 3, nel))]


def _grid(dom, n):
    """element numbers of the grid cells (nx,ny,max(nz,1)) through the domain's public numbering (judged by C13)"""
    nx, ny, nz = n[0], n[1], max(n[2], 1)
    I, J, K = np.meshgrid(np.arange(nx), np.arange(ny), np.arange(nz), indexing="ij")
    E = np.asarray(dom.get_elemnumber(I, J, K))
    if sorted(E.ravel().tolist()) != list(range(nx * ny * nz)):
        raise Skip("domain numbering is not a bijection (C13's business)")
    return I, J, K, E


def _check_output(y, nel, fam):
    if not (isinstance(y, np.ndarray) and y.shape == (nel,) and y.dtype.kind == "f"):
        raise Violation(f"{fam}/output-is-not-a-real-vector-of-nel-entries", type=type(y).__name__,
                        shape=getattr(y, "shape", None), dtype=str(getattr(y, "dtype", None)))
    if not np.all(np.isfinite(y)):
        raise Violation(f"{fam}/output-not-finite", bad=int(np.sum(~np.isfinite(y))))


def _invariants(ctx, fam, fname, x, y, wit, averaging, volume):
    """clauses 3-5 of the statement, judged on the module's output only"""
    if not averaging:
        return
    ax = float(np.max(np.abs(x)))
    lo, hi = float(x.min()), float(x.max())
    tol = TOL * ax + 1e-300
    ctx.count("range_checks")
    if y.min() < lo - tol or y.max() > hi + tol:
        ctx.violate(f"{fam}/output-outside-input-range", field=fname, min_x=lo, max_x=hi, min_y=float(y.min()),
                        max_y=float(y.max()), **wit)
    if fname == "constant":
        ctx.count("constant_checks")
        if float(np.max(np.abs(y - x[0]))) > TOL * abs(float(x[0])) + 1e-300:
            ctx.violate(f"{fam}/constant-field-not-preserved", constant=float(x[0]), got=y, **wit)
    if volume:
        ctx.count("volume_checks")
        if abs(float(y.sum() - x.sum())) > TOL * x.size * ax + 1e-300:
            ctx.violate(f"{fam}/volume-not-preserved-with-symmetric-padding-and-kernel", field=fname,
                            sum_x=float(x.sum()), sum_y=float(y.sum()), **wit)


# ------------------------------------------------------------------------------------------ DensityFilter
def _run_dens(case, ctx):
    import pymoto as pym
    n = case["n"]
    rng = ctx.rng("dens", case["i"])
    u = case["unit"]
    dom = pym.DomainDefinition(n[0], n[1], n[2], unitx=u[0], unity=u[1], unitz=u[2])
    I, J, K, E = _grid(dom, n)
    nel = E.size
    pos = np.empty((nel, 3))
    pos[E.ravel(), 0], pos[E.ravel(), 1], pos[E.ravel(), 2] = I.ravel(), J.ravel(), K.ravel()
    D = np.sqrt(((pos[:, None, :] - pos[None, :, :]) ** 2).sum(-1))      # distance in elements, all pairs
    worst, reach = 0.0, False
    for r in case["radii"]:
        if case.get("intr") and float(r).is_integer():
            r = int(r)
        W = np.maximum(0.0, r - D)
        reach = reach or bool(np.any(W[~np.eye(nel, dtype=bool)] > 0))
        sig = pym.Signal("x", np.zeros(nel))
        m = pym.DensityFilter(sig, domain=dom, radius=r)
        for ifield, (fname, x) in enumerate(_fields(rng, nel)):
            if ifield == 1 and nel >= 2:
                # another filter of the same mesh and radius with the `nonpadding` option comes to life (and is used) in the same
                # process: the filter under test must not notice
                sib = pym.DensityFilter(pym.Signal("xs", x.copy()), domain=dom, radius=r,
                                        nonpadding=np.sort(rng.choice(nel, size=max(1, nel // 2), replace=False)))
                sib.response()
                ctx.count("dens_sibling_filters")
            sig.state = x.copy()
            m.response()
            y = m.sig_out[0].state
            _check_output(y, nel, "densityfilter")
            yref = (W @ x) / W.sum(1)
            S = float(np.max(np.abs(x)))
            err = np.abs(y - yref)
            k = int(np.argmax(err))
            wit = {"n": n, "radius": r}
            if err[k] > TOL * S + 1e-300:
                ctx.violate("densityfilter/output-differs-from-normalised-cone-average", field=fname, element=k,
                                cell=pos[k].astype(int), got=float(y[k]), want=float(yref[k]), err=float(err[k]),
                                scale=S, **wit)
            else:
                ctx.count("dens_entries_compared", nel)
                worst = max(worst, float(err[k]) / max(S, 1e-300))
            _invariants(ctx, "densityfilter", fname, x, y, wit, averaging=True, volume=False)
    rcls = sorted({("<1" if r < 1 else ">dom" if r > max(n) else "mid") for r in case["radii"]})
    return {"key": f"dens|{n[0]}x{n[1]}x{n[2]}|{','.join(rcls)}", "nontrivial": nel >= 2 and reach,
            "obs": {"nel": nel, "radii": case["radii"], "max_rel_err": worst}}


# ------------------------------------------------------------------------------------------ FilterConv
def _axis_map(n, src, m0, m1):
    """Reading A: cell positions `src` (possibly outside 0..n-1) -> source cell of the ORIGINAL data on this axis,
    plus mask/value of the positions that take a constant."""
    idx = src.copy()
    isc = np.zeros(src.shape, dtype=bool)
    cval = np.zeros(src.shape)
    for side, m in ((src < 0, m0), (src >= n, m1)):
        if not side.any():
            continue
        s = src[side]
        if isinstance(m, str) and m == "symmetric":
            j = np.mod(s, 2 * n)
            idx[side] = np.where(j < n, j, 2 * n - 1 - j)
        elif isinstance(m, str) and m == "wrap":
            idx[side] = np.mod(s, n)
        elif isinstance(m, str) and m == "edge":
            idx[side] = np.clip(s, 0, n - 1)
        else:
            idx[side] = 0
            isc[side] = True
            cval[side] = float(m)
    return idx, isc, cval


def _ref_A(X3, w3, modes):
    """y(i) = sum_k w(k) X(i-k); X3: (nx,ny,nz,nf) fields, w3: (2px+1,2py+1,2pz+1). Returns y and max|X| used."""
    nx, ny, nz, nf = X3.shape
    p = [s // 2 for s in w3.shape]
    maps = []
    for a, n in enumerate((nx, ny, nz)):
        maps.append([_axis_map(n, np.arange(n) - k, modes[2 * a], modes[2 * a + 1]) for k in range(-p[a], p[a] + 1)])
    Y = np.zeros_like(X3)
    cmax = 0.0
    for a in range(3):
        if p[a] > 0:
            cmax = max([cmax] + [abs(float(m)) for m in modes[2 * a:2 * a + 2] if not isinstance(m, str)])
    for kx in range(2 * p[0] + 1):
        ix, cx, vx = maps[0][kx]
        for ky in range(2 * p[1] + 1):
            iy, cy, vy = maps[1][ky]
            for kz in range(2 * p[2] + 1):
                wk = w3[kx, ky, kz]
                if wk == 0.0:
                    continue
                iz, cz, vz = maps[2][kz]
                V = X3[np.ix_(ix, iy, iz)]
                # constants: x first, then y, then z (a later axis extends the already extended array)
                if cx.any():
                    V = np.where(cx[:, None, None, None], vx[:, None, None, None], V)
                if cy.any():
                    V = np.where(cy[None, :, None, None], vy[None, :, None, None], V)
                if cz.any():
                    V = np.where(cz[None, None, :, None], vz[None, None, :, None], V)
                Y += wk * V
    return Y, cmax


def _pad_seq(A, p, modes, n3, as_index):
    """Reading B (values) / model D (as_index: element indices, constants patched afterwards like an index-based
    implementation would): per axis the periodic sides first, then the max side, then the min side, each applied to
    the array as extended so far."""
    patches = []
    for a in range(3):
        if p[a] == 0:
            continue
        m0, m1 = modes[2 * a], modes[2 * a + 1]

        def pw(lo, hi):
            return [(lo, hi) if i == a else (0, 0) for i in range(A.ndim)]
        wl = p[a] if (isinstance(m0, str) and m0 == "wrap") else 0
        wh = p[a] if (isinstance(m1, str) and m1 == "wrap") else 0
        if wl or wh:
            A = np.pad(A, pw(wl, wh), mode="wrap")
        for hi_side, m in ((True, m1), (False, m0)):
            if isinstance(m, str) and m == "wrap":
                continue
            width = pw(0, p[a]) if hi_side else pw(p[a], 0)
            if isinstance(m, str):
                A = np.pad(A, width, mode=m)
            else:
                A = np.pad(A, width, mode="constant", constant_values=0 if as_index else float(m))
                patches.append((a, slice(p[a] + n3[a], 2 * p[a] + n3[a]) if hi_side else slice(0, p[a]), float(m)))
    return A, patches


def _correlate_valid(P, w3, n3):
    p = [s // 2 for s in w3.shape]
    Y = np.zeros(tuple(n3) + P.shape[3:])
    for kx, ky, kz in itertools.product(*[range(-q, q + 1) for q in p]):
        wk = w3[kx + p[0], ky + p[1], kz + p[2]]
        if wk != 0.0:
            Y += wk * P[p[0] - kx:p[0] - kx + n3[0], p[1] - ky:p[1] - ky + n3[1], p[2] - kz:p[2] - kz + n3[2]]
    return Y


def _ref_B(X3, w3, modes):
    n3 = X3.shape[:3]
    P, _ = _pad_seq(X3, [s // 2 for s in w3.shape], modes, n3, as_index=False)
    return _correlate_valid(P, w3, n3)


def _model_D(X3, w3, modes):
    """what an index-gather implementation yields when a mirrored side copies the placeholder index 0 of a
    constant-padded far side (used only to NAME that deviation, never to accept an output)"""
    n3 = X3.shape[:3]
    p = [s // 2 for s in w3.shape]
    idx = np.arange(int(np.prod(n3))).reshape(n3)
    Pi, patches = _pad_seq(idx, p, modes, n3, as_index=True)
    P = X3.reshape(-1, X3.shape[3])[Pi]
    for a, sl, v in patches:
        sel = [slice(None)] * 4
        sel[a] = sl
        P[tuple(sel)] = v
    return _correlate_valid(P, w3, n3)


def _cone(n, d, r):
    """cone kernel max(0, r-dist) on offsets |k_a| <= min(n_a, generous bound), normalised; offsets whose weight is
    zero do not matter, so the half-width is taken generously (independent of the module's int() arithmetic)"""
    h = [min(n[a], int(math.ceil(r / d[a])) + 1) for a in range(3)]
    ax = [np.arange(-h[a], h[a] + 1) * d[a] for a in range(3)]
    Xc, Yc, Zc = np.meshgrid(*ax, indexing="ij")
    w = np.maximum(0.0, r - np.sqrt(Xc ** 2 + Yc ** 2 + Zc ** 2))
    return w / w.sum()


def _make_weights(rng, kd):
    shape = kd["shape"]
    k = kd["k"]
    if k == "signed":
        w = rng.standard_normal(shape)
    elif k == "nonneg":
        w = rng.random(shape) * (rng.random(shape) < 0.7)
        if w.sum() == 0:
            w.flat[int(rng.integers(0, w.size))] = 1.0
        w = w / w.sum()
    elif k == "mirror":
        w = rng.random(shape) * (rng.random(shape) < 0.8)
        for a in range(len(shape)):
            w = w + np.flip(w, axis=a)
        if w.sum() == 0:
            w[tuple(s // 2 for s in shape)] = 1.0
        w = w / w.sum()
    elif k == "shift":
        w = np.zeros(shape)
        w[tuple(int(rng.integers(0, s)) for s in shape)] = 1.0
    else:
        raise ValueError(k)
    return w


def _run_conv(case, ctx):
    import pymoto as pym
    n = case["n"]
    dim = 2 if n[2] == 0 else 3
    rng = ctx.rng("conv", case["i"])
    u = case["unit"]
    dom = pym.DomainDefinition(n[0], n[1], n[2], unitx=u[0], unity=u[1], unitz=u[2])
    I, J, K, E = _grid(dom, n)
    n3 = list(E.shape)
    nel = E.size
    modes = list(case["modes"])
    if case.get("npconst"):
        modes = [m if isinstance(m, (str, bool)) else (np.float64(m) if isinstance(m, float) else np.int64(m))
                 for m in modes]
    kw = dict(zip(BC_NAMES, modes))
    if not case.get("pass_z", True):
        kw.pop("zmin_bc"), kw.pop("zmax_bc")
        modes[4] = modes[5] = "symmetric"          # the defaults
    kd = case["kernel"]
    sig = pym.Signal("x", np.zeros(nel))
    if kd["k"].startswith("radius"):
        rel = kd["k"] == "radius-rel"
        d = [1.0, 1.0, 1.0] if rel else [float(v) for v in u]
        r = float(kd["rfac"]) * (1.0 if rel else (d[kd["rax"]] if kd.get("rax", -1) >= 0 else float(np.mean(d[:dim]))))
        for a in range(dim):
            q = r / d[a]
            # cut-off weights below 1e-13 relative are invisible at TOL; between that and the module's documented
            # 1e-10 cut-off the defining formula and the module legitimately differ
            if 1e-13 * max(q, 1.0) < q - math.floor(q) < 1e-8 * max(q, 1.0):
                raise Skip("radius within 1e-8 above a multiple of the element size (documented cut-off tolerance)")
        w3 = _cone([n[0], n[1], n[2]], d, r)
        m = pym.FilterConv(sig, domain=dom, radius=r, relative_units=rel, **kw)
        kdesc = {"kernel": kd["k"], "radius": r}
    else:
        w = _make_weights(rng, kd)
        w3 = w.reshape(list(w.shape) + [1] * (3 - w.ndim))
        m = pym.FilterConv(sig, domain=dom, weights=w.copy(), **kw)
        kdesc = {"kernel": kd["k"], "kernel_shape": list(w.shape)}
    p = [s // 2 for s in w3.shape]
    wide = [a for a in range(3) if p[a] > n3[a]]
    mixed_wide = [a for a in wide if _kind(modes[2 * a]) != _kind(modes[2 * a + 1])
                  or (_kind(modes[2 * a]) == "const" and float(modes[2 * a]) != float(modes[2 * a + 1]))]
    has_const = any(not isinstance(mm, str) for mm in modes)
    nonneg_unit = bool(np.all(w3 >= 0) and abs(float(w3.sum()) - 1.0) <= 1e-12)
    mirror = all(np.array_equal(w3, np.flip(w3, axis=a)) for a in range(3))
    averaging = nonneg_unit and not has_const
    volume = averaging and mirror and all(isinstance(mm, str) and mm == "symmetric" for mm in modes)
    wsum = float(np.abs(w3).sum())
    jm = [mm if isinstance(mm, str) else float(mm) for mm in modes]
    wit = dict(n=n, modes=jm, half_width=p, **kdesc)
    if wide:
        ctx.count("conv_wide_kernel_cases")
    for a in range(3):
        if p[a] > 0:
            ctx.count("conv_padded_axes_checked")
    ctx.log("kernel", w3.shape, "modes", jm, "wide axes", wide, "averaging", averaging, "volume", volume)

    fields = _fields(rng, nel)
    Xs = np.stack([x for _, x in fields], axis=-1)            # (nel, nf)
    X3 = Xs[E]                                                 # (nx,ny,nz,nf)
    YA, cmax = _ref_A(X3, w3, modes)
    YB = None
    worst = 0.0
    for f, (fname, x) in enumerate(fields):
        sig.state = x.copy()
        m.response()
        y = m.sig_out[0].state
        _check_output(y, nel, "filterconv")
        S = max(float(np.max(np.abs(x))), cmax) * wsum
        tol = TOL * S + 1e-300
        y3 = y[E]
        errA = np.abs(y3 - YA[..., f])
        eA = float(errA.max())
        if eA <= tol:
            ctx.count("conv_entries_compared", nel)
            worst = max(worst, eA / max(S, 1e-300))
        else:
            cell = [int(v) for v in np.unravel_index(int(np.argmax(errA)), errA.shape)]
            w_ = dict(field=fname, cell=cell, got=float(y3[tuple(cell)]), want=float(YA[..., f][tuple(cell)]),
                      err=eA, scale=S, **wit)
            if not mixed_wide:
                ctx.violate("filterconv/output-differs-from-convolution-of-extended-field", **w_)
                _invariants(ctx, "filterconv", fname, x, y, wit, averaging, volume)
                continue
            if YB is None:
                YB = _ref_B(X3, w3, modes)
                YD = _model_D(X3, w3, modes)
            eB = float(np.abs(y3 - YB[..., f]).max())
            if eB <= tol:
                ctx.count("conv_entries_compared", nel)
                ctx.count("conv_held_by_sequential_reading")
                worst = max(worst, eB / max(S, 1e-300))
            else:
                eD = float(np.abs(y3 - YD[..., f]).max())
                sym_const = [a for a in mixed_wide if _kind(modes[2 * a]) == "symmetric"
                             and _kind(modes[2 * a + 1]) == "const"]
                w_["want_if_rule_sees_extended_far_side"] = float(YB[..., f][tuple(cell)])
                if eD <= tol and sym_const:
                    ctx.violate("filterconv/kernel-wider-than-domain/symmetric-min-side-copies-element-0-"
                                "instead-of-constant-max-side", axes=sym_const, **w_)
                else:
                    ctx.violate("filterconv/kernel-wider-than-domain/output-matches-neither-reading-of-mixed-rules",
                                axes=mixed_wide, **w_)
        _invariants(ctx, "filterconv", fname, x, y, wit, averaging, volume)
    # value overrides added *after* the filter has been used must act like overrides added before its first use
    # (metamorphic: no model of the override semantics is needed)
    if rng.random() < 0.35:
        idx = (slice(0, max(1, n3[0] // 2)), slice(None), slice(None)) if rng.random() < 0.5 else \
            (slice(None), slice(max(0, n3[1] - 1), None), slice(None))
        one_el = None
        if rng.random() < 0.4:
            # a single element given by integer grid indices, negative ones counted from the end as everywhere in numpy
            one_el = tuple(int(rng.integers(-n3[a], n3[a])) for a in range(3))
            idx = one_el
        val = float(rng.choice([0.0, 1.0, 0.25]))
        m.override_values(idx, val)
        sig2 = pym.Signal("x", np.zeros(nel))
        if "radius" in kdesc:
            m2 = pym.FilterConv(sig2, domain=dom, radius=kdesc["radius"], relative_units=rel, **kw)
        else:
            m2 = pym.FilterConv(sig2, domain=dom, weights=w.copy(), **kw)
        m2.override_values(idx, val)
        for fname, x in fields[:2]:
            sig.state = x.copy()
            sig2.state = x.copy()
            m.response()
            m2.response()
            ya, yb = np.asarray(m.sig_out[0].state), np.asarray(m2.sig_out[0].state)
            ctx.count("conv_override_histories")
            if ya.shape != yb.shape or not np.allclose(ya, yb, rtol=1e-12, atol=1e-12 * max(1.0, float(np.max(np.abs(x))))):
                ctx.violate("filterconv/value-override-added-after-first-use-acts-differently-from-one-added-before", field=fname,
                            value=val, err=float(np.max(np.abs(ya - yb))) if ya.shape == yb.shape else None, **wit)
                break
        if one_el is not None and not wide:
            # model of a single overridden element e: the padded copies of x_e keep following the boundary rule, only the element itself
            # is replaced, so  y = y_plain(x) + (value - x_e) * G_e  with G_e the response to a unit impulse at e under zero padding
            e3 = tuple(one_el[a] % n3[a] for a in range(3))
            imp = np.zeros(tuple(n3) + (1,))
            imp[e3 + (0,)] = 1.0
            G = _ref_A(imp, w3, [0.0] * 6)[0][..., 0]
            for f in range(2):
                sig.state = fields[f][1].copy()
                m.response()
                y3 = np.asarray(m.sig_out[0].state)[E]
                want = YA[..., f] + (val - X3[e3 + (f,)]) * G
                S_ = max(float(np.max(np.abs(fields[f][1]))), cmax, abs(val)) * max(wsum, 1.0)
                ctx.count("conv_single_element_override_checks")
                if not float(np.max(np.abs(y3 - want))) <= TOL * S_ + 1e-300:
                    ctx.violate("filterconv/single-element-value-override-differs-from-model", element=list(one_el), value=val,
                                err=float(np.max(np.abs(y3 - want))), **wit)
                    break
        # with overrides the output is an affine function of the field: the midpoint of an exactly uniform field and a random one
        # maps to the midpoint of their outputs (no model of the override semantics needed; uniform fields are where shortcuts live)
        xc, xr = fields[2][1], fields[0][1]
        outs = []
        for xx in (xc, xr, 0.5 * (xc + xr)):
            sig.state = xx.copy()
            m.response()
            outs.append(np.array(m.sig_out[0].state, dtype=float))
        ctx.count("conv_override_affinity_checks")
        sc_ = max(1.0, float(np.max(np.abs(xc))), float(np.max(np.abs(xr)))) * max(wsum, 1.0)
        if not np.allclose(outs[2], 0.5 * (outs[0] + outs[1]), rtol=0, atol=1e-11 * sc_):
            ctx.violate("filterconv/output-with-value-overrides-is-not-affine-in-the-field", value=val,
                        err=float(np.max(np.abs(outs[2] - 0.5 * (outs[0] + outs[1])))), uniform_value=float(xc[0]), **wit)
    kinds = "".join(_kind(mm)[0] for mm in modes[:2 * dim])
    return {"key": f"conv|{dim}D|{kd['k']}|{kinds}|{'wide' if wide else 'narrow'}",
            "nontrivial": nel >= 2 and any(q > 0 for q in p) and bool(np.count_nonzero(w3) > 1 or w3[tuple(p)] == 0),
            "obs": {"n": n, "modes": jm, "half_width": p, "max_rel_err": worst, "averaging": averaging,
                    "volume": volume}}


def run_case(case, ctx):
    if case["t"] == "dens":
        return _run_dens(case, ctx)
    return _run_conv(case, ctx)
