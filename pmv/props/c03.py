"""C03 — results depend only on current inputs and seeds, never on call history.

A zoo of networks containing the caching components (LinSolve with LDAS database and initial guess, CG with ILU and
geometric multigrid, EigenSolve with cached factorisations, OverhangFilter with stored layer maxima, AssembleGeneral
with constant, filters, SystemOfEquations, StaticCondensation, aggregation with active set) is driven through a random
history of {set inputs, response, seed, sensitivity (once or twice), reset, response without reset}; then
reset(); set inputs; response(); seed; sensitivity() must reproduce a freshly built identical network evaluated once.
The ModuleMonitor adds: reset() leaves no sensitivity, an unseeded sensitivity() changes nothing, states untouched."""
import warnings

import numpy as np
import scipy.sparse as sps

from ..core import Violation, require, Skip, todense, relerr, l2relerr, digest

ID = "C03"
LEVEL = "exploration"
MONITORS = ["module", "lda", "solver"]
ANCHORS = ["core_objects.py", "modules/linalg.py", "solvers/solvers.py", "modules/filter.py", "modules/assembly.py", "modules/aggregation.py"]
RULE = ("case = (network kind, history draw): a random history of 3-25 operations followed by the comparison cycle against a fresh network; "
        "distinct = (kind, multiset of operation types in the history); non-trivial = history contains at least one response with different inputs "
        "and one sensitivity before the comparison cycle")
ASSUMPTIONS = ["equality with the fresh network: 1e-9 relative (l2) for direct solvers, 1e-6 for CG-based networks (tol 1e-10) and eigenvectors",
               "inputs stay inside the matrix class / shapes of the network; documented memories (Scaling first value, damped AggScaling, writer "
               "counters) are not part of the zoo"]
FLOORS = {"quick": {"cases_held": 350, "history_ops": 4000, "mon_unseeded_sensitivity": 300, "mon_reset": 5000},
          "thorough": {"cases_held": 12000, "history_ops": 150000, "mon_unseeded_sensitivity": 12000, "mon_reset": 180000}}
KINDS = ["compliance", "compliance3d", "cg-ilu", "cg-mg", "dynamic", "eig-sparse", "eig-dense", "soe", "sc-linsolve", "general-const",
         "general-nonsym", "aggregation", "filterconv-overhang", "block-loads", "dense-definiteness", "cg-block", "sparse-decouple", "nested-topdown"]
TIMEOUT_CASE = 300


def plan(tier, seed):
    reps = 32 if tier == "quick" else 1200
    return [{"kind": k, "r": r} for r in range(reps) for k in KINDS]


_DYN = None


def _dynamic_matrix_class():
    """user module of the shipped example ex_dynamic_compliance.py (dynamic stiffness with Rayleigh damping)"""
    global _DYN
    if _DYN is None:
        import pymoto as pym

        class DynamicMatrix(pym.Module):
            def _prepare(self, omega=0.1, alpha=1e-3, beta=1e-2):
                self.omega, self.alpha, self.beta = omega, alpha, beta

            def _response(self, K, M):
                return K + 1j * self.omega * (self.alpha * M + self.beta * K) - self.omega ** 2 * M

            def _sensitivity(self, dZ):
                dZr, dZi = dZ.real, dZ.imag
                return dZr - (self.omega * self.beta) * dZi, (-self.omega ** 2) * dZr - (self.omega * self.alpha) * dZi
        _DYN = DynamicMatrix
    return _DYN


def build(kind, par):
    """returns (network, input signals, output signals, tolerance, input generator)"""
    import pymoto as pym
    S = pym.Signal
    net = pym.Network()
    tol = 1e-9
    if kind in ("compliance", "cg-ilu", "cg-mg", "dynamic", "eig-sparse", "soe", "sc-linsolve", "general-const", "filterconv-overhang",
                "block-loads", "compliance3d", "general-nonsym", "cg-block"):
        if kind == "compliance3d":
            d = pym.DomainDefinition(par["nx"], par["ny"], 2)
        else:
            d = pym.DomainDefinition(par["nx"], par["ny"])
        dim = d.dim
        bc = (d.nodes[0, ...].flatten()[:, None] * dim + np.arange(dim)[None]).flatten()
        ndof = d.nnodes * dim
        sx = S("x", np.ones(d.nel) * 0.5)
        gen = lambda rng: [rng.uniform(0.2, 1.0, d.nel)]  # noqa: E731
    if kind in ("compliance", "compliance3d"):
        sf = net.append(pym.DensityFilter(sx, domain=d, radius=1.5))
        so = net.append(pym.OverhangFilter(sf, domain=d, direction=par["dir"] if dim == 2 else [0, 0, 1], p=20.0, eps=1e-3))
        se = net.append(pym.MathGeneral(so, expression="0.001 + 0.999*inp0^3"))
        sK = net.append(pym.AssembleStiffness(se, domain=d, bc=bc))
        f = np.zeros(ndof)
        f[-1] = 1.0
        sfv = S("f", f)
        su = net.append(pym.LinSolve([sK, sfv]))
        sc = net.append(pym.EinSum([su, sfv], expression="i,i->"))
        return net, [sx], [sc, su], tol, gen
    if kind in ("cg-ilu", "cg-mg"):
        sK = net.append(pym.AssembleStiffness(sx, domain=d, bc=bc))
        f = np.zeros(ndof)
        f[-1] = 1.0
        sfv = S("f", f)
        pc = pym.solvers.ILU() if kind == "cg-ilu" else pym.solvers.GeometricMultigrid(d)
        su = net.append(pym.LinSolve([sK, sfv], solver=pym.solvers.CG(preconditioner=pc, tol=1e-10)))
        sc = net.append(pym.EinSum([su, sfv], expression="i,i->"))

        def gen_cg(rng):
            # the load is an input too and changes by orders of magnitude (the previous solution is the iterative solver's initial
            # guess: the accuracy of the new one must not depend on how far away it starts)
            g = np.zeros(ndof)
            g[-1] = 10.0 ** rng.uniform(-2.5, 2.5)     # (a ratio beyond ~1e6 makes the requested accuracy unattainable from the
            # old solution as starting point in floating point - not a defect of the solver)
            g[-2] = -0.3 * g[-1] * rng.uniform(0, 1)
            return [rng.uniform(0.2, 1.0, d.nel), g]
        return net, [sx, sfv], [sc, su], 1e-6, gen_cg
    if kind == "cg-block":
        # two load cases of very different magnitude solved together by CG (a structural load next to an actuator force); between
        # evaluations often only the small one changes, so the warm start already solves the large one
        sK = net.append(pym.AssembleStiffness(sx, domain=d, bc=bc))
        F0 = np.zeros((ndof, 2))
        F0[-1, 0], F0[-3, 1] = 1.0, 1e-6
        sF = S("F", F0)
        su = net.append(pym.LinSolve([sK, sF], solver=pym.solvers.CG(preconditioner=pym.solvers.ILU(), tol=1e-10)))
        sc0 = net.append(pym.EinSum([su[:, 0], sF[:, 0]], expression="i,i->"))
        sc1 = net.append(pym.EinSum([su[:, 1], sF[:, 1]], expression="i,i->"))
        last = {}

        def gen_blk(rng):
            if "x" in last and rng.random() < 0.6:
                x, F = last["x"].copy(), last["F"].copy()       # same design and large load case as the previous evaluation
            else:
                x, F = rng.uniform(0.2, 1.0, d.nel), np.zeros((ndof, 2))
                F[-1, 0] = rng.uniform(0.5, 2.0)
                F[-2, 0] = -0.3 * rng.uniform(0, 1)
            F[:, 1] = 0
            free = np.setdiff1d(np.arange(ndof), bc)
            F[rng.choice(free, size=2, replace=False), 1] = rng.standard_normal(2) * 10.0 ** rng.uniform(-8, -4)
            last["x"], last["F"] = x.copy(), F.copy()
            return [x, F]
        return net, [sx, sF], [sc0, sc1], 1e-6, gen_blk
    if kind == "dynamic":
        # complex dynamic stiffness  K(1+0.05i) - w^2 M
        sK = net.append(pym.AssembleStiffness(sx, domain=d, bc=bc))
        sM = net.append(pym.AssembleMass(sx, domain=d, bc=bc, ndof=2, material_property=1.0))
        sZ = net.append(_dynamic_matrix_class()([sK, sM], omega=float(np.sqrt(par["w2"]))))
        f = np.zeros(ndof)
        f[-1] = 1.0
        sfv = S("f", f)
        su = net.append(pym.LinSolve([sZ, sfv]))
        # |u| is not differentiable at the clamped dofs (u = 0 there): take the free dofs only
        free = np.setdiff1d(np.arange(ndof), bc)
        sa = net.append(pym.ComplexNorm(su[free]))
        so = net.append(pym.EinSum([sa], expression="i->"))
        return net, [sx], [so, su], tol, gen
    if kind == "eig-sparse":
        sK = net.append(pym.AssembleStiffness(sx, domain=d, bc=bc))
        sM = net.append(pym.AssembleMass(sx, domain=d, bc=bc, ndof=2, bcdiagval=1e-3))
        sl, sV = net.append(pym.EigenSolve([sK, sM], nmodes=2, sigma=par["sigma"]))
        return net, [sx], [sl, sV], 1e-6, gen
    if kind == "soe":
        sK = net.append(pym.AssembleStiffness(sx, domain=d))
        p = bc
        fr = np.setdiff1d(np.arange(ndof), p)
        sbf = S("bf", np.ones(fr.size) * 0.1)
        sxp = S("xp", np.linspace(0, 0.1, p.size))
        sxx, sb = net.append(pym.SystemOfEquations([sK, sbf, sxp], free=fr, prescribed=p))
        return net, [sx, sbf, sxp], [sxx, sb], tol, lambda rng: [rng.uniform(0.2, 1.0, d.nel), rng.standard_normal(fr.size), rng.standard_normal(p.size) * 0.1]
    if kind == "sc-linsolve":
        sK = net.append(pym.AssembleStiffness(sx, domain=d, bc=bc))
        main = np.array([ndof - 1, ndof - 2])
        fr = np.setdiff1d(np.arange(ndof), np.concatenate([bc, main]))
        sA = net.append(pym.StaticCondensation(sK, main=main, free=fr))
        sb = S("b", np.array([1.0, -0.5]))
        su = net.append(pym.LinSolve([sA, sb]))
        return net, [sx, sb], [su, sA], tol, lambda rng: [rng.uniform(0.2, 1.0, d.nel), rng.standard_normal(2)]
    if kind == "general-const":
        em = par["em"]
        C = par["C"]
        sA = net.append(pym.AssembleGeneral(sx, domain=d, element_matrix=em, bc=bc, bcdiagval=2.0, add_constant=C))
        f = np.ones(ndof)
        su = net.append(pym.LinSolve([sA, S("f", f)]))
        return net, [sx], [su, sA], tol, gen
    if kind == "general-nonsym":
        # non-symmetric system matrix: the adjoint solve uses the wrapper's separate adjoint database
        em = par["em"]
        sA = net.append(pym.AssembleGeneral(sx, domain=d, element_matrix=em, bc=bc, bcdiagval=2.0))
        f = np.ones(ndof)
        su = net.append(pym.LinSolve([sA, S("f", f)]))
        sc = net.append(pym.EinSum([su, S("g", np.arange(ndof) / ndof)], expression="i,i->"))
        return net, [sx], [sc, su], tol, gen
    if kind == "filterconv-overhang":
        sf = net.append(pym.FilterConv(sx, domain=d, radius=1.8, xmin_bc="edge", ymax_bc=0.0))
        so = net.append(pym.OverhangFilter(sf, domain=d, direction=par["dir"]))
        sv = net.append(pym.EinSum(so, expression="i->"))
        return net, [sx], [sv, so], tol, gen
    if kind == "block-loads":
        sK = net.append(pym.AssembleStiffness(sx, domain=d, bc=bc))
        F = np.zeros((ndof, 3))
        F[-1, 0] = 1.0
        F[-2, 1] = 1.0
        F[:, 2] = F[:, 0] - 2 * F[:, 1]
        sF = S("F", F)
        su = net.append(pym.LinSolve([sK, sF]))
        sc = net.append(pym.EinSum([su, sF], expression="ij,ij->"))
        def genF(rng):
            a, b = rng.uniform(0.5, 2), rng.uniform(0.5, 2)
            G = np.zeros((ndof, 3))
            G[-1, 0], G[-2, 1] = a, b
            G[:, 2] = G[:, 0] - 2 * G[:, 1]          # linearly dependent column
            return [rng.uniform(0.2, 1.0, d.nel), G]
        return net, [sx, sF], [sc, su], tol, genF
    if kind == "eig-dense":
        n = par["n"]
        sA = S("A", par["A0"])
        sl, sV = net.append(pym.EigenSolve(sA))

        def genA(rng):
            Q = np.linalg.qr(rng.standard_normal((n, n)))[0]
            A = (Q * np.arange(1, n + 1) * rng.uniform(0.8, 1.2, n)) @ Q.T
            A = (A + A.T) / 2
            return [np.asfortranarray(A) if rng.random() < 0.5 else A]
        return net, [sA], [sl, sV], 1e-7, genA
    if kind == "nested-topdown":
        # a sub-network that is appended to the outer network first and filled afterwards
        d = pym.DomainDefinition(par["nx"], par["ny"])
        bc = (d.nodes[0, ...].flatten()[:, None] * 2 + np.arange(2)[None]).flatten()
        ndof = d.nnodes * 2
        sx = S("x", np.ones(d.nel) * 0.5)
        f = np.zeros(ndof)
        f[-1] = 1.0
        sfv = S("f", f)
        sv = net.append(pym.EinSum([sx], expression="i->"))
        sub = pym.Network()
        net.append(sub)                 # (nothing is appended to the outer network after this point)
        sK = sub.append(pym.AssembleStiffness(sx, domain=d, bc=bc))
        su = sub.append(pym.LinSolve([sK, sfv]))
        sc = sub.append(pym.EinSum([su, sfv], expression="i,i->"))
        return net, [sx], [sc, su, sv], tol, lambda rng: [rng.uniform(0.2, 1.0, d.nel)]
    if kind == "sparse-decouple":
        # sparse system with a fixed sparsity pattern (explicit zeros, as an assembly routine produces) in which dofs are decoupled
        # at some evaluations (void elements, springs of zero stiffness) and coupled at others
        n = par["n"]
        pat = sps.coo_matrix(np.ones((n, n)))

        def store(A):
            return sps.csc_matrix((A[pat.row, pat.col], (pat.row, pat.col)), shape=(n, n))
        sA, sb = S("A", store(par["A0"])), S("b", np.ones(n))
        su = net.append(pym.LinSolve([sA, sb]))
        sc = net.append(pym.EinSum([su, sb], expression="i,i->"))

        def genS(rng):
            Q = np.linalg.qr(rng.standard_normal((n, n)))[0]
            A = (Q * rng.uniform(1.0, 4.0, n)) @ Q.T
            A = (A + A.T) / 2
            if rng.random() < 0.6:
                idx = rng.choice(n, size=int(rng.integers(1, n - 1)), replace=False)
                dg = np.diag(A)[idx].copy()
                A[idx, :] = 0
                A[:, idx] = 0
                A[idx, idx] = dg
            return [store(A), rng.standard_normal(n)]
        return net, [sA, sb], [sc, su], 1e-8, genS
    if kind == "dense-definiteness":
        # dense symmetric system with positive diagonal whose definiteness changes along the history (e.g. K - w^2 M swept
        # through a resonance): the Cholesky solver chosen at the first call has to fall back to LDL and come back
        n = par["n"]
        sA, sb = S("A", par["A0"]), S("b", np.ones(n))
        su = net.append(pym.LinSolve([sA, sb]))
        sc = net.append(pym.EinSum([su, sb], expression="i,i->"))

        def genD(rng):
            Q = np.linalg.qr(rng.standard_normal((n, n)))[0]
            lam = rng.uniform(1.0, 4.0, n)
            A = (Q * lam) @ Q.T
            if rng.random() < 0.5:      # make it indefinite but keep the diagonal positive
                w_, v_ = np.linalg.eigh(A)
                A2 = A - (w_[0] + rng.uniform(0.2, 0.6)) * np.outer(v_[:, 0], v_[:, 0])
                if np.all(np.diag(A2) > 0.05):
                    A = A2
            A = (A + A.T) / 2
            if rng.random() < 0.4:      # some dofs decoupled (supports / void regions), coupled again at other times
                idx = rng.choice(n, size=int(rng.integers(1, n - 1)), replace=False)
                dg = np.diag(A)[idx].copy()
                A[idx, :] = 0
                A[:, idx] = 0
                A[idx, idx] = dg
            return [np.asfortranarray(A) if rng.random() < 0.3 else A, rng.standard_normal(n)]
        return net, [sA, sb], [sc, su], 1e-8, genD
    if kind == "aggregation":
        sx = S("x", np.linspace(0.5, 2, par["n"]))
        sy = net.append(pym.MathGeneral(sx, expression="inp0^2 + 0.1"))
        sp = net.append(pym.PNorm(sy, p=4.0, active_set=pym.AggActiveSet(lower_rel=0.1, upper_amt=0.8)))
        sk = net.append(pym.KSFunction(sy, rho=-3.0))
        # undamped scaling has no memory (only damped scaling is a documented exception): the factor belongs to the latest response
        ss = net.append(pym.PNorm(sy, p=6.0, scaling=pym.AggScaling("max")))
        sm = net.append(pym.SoftMinMax(sy, alpha=-4.0, scaling=pym.AggScaling("min", damping=0.0)))
        return net, [sx], [sp, sk, ss, sm], tol, lambda rng: [np.sort(rng.uniform(0.5, 2.0, par["n"])) + np.arange(par["n"]) * 0.05]
    raise ValueError(kind)


def params(kind, rng):
    p = {"nx": int(rng.choice([2, 4])), "ny": int(rng.choice([2, 4])), "dir": str(rng.choice(["+y", "-y", "+x", "-x"])),
         "w2": float(rng.uniform(0.01, 0.05)), "sigma": None if rng.random() < 0.5 else 0.0, "n": int(rng.integers(4, 9))}
    if kind == "general-const":
        import pymoto as pym
        d = pym.DomainDefinition(p["nx"], p["ny"])
        em = rng.standard_normal((8, 8))
        p["em"] = em @ em.T + 8 * np.eye(8)
        p["C"] = sps.diags(rng.uniform(0.1, 1, d.nnodes * 2)).tocsc()
    if kind == "general-nonsym":
        em = rng.standard_normal((8, 8)) * 0.5
        p["em"] = em + 8 * np.eye(8)
    if kind in ("dense-definiteness", "sparse-decouple"):
        n = p["n"]
        Q = np.linalg.qr(rng.standard_normal((n, n)))[0]
        A = (Q * rng.uniform(1.0, 4.0, n)) @ Q.T
        p["A0"] = (A + A.T) / 2
    if kind == "eig-dense":
        n = p["n"]
        Q = np.linalg.qr(rng.standard_normal((n, n)))[0]
        A = (Q * np.arange(1, n + 1)) @ Q.T
        p["A0"] = (A + A.T) / 2
    return p


def _all_sigs(net):
    """every signal of every module, descending into nested networks (whose own signal lists may not list the inner signals)"""
    out = []
    for m in net.mods:
        if hasattr(m, "mods"):
            out += _all_sigs(m)
        out += list(m.sig_in) + list(m.sig_out)
    return out


def _setin(ins, xs):
    for s, x in zip(ins, xs):
        if isinstance(x, np.ndarray):
            s.state = x.copy(order="K")       # keeps a column-major layout (a transposed view, the result of a LAPACK/einsum call)
        else:
            s.state = x.copy() if hasattr(x, "copy") else x


def _seed(rng, outs, which):
    out = []
    for o, on in zip(outs, which):
        if not on:
            out.append(None)
            continue
        y = todense(o.state)
        w = rng.standard_normal(np.shape(y))
        if np.iscomplexobj(y):
            w = w + 1j * rng.standard_normal(np.shape(y))
        if np.ndim(y) == 2 and y.shape[1] > 1 and rng.random() < 0.5:
            # seed a single column only (one mode / one load case), as finite_difference and per-mode objectives do
            keep = int(rng.integers(y.shape[1]))
            w[:, [j for j in range(y.shape[1]) if j != keep]] = 0
        out.append(w if np.ndim(y) else float(w))
    return out


def _cycle(net, ins, outs, xs, seeds, pre=(), setin=True):
    net.reset()
    if setin:
        _setin(ins, xs)
    with warnings.catch_warnings():
        warnings.simplefilter("ignore")
        net.response()
        for ws in pre:
            for o, w in zip(outs, ws):
                if w is not None:
                    o.sensitivity = w.copy() if hasattr(w, "copy") else w
            net.sensitivity()
            net.reset()
        for o, w in zip(outs, seeds):
            if w is not None:
                o.sensitivity = w.copy() if hasattr(w, "copy") else w
        net.sensitivity()
    ys = [np.array(todense(o.state)) for o in outs]
    gs = [None if s.sensitivity is None else np.array(todense(s.sensitivity)) for s in ins]
    return ys, gs


def run_case(case, ctx):
    kind = case["kind"]
    rng = ctx.rng("c03", kind, case["r"])
    par = params(kind, rng)
    with warnings.catch_warnings():
        warnings.simplefilter("ignore")
        net, ins, outs, tol, gen = build(kind, par)
        # source signals with a pre-allocated sensitivity (what Signal(..., sensitivity=array) sets up: reset() zeroes it in place)
        prealloc = []
        for s_ in ins:
            if isinstance(s_.state, np.ndarray) and s_.state.dtype.kind == "f" and rng.random() < 0.3:
                s_.sensitivity = np.zeros_like(s_.state)
                s_.keep_alloc = True
                prealloc.append(s_)
        if prealloc:
            ctx.count("preallocated_source_sensitivities", len(prealloc))
        nops = int(rng.integers(3, 26))
        responded, types = False, []
        n_resp_new, n_sens = 0, 0
        try:
            for k in range(nops):
                op = str(rng.choice(["set", "response", "seed+sens", "seed+sens", "sens-twice", "reset", "sens-noseed", "response-noreset",
                                     "nonfinite"]))
                types.append(op)
                ctx.count("history_ops")
                if op == "set":
                    _setin(ins, gen(rng))
                    responded = False
                elif op in ("response", "response-noreset"):
                    if op == "response":
                        net.reset()
                    else:
                        _setin(ins, gen(rng))
                    net.response()
                    responded = True
                    n_resp_new += 1
                elif op in ("seed+sens", "sens-twice"):
                    if not responded:
                        net.response()
                        responded = True
                    which = [bool(b) for b in rng.integers(0, 2, len(outs))]
                    if not any(which):
                        which[0] = True
                    for o, w in zip(outs, _seed(rng, outs, which)):
                        if w is not None:
                            o.sensitivity = w
                    net.sensitivity()
                    if op == "sens-twice":
                        net.sensitivity()
                    n_sens += 1
                elif op == "nonfinite":
                    # an earlier evaluation whose sensitivities were not finite (a derivative at a singular point): after reset()
                    # nothing of it may be left
                    if not responded:
                        net.response()
                        responded = True
                    for s_ in prealloc:
                        if isinstance(s_.sensitivity, np.ndarray):
                            s_.sensitivity[...] = [np.inf, -np.inf, np.nan][int(rng.integers(0, 3))]
                    net.reset()
                elif op == "reset":
                    net.reset()
                elif op == "sens-noseed":
                    net.reset()
                    if not responded:
                        net.response()
                        responded = True
                    before = [digest(s.sensitivity) for s in _all_sigs(net)]
                    net.sensitivity()
                    after = [digest(s.sensitivity) for s in _all_sigs(net)]
                    require(before == after and all(s_.sensitivity is None or not np.any(todense(s_.sensitivity)) for s_ in _all_sigs(net)),
                            "sensitivity-without-seed-changes-something", kind=kind)
            # the comparison cycle
            xs = gen(rng)
            net.reset()
            left = [s for s in _all_sigs(net) if s.sensitivity is not None and np.any(todense(s.sensitivity))]
            require(not left, "reset-leaves-a-sensitivity", kind=kind, n=len(left))
            _setin(ins, xs)
            net.response()
            which = [bool(b) for b in rng.integers(0, 2, len(outs))]
            if not any(which):
                which[0] = True
            seeds = _seed(rng, outs, which)
            # between the latest response and the compared seeding the user may have back-propagated other seeds
            # (one seed per output/mode, each followed by reset() - the pattern of finite_difference and of MMA)
            pre = []
            for _ in range(int(rng.integers(0, 3))):
                wh = [bool(b) for b in rng.integers(0, 2, len(outs))]
                if not any(wh):
                    wh[-1] = True
                pre.append(_seed(rng, outs, wh))
            # the compared cycle either starts by handing over the inputs again, or re-uses the inputs the network already holds
            # (response() a second time on unchanged input signals: what a line search or a re-evaluation after reset() does)
            keep_inputs = bool(rng.random() < 0.4)
            if keep_inputs:
                ctx.count("compared_cycle_reuses_held_inputs")
            y1, g1 = _cycle(net, ins, outs, xs, seeds, pre, setin=not keep_inputs)
            net2, ins2, outs2, _, _ = build(kind, par)
            y2, g2 = _cycle(net2, ins2, outs2, xs, seeds)
        except (RuntimeError, np.linalg.LinAlgError) as e:
            if kind == "eig-sparse" and ("exactly singular" in str(e) or "Singular matrix" in str(e)):
                raise Skip("sparse eigenvector adjoint raised 'exactly singular' (known finding of C01)")
            raise
    worst = 0.0
    for name, a, b in [("state", a, b) for a, b in zip(y1, y2)] + [("sensitivity", a, b) for a, b in zip(g1, g2)]:
        if a is None or b is None:
            # (a pre-allocated sensitivity that received nothing is an all-zero array, "no sensitivity" on the fresh network is None)
            other = b if a is None else a
            require(other is None or not np.any(other), f"history-dependent-{name}/one-side-missing", kind=kind)
            continue
        e = l2relerr(a, b)
        worst = max(worst, e)
        if not e <= tol:
            raise Violation(f"history-dependent-{name}", kind=kind, err=e, tol=tol, history=types[-12:], seeded=which)
    return {"key": f"{kind}/{'-'.join(sorted(set(types)))}", "nontrivial": n_resp_new >= 1 and n_sens >= 1,
            "obs": {"kind": kind, "ops": nops, "max_rel_diff_vs_fresh": worst}}
