"""C19 — finite_difference is a faithful and non-destructive derivative check.

The routine under test is ``pymoto.finite_difference``.  It is run on *programs whose exact
Jacobians are known*: harness modules (polynomial maps  y = [Re](c + A x + B conj(x) + (Q x)^2)
with a wrongness knob in their sensitivity), single or wired into random feed-forward Networks,
plus two library modules (AssembleStiffness: sparse output; OverhangFilter: non-linear).
Observation points (as anchored in the property): the stream of values handed to the ``test_fn``
callback, every Signal.state / Signal.sensitivity after the call, the seed assigned to every output
signal (observed at the assignment ``Sout.sensitivity = ...`` through a Signal subclass), and the printed
"beyond tolerance" summary.  Oracle: pmv/oracles/c19_model.py (plain numpy)."""
import contextlib
import copy
import io
import re
import sys

import numpy as np
import scipy.sparse as sps

from ..core import Violation, Inconclusive, digest, exc_site, rng_for
from ..oracles import c19_model as M

ID = "C19"
LEVEL = "exploration"
MONITORS = []
ANCHORS = ["routines.py"]
RULE = ("case = one call of finite_difference on a freshly built program: family single (one harness module; input kind "
        "x coefficient type x wrongness knob x keep_zero_structure enumerated, remaining options drawn), network (random "
        "feed-forward graph of 2-4 harness modules with drawn fromsig/tosig selections incl. slices, cuts and upstream "
        "outputs), library (AssembleStiffness right/wrong, OverhangFilter) and sparse-input; distinct = family x input "
        "kinds x dtype x knob x options; non-trivial = at least one perturbed entry was reported and judged")
EXHAUSTIVE = {"quick": False, "thorough": False}
ASSUMPTIONS = [
    "bounds: signals of 1..9 entries (scalars, vectors <=5, matrices <=3x3), 1..3 inputs and outputs per module, networks "
    "of 2..4 modules (optionally one nested Network), dx in 1e-4..1e-8, tol in 1e-5..1e-2; quick 3766 cases, thorough 92180",
    "analytical value: |reported - reference| <= 1e-12*(sum|J|^T|w| + |value|): two different derivative codes "
    "(transposed formula in the module, Jacobian contraction in the oracle) and the Signal accumulation order differ by "
    "n*eps with n<=50 terms; 1e-12 leaves a factor >100",
    "numerical value: |reported - exact derivative| <= 2*max|q(+h)-D|,|q(-h)-D| + K*eps*sum|w||y|_mag/h with q the one-sided "
    "difference quotient of the reference model at the documented step h=dx (dx*|x0| for relative_dx), i.e. twice the "
    "truncation error of a one-sided scheme (central or smaller-step schemes pass), K=8*(N+6)*depth from gamma_n bounds "
    "of f(x+h), f(x), the step x0+h and the weighted sum (N largest signal size, depth number of modules); |y|_mag is the "
    "forward pass of the absolute-value model at |x|+h_max; measured: the unchanged tree uses <1e-3 of the rounding part",
    "reports are matched to expected records order-free (perfect bipartite matching on entry value x0 bit for bit, "
    "analytical and numerical value), because test_fn carries no index: any visiting order is accepted, every perturbable "
    "entry must be reported exactly once per output and direction; for an intermediate fromsig x0 is read from the signal "
    "after a preliminary response() (it equals the reference value to 1e-12)",
    "the exact Jacobian code of the oracle is confirmed per record by a five-point stencil of the reference forward map "
    "(exact for degree<=4); disagreement >1e-5 relative makes the case inconclusive, never a violation",
    "library modules: analytical reference = back-propagation of a copy of the observed seed on a fresh instance; "
    "AssembleStiffness is linear (exact columns K(x+e_i)-K(x)); OverhangFilter derivative = central difference of a fresh "
    "instance at the same h, allowance 2*max|q(+-h)-Dc| + 1e-6*sum|w| (conditioning of the p-norm recursion <=1e4 at h>=1e-6)",
    "restored exactly = same dtype, shape and bytes for arrays (whole underlying buffer for views); for Python/NumPy "
    "scalars the same value bit for bit (float64 <-> float is not counted as a change)",
    "no sensitivity left set = None or identically zero (a base signal used through slices keeps a zero array)",
    "printed summary: only entries that are clearly matching (abs and rel error bound < tol/10) or clearly mismatching "
    "(> 10*tol) constrain the printed number of failures",
    "admissible selections: fromsig signals are not produced inside the executed sub-network; module inputs slice "
    "sources only; seeds of real outputs are real; no integer / float32 / read-only states",
]
FLOORS = {
    "quick": {"cases_held": 1800, "distinct_nontrivial": 1800, "reports_judged": 25000, "imag_reports_judged": 8000,
              "states_compared": 3500, "sensitivities_inspected": 9000, "seeds_observed": 4000, "use_df_seeds_confirmed": 700,
              "wrong_module_mismatch_pairs": 3500, "right_module_matching_pairs": 12000, "summary_lines_judged": 3000,
              "sparse_output_cases": 500, "network_cases": 1000, "nested_network_cases": 150, "sliced_fromsig_cases": 500,
              "sliced_tosig_cases": 350, "cut_fromsig_cases": 100, "stale_sensitivity_cases": 400, "overhang_cases": 16},
    "thorough": {"cases_held": 45000, "distinct_nontrivial": 42000, "reports_judged": 750000, "imag_reports_judged": 250000,
                 "states_compared": 100000, "sensitivities_inspected": 260000, "seeds_observed": 105000,
                 "use_df_seeds_confirmed": 20000, "wrong_module_mismatch_pairs": 95000, "right_module_matching_pairs": 400000,
                 "summary_lines_judged": 80000, "sparse_output_cases": 12000, "network_cases": 30000,
                 "nested_network_cases": 5000, "sliced_fromsig_cases": 16000, "sliced_tosig_cases": 9000,
                 "cut_fromsig_cases": 3500, "stale_sensitivity_cases": 10000, "overhang_cases": 300},
}
TIMEOUT_CASE = 600
EXPLANATION = ("clauses -> oracle: (1) every perturbable entry reported once per output and direction: order-free perfect "
               "matching of the test_fn stream with the expected records (entries x {re,im} x outputs; zero entries "
               "excluded iff keep_zero_structure); (2) analytical value = back-propagation of the observed seed through the "
               "modules' own (possibly wrong) adjoints, computed by Jacobian contraction; (3) numerical value = exact "
               "directional derivative by forward tangents, within twice the one-sided truncation error plus a rounding "
               "bound; (4) wrong module -> reported pair differs by at least half the wrongness, right module -> pair agrees "
               "within the allowance, and the printed 'beyond tolerance' count lies between the clearly-wrong and the "
               "not-clearly-right entries; (5) digests of all input states (incl. view buffers and perturbed intermediate "
               "signals) before/after; (6) every Signal.sensitivity None or zero after the call; use_df seeds confirmed at "
               "the assignment to the output signal")
UNREACHABLE = ["sparse-matrix *input* signals: finite_difference raises (known finding sparse-input-unsupported), the "
               "oracle for that path is present but never exercised"]

SCALAR_KINDS = ["pyf", "pyc", "npf", "npc", "0df", "0dc"]
ARRAY_KINDS = ["vec", "vecz", "mat", "matz", "matF", "view"]
KNOBS = ["none", "factor", "sign", "entry", "imagdrop", "conj", "out2"]
DXS = [1e-4, 1e-5, 1e-6, 1e-7, 1e-8]


# ============================================================================================== plan
def plan(tier, seed):
    cases = []
    # ---- family single: enumerated core
    k = 0
    for kind in SCALAR_KINDS + [a + c for a in ARRAY_KINDS for c in ("r", "c")]:
        cx = kind in ("pyc", "npc", "0dc") or (kind not in SCALAR_KINDS and kind.endswith("c"))
        for coef in (0, 1):
            for knob in KNOBS:
                if knob in ("imagdrop", "conj") and not cx:
                    continue
                for kz in (1, 0):
                    cases.append({"fam": "single", "kind": kind, "coef": coef, "knob": knob, "kz": kz, "r": k})
                    k += 1
    reps = 2 if tier == "quick" else 24
    base = list(cases)
    for rep in range(1, reps):
        cases += [dict(c, r=c["r"] + rep * 100000) for c in base]
    # ---- drawn families
    nnet, nsingle2, nlib, nsp = (2000, 800, 64, 6) if tier == "quick" else (60000, 20000, 1200, 12)
    cases += [{"fam": "network", "r": i} for i in range(nnet)]
    cases += [{"fam": "single2", "r": i} for i in range(nsingle2)]     # two inputs / two outputs / sparse out, all drawn
    cases += [{"fam": "assemble", "r": i, "wrong": i % 2} for i in range(nlib)]
    cases += [{"fam": "assemble", "r": 900000 + i, "wrong": 0, "big": 1} for i in range(2 if tier == "quick" else 32)]
    cases += [{"fam": "overhang", "r": i} for i in range(nlib // 2)]
    cases += [{"fam": "sparse-input", "r": i, "fmt": ["csr", "csc", "coo"][i % 3], "cplx": (i // 3) % 2,
               "lib": int(i >= 6)} for i in range(nsp)]
    # interleave so that every shard sees every family
    order = rng_for(12345, "C19-plan-order").permutation(len(cases))
    return [cases[i] for i in order]


# ============================================================================================== harness
_H = {}


def _SS():
    from pymoto.core_objects import SignalSlice
    return SignalSlice


def harness():
    if _H:
        return _H
    import pymoto as pym

    class SpySignal(pym.Signal):
        """Signal that records every non-None sensitivity *assigned from outside core_objects.py*
        (i.e. the seed finite_difference puts on an output) – value copy and object."""
        _spy = None

        @property
        def sensitivity(self):
            return self.__dict__.get("_sens")

        @sensitivity.setter
        def sensitivity(self, v):
            self.__dict__["_sens"] = v
            if v is not None and self._spy is not None:
                if not sys._getframe(1).f_code.co_filename.endswith("core_objects.py"):
                    self._spy.append((self, v, copy.deepcopy(v)))

    class SpySlice(_SS()):
        _spy = None

        @property
        def sensitivity(self):
            return _SS().sensitivity.fget(self)

        @sensitivity.setter
        def sensitivity(self, v):
            if v is not None and self._spy is not None:
                if not sys._getframe(1).f_code.co_filename.endswith("core_objects.py"):
                    self._spy.append((self, v, copy.deepcopy(v)))
            _SS().sensitivity.fset(self, v)

    class PolyMod(pym.Module):
        """y = Poly(x): the program handed to finite_difference.  ``outfmt`` per output: ('py',) ('0d',) ('vec',)
        ('mat', shape) ('sparse', fmt, shape, rows, cols);  knob = deliberate error of the sensitivity."""

        def _prepare(self, model, knob, outfmt, sens_py, reuse):
            self.model, self.knob, self.outfmt, self.sens_py, self.reuse = model, knob, outfmt, sens_py, reuse
            self.buf = [None] * len(outfmt)
            self.ncalls = 0

        def _fmt(self, o, y):
            f = self.outfmt[o]
            if f[0] == "py":
                return y.reshape(-1)[0].item()
            if f[0] == "0d":
                v = np.array(y.reshape(-1)[0])
            elif f[0] == "vec":
                v = np.array(y)
            elif f[0] == "mat":
                v = np.array(y).reshape(f[1])
            else:
                _, fmt, shape, rows, cols = f
                mat = sps.coo_matrix((np.array(y), (rows, cols)), shape=shape).asformat(fmt)
                if self.reuse and self.buf[o] is not None and self.buf[o].data.dtype == mat.data.dtype:
                    self.buf[o].data[...] = mat.data
                    return self.buf[o]
                self.buf[o] = mat
                return mat
            if self.reuse and f[0] != "0d":
                if self.buf[o] is not None and self.buf[o].dtype == v.dtype:
                    self.buf[o][...] = v
                    return self.buf[o]
                self.buf[o] = v
            return v

        def _response(self, *xs):
            self.ncalls += 1
            ys = self.model.forward([np.asarray(x).reshape(-1) for x in xs])
            return [self._fmt(o, np.asarray(y)) for o, y in enumerate(ys)]

        def _sensitivity(self, *dys):
            ws = []
            for o, dy in enumerate(dys):
                if dy is None:
                    ws.append(None)
                elif self.outfmt[o][0] == "sparse":
                    d = dy.toarray() if sps.issparse(dy) else np.asarray(dy)
                    ws.append(d[self.outfmt[o][3], self.outfmt[o][4]])
                else:
                    ws.append(np.asarray(dy).reshape(-1))
            states = [s.state for s in self.sig_in]
            xs = [np.asarray(x).reshape(-1) for x in states]
            in_c = [bool(np.iscomplexobj(x)) for x in states]
            gs = self.model.backprop_mod(xs, M.knob_seeds(self.knob, ws))
            gs = M.apply_knob(self.knob, gs, in_c)
            out = []
            for g, x, c in zip(gs, states, in_c):
                g = np.array(g if c else np.real(g))
                if isinstance(x, np.ndarray):
                    out.append(g.reshape(x.shape))
                elif self.sens_py and not isinstance(x, np.generic):
                    out.append(g.reshape(-1)[0].item())
                else:
                    out.append(g.reshape(())[()])
            return out

    _H.update(pym=pym, SpySignal=SpySignal, SpySlice=SpySlice, PolyMod=PolyMod)
    return _H


# ============================================================================================== value generators
def draw_vals(rng, shape, cplx, zeros):
    n = int(np.prod(shape, dtype=int))
    scale = float(rng.choice([1.0, 1.0, 1.0, 0.03, 20.0]))
    v = rng.uniform(0.3, 3.0, n) * rng.choice([-1.0, 1.0], n) * scale
    if cplx:
        v = v + 1j * rng.uniform(0.3, 3.0, n) * rng.choice([-1.0, 1.0], n) * scale
    if zeros and n > 1:
        for i in range(n):
            u = rng.random()
            if u < 0.25:
                v[i] = 0.0
            elif cplx and u < 0.40:
                v[i] = 1j * v[i].imag       # purely imaginary entry
            elif cplx and u < 0.55:
                v[i] = v[i].real            # purely real entry of a complex array
        if not np.any(v != 0):
            v[0] = 1.25
        if not np.any(v == 0):
            v[-1] = 0.0
    if n >= 1 and rng.random() < 0.2:
        # a tiny but non-zero entry (a displacement in m, a compliance in 1/Pa): it is not part of the "zero structure"
        i = int(rng.integers(0, n))
        if v[i] != 0:
            v[i] = v[i] / abs(v[i]) * 10.0 ** rng.uniform(-14, -8.5)
    if n >= 1 and rng.random() < 0.3:
        # an entry just below a power of two: x0+h lies in the next binade, so (x0+h)-h is not x0 in about half of
        # the cases -- only an exact restore leaves such a state bit-identical
        i = int(rng.integers(0, n))
        edge = 2.0 ** int(rng.integers(-2, 3)) * (1.0 - int(rng.choice([1, 2, 3, 5, 7])) * 2.0 ** -53)
        v[i] = edge + (1j * v[i].imag if cplx else 0.0)
    return v.reshape(shape)


def make_source(rng, kind):
    """returns (state object given to the Signal, keepalive/base buffer or None)."""
    if kind in SCALAR_KINDS:
        cx = kind.endswith("c")
        v = draw_vals(rng, (), cx, False)
        z = complex(v) if cx else float(v)
        if rng.random() < 0.12:
            z = 0j if cx else 0.0           # a scalar state that is exactly zero
        if kind.startswith("py"):
            return z, None
        if kind.startswith("np"):
            return (np.complex128(z) if cx else np.float64(z)), None
        return np.array(z), None
    cx = kind.endswith("c")
    k = kind[:-1]
    if k in ("vec", "vecz"):
        return draw_vals(rng, (int(rng.integers(1, 6)),), cx, k == "vecz"), None
    if k in ("mat", "matz"):
        return draw_vals(rng, (int(rng.integers(1, 4)), int(rng.integers(1, 4))), cx, k == "matz"), None
    if k == "matF":
        return np.asfortranarray(draw_vals(rng, (int(rng.integers(2, 4)), int(rng.integers(2, 4))), cx,
                                           rng.random() < 0.5)), None
    if k == "view":
        n = int(rng.integers(2, 5))
        buf = draw_vals(rng, (2 * n + 1,), cx, rng.random() < 0.5)
        return buf[1::2], buf
    raise KeyError(kind)


def draw_slice(rng, shape, allow_int=True):
    """An index expression for a SignalSlice of an array signal (no repeated elements)."""
    if len(shape) == 1:
        n = shape[0]
        u = rng.random()
        if n >= 2 and u < 0.3:
            a = int(rng.integers(0, n - 1))
            return slice(a, int(rng.integers(a + 1, n + 1))), "basic"
        if n >= 3 and u < 0.45:
            return slice(int(rng.integers(0, 2)), None, 2), "strided"
        if u < 0.85 or not allow_int:
            k = int(rng.integers(1, n + 1))
            return np.sort(rng.choice(n, k, replace=False)) if rng.random() < 0.5 else rng.choice(n, k, replace=False), "fancy"
        return int(rng.integers(0, n)), "int"
    r, c = shape
    u = rng.random()
    if u < 0.35:
        return (slice(None), int(rng.integers(0, c))), "basic"
    if u < 0.6:
        return (int(rng.integers(0, r)), slice(None)), "basic"
    if u < 0.85:
        return (np.array([int(rng.integers(0, r))]), slice(None)), "fancy"
    m = rng.random((r, c)) < 0.6
    if not m.any():
        m[0, 0] = True
    return m, "fancy"


def sparse_fmt(rng, nnz_max=6):
    r, c = int(rng.integers(2, 4)), int(rng.integers(2, 4))
    k = int(rng.integers(1, min(nnz_max, r * c) + 1))
    pos = rng.choice(r * c, k, replace=False)
    rows, cols = np.unravel_index(pos, (r, c))
    return ("sparse", str(rng.choice(["csr", "csc", "coo"])), (r, c), rows, cols), k


# ============================================================================================== program builder
class Prog:
    """A built program: pyMOTO objects + the reference network describing the same maps."""
    pass


def build_program(rng, case, ctx):
    H = harness()
    pym, Spy, SpySl, PolyMod = H["pym"], H["SpySignal"], H["SpySlice"], H["PolyMod"]
    fam = case["fam"]
    P = Prog()
    P.sig, P.src_state, P.src_buf, P.shape, P.cplx, P.srcs, P.produced = {}, {}, {}, {}, {}, [], []
    P.kinds = {}
    mods_ref, mods_py = [], []
    sig_fmt = {}
    spylog = []
    P.spylog = spylog
    cnt = [0]

    def new_source(kind):
        name = f"s{len(P.srcs)}"
        st, buf = make_source(rng, kind)
        P.srcs.append(name)
        P.src_state[name], P.src_buf[name] = st, buf
        P.shape[name] = np.shape(st)
        P.cplx[name] = bool(np.iscomplexobj(st))
        P.kinds[name] = kind
        P.sig[name] = Spy(name, st)
        sig_fmt[name] = None
        return name

    def add_module(ins, out_fmts, out_sizes, knob, opts):
        """ins: [(name, sl, slkind)]"""
        in_sizes, in_c, ref_ins, py_ins = [], [], [], []
        for name, sl, _ in ins:
            idx = M.flat_index(P.shape[name], sl)
            in_sizes.append(int(idx.size))
            in_c.append(P.cplx[name])
            ref_ins.append((name, idx))
            py_ins.append(P.sig[name] if sl is None else _SS()(P.sig[name], sl))
        real_out = [bool(opts.get("realout")) and rng.random() < 0.7 for _ in out_sizes]
        model = M.make_poly(rng, in_sizes, in_c, out_sizes, opts["coef"], opts["quad"], opts["conj"], real_out)
        outs = []
        for o, f in enumerate(out_fmts):
            name = f"y{cnt[0]}"
            cnt[0] += 1
            outs.append(name)
            P.produced.append(name)
            P.shape[name] = () if f[0] in ("py", "0d") else ((out_sizes[o],) if f[0] in ("vec", "sparse") else f[1])
            P.cplx[name] = (any(in_c) or bool(opts["coef"])) and not real_out[o]
            P.sig[name] = Spy(name)
            sig_fmt[name] = f
        if knob and knob.get("kind") == "entry":
            j = int(rng.integers(0, len(ins)))
            knob = dict(knob, j=j, i=int(knob.get("i", rng.integers(0, in_sizes[j]))) % in_sizes[j])
        mods_ref.append({"model": model, "ins": ref_ins, "outs": outs, "knob": knob})
        mod = PolyMod(py_ins, [P.sig[n] for n in outs], model, knob, out_fmts, opts.get("sens_py", True),
                      opts.get("reuse", False))
        mods_py.append(mod)
        return outs, py_ins

    def draw_outfmt(size_hint=None, allow_sparse=False, allow_py=True):
        u = rng.random()
        if allow_sparse and u < 0.25:
            f, k = sparse_fmt(rng)
            return f, k
        if u < 0.40:
            return (("py",) if (allow_py and rng.random() < 0.5) else ("0d",)), 1
        if u < 0.85:
            return ("vec",), int(rng.integers(1, 5))
        shp = (int(rng.integers(1, 3)), int(rng.integers(2, 4)))
        return ("mat", shp), shp[0] * shp[1]

    P.knob_kind = "none"
    P.nmods = 1
    P.nested = False
    if fam in ("single", "single2"):
        if fam == "single":
            kinds = [case["kind"]]
            knobk, coef = case["knob"], case["coef"]
            nout = 2 if knobk == "out2" else (2 if rng.random() < 0.3 else 1)
        else:
            kinds = [str(rng.choice(SCALAR_KINDS + [a + c for a in ARRAY_KINDS for c in "rc"]))
                     for _ in range(int(rng.integers(1, 4)))]
            knobk, coef = str(rng.choice(KNOBS, p=[0.4, 0.15, 0.05, 0.15, 0.1, 0.05, 0.1])), int(rng.random() < 0.5)
            nout = 2 if knobk == "out2" else int(rng.integers(1, 4))
        srcs = [new_source(k) for k in kinds]
        anyc = any(P.cplx[s] for s in srcs)
        if knobk in ("imagdrop", "conj") and not anyc:
            knobk = "factor"
        ins = []
        for s in srcs:
            if len(P.shape[s]) >= 1 and P.kinds[s][:-1] not in ("view",) and rng.random() < (0.0 if fam == "single" else 0.25):
                sl, slk = draw_slice(rng, P.shape[s], allow_int=False)
                ins.append((s, sl, slk))
            else:
                ins.append((s, None, None))
        fm = [draw_outfmt(allow_sparse=True) for _ in range(nout)]
        opts = {"coef": coef, "quad": rng.random() < 0.7, "conj": anyc and rng.random() < 0.5,
                "realout": rng.random() < 0.2, "sens_py": rng.random() < 0.7, "reuse": rng.random() < 0.3}
        knob = make_knob(rng, knobk)
        add_module(ins, [f for f, _ in fm], [k for _, k in fm], knob, opts)
        P.knob_kind = knobk
        P.blk = mods_py[0]
        P.is_network = False
        P.mod_inputs = [(n, sl, k) for (n, sl, k) in ins]
    else:  # network
        nm = int(rng.integers(2, 5))
        P.nmods = nm
        wrong_at = int(rng.integers(0, nm)) if rng.random() < 0.45 else -1
        consumable = []
        P.consumers, P.producer = {}, {}
        anyslice = False
        for k in range(nm):
            nin = int(rng.integers(1, 3))
            ins, used = [], set()
            for _ in range(nin):
                pick_new = (k == 0) or rng.random() < 0.35 or not consumable
                if pick_new and len(P.srcs) < 4:
                    kind = str(rng.choice(["vecr", "vecc", "veczr", "veczc", "matr", "matc", "matzc", "matFr", "0df", "0dc",
                                           "viewr", "viewc"]))
                    name = new_source(kind)
                    consumable.append(name)
                else:
                    name = str(rng.choice(consumable))
                if name in used:
                    continue
                used.add(name)
                if name in P.srcs and len(P.shape[name]) >= 1 and not P.kinds[name].startswith("view") and rng.random() < 0.25:
                    sl, slk = draw_slice(rng, P.shape[name], allow_int=False)
                    ins.append((name, sl, slk))
                    anyslice = True
                else:
                    ins.append((name, None, None))
            nout = int(rng.integers(1, 3))
            fm = [draw_outfmt(allow_sparse=(k == nm - 1), allow_py=False) for _ in range(nout)]
            anyc = any(P.cplx[n] for n, _, _ in ins)
            kk = "none"
            if k == wrong_at:
                kk = str(rng.choice(["factor", "sign", "entry", "imagdrop", "conj", "out2"]))
                if kk in ("imagdrop", "conj") and not anyc:
                    kk = "factor"
                if kk == "out2" and nout < 2:
                    kk = "entry"
                P.knob_kind = kk
            opts = {"coef": int(rng.random() < 0.4), "quad": rng.random() < 0.6, "conj": anyc and rng.random() < 0.4,
                    "realout": rng.random() < 0.1, "sens_py": True, "reuse": rng.random() < 0.3}
            outs, _ = add_module(ins, [f for f, _ in fm], [q for _, q in fm], make_knob(rng, kk), opts)
            for n, _, _ in ins:
                P.consumers.setdefault(n, []).append(k)
            for n in outs:
                P.producer[n] = k
                if sig_fmt[n][0] != "sparse":
                    consumable.append(n)
        # optionally bind a contiguous run of modules into a nested Network (one block of the outer Network)
        P.block_of = list(range(nm))
        blocks = list(mods_py)
        if nm >= 3 and rng.random() < 0.25:
            a = int(rng.integers(0, nm - 1))
            b = int(rng.integers(a + 2, nm + 1))
            blocks = mods_py[:a] + [pym.Network(mods_py[a:b])] + mods_py[b:]
            P.block_of = [k if k < a else (a if k < b else k - (b - a) + 1) for k in range(nm)]
        P.nested = len(blocks) != nm
        P.nblocks = len(blocks)
        P.producer = {n: P.block_of[k] for n, k in P.producer.items()}
        P.consumers = {n: [P.block_of[k] for k in ks] for n, ks in P.consumers.items()}
        P.blk = pym.Network(blocks)
        P.is_network = True
        P.anyslice_input = anyslice
    P.mods_py, P.mods_ref, P.sig_fmt = mods_py, mods_ref, sig_fmt
    P.ref = M.RefNet({n: np.asarray(P.src_state[n]) for n in P.srcs}, mods_ref, P.cplx)
    return P


def make_knob(rng, kind):
    if kind == "none":
        return None
    if kind == "factor":
        return {"kind": "factor", "f": float(rng.choice([1.1, 0.5, 2.0, 1.02]))}
    if kind == "entry":
        return {"kind": "entry", "delta": float(rng.choice([0.3, -1.0, 0.05])), "i": int(rng.integers(0, 64))}
    return {"kind": kind}


# ============================================================================================== running FD
SUMMARY = re.compile(r"beyond tolerance \(([^)]*)\) = (\d+) / (\d+)")


def call_fd(pym, blk, kw, npseed):
    reports = []

    def tf(x0, dx, an, fd):
        reports.append((copy.deepcopy(x0), an, fd, dx))
    buf = io.StringIO()
    np.random.seed(npseed)
    with contextlib.redirect_stdout(buf):
        pym.finite_difference(blk, test_fn=tf, **kw)
    return reports, buf.getvalue()


def same_scalar(a, b):
    za, zb = complex(a), complex(b)
    return (float(za.real).hex(), float(za.imag).hex()) == (float(zb.real).hex(), float(zb.imag).hex()) \
        and bool(np.iscomplexobj(a)) == bool(np.iscomplexobj(b))


def state_unchanged(before, after):
    if isinstance(before, np.ndarray):
        return isinstance(after, np.ndarray) and digest(before) == digest(after)
    if sps.issparse(before):
        return sps.issparse(after) and digest(before) == digest(after)
    if isinstance(after, np.ndarray) and after.ndim > 0:
        return False
    try:
        return same_scalar(before, np.asarray(after)[()])
    except Exception:
        return False


def is_zero_or_none(v):
    if v is None:
        return True
    if sps.issparse(v):
        return v.nnz == 0 or not np.any(v.data)
    try:
        return not np.any(np.asarray(v))
    except Exception:
        return False


def classify_verdict(recs, assign, reports, tol):
    """bounds on the number of 'failed' entries a faithful report can print."""
    lo = hi = 0
    nclear_match = nclear_mis = 0
    for i, j in enumerate(assign):
        e = recs[j]
        d, a, an = abs(e["fd"] - e["an"]), e["allow"], abs(e["an"])
        diff_lo, diff_hi = max(0.0, d - a), d + a
        den_hi = max(an, abs(e["fd"]) + a)
        den_lo = max(an, abs(e["fd"]) - a, 1e-300)
        rel_lo, rel_hi = diff_lo / max(den_hi, 1e-300), diff_hi / den_lo
        if diff_hi < tol / 10 and rel_hi < tol / 10:
            nclear_match += 1
        elif diff_lo > 10 * tol and rel_lo > 10 * tol:
            nclear_mis += 1
    return nclear_mis, len(assign) - nclear_match, nclear_match, nclear_mis


def run_case(case, ctx):
    fam = case["fam"]
    if fam in ("single", "single2", "network"):
        return run_poly(case, ctx)
    if fam == "assemble":
        return run_assemble(case, ctx)
    if fam == "overhang":
        return run_overhang(case, ctx)
    if fam == "sparse-input":
        return run_sparse_input(case, ctx)
    raise KeyError(fam)


# ---------------------------------------------------------------------------------------------- harness programs
def select_signals(rng, P, case):
    """Draw fromsig / tosig.  Returns (fromarg, toarg, fromlist, tolist, tags) where the lists describe the
    effective inputs/outputs [(name, sl, pyobj)] in the order finite_difference will use."""
    H = harness()
    pym, SpySl = H["pym"], H["SpySlice"]
    tags = {"from": "default", "to": "default"}

    def describe(obj):
        if isinstance(obj, _SS()):
            return (obj.base.tag, obj.slice, obj)
        return (obj.tag, None, obj)

    def maybe_bare(lst):
        if len(lst) == 1 and rng.random() < 0.5:
            return lst[0]
        return tuple(lst) if rng.random() < 0.15 else lst

    blk = P.blk
    # ------------------------------------------------------------ tosig
    toarg = None
    if P.is_network:
        u = rng.random()
        prod = list(P.produced)
        if u < 0.35:
            toarg = None
        else:
            k = int(rng.integers(1, min(3, len(prod)) + 1))
            names = [str(x) for x in rng.choice(prod, k, replace=False)]
            objs = []
            for n in names:
                f = P.sig_fmt[n]
                if f[0] in ("vec", "mat") and rng.random() < 0.35:
                    sl, slk = draw_slice(rng, P.shape[n], allow_int=False)
                    s = SpySl(P.sig[n], sl)
                    s._spy = P.spylog
                    objs.append(s)
                    tags["to"] = "sliced-" + slk
                else:
                    objs.append(P.sig[n])
            if tags["to"] == "default":
                tags["to"] = "subset"
            toarg = maybe_bare(objs)
    else:
        outs = list(blk.sig_out)
        u = rng.random()
        if u < 0.5:
            toarg = None
        else:
            k = int(rng.integers(1, len(outs) + 1))
            sel = [outs[i] for i in rng.choice(len(outs), k, replace=False)]
            objs = []
            for s in sel:
                f = P.sig_fmt[s.tag]
                if f[0] in ("vec", "mat") and rng.random() < 0.4:
                    sl, slk = draw_slice(rng, P.shape[s.tag], allow_int=False)
                    q = SpySl(s, sl)
                    q._spy = P.spylog
                    objs.append(q)
                    tags["to"] = "sliced-" + slk
                else:
                    objs.append(s)
            if tags["to"] == "default":
                tags["to"] = "subset"
            toarg = maybe_bare(objs)
    # ------------------------------------------------------------ fromsig
    fromarg = None
    if P.is_network:
        u = rng.random()
        # an intermediate signal can be an input of interest if no consumer sits in the block that produces it
        cand = [n for n in P.produced if n in P.consumers and all(c > P.producer[n] for c in P.consumers[n])]
        if u < 0.3:
            fromarg = None
        elif u < 0.8 or not cand:
            # subset of the network's own input signals (slices stay the slices the modules consume)
            net_in = sorted(blk.sig_in, key=lambda q: (q.base.tag, repr(q.slice)) if isinstance(q, _SS()) else (q.tag, ''))
            k = int(rng.integers(1, len(net_in) + 1))
            sel = [net_in[i] for i in rng.choice(len(net_in), k, replace=False)]
            tags["from"] = "inputs-all" if k == len(net_in) else "inputs-subset"
            # optionally replace a full source by a slice of it
            objs = []
            for s in sel:
                if (not isinstance(s, _SS())) and len(P.shape[s.tag]) >= 1 and rng.random() < 0.3 \
                        and not P.kinds[s.tag].startswith("view"):
                    sl, slk = draw_slice(rng, P.shape[s.tag])
                    objs.append(_SS()(s, sl))
                    tags["from"] = "sliced-" + slk
                else:
                    objs.append(s)
            fromarg = maybe_bare(objs)
        else:
            n = str(rng.choice(cand))
            tags["from"] = "cut-intermediate"
            fromarg = maybe_bare([P.sig[n]])
    else:
        ins = list(blk.sig_in)
        u = rng.random()
        if u < 0.5:
            fromarg = None
        else:
            k = int(rng.integers(1, len(ins) + 1))
            sel = [ins[i] for i in rng.choice(len(ins), k, replace=False)]
            objs = []
            tags["from"] = "inputs-all" if k == len(ins) else "inputs-subset"
            for s in sel:
                if (not isinstance(s, _SS())) and isinstance(s.state, np.ndarray) and s.state.ndim >= 1 \
                        and rng.random() < 0.4 and not P.kinds[s.tag].startswith("view"):
                    sl, slk = draw_slice(rng, P.shape[s.tag])
                    objs.append(_SS()(s, sl))
                    tags["from"] = "sliced-" + slk
                else:
                    objs.append(s)
            fromarg = maybe_bare(objs)
    inps = list(blk.sig_in) if fromarg is None else (list(fromarg) if isinstance(fromarg, (list, tuple)) else [fromarg])
    outps = list(blk.sig_out) if toarg is None else (list(toarg) if isinstance(toarg, (list, tuple)) else [toarg])
    for s in inps:
        if isinstance(s, _SS()) and tags["from"] in ("default", "inputs-all", "inputs-subset"):
            tags["from"] += "+module-slice"
            break
    return fromarg, toarg, [describe(s) for s in inps], [describe(s) for s in outps], tags


def exec_range(P, fromlist, tolist):
    """(i_first, i_last) by the documented rule: first module using an input of interest, last module
    generating an output of interest."""
    if not P.is_network:
        return 0, 0
    fn = {n for n, _, _ in fromlist}
    tn = {n for n, _, _ in tolist}
    # (blocks of the outer Network: a nested Network counts as one block)
    i_first = min(P.block_of[i] for i, m in enumerate(P.mods_ref) if any(n in fn for n, _ in m["ins"]))
    i_last = max(P.block_of[i] for i, m in enumerate(P.mods_ref) if any(n in tn for n in m["outs"]))
    return i_first, i_last


def run_poly(case, ctx):
    H = harness()
    pym = H["pym"]
    fam = case["fam"]
    rng = ctx.rng("c19", fam, case["r"])
    P = build_program(rng, case, ctx)
    fromarg, toarg, fromlist, tolist, tags = select_signals(rng, P, case)

    # ---- admissibility: a signal of interest produced inside the executed range would be overwritten
    i_first, i_last = exec_range(P, fromlist, tolist)
    if P.is_network:
        for n, _, _ in fromlist:
            if n in P.producer and i_first <= P.producer[n] <= i_last:
                raise Inconclusive("generator produced an inadmissible fromsig selection")

    # ---- options
    kz = bool(case["kz"]) if "kz" in case else bool(rng.random() < 0.6)
    dx = float(rng.choice(DXS))
    rel = bool(rng.random() < 0.35)
    tol = float(rng.choice([1e-5, 1e-5, 1e-3, 1e-2]))
    verbose = bool(rng.random() < 0.5)
    explicit_order = toarg is not None
    seedmode = str(rng.choice(["random", "ones", "use_df"] if explicit_order or not P.is_network else ["random", "ones"]))
    kw = {"dx": dx, "tol": tol, "verbose": verbose}
    if rel:
        kw["relative_dx"] = True
    if not kz or rng.random() < 0.3:
        kw["keep_zero_structure"] = kz
    if fromarg is not None:
        kw["fromsig"] = fromarg
    if toarg is not None:
        kw["tosig"] = toarg
    vals0 = P.ref.forward()
    use_df = None
    if seedmode == "ones":
        kw["random"] = False
    elif seedmode == "use_df":
        use_df = []
        for n, sl, obj in tolist:
            f = P.sig_fmt[n]
            cplx_o = bool(np.iscomplexobj(vals0[n]))
            if f[0] == "sparse":
                shp = f[2]
            else:
                shp = np.shape(np.zeros(P.shape[n])[sl]) if sl is not None else P.shape[n]
            w = rng.uniform(-2, 2, shp)
            if cplx_o and rng.random() < 0.8:
                w = w + 1j * rng.uniform(-2, 2, shp)
            if shp == () and f[0] == "py" and rng.random() < 0.5:
                w = w.item() if hasattr(w, "item") else w
            use_df.append(w)
        kw["use_df"] = use_df
        if rng.random() < 0.5:
            kw["random"] = bool(rng.random() < 0.5)

    # ---- stale sensitivities from an earlier use of the program (inside the executed range only)
    stale = False
    whole = (not P.is_network) or (i_first == 0 and i_last == P.nblocks - 1)
    sliced_bases = {n for m in P.mods_ref for (n, idx) in m["ins"] if idx.size != int(np.prod(P.shape[n], dtype=int))}
    sliced_bases |= {n for n, sl, _ in fromlist + tolist if sl is not None}
    if whole and rng.random() < 0.3:
        stale = True
        for n, s in P.sig.items():
            if n in sliced_bases or rng.random() < 0.4:
                continue
            shp = P.sig_fmt[n][2] if (P.sig_fmt[n] is not None and P.sig_fmt[n][0] == "sparse") else P.shape[n]
            v = rng.uniform(1, 2, shp)
            if P.cplx[n]:
                v = v + 1j * rng.uniform(1, 2, shp)
            s.sensitivity = v if shp != () else (v.item() if rng.random() < 0.5 else np.array(v))

    # ---- snapshot, arm the spies, call
    cutnames = [n for n, _, _ in fromlist if n not in P.srcs]
    if cutnames or rng.random() < 0.5:
        P.blk.response()        # the program has been evaluated before, as in normal use
    before = {n: copy.deepcopy(P.sig[n].state) for n in P.srcs}
    before_cut = {n: copy.deepcopy(P.sig[n].state) for n in cutnames}
    before_buf = {n: (None if b is None else b.copy()) for n, b in P.src_buf.items()}
    for s in P.sig.values():
        s._spy = P.spylog
    try:
        reports, text = call_fd(pym, P.blk, kw, int(rng.integers(0, 2**31 - 1)))
    except TypeError as e:
        site = exc_site(e)
        if site == "pymoto/routines.py:finite_difference" and "'complex' object is not subscriptable" in str(e):
            # a Python `complex` analytical sensitivity (Python-complex input state, or the seed of a complex scalar
            # output that is its own input of interest) is indexed in the imaginary branch
            raise Violation("python-complex-sensitivity-raises-TypeError", error=str(e)[:200],
                            inputs=[P.kinds.get(n) for n, _, _ in fromlist], kw={k: v for k, v in kw.items()
                                                                              if k in ("dx", "relative_dx", "random")})
        raise
    finally:
        for s in P.sig.values():
            s._spy = None
    ctx.count("fd_calls")
    if P.is_network:
        ctx.count("network_cases")

    # ---- the seeds that were used
    Ws, seeds_mutated = [], False
    for o, (n, sl, obj) in enumerate(tolist):
        got = [(v, c) for (s, v, c) in P.spylog if s is obj]
        if len(got) != 1:
            raise Violation("seed/not-exactly-one-seed-assigned-per-requested-output", output=n, assigned=len(got))
        v, c = got[0]
        ctx.count("seeds_observed")
        if use_df is not None:
            if not (np.shape(c) == np.shape(use_df[o]) and np.array_equal(np.asarray(c), np.asarray(use_df[o]))):
                raise Violation("seed/use_df-not-the-seed-assigned-to-the-output", output=n, given=use_df[o], assigned=c)
            ctx.count("use_df_seeds_confirmed")
        if not (np.shape(v) == np.shape(c) and np.array_equal(np.asarray(v), np.asarray(c))):
            seeds_mutated = True
        f = P.sig_fmt[n]
        full = np.zeros(len(vals0[n]), dtype=complex)
        if f[0] == "sparse":
            d = np.asarray(c)
            if d.shape != tuple(f[2]):
                raise Violation("seed/shape-differs-from-output-state", output=n, seed_shape=d.shape, state_shape=f[2])
            full[:] = d[f[3], f[4]]
            # entries of the seed outside the sparsity pattern multiply exact zeros of the difference
        else:
            idx = M.flat_index(P.shape[n], sl)
            if np.shape(c) != idx.shape:
                raise Violation("seed/shape-differs-from-output-state", output=n, seed_shape=np.shape(c),
                                state_shape=idx.shape)
            full[idx.reshape(-1)] = np.asarray(c).reshape(-1)
        Ws.append(full)

    # ---- expected stream
    nmax = max([1] + [len(v) for v in vals0.values()])
    kconst = 8.0 * (nmax + 6) * P.nmods
    ref_from = [(n, M.flat_index(P.shape[n], sl)) for n, sl, _ in fromlist]
    ref_to = [(n, M.flat_index(P.shape[n], sl) if P.sig_fmt[n][0] != "sparse" else None) for n, sl, _ in tolist]
    actual = {n: np.asarray(b).reshape(-1) for n, b in before_cut.items()}
    for n, a in actual.items():
        if a.shape != vals0[n].shape or np.max(np.abs(a - vals0[n])) > 1e-12 * (1e-300 + np.max(np.abs(vals0[n]))):
            raise Inconclusive("harness module and reference model disagree on an intermediate state")
    recs, info = M.expected_records(P.ref, ref_from, ref_to, Ws, dx, rel, kz, kconst, actual=actual)
    if info["selfcheck"] > 1e-5:
        raise Inconclusive("reference Jacobian disagrees with the five-point stencil of the reference map",
                           selfcheck=info["selfcheck"])
    mech, wit, stats = M.judge_stream([(r[0], r[1], r[2]) for r in reports], recs)
    common = {"family": fam, "from": tags["from"], "to": tags["to"], "inputs": [P.kinds.get(n, "intermediate") for n, _, _ in fromlist],
              "kw": {k: (v if isinstance(v, (int, float, bool)) else "...") for k, v in kw.items()},
              "knob": P.knob_kind, "seedmode": seedmode, "stale": stale}
    if mech is not None:
        if mech.startswith("numerical/"):
            bad = stats.get("unmatched_fd_reports", [])
            slk = _slice_kinds(fromlist)
            n_im_copy = sum(1 for e in recs if e["dir"] == "im" and slk[e["inp"]] == "copy")
            # hypothesis: the imaginary perturbation never reaches an input whose state getter returns a copy
            # (fancy-indexed SignalSlice), so exactly those reports carry 0.0; accepted only if it explains the stream
            recs2 = [dict(e, fd=0.0, allow=0.0) if (e["dir"] == "im" and slk[e["inp"]] == "copy") else e for e in recs]
            if bad and n_im_copy and all(float(reports[i][2]) == 0.0 for i in bad) and \
                    M.judge_stream([(r[0], r[1], r[2]) for r in reports], recs2)[0] is None:
                mech = "numerical/imaginary-perturbation-not-applied-to-copying-input-signal"
                i0 = ([i for i in bad if float(reports[i][1]) != 0.0] or bad)[0]
                wit = {"report_index": i0, "x0": complex(np.asarray(reports[i0][0]).reshape(-1)[0]),
                       "reported_an": float(reports[i0][1]), "reported_fd": float(reports[i0][2]),
                       "reports_with_numerical_value_exactly_zero_left_unmatched": len(bad),
                       "imaginary_direction_records_of_copying_inputs": n_im_copy,
                       "input_signal_kinds": slk, "h": dx}
            if seeds_mutated:
                mech = "numerical/seed-clobbered-by-module-sensitivity"
        outside = [n for n, _, _ in tolist if P.is_network and n in P.producer and not (i_first <= P.producer[n] <= i_last)]
        if mech.startswith("analytical/") and outside and len(tolist) > 1:
            # hypothesis: the seed of an output produced outside the executed sub-network is never reset and is read
            # back in the passes of the later outputs.  Accepted only if that model reproduces the whole stream.
            recs2 = [dict(e) for e in recs]
            acc = {}
            for o, ((n, _, _), W) in enumerate(zip(tolist, Ws)):
                seeds = {k: v.copy() for k, v in acc.items()}
                seeds[n] = seeds.get(n, 0) + W
                sens_o = P.ref.reverse(info["vals"], seeds)
                for e in recs2:
                    if e["out"] == o:
                        g = sens_o.get(fromlist[e["inp"]][0])
                        e["an"] = 0.0 if g is None else float(np.real(g[e["flat"]]) if e["dir"] == "re" else np.imag(g[e["flat"]]))
                        e["tol_an"] = e["tol_an"] + 1e-12 * (abs(e["an"]) + float(np.sum(np.abs(W))))
                if n in outside:
                    acc[n] = acc.get(n, 0) + W
            mech2, _, _ = M.judge_stream([(r[0], r[1], r[2]) for r in reports], recs2)
            if mech2 is None:
                mech = "sensitivity-left-set/output-outside-executed-subnetwork"
                wit["consequence"] = "analytical values of later outputs contain the never-reset seed of an earlier output"
                wit["outputs_outside_range"] = outside
        if mech.startswith("reports/") and kz and "x0" in wit and complex(wit["x0"]) == 0:
            zero_scalars = [n for n, sl, obj in fromlist if not isinstance(obj.state, np.ndarray) and obj.state == 0]
            mech = ("reports/zero-scalar-input-perturbed-despite-keep_zero_structure" if zero_scalars and
                    len(reports) - len(recs) == sum(len(tolist) * (2 if np.iscomplexobj(P.sig[n].state) else 1)
                                                    for n in zero_scalars)
                    else "reports/zero-entry-perturbed-despite-keep_zero_structure")
        raise Violation(mech, **wit, **common)
    assign = stats["assign"]
    ctx.count("reports_judged", len(reports))
    ctx.count("imag_reports_judged", sum(1 for j in assign if recs[j]["dir"] == "im"))
    ctx.count("noncanonical_order_cases", 0 if stats["canonical"] else 1)
    if any(P.sig_fmt[n][0] == "sparse" for n, _, _ in tolist) and reports:
        ctx.count("sparse_output_cases")
    if tags["from"].startswith("sliced") or "+module-slice" in tags["from"]:
        ctx.count("sliced_fromsig_cases")
    if tags["to"].startswith("sliced"):
        ctx.count("sliced_tosig_cases")
    if tags["from"] == "cut-intermediate":
        ctx.count("cut_fromsig_cases")
    if stale:
        ctx.count("stale_sensitivity_cases")
    if P.nested:
        ctx.count("nested_network_cases")
    margin_fd = max([abs(float(reports[i][2]) - recs[j]["fd"]) / max(recs[j]["allow"], 1e-300) for i, j in enumerate(assign)] + [0.0])
    margin_rnd = max([abs(float(reports[i][2]) - recs[j]["fd"]) / recs[j]["rnd"] for i, j in enumerate(assign)
                      if recs[j]["allow"] < 1.001 * recs[j]["rnd"]] + [0.0])
    margin_an = max([abs(float(reports[i][1]) - recs[j]["an"]) / recs[j]["tol_an"] for i, j in enumerate(assign)] + [0.0])

    # ---- matching / non-matching pairs as reported
    nmis = nmatch = 0
    for i, j in enumerate(assign):
        e = recs[j]
        wrongness = abs(e["an"] - e["fd"])
        gap = abs(float(reports[i][1]) - float(reports[i][2]))
        if P.knob_kind == "none":
            # correct module: the reported pair may differ by no more than the allowance (+ analytical rounding)
            if gap > e["allow"] + e["tol_an"]:
                raise Violation("verdict/correct-module-reported-with-non-matching-pair", reported_an=reports[i][1],
                                reported_fd=reports[i][2], allowance=e["allow"], **common)
            nmatch += 1
        elif wrongness > 4 * e["allow"]:
            if gap < wrongness / 2:
                raise Violation("verdict/wrong-module-reported-with-matching-pair", reported_an=reports[i][1],
                                reported_fd=reports[i][2], true_derivative=e["fd"], module_value=e["an"], **common)
            nmis += 1
    ctx.count("right_module_matching_pairs", nmatch)
    ctx.count("wrong_module_mismatch_pairs", nmis)

    # ---- printed summary
    lines = SUMMARY.findall(text)
    if lines and reports:
        failed = sum(int(a) for _, a, _ in lines)
        lo, hi, ncm, ncx = classify_verdict(recs, assign, reports, tol)
        ctx.count("summary_lines_judged", len(lines))
        ctx.count("summary_entries_clearly_matching", ncm)
        ctx.count("summary_entries_clearly_mismatching", ncx)
        if failed < lo:
            ctx.violate("printed-summary/clearly-wrong-entries-not-counted-as-beyond-tolerance", printed_failed=failed,
                        at_least=lo, tol=tol, **common)
        if failed > hi:
            ctx.violate("printed-summary/clearly-matching-entries-counted-as-beyond-tolerance", printed_failed=failed,
                        at_most=hi, tol=tol, **common)

    # ---- every input state restored exactly
    ncmp = 0
    for n in P.srcs:
        after = P.sig[n].state
        ncmp += 1
        ok = state_unchanged(before[n], after)
        if ok and before_buf[n] is not None:
            ok = digest(before_buf[n]) == digest(P.src_buf[n])
        if not ok:
            role = "perturbed" if any(n == q for q, _, _ in fromlist) else "unperturbed"
            b, a = np.asarray(before[n]), np.asarray(after)
            diff = float(np.max(np.abs(a - b))) if a.shape == b.shape and a.size else None
            ctx.violate(f"state-not-restored/{role}-input", signal=n, kind=P.kinds[n], before=before[n], after=after,
                        max_abs_change=diff, type_after=type(after).__name__, **common)
        elif type(before[n]) is not type(after):
            ctx.count("scalar_state_returned_as_python_scalar_of_same_value")
    for n, b in before_cut.items():
        ncmp += 1
        if not state_unchanged(b, P.sig[n].state):
            ctx.violate("state-not-restored/perturbed-intermediate-input", signal=n, before=b, after=P.sig[n].state, **common)
    ctx.count("states_compared", ncmp)

    # ---- no sensitivity left set
    nins = 0
    for n, s in P.sig.items():
        nins += 1
        if not is_zero_or_none(s.sensitivity):
            if n in P.produced and P.is_network and any(n == q for q, _, _ in tolist) and \
                    not (i_first <= P.producer[n] <= i_last):
                mech = "sensitivity-left-set/output-outside-executed-subnetwork"
            elif any(n == q for q, _, _ in tolist):
                mech = "sensitivity-left-set/seed-on-output"
            elif any(n == q for q, _, _ in fromlist):
                mech = "sensitivity-left-set/perturbed-input"
            else:
                mech = "sensitivity-left-set/other-signal"
            ctx.violate(mech, signal=n, left=s.sensitivity, i_first=i_first, i_last=i_last, **common)
    ctx.count("sensitivities_inspected", nins)

    key = "|".join([fam, ",".join(sorted(P.kinds[n] for n in P.srcs)), f"m{P.nmods}", P.knob_kind, f"kz{int(kz)}",
                    f"dx{dx:g}", f"rel{int(rel)}", seedmode, tags["from"], tags["to"], f"st{int(stale)}", f"nest{int(P.nested)}"])
    return {"key": key, "nontrivial": len(reports) > 0,
            "obs": {"reports": len(reports), "canonical_order": stats["canonical"], "fd_err_over_allowance": margin_fd,
                    "fd_err_over_rounding_allowance": margin_rnd, "an_err_over_tol": margin_an,
                    "max_allow": max([e["allow"] for e in recs] + [0.0]), "pairs_mismatching": nmis,
                    "selfcheck": info["selfcheck"], "summary": lines[:3], "range": [i_first, i_last]}}


def _slice_kinds(fromlist):
    out = []
    for n, sl, obj in fromlist:
        if sl is None:
            out.append("full")
            continue
        parts = sl if isinstance(sl, tuple) else (sl,)
        out.append("copy" if any(isinstance(p, (np.ndarray, list)) for p in parts) else "view")
    return out


# ---------------------------------------------------------------------------------------------- library modules
def _lib_common(ctx, pym, build, x, kw, rng, linear, wrongf, name):
    """build(sigx, sigy) -> module.  Judges one finite_difference call on a library module."""
    H = harness()
    Spy = H["SpySignal"]
    sx, sy = Spy("x", x.copy()), Spy("y")
    mod = build(sx, sy)
    log = []
    sx._spy = sy._spy = log
    before = x.copy()
    try:
        reports, text = call_fd(pym, mod, kw, int(rng.integers(0, 2**31 - 1)))
    finally:
        sx._spy = sy._spy = None
    got = [(v, c) for (s, v, c) in log if s is sy]
    if len(got) != 1:
        raise Violation("seed/not-exactly-one-seed-assigned-per-requested-output", output="y", assigned=len(got))
    v, c = got[0]
    ctx.count("seeds_observed")
    mutated = not np.array_equal(np.asarray(v), np.asarray(c))
    W = np.asarray(c)
    # reference: fresh instance
    rx, ry = pym.Signal("x", x.copy()), pym.Signal("y")
    ref = build(rx, ry)
    ref.response()
    y0 = ry.state.toarray() if sps.issparse(ry.state) else np.array(ry.state)
    ry.sensitivity = copy.deepcopy(W)
    ref.sensitivity()
    g = np.array(rx.sensitivity, dtype=float)
    ref.reset()

    def f(xv):
        rx.state = xv
        ref.response()
        return ry.state.toarray() if sps.issparse(ry.state) else np.array(ry.state)
    dx = kw["dx"]
    kz = kw.get("keep_zero_structure", True)
    recs = []
    n = len(x)
    if linear:
        # exact columns of the linear map (t = 1) and the magnitude assembly  sum_e |x_e| |K_e|.  The columns are kept as coordinate
        # lists of their non-zero entries (64 per element of a stiffness matrix): as dense arrays, 729 columns of a 1568 x 1568 output
        # are 14 GB
        cols = []
        kmag = np.zeros(np.shape(y0), dtype=float)
        for i in range(n):
            e = x.copy()
            e[i] += 1.0
            dcol = f(e) - y0
            idx = np.nonzero(dcol)
            val = np.asarray(dcol[idx])
            cols.append((idx, val))
            kmag[idx] += abs(x[i]) * np.abs(val)
            del dcol
    ymag = float(np.sum(np.abs(W) * (kmag if linear else np.abs(y0))))
    for i in range(n):
        if kz and x[i] == 0:
            continue
        h = dx * abs(x[i]) if (kw.get("relative_dx") and x[i] != 0) else dx
        if linear:
            idx, val = cols[i]
            Wd = np.asarray(W[idx]) if np.ndim(W) else np.full(val.shape, W)
            D = float(np.sum(Wd * val))
            trunc = 0.0
            # rounding of the difference quotient: only the output entries that change with x_i contribute (an entry that does not
            # depend on x_i is bit-identical in both evaluations and cancels exactly in sum(W*(y(x+h) - y(x)))); each assembled entry is
            # a sum of at most 8 element contributions
            sc = float(np.sum(np.abs(Wd) * (kmag[idx] + (1 + h) * np.abs(val))))
            rnd = 32 * 16 * M.EPS * sc / h + 4 * 16 * M.EPS * sc
        else:
            ep, em = x.copy(), x.copy()
            ep[i] += h
            em[i] -= h
            qp = float(np.sum(W * (f(ep) - y0))) / h
            qm = float(np.sum(W * (f(em) - y0))) / (-h)
            D = 0.5 * (qp + qm)
            trunc = 2 * max(abs(qp - D), abs(qm - D))
            rnd = 1e-6 * float(np.sum(np.abs(W))) * (1e-6 / h if h < 1e-6 else 1.0)
        recs.append({"inp": 0, "entry": i, "flat": i, "dir": "re", "out": 0, "x0": complex(x[i]), "an": float(g[i]),
                     "tol_an": 1e-12 * (abs(float(g[i])) + ymag) + 1e-300, "fd": D, "allow": trunc + rnd, "rnd": rnd, "h": h,
                     "scale": ymag})
    rx.state = x.copy()
    mech, wit, stats = M.judge_stream([(r[0], r[1], r[2]) for r in reports], recs)
    common = {"family": name, "kw": {k: v for k, v in kw.items() if not hasattr(v, "__len__")}, "x": x}
    if mech is not None:
        if mech.startswith("numerical/") and mutated:
            mech = "numerical/seed-clobbered-by-module-sensitivity"
            wit["seed_assigned"] = c
            wit["seed_object_after_call"] = v
        raise Violation(mech, **wit, **common)
    assign = stats["assign"]
    ctx.count("reports_judged", len(reports))
    ctx.count("fd_calls")
    if sps.issparse(sy.state) and reports:
        ctx.count("sparse_output_cases")
    # matching / non-matching
    if linear:
        nm = nx = 0
        for i, j in enumerate(assign):
            e = recs[j]
            gap = abs(float(reports[i][1]) - float(reports[i][2]))
            if wrongf == 1.0:
                if gap > e["allow"] + e["tol_an"]:
                    raise Violation("verdict/correct-module-reported-with-non-matching-pair", reported_an=reports[i][1],
                                    reported_fd=reports[i][2], **common)
                nm += 1
            elif abs(e["an"] - e["fd"]) > 4 * e["allow"]:
                if gap < abs(e["an"] - e["fd"]) / 2:
                    raise Violation("verdict/wrong-module-reported-with-matching-pair", reported_an=reports[i][1],
                                    reported_fd=reports[i][2], **common)
                nx += 1
        ctx.count("right_module_matching_pairs", nm)
        ctx.count("wrong_module_mismatch_pairs", nx)
        lines = SUMMARY.findall(text)
        if lines and reports:
            failed = sum(int(a) for _, a, _ in lines)
            lo, hi, ncm, ncx = classify_verdict(recs, assign, reports, kw.get("tol", 1e-5))
            ctx.count("summary_lines_judged", len(lines))
            if failed < lo:
                ctx.violate("printed-summary/clearly-wrong-entries-not-counted-as-beyond-tolerance", printed_failed=failed,
                            at_least=lo, **common)
            if failed > hi:
                ctx.violate("printed-summary/clearly-matching-entries-counted-as-beyond-tolerance", printed_failed=failed,
                            at_most=hi, **common)
    if not state_unchanged(before, sx.state):
        ctx.violate("state-not-restored/perturbed-input", signal="x", before=before, after=sx.state, **common)
    ctx.count("states_compared")
    for s in (sx, sy):
        ctx.count("sensitivities_inspected")
        if not is_zero_or_none(s.sensitivity):
            ctx.violate("sensitivity-left-set/" + ("seed-on-output" if s is sy else "perturbed-input"), signal=s.tag, **common)
    margin = max([abs(float(reports[i][2]) - recs[j]["fd"]) / recs[j]["allow"] for i, j in enumerate(assign)] + [0.0])
    return reports, recs, margin


def run_assemble(case, ctx):
    H = harness()
    pym = H["pym"]
    rng = ctx.rng("c19", "assemble", case["r"])
    nx, ny = int(rng.integers(1, 4)), int(rng.integers(1, 4))
    if case.get("big"):
        # a sparse output with tens of thousands of sizeable entries of which only 64 depend on each input entry
        nx, ny = int(rng.integers(18, 28)), int(rng.integers(18, 28))
    dom = pym.DomainDefinition(nx, ny)
    x = rng.uniform(0.2, 2.0, nx * ny) * (1e3 if case.get("big") else 1.0)
    if rng.random() < 0.4 and len(x) > 1:
        x[int(rng.integers(0, len(x)))] = 0.0
    wrongf = float(rng.choice([1.1, 0.5, -1.0])) if case["wrong"] else 1.0
    key = "Wrong" if case["wrong"] else "Right"
    if "Asm" not in _H:
        class _Asm(pym.AssembleStiffness):
            factor = 1.0

            def _sensitivity(self, dK):
                r = super()._sensitivity(dK)
                return r * self.factor if isinstance(r, np.ndarray) else r
        _H["Asm"] = _Asm

    def build(sx, sy):
        m = _H["Asm"](sx, sy, dom)
        m.factor = wrongf
        return m
    kw = {"dx": float(rng.choice(DXS)), "tol": float(rng.choice([1e-5, 1e-3])), "verbose": bool(rng.random() < 0.5)}
    if case.get("big"):
        kw.update(dx=1e-6, verbose=False)
    if rng.random() < 0.4:
        kw["relative_dx"] = True
    if rng.random() < 0.5:
        kw["keep_zero_structure"] = bool(rng.random() < 0.5)
    if rng.random() < 0.4:
        kw["random"] = False
    reports, recs, margin = _lib_common(ctx, pym, build, x, kw, rng, True, wrongf, "assemble")
    return {"key": f"assemble|{nx}x{ny}|{key}|dx{kw['dx']:g}|rel{int(kw.get('relative_dx', False))}|"
                   f"kz{kw.get('keep_zero_structure', 'd')}",
            "nontrivial": len(reports) > 0, "obs": {"reports": len(reports), "fd_err_over_allowance": margin, "wrong": wrongf}}


def run_overhang(case, ctx):
    H = harness()
    pym = H["pym"]
    rng = ctx.rng("c19", "overhang", case["r"])
    nx, ny = int(rng.integers(3, 6)), int(rng.integers(3, 6))
    dom = pym.DomainDefinition(nx, ny)
    x = rng.uniform(0.25, 0.85, nx * ny)
    direction = [(0, 1), (0, -1), (1, 0), (-1, 0)][int(rng.integers(0, 4))]

    def build(sx, sy):
        return pym.OverhangFilter(sx, sy, dom, direction=np.array(direction, dtype=float))
    kw = {"dx": float(rng.choice([1e-5, 1e-6])), "verbose": bool(rng.random() < 0.5)}
    if rng.random() < 0.4:
        kw["random"] = False
    reports, recs, margin = _lib_common(ctx, pym, build, x, kw, rng, False, 1.0, "overhang")
    ctx.count("overhang_cases")
    return {"key": f"overhang|{nx}x{ny}|{direction}|dx{kw['dx']:g}", "nontrivial": len(reports) > 0,
            "obs": {"reports": len(reports), "fd_err_over_allowance": margin}}


# ---------------------------------------------------------------------------------------------- sparse input signals
def run_sparse_input(case, ctx):
    H = harness()
    pym, Spy = H["pym"], H["SpySignal"]
    rng = ctx.rng("c19", "sparse-input", case["r"])
    n = int(rng.integers(3, 6))
    cplx = bool(case["cplx"])
    Ad = rng.uniform(0.3, 1.5, (n, n)) * (rng.random((n, n)) < 0.5)
    if cplx:
        Ad = Ad + 1j * rng.uniform(0.3, 1.5, (n, n)) * (Ad != 0)
    Ad = Ad + np.diag(rng.uniform(3, 4, n))
    A = sps.coo_matrix(Ad).asformat(case["fmt"])
    b = rng.uniform(0.5, 2, n) + (1j * rng.uniform(0.5, 2, n) if cplx else 0)
    sA, sb, sy = Spy("A", A.copy()), Spy("b", b.copy()), Spy("y")
    if case["lib"]:
        mod = pym.LinSolve([sA, sb], sy)
    else:
        if "SpMatVec" not in _H:
            class SpMatVec(pym.Module):
                """y = A b with a sparse matrix input; dA has A's sparsity pattern."""

                def _response(self, A_, b_):
                    return A_ @ b_

                def _sensitivity(self, dy):
                    A_, b_ = [s.state for s in self.sig_in]
                    C = A_.tocoo(copy=True)
                    C.data = dy[C.row] * b_[C.col]
                    if not np.iscomplexobj(A_):
                        C.data = np.real(C.data)
                    db = A_.T @ dy
                    return C.asformat(A_.format), (db if np.iscomplexobj(b_) else np.real(db))
            _H["SpMatVec"] = SpMatVec
        mod = _H["SpMatVec"]([sA, sb], sy)
    log = []
    sy._spy = log
    reports = []
    try:
        reports, text = call_fd(pym, mod, {"dx": 1e-6, "fromsig": sA}, int(rng.integers(0, 2**31 - 1)))
    except TypeError as e:
        if exc_site(e) == "pymoto/routines.py:finite_difference" and ("nditer" in str(e).lower() or "iterator" in str(e).lower()
                                                                       or "REFS_OK" in str(e)):
            raise Violation("sparse-input-unsupported", error=str(e)[:200], format=case["fmt"], complex=cplx,
                            module=type(mod).__name__)
        raise
    finally:
        sy._spy = None
    # --- it ran: judge it like any other input (all stored non-zero entries are perturbable)
    got = [c for (s, v, c) in log if s is sy]
    if len(got) != 1:
        raise Violation("seed/not-exactly-one-seed-assigned-per-requested-output", output="y", assigned=len(got))
    w = np.asarray(got[0]).reshape(-1)
    Ac = A.tocoo()
    recs = []
    if case["lib"]:
        x = np.linalg.solve(Ad, b)
        lam = np.linalg.solve(Ad.T, w)
    for r, c_, v in zip(Ac.row, Ac.col, Ac.data):
        if v == 0:
            continue
        for direction in ([1, 1j] if cplx else [1]):
            if case["lib"]:
                dyd = -lam[r] * x[c_] * direction      # w^T d(A^-1 b) = -lam^T dA x
                s = dyd
                scale = float(np.sum(np.abs(lam)) * np.sum(np.abs(x)) * (1 + np.abs(Ad).sum()))
                curv = abs(lam[r]) * abs(np.linalg.inv(Ad)[c_, r]) * abs(x[c_]) * 4
            else:
                s = w[r] * b[c_] * direction
                scale = float(np.sum(np.abs(w) * (np.abs(Ad) @ np.abs(b))))
                curv = 0.0
            D = float(np.real(s)) if direction == 1 else float(np.imag(s / 1j))
            gfull = (-lam[r] * x[c_]) if case["lib"] else w[r] * b[c_]
            an = float(np.real(gfull) if direction == 1 else np.imag(gfull))
            recs.append({"inp": 0, "entry": int(r * n + c_), "flat": int(r * n + c_), "dir": "re" if direction == 1 else "im",
                         "out": 0, "x0": complex(v), "an": an, "tol_an": 1e-9 * (abs(an) + scale) + 1e-300, "fd": D,
                         "allow": 2 * curv * 1e-6 + 64 * (n + 8) * M.EPS * scale / 1e-6, "rnd": 0.0, "h": 1e-6, "scale": scale})
    mech, wit, stats = M.judge_stream([(r[0], r[1], r[2]) for r in reports], recs)
    if mech is not None:
        raise Violation("sparse-input/" + mech, **wit, format=case["fmt"])
    if not (sps.issparse(sA.state) and digest(sA.state) == digest(A)):
        ctx.violate("state-not-restored/perturbed-input", signal="A", format=case["fmt"])
    for s in (sA, sb, sy):
        if not is_zero_or_none(s.sensitivity):
            ctx.violate("sensitivity-left-set/other-signal", signal=s.tag)
    ctx.count("reports_judged", len(reports))
    ctx.count("sparse_input_cases_judged")
    return {"key": f"sparse-input|{case['fmt']}|c{int(cplx)}|lib{case['lib']}", "nontrivial": True,
            "obs": {"reports": len(reports)}}
