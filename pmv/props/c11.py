"""C11 — EigenSolve returns genuine, normalised, ordered eigenpairs.

Workload: (a) dense pencils of every class (real symmetric / Hermitian / real general with real or
conjugate-pair spectrum / complex general / complex symmetric, with and without SPD or HPD B) built
from a *prescribed* spectrum and a well-conditioned eigenvector basis, crossed exhaustively with the
sorting functions and the `hermitian` flag; (b) FE-assembled sparse pencils (stiffness +- mass, 2D / 3D,
elastic / scalar, several boundary-condition sets) crossed with nmodes, shift and storage format;
(c) synthetic sparse pencils of the classes FE assembly does not produce (complex Hermitian, real and
complex general, complex symmetric).  Every case calls the same EigenSolve instance several times with
changed matrices (cached factorisation / cached class).  The judge (pmv/oracles/c11_ref.py) decides each
clause of the statement from the returned (lambda, Q) with dense numpy."""
import numpy as np
import scipy.sparse as sps

from ..core import Violation, Skip, Inconclusive
from ..oracles import c11_ref as ref

ID = "C11"
LEVEL = "exploration"
MONITORS = []
ANCHORS = ["modules/linalg.py"]
RULE = ("dense: every (class x B x hermitian-flag x sorting function) combination is enumerated, sizes 1..25 "
        "(thorough 1..40) drawn/enumerated per combination, spectra prescribed; sparse FE: mesh x physics x bc x "
        "standard/generalised x nmodes x shift-mode x format x sorter, random densities; sparse synthetic: class x B x "
        "nmodes x shift-mode; each case = 2-3 consecutive calls of one instance with changed matrices. distinct = "
        "option combination x size class; non-trivial = first matrix has n >= 2 (all clauses are judged for every response)")
EXHAUSTIVE = {"quick": False, "thorough": False}
ASSUMPTIONS = [
    "pair residual judged by the normwise backward error ||A q - lam B q|| / ((||A||_F + |lam| ||B||_F) ||q||_2): "
    "<= 1e-10 dense (LAPACK eigh/eig/ggev are backward stable up to n*eps*cond(B), n <= 40, cond(B) <= 100), "
    "<= 1e-8 sparse (ARPACK tol=0 converges to machine precision; the shifted solves add eps*cond(A - sigma B), the "
    "generator keeps min|lam - sigma| > 1e-6 max|lam - sigma|, i.e. cond(A - sigma B) <~ 1e6)",
    "bilinear normalisation |q^T B q - 1| <= 50 n eps |q|^T|B||q| + 16 eps (forward rounding bound of the form itself); "
    "pairs with |q|^T|B||q| >= 1e6 (numerically isotropic vector, q^T B q ~ 0: the documented normalisation does not "
    "exist) are not judged and counted; dense generators only emit pencils whose constructed eigenvectors have "
    "|q^T B q| >= 1e-3 q^H B q",
    "eigenvalue comparisons use first-order perturbation theory with the same backward error: "
    "|dlam_j| <= tol * ||B^-1||_2 (||A||_F + |lam_j| ||B||_F) cond_j, cond_j = ||x_j|| ||z_j|| from the constructed / "
    "reference eigenvector basis (1 for Hermitian-definite pencils)",
    "sign rule judged with slack 4 n eps max|q| (a theoretically zero-mean vector may have either sign)",
    "ordering is judged exactly (no tolerance): the output must be the permutation the sorting function returned",
    "one matrix class per instance (EigenSolve caches the detected class); overall scale of A in [1e-3, 1e3], of B in "
    "[1e-2, 1e2] (the absolute tolerances of matrix_is_hermitian, K2 of DESIGN section 5, are not provoked); "
    "hermitian=True is only passed for Hermitian pencils; repeated eigenvalues only for real symmetric pencils",
    "sparse: nmodes < n-1 (general and complex Hermitian) / nmodes < n (real symmetric pencils); FE pencils with a mass matrix that is zero on constrained dofs need rank(M) > ncv = "
    "max(2 nmodes+1, 20) for ARPACK to build its basis, meshes are chosen accordingly; the shift is never an eigenvalue; "
    "the reference spectrum is the dense spectrum of the free dofs (constrained dofs decouple)",
    "a failure of the two sparse selection clauses only that does not recur when the same instance is asked again with "
    "the same matrices is recorded as inconclusive (ARPACK draws a random start vector); a recurring one is a violation; "
    "a failure at a repeated call is named history/<clause> when a fresh instance conforms on the same matrices and "
    "the long-lived one fails again",
    "selection: every returned value must match a distinct reference eigenvalue, and no reference eigenvalue that "
    "was not returned may be closer to sigma than the farthest returned one (beyond the eigenvalue tolerance, so ties at "
    "the cut are admissible either way). Not counted as a violation but counted separately: a further copy of a "
    "numerically multiple eigenvalue (gap <= 1e-8 |lam - sigma|; e.g. the bc-diagonal value of a constrained stiffness "
    "matrix, double modes of a symmetric structure) of which at least one copy was returned - a single-vector Krylov "
    "method sees one vector per eigenspace in exact arithmetic",
]
FLOORS = {"quick": {"cases_held": 2800, "distinct_nontrivial": 2000, "responses_judged": 5500, "repeat_calls_judged": 2800,
                    "pairs_residual_checked": 40000, "pairs_normalisation_checked": 40000, "eigenvalues_compared": 40000,
                    "orderings_checked": 5500, "columns_matched_to_sorted_raw": 35000, "signs_checked": 15000,
                    "signs_decided_by_margin": 14000, "selections_checked": 3400, "selections_with_clear_cut": 3200},
          "thorough": {"cases_held": 20000, "responses_judged": 60000, "repeat_calls_judged": 40000,
                       "pairs_residual_checked": 500000, "pairs_normalisation_checked": 500000,
                       "eigenvalues_compared": 500000, "orderings_checked": 60000, "signs_checked": 150000,
                       "selections_checked": 35000, "selections_with_clear_cut": 33000}}
TIMEOUT_CASE = 180

# ----------------------------------------------------------------------------------------- option spaces
DENSE_B = {"sym": ["none", "spd", "hpd"], "herm": ["none", "spd", "hpd"], "genr": ["none", "spd"], "genc": ["none", "spd"],
           "cgen": ["none", "spd", "hpd"], "csym": ["none", "spd"]}
SORTERS = ["default", "ascending", "descending", "modulus", "distance", "imag-real", "tracking", "permutation"]
FE_BC = ["left", "bottom", "both-ends", "pins", "rollers"]
SIGMODES = ["none", "zero", "below", "inside-low", "inside-deep", "midpoint"]
SYN_B = {"rsym": ["none", "spd", "diag"], "cherm": ["none", "spd", "hpd"], "rgen": ["none", "spd"],
         "cgen": ["none", "diag", "hpd"], "csym": ["none", "spd"]}


# K2 of DESIGN section 5 (absolute tolerance in matrix_is_hermitian) also reaches EigenSolve: a general matrix scaled
# to ~1e-9 is classified Hermitian and solved with eigh (A = 1e-9*[[1,2],[0,3]]: backward error 0.67).  It is a known,
# unrepaired finding attributed to C05; switching this on adds dense general cases at scale 1e-9 which are then
# reported under the single mechanism K2_MECHANISM (to be listed in known_findings.json for C11 first).
INCLUDE_K2_TINY_SCALE_CORNER = False
K2_MECHANISM = "class-detection/tiny-scaled-general-matrix-treated-as-hermitian"

# clauses whose outcome legitimately depends on ARPACK's random start vector (which Ritz values converge first)
ARPACK_DEPENDENT = ("sparse/not-the-eigenvalues-closest-to-the-shift",
                    "sparse/returned-values-are-not-distinct-eigenvalues-of-the-pencil")


def _sorter(name):
    """(function or None, value-key monotonicity test or None)"""
    if name == "default":
        return None, None
    if name == "ascending":
        return (lambda W, Q: np.argsort(W)), ref.is_sorted
    if name == "descending":
        return (lambda W, Q: np.argsort(-W)), (lambda W: ref.is_sorted(-W))
    if name == "modulus":
        return (lambda W, Q: np.argsort(np.abs(W))), (lambda W: ref.is_sorted(np.abs(W)))
    if name == "distance":
        return (lambda W, Q: np.argsort(np.abs(W - 0.37))), (lambda W: ref.is_sorted(np.abs(W - 0.37)))
    if name == "imag-real":
        return (lambda W, Q: np.lexsort((np.real(W), np.imag(W)))), \
               (lambda W: ref.is_sorted(np.imag(W) + 1j * np.real(W)))
    if name == "tracking":      # uses the vectors: position of the dominant entry, then the value
        return (lambda W, Q: np.lexsort((np.real(W), np.argmax(np.abs(Q), axis=0)))), None
    if name == "permutation":   # value-independent
        return (lambda W, Q: np.random.default_rng(7919 * len(W) + 13).permutation(len(W))), None
    raise ValueError(name)


class _Rec:
    def __init__(self, fn):
        self.fn, self.calls = fn, []

    def __call__(self, W, Q):
        idx = self.fn(W, Q)
        self.calls.append((np.array(W, copy=True), np.array(Q, copy=True), np.array(idx, copy=True)))
        return idx


# ----------------------------------------------------------------------------------------- plan
def plan(tier, seed):
    rng = np.random.default_rng([seed & 0xFFFFFFFF, 11011])
    quick = tier == "quick"
    cases = []
    # ---- dense: all option combinations
    combos = []
    for cls, bs in DENSE_B.items():
        for b in bs:
            flags = ["auto", "false"] + (["true"] if cls in ("sym", "herm") else [])
            for flag in flags:
                for srt in SORTERS:
                    combos.append((cls, b, flag, srt))
    for (cls, b, flag, srt) in combos:
        nmin = 2 if cls == "genc" else 1
        if quick:
            sizes = [int(rng.integers(nmin, 4)) for _ in range(2)] + [int(rng.integers(4, 11)) for _ in range(3)] + \
                    [int(rng.integers(11, 26)) for _ in range(3)]
        else:
            sizes = 2 * list(range(nmin, 26)) + [int(rng.integers(26, 41)) for _ in range(3)]
        for n in sizes:
            spec = "simple"
            if cls == "sym" and flag != "false" and b != "hpd":
                spec = ["simple", "multi", "zeros", "structured"][int(rng.integers(0, 4))]
            n2 = int(rng.integers(nmin, 26))
            if cls == "genr" and n == 1:
                n2 = 1                       # a real 1x1 matrix is symmetric: do not change the class afterwards
            elif cls == "genr":
                n2 = max(n2, 2)
            steps = [n, n2] + ([n] if not quick else [])
            cases.append({"fam": "dense", "cls": cls, "B": b, "flag": flag, "sort": srt, "spec": spec, "n": steps,
                          "opts": bool(rng.integers(0, 4) == 0), "id": int(rng.integers(0, 2 ** 31))})
    if INCLUDE_K2_TINY_SCALE_CORNER:
        for cls in ("genr", "genc", "cgen", "csym"):
            for n in (2, 3, 6, 12):
                cases.append({"fam": "dense", "cls": cls, "B": "none", "flag": "auto", "sort": "default", "spec": "simple",
                              "n": [n, n], "opts": False, "tiny": True, "id": int(rng.integers(0, 2 ** 31))})
    # ---- sparse, FE generated
    if quick:
        meshes = [[5, 4, 0], [7, 3, 0], [6, 6, 0], [10, 6, 0], [2, 2, 2], [3, 2, 2], [4, 3, 2]]
        nfe = 2100
    else:
        meshes = [[5, 4, 0], [7, 3, 0], [6, 6, 0], [9, 5, 0], [12, 8, 0], [16, 12, 0], [18, 14, 0], [2, 2, 2], [3, 2, 2],
                  [3, 3, 3], [5, 3, 2], [6, 5, 4]]
        nfe = 16000
    kmax = 8 if quick else 12
    i = 0
    while i < nfe:
        # systematic cycling through the small option sets (co-prime strides), random remainder
        c = {"fam": "fe", "mesh": meshes[i % len(meshes)], "phys": ["elastic", "scalar"][(i // 2) % 2 if i % 3 else 0],
             "bc": FE_BC[(i // 3) % len(FE_BC)], "gen": bool(i % 2), "mbc": int(rng.integers(0, 3) == 0),
             "nmodes": [None] + list(range(1, kmax + 1)), "sig": SIGMODES[(i // 7) % len(SIGMODES)],
             "fmt": ["csc", "csr", "coo"][int(rng.integers(0, 3))], "sort": SORTERS[(i // 11) % len(SORTERS)],
             "flag": ["auto", "auto", "auto", "true", "false"][int(rng.integers(0, 5))], "steps": 2 if quick else 3,
             "x": ["random", "random", "random", "uniform", "two-phase"][int(rng.integers(0, 5))],
             "id": int(rng.integers(0, 2 ** 31))}
        c["nmodes"] = c["nmodes"][i % (kmax + 1)]
        cases.append(c)
        i += 1
    # ---- sparse, synthetic classes
    nsyn = 18 if quick else 120
    for cls, bs in SYN_B.items():
        for b in bs:
            for sig in SIGMODES + (["complex"] if cls in ("cgen", "csym") else []):
                for r in range(nsyn):
                    n = int(rng.integers(4, 61 if quick else 201))
                    kcap = min(kmax, n - 3)
                    n2 = n if r % 2 else int(rng.integers(n, n + 20))     # second call may come with another size
                    cases.append({"fam": "syn", "cls": cls, "B": b, "n": n, "n2": n2, "sig": sig,
                                  "flag": "false" if (cls == "rsym" and r == 1) else "auto",
                                  "nmodes": (None if (r == 0 and n > 12) else int(rng.integers(1, kcap + 1))),
                                  "fmt": ["csc", "csr", "coo"][int(rng.integers(0, 3))],
                                  "sort": SORTERS[int(rng.integers(0, len(SORTERS)))], "steps": 2 if quick else 3,
                                  "id": int(rng.integers(0, 2 ** 31))})
    # ---- the boundary value of the option: all but one eigenpair of a small Hermitian pencil (eigsh accepts nmodes = n-1)
    for cls in ("rsym",):           # (scipy routes complex Hermitian pencils through eigs: k < n-1 there)
        for b in SYN_B[cls]:
            for r in range(6 if quick else 24):
                n = int(rng.integers(3, 10))
                cases.append({"fam": "syn", "cls": cls, "B": b, "n": n, "n2": n, "sig": SIGMODES[r % len(SIGMODES)], "flag": "auto",
                              "nmodes": n - 1, "fmt": ["csc", "csr", "coo"][r % 3], "sort": SORTERS[r % 3], "steps": 2,
                              "id": int(rng.integers(0, 2 ** 31))})
    # ---- generalised pencils whose two matrices have identical sparsity structure but different entry order inside the columns
    for r in range(12 if quick else 120):
        n = int(rng.integers(6, 31 if quick else 81))
        cases.append({"fam": "syn", "cls": "rsym", "B": "spd", "samepattern": True, "n": n, "n2": n, "sig": ["below", "inside-low", "midpoint"][r % 3],
                      "flag": "auto", "nmodes": int(rng.integers(1, min(kmax, n - 3) + 1)), "fmt": "csc", "sort": SORTERS[r % 3], "steps": 2,
                      "id": int(rng.integers(0, 2 ** 31))})
    # ---- positive definite pencils (K, M both SPD) with a shift: the documented `mode` keyword (buckling / Cayley) can be used
    for r in range(16 if quick else 160):
        n = int(rng.integers(8, 41 if quick else 121))
        cases.append({"fam": "syn", "cls": "rsym", "B": "spd", "pd": True, "n": n, "n2": n, "sig": ["below", "inside-low", "midpoint", "inside-deep"][r % 4],
                      "flag": "auto", "nmodes": int(rng.integers(1, min(kmax, n - 3) + 1)), "fmt": ["csc", "csr"][r % 2],
                      "sort": SORTERS[r % 3], "steps": 2, "id": int(rng.integers(0, 2 ** 31))})
    # ---- slender FE pencils: relative accuracy of the lowest eigenvalues, in-place matrix updates
    for r in range(48 if quick else 400):
        cases.append({"fam": "slender", "mesh": [[30, 2], [40, 1], [60, 1], [100, 1], [24, 3], [50, 2]][r % 6], "gen": bool(r % 2),
                      "fmt": ["csc", "csr"][(r // 2) % 2], "nmodes": 1 + r % 4, "id": int(rng.integers(0, 2 ** 31))})
    # shards take every 16th case: shuffle so that the expensive meshes do not all land in the same shards
    return [cases[j] for j in rng.permutation(len(cases))]


# ----------------------------------------------------------------------------------------- execution helpers
def _respond(pym, mod, sigs, mats, rec):
    """Set the input states and run one response; returns (W, Q)."""
    for s, M in zip(sigs["in"], mats):
        s.state = M
    if rec is not None:
        rec.calls.clear()
    mod.response()
    return sigs["out"][0].state, sigs["out"][1].state


def _build(pym, nin, kwargs, sorter_name):
    fn, keyfn = _sorter(sorter_name)
    rec = _Rec(fn) if fn is not None else None
    kw = dict(kwargs)
    if rec is not None:
        kw["sorting_func"] = rec
    sin = [pym.Signal("A")] + ([pym.Signal("B")] if nin == 2 else [])
    sout = [pym.Signal("lam"), pym.Signal("Q")]
    mod = pym.EigenSolve(sin, sout, **kw)
    return mod, {"in": sin, "out": sout}, rec, keyfn


def _judge_step(ctx, pym, state, mats, info, step):
    """One response of the long-lived instance; on failure the same matrices are given to a fresh instance to tell
    a wrong answer from a history-dependent one."""
    mod, sigs, rec, keyfn = state["inst"]
    A, B = mats[0], (mats[1] if len(mats) > 1 else None)
    snap = [M.copy() for M in mats]
    W, Q = _respond(pym, mod, sigs, mats, rec)
    jk = dict(sparse=info["sparse"], realsym=info["realsym"],
              lam_ref=info["lam"], cond_ref=info["cond"], nBinv=info["nBinv"],
              nmodes=info.get("nmodes"), sigma=info.get("sigma", 0.0))
    fails, obs = ref.judge(A, B, W, Q, sorter=(state["sort"], keyfn), rec=(rec.calls if rec is not None else None),
                           count=ctx.count, **jk)
    if state.get("othermode"):
        fails = [f_ for f_ in fails if f_[0] != "sparse/not-the-eigenvalues-closest-to-the-shift"]
    ctx.count("responses_judged")
    ctx.log(f"step {step}: n={A.shape[0]} B={'-' if B is None else type(B).__name__} sparse={info['sparse']} "
            f"returned {np.shape(W)} {getattr(W, 'dtype', None)}; lambda[:6]={np.asarray(W)[:6]}; sigma={info.get('sigma')}; "
            f"obs={obs}; failed clauses={[m_ for m_, _ in fails]}")
    if step > 0:
        ctx.count("repeat_calls_judged")
    # the judged inputs must still be what was handed in (otherwise the residual above is about other matrices)
    for M0, M1, nm in zip(snap, mats, "AB"):
        same = (abs(M0 - M1).max() == 0) if sps.issparse(M0) else np.array_equal(M0, M1)
        if not same:
            fails.append((f"input/{nm}-was-modified-by-response", {}))
    if fails and info["sparse"] and all(m_ in ARPACK_DEPENDENT for m_, _ in fails):
        # ARPACK starts from a random vector: a failure that does not recur when the very same instance is asked
        # again with the very same matrices cannot be attributed to EigenSolve -> undecided (counted, listed)
        W1, Q1 = _respond(pym, mod, sigs, mats, rec)
        f1, _ = ref.judge(A, B, W1, Q1, sorter=(state["sort"], keyfn), rec=(rec.calls if rec is not None else None), **jk)
        if not f1:
            ctx.count("sparse_failures_not_reproducible")
            raise Inconclusive("sparse result not reproducible on identical input (random ARPACK start vector): "
                               + fails[0][0], first=fails[0][1], step=step)
    if fails and step > 0:
        fresh = _build(pym, len(mats), state["kwargs"], state["sort"])
        W2, Q2 = _respond(pym, fresh[0], fresh[1], mats, fresh[2])
        f2, _ = ref.judge(A, B, W2, Q2, sorter=(state["sort"], fresh[3]),
                          rec=(fresh[2].calls if fresh[2] is not None else None), **jk)
        if not f2:
            # ... and the long-lived instance must fail again when simply asked again (rules out ARPACK's random start)
            W3, Q3 = _respond(pym, mod, sigs, mats, rec)
            f3, _ = ref.judge(A, B, W3, Q3, sorter=(state["sort"], keyfn),
                              rec=(rec.calls if rec is not None else None), **jk)
            if f3:
                fails = [("history/" + m, dict(d, step=step, fresh_instance_conforms=True)) for m, d in fails]
    if fails:
        m, d = fails[0]
        d = dict(d, step=step, also=[x for x, _ in fails[1:]])
        raise Violation(m, **d)
    return obs


def _merge(obs_all, obs):
    for k_, v in obs.items():
        obs_all[k_] = max(obs_all.get(k_, 0.0), v)


# ----------------------------------------------------------------------------------------- families
def _run_dense(case, ctx, pym):
    cls, bk, flag, srt = case["cls"], case["B"], case["flag"], case["sort"]
    rng = ctx.rng("dense", case["id"])
    kwargs = {}
    if flag != "auto":
        kwargs["hermitian"] = flag == "true"
    if case["opts"]:
        kwargs.update(nmodes=2, sigma=0.5)        # documented as sparse-only: the dense spectrum stays complete
    state = {"inst": _build(pym, 1 if bk == "none" else 2, kwargs, srt), "sort": srt, "kwargs": kwargs}
    obs_all = {}
    sa, sb = 10.0 ** rng.uniform(-3, 3), 10.0 ** rng.uniform(-2, 2)
    if case.get("tiny"):
        sa = 1e-9
    for step, n in enumerate(case["n"]):
        p = ref.dense_problem(rng, cls, n, bk, case["spec"], sa, sb)
        mats = [p["A"]] + ([p["B"]] if p["B"] is not None else [])
        info = {"sparse": False, "hermitian": p["hermitian"], "realsym": p["realsym"], "lam": p["lam"],
                "cond": p["cond"], "nBinv": p["nBinv"]}
        try:
            _merge(obs_all, _judge_step(ctx, pym, state, mats, info, step))
        except Violation as v:
            if case.get("tiny") and not p["hermitian"] and getattr(state["inst"][0], "is_hermitian", None):
                raise Violation(K2_MECHANISM, observed_as=v.mech, scale=sa, **v.detail)
            raise
    n0 = case["n"][0]
    size = "1" if n0 == 1 else ("2-3" if n0 <= 3 else ("4-10" if n0 <= 10 else ("11-25" if n0 <= 25 else "26-40")))
    return {"key": f"dense/{cls}/{bk}/{flag}/{srt}/{case['spec']}/n{size}", "nontrivial": n0 >= 2,
            "obs": dict(obs_all, n=case["n"], scaleA=sa)}


def _pick_sigma(rng, mode, lam, hermitian):
    """Shift from the reference spectrum of the first pencil; returns (constructor argument, effective value)."""
    if mode == "none":
        return None, 0.0
    if mode == "zero":
        return 0.0, 0.0
    srt = np.sort(np.real(lam))
    if mode == "below":
        s = float(srt[0] - rng.uniform(0.2, 2.0) * max(srt[min(3, len(srt) - 1)] - srt[0], 1e-3 * abs(srt[0]) + 1e-12))
        return s, s
    if mode in ("inside-low", "inside-deep", "midpoint", "complex"):
        hi = min(10, len(srt) - 1) if mode != "inside-deep" else len(srt) - 1
        j = int(rng.integers(0, max(hi, 1)))
        f = 0.5 if mode == "midpoint" else float(rng.choice([rng.uniform(0.25, 0.45), rng.uniform(0.55, 0.75)]))
        s = float(srt[j] + f * (srt[j + 1] - srt[j])) if len(srt) > 1 else float(srt[0] + 1.0)
        if mode == "complex":               # off the real axis by at most the local spacing of the real parts
            s = complex(s, float(rng.uniform(-1, 1)) * float(srt[min(j + 1, len(srt) - 1)] - srt[j]))
        return s, s
    raise ValueError(mode)


def _shift_admissible(lam, sigma):
    """The shift must not (nearly) be an eigenvalue: cond(A - sigma B) ~ max|lam - sigma| / min|lam - sigma| is kept
    below 1e6 so that eps*cond stays 50x under the sparse residual tolerance."""
    d = np.abs(np.asarray(lam) - sigma)
    return d.min() > 1e-6 * d.max()


def _run_sparse(case, ctx, pym, make_pencil, label):
    rng = ctx.rng(label, case["id"])
    srt = case["sort"]
    state = None
    obs_all = {}
    judged = 0
    karg = case["nmodes"]
    k = 6 if karg is None else karg
    sig_arg = sig = None
    for step in range(case["steps"]):
        p = make_pencil(rng, step)
        A, B = p["A"], p["B"]
        lam, cond, nBi = ref.reference_spectrum(A, B, p["hermitian"], p.get("free"))
        real_sym = p["hermitian"] and not np.iscomplexobj(A.toarray() if sps.issparse(A) else A) and \
            (B is None or not np.iscomplexobj(B.toarray() if sps.issparse(B) else B))
        if k >= len(lam) - (0 if real_sym else 1):      # ARPACK: k < n for real symmetric pencils, k < n-1 otherwise
            raise Skip("nmodes not smaller than the number of finite eigenvalues (- 1 for non-Hermitian pencils)")
        if state is None:
            sig_arg, sig = _pick_sigma(rng, case["sig"], lam, p["hermitian"])
            kwargs = {"nmodes": karg, "sigma": sig_arg}
            if case.get("flag", "auto") == "true" and p["hermitian"]:
                kwargs["hermitian"] = True
            if case.get("flag", "auto") == "false":
                kwargs["hermitian"] = False          # general (eigs) path on a symmetric pencil is legitimate
            othermode = False
            if real_sym and case.get("fam") == "syn" and case.get("B") == "spd" and sig_arg not in (None, 0.0) and \
                    case.get("flag", "auto") != "false" and np.all(np.real(lam) > 0) and rng.random() < 0.5:
                # the documented `mode` keyword of the symmetric shift-invert path (ARPACK's buckling and Cayley transforms, A positive
                # definite): eigenpairs, normalisation and order are judged as always; *which* k eigenvalues these transforms favour is
                # ARPACK's definition (largest |lam/(lam-sigma)| resp. |(lam+sigma)/(lam-sigma)|), not "closest to the shift"
                kwargs["mode"] = str(rng.choice(["buckling", "cayley"]))
                othermode = True
                ctx.count("sparse_cases_with_buckling_or_cayley_mode")
            state = {"inst": _build(pym, 1 if B is None else 2, kwargs, srt), "sort": srt, "kwargs": kwargs, "othermode": othermode}
        if not _shift_admissible(lam, sig):
            ctx.count("steps_skipped_shift_too_close_to_an_eigenvalue")
            continue
        if state["othermode"] and not np.all(np.real(lam) > 0):
            # (the mode was chosen for the positive definite pencil of the first step; ARPACK's buckling/Cayley transforms are
            # not defined for the indefinite one of this step - scipy itself does not converge on it)
            ctx.count("steps_skipped_mode_needs_positive_definite_pencil")
            continue
        mats = [A] + ([B] if B is not None else [])
        info = {"sparse": True, "hermitian": p["hermitian"], "realsym": p["realsym"], "lam": lam, "cond": cond,
                "nBinv": nBi, "nmodes": k, "sigma": sig}
        _merge(obs_all, _judge_step(ctx, pym, state, mats, info, step))
        judged += 1
        obs_all["n"] = A.shape[0]
    if judged == 0:
        raise Skip("shift too close to an eigenvalue in every step")
    return obs_all, sig


def _run_fe(case, ctx, pym):
    nx, ny, nz = case["mesh"]
    dom = pym.DomainDefinition(nx, ny, nz)
    dim = 2 if nz == 0 else 3
    ndof = dim if case["phys"] == "elastic" else 1
    nodes = np.asarray(dom.nodes)
    bcname = case["bc"]
    if case["phys"] == "scalar" and bcname in ("rollers",):
        bcname = "left"

    def face(ax, idx):
        sl = [slice(None)] * nodes.ndim
        sl[ax] = idx
        return nodes[tuple(sl)].ravel()

    alld = lambda nd: (np.asarray(nd)[:, None] * ndof + np.arange(ndof)[None, :]).ravel()
    if bcname == "left":
        bc = alld(face(0, 0))
    elif bcname == "bottom":
        bc = alld(face(1, 0))
    elif bcname == "both-ends":
        bc = alld(np.concatenate([face(0, 0), face(0, -1)]))
    elif bcname == "pins":
        corner = [nodes[(0,) * nodes.ndim], nodes[(-1,) + (0,) * (nodes.ndim - 1)], nodes[(0, -1) + (0,) * (nodes.ndim - 2)]]
        if nodes.ndim == 3 and nodes.shape[2] > 1:
            corner.append(nodes[0, 0, -1])
        bc = alld(np.unique(corner))
    else:  # rollers: normal displacement on the three coordinate planes
        bc = np.concatenate([face(ax, 0) * ndof + ax for ax in range(dim)])
    bc = np.unique(bc)
    sx = pym.Signal("x")
    if case["phys"] == "elastic":
        mK = pym.AssembleStiffness(sx, pym.Signal("K"), domain=dom, bc=bc)
    else:
        mK = pym.AssemblePoisson(sx, pym.Signal("K"), domain=dom, bc=bc)
    mM = None
    if case["gen"]:
        extra = {"bcdiagval": 1e-3} if case["mbc"] else {}      # positive: M definite, constrained dofs far up the spectrum
        mM = pym.AssembleMass(sx, pym.Signal("M"), domain=dom, bc=bc, ndof=ndof, **extra)
    ntot = dom.nnodes * ndof
    free = np.setdiff1d(np.arange(ntot), bc)
    fmt = case["fmt"]

    def make(rng, step):
        if case["x"] == "uniform":          # symmetric structure: multiple eigenvalues
            sx.state = np.full(dom.nel, rng.uniform(0.1, 1.0))
        elif case["x"] == "two-phase":      # contrast 1e3, as in a converged design
            sx.state = np.where(rng.random(dom.nel) < 0.5, 1e-3, 1.0)
        else:
            sx.state = 0.1 + 0.9 * rng.random(dom.nel)
        mK.response()
        K = mK.sig_out[0].state.asformat(fmt)
        M = None
        if mM is not None:
            mM.response()
            M = mM.sig_out[0].state.asformat(fmt)
        sing = M is not None and not case["mbc"]
        return {"A": K, "B": M, "hermitian": True, "realsym": True, "free": free if sing else None}

    k = 6 if case["nmodes"] is None else case["nmodes"]
    if case["gen"] and not case["mbc"] and len(free) < max(2 * k + 1, 20) + 2:
        raise Skip("rank of the mass matrix below the ARPACK basis size")
    obs, sig = _run_sparse(case, ctx, pym, make, "fe")
    nfree = len(free)
    size = "n<60" if nfree < 60 else ("n<200" if nfree < 200 else "n>=200")
    return {"key": f"fe/{dim}D/{case['phys']}/{bcname}/{'KM' if case['gen'] else 'K'}{'+' if case['mbc'] else ''}/"
                   f"k{case['nmodes']}/{case['sig']}/{case['sort']}/{size}",
            "nontrivial": True, "obs": dict(obs, sigma=sig, nfree=nfree)}


def _run_syn(case, ctx, pym):
    sa_sb = {}

    def make(rng, step):
        if not sa_sb:
            sa_sb["a"], sa_sb["b"] = 10.0 ** rng.uniform(-3, 3), 10.0 ** rng.uniform(-2, 2)
            if case.get("B", "none") != "none" and case["id"] % 6 == 0:
                # eigenvalues (and with them the shifts) of the order 1e-10: the inverse vibration problem M q = (1/w^2) K q in SI units
                sa_sb["a"], sa_sb["b"] = 10.0 ** rng.uniform(-1, 1), 10.0 ** rng.uniform(9, 11)
                ctx.count("sparse_pencils_with_eigenvalues_of_order_1e-10")
        n = case["n"] if step != 1 else case["n2"]
        p = ref.sparse_problem(rng, case["cls"], n, case["B"], case["fmt"], sa_sb["a"], sa_sb["b"])
        if case.get("samepattern") and p["B"] is not None:
            # a mass-like matrix with exactly the sparsity structure of A (same nnz, same column counts) whose entries are stored in a
            # different order inside the columns (what a sparse product or a hand-built csc matrix gives): same matrix, other layout
            Ad = p["A"].toarray()
            pat = (Ad != 0) | np.eye(n, dtype=bool)
            R = rng.uniform(0.0, 1.0, (n, n))
            Bd = ((R + R.T) * 0.05 / n) * pat + np.diag(rng.uniform(1.0, 2.0, n))
            Ac = sps.csc_matrix(np.where(pat, np.where(Ad != 0, Ad, 1e-300), 0.0))
            Ac.data[np.abs(Ac.data) <= 1e-300] = 0.0                # explicit zeros keep the structure identical
            Bc = sps.csc_matrix(np.where(pat, np.where(Bd != 0, Bd, 1e-300), 0.0))
            for j in range(n):                                       # reverse the entry order inside every column of B
                a_, b_ = Bc.indptr[j], Bc.indptr[j + 1]
                Bc.indices[a_:b_] = Bc.indices[a_:b_][::-1].copy()
                Bc.data[a_:b_] = Bc.data[a_:b_][::-1].copy()
            Bc.has_sorted_indices = False
            p["A"], p["B"] = Ac, Bc
        if case.get("pd"):
            # positive definite A (a stiffness matrix): shifted by a multiple of the identity, pattern and symmetry kept
            Ad = p["A"].toarray()
            w = np.linalg.eigvalsh((Ad + Ad.T) / 2)
            p["A"] = (p["A"] + sps.identity(n, format="csr") * float(max(0.0, -w[0]) + 0.1 * (w[-1] - w[0] + 1e-300))).asformat(case["fmt"])
        return p

    obs, sig = _run_sparse(case, ctx, pym, make, "syn")
    n = case["n"]
    size = "n<20" if n < 20 else ("n<60" if n < 60 else "n>=60")
    return {"key": f"syn/{case['cls']}/{case['B']}/k{case['nmodes']}/{case['sig']}/{case['sort']}/{size}",
            "nontrivial": True, "obs": dict(obs, sigma=sig)}


def _run_slender(case, ctx, pym):
    """Slender FE pencils (lowest eigenvalue 1e-6..1e-9 of the matrix entries): the lowest eigenvalues - the ones a user asks a
    shift-invert solver for - are compared with the dense reference to *relative* accuracy (limited only by the accuracy of the
    reference itself, ~ eps*|K|/lambda); then the same matrix object is updated in place and the module evaluated again."""
    import scipy.linalg as sl
    from ..core import Violation
    rng = ctx.rng("slender", case["id"])
    nx, ny = case["mesh"]
    dom = pym.DomainDefinition(nx, ny, unitx=float(rng.uniform(0.5, 2)), unity=float(rng.uniform(0.5, 2)))
    bc = (np.asarray(dom.nodes)[0, :] * 2 + np.arange(2)[None]).flatten()
    free = np.setdiff1d(np.arange(dom.nnodes * 2), bc)
    x = rng.uniform(0.3, 1.0, dom.nel)
    mk = pym.AssembleStiffness(pym.Signal("x", x), pym.Signal("K"), dom, bc=bc)
    mk.response()
    K = mk.sig_out[0].state.asformat(case["fmt"])
    sigs, Md = [pym.Signal("K", K)], None
    if case["gen"]:
        mm = pym.AssembleMass(pym.Signal("x", x), pym.Signal("M"), dom, bc=bc, ndof=2, bcdiagval=1e-3)
        mm.response()
        M = mm.sig_out[0].state.asformat(case["fmt"])
        sigs.append(pym.Signal("M", M))
        Md = M.toarray()[np.ix_(free, free)]
    k = case["nmodes"]
    es = pym.EigenSolve(sigs, [pym.Signal("lam"), pym.Signal("Q")], nmodes=k)
    worst = 0.0
    fac = 1.0
    for step in range(3):
        es.response()
        lam = np.asarray(es.sig_out[0].state)
        refv = sl.eigh(fac * K.toarray()[np.ix_(free, free)] / fac if False else K.toarray()[np.ix_(free, free)], Md, eigvals_only=True)[:k]
        if lam.shape != refv.shape:
            raise Violation("sparse/wrong-number-of-modes", got=list(lam.shape), want=k)
        kmax = float(abs(K).max())
        tol = 1000 * np.finfo(float).eps * kmax / (refv * (1.0 if Md is None else float(np.abs(Md).max()))) + 1e-9
        rel = np.abs(lam - refv) / np.abs(refv)
        ctx.count("eigenvalues_compared", k)
        ctx.count("slender_relative_checks", k)
        worst = max(worst, float(np.max(rel / tol)))
        if np.any(rel > tol):
            j = int(np.argmax(rel / tol))
            mech = "eigenpair/lowest-eigenvalues-differ-from-dense-reference-beyond-its-accuracy" if step == 0 else \
                "history/in-place-update-of-the-matrix-object-not-followed"
            raise Violation(mech, mode=j, got=float(lam[j]), want=float(refv[j]), rel_err=float(rel[j]), tol=float(tol[j]), mesh=[nx, ny],
                            generalised=case["gen"], step=step)
        # in-place update of the same matrix object (e.g. K.data[:] = ... in a user loop)
        f = float(rng.uniform(1.3, 2.5))
        K.data[:] = K.data * f
    return {"key": f"slender/{nx}x{ny}/{'KM' if case['gen'] else 'K'}/{case['fmt']}/k{k}", "nontrivial": True,
            "obs": {"mesh": [nx, ny], "worst_rel_err_over_tol": worst}}


def run_case(case, ctx):
    import pymoto as pym
    if case["fam"] == "slender":
        return _run_slender(case, ctx, pym)
    if case["fam"] == "dense":
        return _run_dense(case, ctx, pym)
    if case["fam"] == "fe":
        return _run_fe(case, ctx, pym)
    if case["fam"] == "syn":
        return _run_syn(case, ctx, pym)
    raise ValueError(case["fam"])
