"""C14 — the overhang filter prints layer by layer in the requested direction.

Workload: every domain size up to the tier bound (2D and 3D) x every print direction (4 / 6) x nsampling
(3 | 5, 9) is one case.  Inside a case the real OverhangFilter is constructed for many spellings of that
direction (strings '+x' 'x+' 'x' 'X-' ' -y' ..., vectors as list/tuple/ndarray, int/float, scaled, 2- and
3-component; over the enumeration every spelling of every direction is used hundreds of times), with the default
and with random / corner (xi_0, p, eps), and evaluated on random, binary, noisy-binary, constant, column, bridge,
island, staircase and extreme-value designs; module instances are re-used for several designs.

Oracles (all plain numpy on the (i,j,k) array of the field, no call into the judged code):
 * parsed direction: `module.direction` against an independent parser (axis and sign);
 * base layer: bitwise equal to the input;
 * recursion, local form: every layer L>0 of the *observed* output equals
   smin(x_L, smax(observed layer L-1)) with q/shift/backshift of Langelaar's reference implementation –
   a one-step check, so no rounding amplification across layers enters the tolerance;
 * recursion, global form: forward sweep of the same reference from the base layer, compared with a
   propagated (Lipschitz) rounding bound;
 * consequences: y <= x + sqrt(eps)/2; x = 1 on solid supports stays >= 1 - tol; supports at void level
   => y <= sqrt(eps)/2 + tol;
 * metamorphic (independent of the reference): mirror along every axis and swap of every axis pair with
   the correspondingly mapped direction (given in a random spelling) give the mirrored / swapped output.
"""
import itertools
import math

import numpy as np

from ..core import Violation, require

ID = "C14"
LEVEL = "exploration"
MONITORS = []
ANCHORS = ["modules/filter.py"]
RULE = ("one case = (domain size, print axis, sign, nsampling[, repetition]); all sizes up to the tier bound are "
        "enumerated (quick: 2D<=6x6, 3D<=5^3; thorough: 2D<=12x12, 3D<=6^3, three repetitions with different random "
        "parts, plus 400 random larger domains up to 24x24 / 10^3); inside a case 8 spellings of the direction (both "
        "canonical strings, 2 other strings, 4 vector forms; every mapped direction of the metamorphic relations in "
        "a random spelling), 4-6 parameter sets (default, random, corner eps/xi_0/p) and 12 design families are run; "
        "distinct = distinct "
        "(size, direction, nsampling); non-trivial = at least two layers in the print direction")
EXHAUSTIVE = {"quick": True, "thorough": True}
K_XI0 = "output/non-finite-at-xi_0=0-with-eps=0"
ASSUMPTIONS = [
    "float64 density fields with values in [0,1]; xi_0 in {0} u [0.2,0.8], p in [5,40] (int or float), eps in "
    "{0} u [1e-6,1e-2]; parameter draws with Q = p + ln(ns)/ln(xi_0) < 1 are re-drawn (the P-Q smooth maximum of "
    "Langelaar's scheme needs Q > 0; Q >= 1 bounds the conditioning 1/Q of the Q-th root)",
    "element (i,j,k) has number (k*nely+j)*nelx+i (verified by C13)",
    "supporting elements (Langelaar 2016/2017): 2D the element below and its two in-plane neighbours; 3D, 5 points: "
    "the element below and its four edge neighbours, 9 points: also the four diagonal neighbours; positions outside "
    "the domain do not contribute",
    "`direction` attribute: only axis and sign are judged (off-axis components zero up to 1e-12 of the axis component: rounding noise of a computed rotation), not its length",
    "admissible direction spellings: strings consisting of one axis letter (either case) and an optional sign before "
    "or after it, optionally padded by blanks (bare letter = positive); vectors (list/tuple/ndarray, int or float, "
    "any positive length) with dim or 3 components, and 2 components on 3D domains for in-plane directions",
    "one-step tolerance (derived): |dy| <= 4*[(s+b)*((p+4+ns)/Q + |ln keep|*(4p/Q+1)/Q + 4)*u + b*((745/Q)*(4p/Q+2)+10)*u"
    " + 8u*(|x|+|s|+sqrt(eps))], u=2^-52: 1 ulp for y+shift amplified by p, <=4 ulp per pow, ns-term sum, 4p/Q ulp "
    "in Q (two logs, a division, a sum) acting through |ln keep|/Q on the Q-th root, 8 roundings of magnitude "
    "<= |x|+|s|+sqrt(eps) in the smooth minimum; factor 4 = two evaluations (code and reference) x safety 2",
    "global / metamorphic tolerance: E_L = tol_L + A*E_(L-1), A = max(1,(p/Q)*ns^(1/p)*T^(p/Q-1)), T = ns^(1/p)*"
    "(max y + shift) is a global Lipschitz constant of the smooth maximum w.r.t. the max-norm of its supports "
    "(smin is 1-Lipschitz); comparisons whose bound exceeds 1e-6 are counted as skipped, not judged",
    "'fully supported solid' = x >= 1 and all in-domain supporting elements printed >= 1-1e-12; then "
    "y >= 1 - 2(p/Q)*1e-12 - backshift - rounding (backshift <= 1.3e-6 is part of the published scheme)",
    "'unsupported' = all in-domain supporting elements printed <= sqrt(eps)/2 (what void prints at most); then "
    "y <= sqrt(eps)/2 + ns^(1/Q)*(m+shift)^(p/Q) + rounding with m the largest printed support",
]
FLOORS = {
    "quick": {"cases_held": 820, "distinct_nontrivial": 660, "modules_built": 23000, "string_forms_checked": 12000,
              "vector_forms_checked": 11000, "elements_local_checked": 800000, "elements_global_checked": 800000,
              "base_elements_checked": 400000, "overshoot_checked": 1200000, "solid_checked": 80000,
              "unsupported_checked": 14000, "mirror_relations": 21000, "swap_relations": 20000},
    "thorough": {"cases_held": 4900, "distinct_nontrivial": 1500, "modules_built": 165000,
                 "string_forms_checked": 85000, "vector_forms_checked": 80000, "elements_local_checked": 14000000,
                 "elements_global_checked": 14000000, "base_elements_checked": 4700000,
                 "overshoot_checked": 19000000, "solid_checked": 1300000, "unsupported_checked": 240000,
                 "mirror_relations": 160000, "swap_relations": 150000},
}
TIMEOUT_CASE = 300

U = 2.0 ** -52
OFFSETS = [(-1, 0), (0, 0), (1, 0), (0, -1), (0, 1), (-1, -1), (-1, 1), (1, -1), (1, 1)]
DESIGNS = ["rand", "binary", "noisybin", "zeros", "ones", "xi0", "column", "bridge", "island", "stairs", "solidbase",
           "extremes"]


# --------------------------------------------------------------------------------------------- plan
def plan(tier, seed):
    cases = []
    if tier == "quick":
        b2, b3, reps = 6, 5, 1
    else:
        b2, b3, reps = 12, 6, 3
    for rep in range(reps):
        for nx, ny in itertools.product(range(1, b2 + 1), repeat=2):
            for ax in (0, 1):
                for sg in (1, -1):
                    cases.append({"n": [nx, ny, 0], "ax": ax, "sg": sg, "ns": 3, "rep": rep})
        for nx, ny, nz in itertools.product(range(1, b3 + 1), repeat=3):
            for ax in (0, 1, 2):
                for sg in (1, -1):
                    for ns in (5, 9):
                        cases.append({"n": [nx, ny, nz], "ax": ax, "sg": sg, "ns": ns, "rep": rep})
    if tier == "thorough":
        # random larger domains (cheap variant of a case: no enumeration of spellings)
        rng = np.random.default_rng([int(seed) & 0xFFFFFFFF, 1414])
        for i in range(400):
            if i % 2 == 0:
                n = [int(rng.integers(7, 25)), int(rng.integers(7, 25)), 0]
                ax, ns = int(rng.integers(0, 2)), 3
            else:
                n = [int(rng.integers(2, 11)) for _ in range(3)]
                ax, ns = int(rng.integers(0, 3)), int(rng.choice([5, 9]))
            cases.append({"n": n, "ax": ax, "sg": int(rng.choice([1, -1])), "ns": ns, "rep": 100 + i, "big": 1})
    # domains with more than 32767 elements (element numbers beyond the narrow integer types), cheap variant
    rng2 = np.random.default_rng([int(seed) & 0xFFFFFFFF, 1415])
    huge = [[200, 170, 0], [33, 33, 32]] + ([] if tier == "quick" else [[256, 160, 0], [40, 30, 30], [1, 33000, 0], [33000, 2, 0]])
    for i, n in enumerate(huge):
        dim_ = 2 if n[2] == 0 else 3
        cases.append({"n": n, "ax": int(rng2.integers(0, dim_)), "sg": int(rng2.choice([1, -1])), "ns": 3 if dim_ == 2 else int(rng2.choice([5, 9])),
                      "rep": 900 + i, "big": 1})
    return cases


# --------------------------------------------------------------------------------------------- layout helpers
def to3d(x, n3):
    """flat element vector -> X[i,j,k]  (element number = (k*ny + j)*nx + i)"""
    nx, ny, nz = n3
    return np.asarray(x).reshape((nz, ny, nx)).transpose(2, 1, 0)


def from3d(X):
    return np.ascontiguousarray(np.transpose(X, (2, 1, 0))).ravel().copy()


def orient(X, ax, sg):
    """view with the print axis first, layer 0 = base layer, remaining axes in natural order
    (in 2D the in-plane orthogonal axis comes first, the dummy z axis last)"""
    Xp = np.moveaxis(X, ax, 0)
    return Xp[::-1] if sg < 0 else Xp


# --------------------------------------------------------------------------------------------- reference model
class Model:
    """Langelaar's AM filter (2016/2017): P-Q smooth maximum over the supporting elements of the previous layer,
    regularised smooth minimum with the blueprint density.  Constants as in the author's reference implementation:
    Q = P + ln(ns)/ln(xi0), SHIFT = 100*realmin^(1/P), BACKSHIFT = 0.95*ns^(1/Q)*SHIFT^(P/Q)."""

    def __init__(self, xi0, p, eps, ns):
        tiny = 2.0 ** -1022
        self.p, self.eps, self.ns, self.xi0 = float(p), float(eps), int(ns), float(xi0)
        # xi_0 = 0 is the documented end of the range (0 <= xi_0 <= 1): ln(0) = -inf, so Q = P (plain P-norm maximum)
        self.q = self.p + (math.log(self.ns) / math.log(self.xi0) if self.xi0 > 0 else 0.0)
        self.shift = 100.0 * tiny ** (1.0 / self.p)
        self.back = 0.95 * self.ns ** (1.0 / self.q) * self.shift ** (self.p / self.q)
        self.offs = OFFSETS[:self.ns]
        self.sq = math.sqrt(self.eps)
        pq = self.p / self.q
        self.rel_back = ((745.0 / self.q) * (4 * pq + 2) + 10) * U

    def keep(self, Yprev):
        m1, m2 = Yprev.shape
        Z = np.zeros((m1 + 2, m2 + 2))
        Z[1:-1, 1:-1] = np.power(Yprev + self.shift, self.p)
        k = np.zeros((m1, m2))
        for da, db in self.offs:
            k = k + Z[1 + da:1 + da + m1, 1 + db:1 + db + m2]
        return k

    def neighbourhood(self, Yprev, fill, red):
        """reduction (np.minimum / np.maximum) over the in-domain supporting elements"""
        m1, m2 = Yprev.shape
        Z = np.full((m1 + 2, m2 + 2), fill)
        Z[1:-1, 1:-1] = Yprev
        out = np.full((m1, m2), fill)
        for da, db in self.offs:
            out = red(out, Z[1 + da:1 + da + m1, 1 + db:1 + db + m2])
        return out

    def step(self, Xcur, Yprev):
        """one layer: returns (y, s, tol) with tol the derived bound on the difference of two float evaluations"""
        k = self.keep(Yprev)
        s = np.power(k, 1.0 / self.q) - self.back
        r = Xcur - s
        y = (Xcur + s - np.sqrt(r * r + self.eps) + self.sq) / 2
        with np.errstate(all="ignore"):
            lnk = np.abs(np.log(k))
        pq = self.p / self.q
        rel_s = ((self.p + 4 + self.ns) / self.q + lnk * (4 * pq + 1) / self.q + 4) * U
        tol = 4 * ((np.abs(s) + 2 * self.back) * rel_s + self.back * self.rel_back
                   + 8 * U * (np.abs(Xcur) + np.abs(s) + self.sq))
        return y, s, tol

    def scalar_tol(self, S):
        """rounding bound of one step whose smooth maximum is at most S"""
        pq = self.p / self.q
        rel = ((self.p + 4 + self.ns) / self.q + 745.0 * (4 * pq + 1) / self.q + 4) * U
        return 4 * ((S + 2 * self.back) * rel + self.back * self.rel_back + 8 * U * (1 + S + self.sq))

    def lipschitz(self, ymax):
        pq = self.p / self.q
        T = self.ns ** (1.0 / self.p) * (max(ymax, 0.0) + self.shift)
        return max(1.0, pq * self.ns ** (1.0 / self.p) * T ** (pq - 1.0))


# --------------------------------------------------------------------------------------------- directions
def spellings(dim, ax, sg, rng):
    """all admissible spellings of the axis direction (ax, sg): (kind, sub-kind, value)"""
    L = "xyz"[ax]
    S = "+" if sg > 0 else "-"
    out = [("string", "canonical", S + L), ("string", "canonical", L + S)]
    if sg > 0:
        out += [("string", "bare-letter", L), ("string", "bare-letter", L.upper())]
    out += [("string", "upper-case", L.upper() + S), ("string", "upper-case", S + L.upper()),
            ("string", "blank-padded", " " + S + L), ("string", "blank-padded", L + S + " ")]

    def vec(n, val):
        v = [type(val)(0)] * n
        v[ax] = val
        return v

    c = float(rng.uniform(0.3, 7.0))
    k = int(rng.integers(2, 6))
    # (a 2-component vector on a 3D domain is padded with a zero z component by the module: admissible for in-plane print directions)
    for n in (([3, 2] if ax < 2 else [3]) if dim == 3 else [2, 3]):
        out += [("vector", f"float-list-{n}", vec(n, float(sg))),
                ("vector", f"int-list-{n}", vec(n, int(sg))),
                ("vector", f"scaled-float-list-{n}", vec(n, c * sg)),
                ("vector", f"tuple-{n}", tuple(vec(n, float(sg)))),
                ("vector", f"float-ndarray-{n}", np.array(vec(n, c * sg), dtype=float)),
                ("vector", f"int-ndarray-{n}", np.array(vec(n, k * int(sg)), dtype=int))]
        # an axis direction computed by rotating a unit vector in steps of 90 degrees: [cos(k pi/2), sin(k pi/2)] carries rounding
        # noise of 1e-16 in the off-axis entries
        rv = np.array(vec(n, float(sg)), dtype=float)
        for o in range(n):
            if o != ax and o < dim and o < n:      # (the library asserts an exactly zero z component on 2D domains)
                rv[o] = float(rng.choice([6.123233995736766e-17, -1.8369701987210297e-16, 1.2246467991473532e-16]))
        out.append(("vector", f"rotated-unit-vector-{n}", rv))
    return out


def check_direction(m, dim, ax, sg, kind, value):
    """the stored direction names the requested axis and sign (its length is not part of the property)"""
    try:
        d = np.asarray(m.direction, dtype=float).ravel()
    except Exception:
        raise Violation("direction/attribute-is-not-an-axis-vector", requested=value,
                        got=repr(getattr(m, "direction", None)))
    if not (dim <= d.size <= 3 and np.all(np.isfinite(d)) and np.any(d != 0)):
        raise Violation("direction/attribute-is-not-an-axis-vector", requested=value, got=d)
    d = np.pad(d, (0, 3 - d.size))
    want = np.zeros(3)
    want[ax] = sg
    if int(np.argmax(np.abs(d))) != ax:
        raise Violation(f"direction/{kind}-axis-wrong", requested=value, got=d, want=want)
    if np.sign(d[ax]) != sg:
        raise Violation(f"direction/{kind}-sign-wrong", requested=value, got=d, want=want)
    if np.max(np.abs(d / abs(d[ax]) - want)) > 1e-12:
        raise Violation("direction/attribute-is-not-an-axis-vector", requested=value, got=d, want=want)


# --------------------------------------------------------------------------------------------- designs
def make_design(name, rng, n3, ax, sg, xi0):
    """X[i,j,k] in [0,1]; structural designs are described in the print frame (layer, a, b) and mapped back"""
    nx, ny, nz = n3
    Xp_shape = orient(np.zeros(n3), ax, sg).shape
    nl, m1, m2 = Xp_shape
    if name == "rand":
        Xp = rng.random(Xp_shape)
    elif name == "binary":
        Xp = (rng.random(Xp_shape) < rng.uniform(0.3, 0.8)).astype(float)
    elif name == "noisybin":
        Xp = np.clip(np.round(rng.random(Xp_shape)) + rng.normal(0, 0.01, Xp_shape), 0, 1)
    elif name == "zeros":
        Xp = np.zeros(Xp_shape)
    elif name == "ones":
        Xp = np.ones(Xp_shape)
    elif name == "xi0":
        Xp = np.full(Xp_shape, float(xi0))
    elif name == "column":
        Xp = np.zeros(Xp_shape)
        for _ in range(int(rng.integers(1, 4))):
            a, b = int(rng.integers(0, m1)), int(rng.integers(0, m2))
            w1, w2 = int(rng.integers(1, 3)), int(rng.integers(1, 3))
            Xp[:int(rng.integers(1, nl + 1)), a:a + w1, b:b + w2] = 1.0
    elif name == "bridge":
        Xp = np.zeros(Xp_shape)
        Xp[:, 0, :] = 1.0
        Xp[:, -1, :] = 1.0
        Xp[-1, :, :] = 1.0
        if m2 > 2 and rng.random() < 0.5:
            Xp[:-1, :, 1:] = 0.0
    elif name == "island":
        Xp = np.zeros(Xp_shape)
        Xp[0] = (rng.random((m1, m2)) < 0.3).astype(float)
        l0 = int(rng.integers(1, max(2, nl)))
        a0, b0 = int(rng.integers(0, m1)), int(rng.integers(0, m2))
        Xp[l0:l0 + int(rng.integers(1, 4)), a0:a0 + int(rng.integers(1, 4)), b0:b0 + int(rng.integers(1, 4))] = 1.0
        Xp[1:l0] = 0.0
    elif name == "stairs":
        Xp = np.zeros(Xp_shape)
        a0 = int(rng.integers(0, m1))
        step = int(rng.choice([-1, 1]))
        second = rng.random() < 0.5
        for L in range(nl):
            a = a0 + step * L
            if 0 <= a < m1:
                Xp[L, a, :] = 1.0
            if second and 0 <= L < m2:
                Xp[L, :, L] = 1.0
    elif name == "solidbase":
        Xp = rng.random(Xp_shape)
        Xp[0] = 1.0
        Xp[1:][rng.random((nl - 1, m1, m2)) < 0.4] = 1.0
    elif name == "extremes":
        vals = np.array([0.0, 1.0, float(xi0), 1e-300, 1.0 - 2.0 ** -53, 0.5, 2.0 ** -30])
        Xp = vals[rng.integers(0, len(vals), Xp_shape)]
    else:  # pragma: no cover
        raise ValueError(name)
    # back to (i,j,k)
    if sg < 0:
        Xp = Xp[::-1]
    return np.ascontiguousarray(np.moveaxis(Xp, 0, ax))


# --------------------------------------------------------------------------------------------- output oracle
def check_output(ctx, y, x, n3, ax, sg, mod, info):
    """all clauses that concern one evaluation; returns (Y[i,j,k], propagated rounding bound)"""
    nel = n3[0] * n3[1] * n3[2]
    if not (isinstance(y, np.ndarray) and y.shape == (nel,) and np.issubdtype(y.dtype, np.floating)):
        raise Violation("output/not-a-real-vector-of-element-size", got=repr(type(y)), shape=np.shape(y), **info)
    if not np.all(np.isfinite(y)):
        # known finding (DESIGN 5.2): at the documented end xi_0 = 0 (Q = P) the safety back-shift 0.95*ns^(1/Q)*shift^(P/Q) is
        # larger than the shift itself, so void elements next to a domain edge get a negative printed density and the next layer's
        # P-norm becomes NaN when eps = 0; everything else that is not finite is reported under the general mechanism
        mech = K_XI0 if (info.get("xi_0") == 0.0 and info.get("eps") == 0.0) else "output/non-finite"
        raise Violation(mech, **info)
    X = orient(to3d(x, n3), ax, sg)
    Y = orient(to3d(y, n3), ax, sg)
    nl, m1, m2 = X.shape

    # --- clause: base layer unchanged (exactly)
    ctx.count("base_elements_checked", m1 * m2)
    if not np.array_equal(Y[0], X[0]):
        a, b = np.argwhere(Y[0] != X[0])[0]
        raise Violation("base-layer/changed", position=[int(a), int(b)], x=float(X[0, a, b]), y=float(Y[0, a, b]), **info)

    # --- clause: every other element = smin(own density, smax(supports in previous layer))   (one-step form)
    worst = 0.0
    for L in range(1, nl):
        yl, s, tol = mod.step(X[L], Y[L - 1])
        err = np.abs(Y[L] - yl)
        ctx.count("elements_local_checked", m1 * m2)
        if not np.all(err <= tol):  # (written so that a non-finite reference value cannot pass)
            a, b = np.argwhere(~(err <= tol))[0]
            raise Violation("recursion/element-is-not-smin-of-own-density-and-smax-of-supports",
                            layer=L, position=[int(a), int(b)], got=float(Y[L, a, b]), want=float(yl[a, b]),
                            x=float(X[L, a, b]), smax_of_supports=float(s[a, b]), tol=float(tol[a, b]),
                            support_layer=Y[L - 1], **info)
        worst = max(worst, float(np.max(err / tol)))

    # --- same clause, global form: forward sweep from the base layer with a propagated rounding bound
    ymax = float(max(np.max(Y), 1.0))
    A = mod.lipschitz(ymax + 1e-6)
    Yr = X[0].copy()
    E = 0.0
    judged = True
    for L in range(1, nl):
        Yr, s, tol = mod.step(X[L], Yr)
        E = float(np.max(tol)) + A * E
        if E > 1e-6:
            judged = False
            break
        ctx.count("elements_global_checked", m1 * m2)
        err = np.abs(Y[L] - Yr)
        if not np.all(err <= E):
            a, b = np.argwhere(~(err <= E))[0]
            raise Violation("recursion/differs-from-layerwise-reference", layer=L, position=[int(a), int(b)],
                            got=float(Y[L, a, b]), want=float(Yr[a, b]), bound=E, **info)
    if not judged:
        ctx.count("global_comparisons_skipped_bound_above_1e-6")
        E = float("inf")

    # --- consequence: no element exceeds its input by more than sqrt(eps)/2
    S_any = mod.ns ** (1.0 / mod.q) * (ymax + mod.shift) ** (mod.p / mod.q)
    over = Y - X
    ctx.count("overshoot_checked", Y.size)
    lim = mod.sq / 2 + 32 * U * (1 + S_any + mod.sq)
    if not np.all(over <= lim):
        L, a, b = np.argwhere(~(over <= lim))[0]
        raise Violation("bound/overshoot-exceeds-half-sqrt-eps", layer=int(L), position=[int(a), int(b)],
                        x=float(X[L, a, b]), y=float(Y[L, a, b]), allowed=mod.sq / 2, **info)

    # --- consequences: fully supported solid stays solid, unsupported material is removed
    pq = mod.p / mod.q
    d0 = 1e-12
    tol_solid = 2 * pq * d0 + mod.back + mod.scalar_tol(S_any)
    for L in range(1, nl):
        lo = mod.neighbourhood(Y[L - 1], np.inf, np.minimum)
        hi = mod.neighbourhood(Y[L - 1], -np.inf, np.maximum)
        solid = (X[L] >= 1.0) & (lo >= 1.0 - d0)
        ns_ = int(np.count_nonzero(solid))
        if ns_:
            ctx.count("solid_checked", ns_)
            bad = solid & ~(Y[L] >= 1.0 - tol_solid)
            if np.any(bad):
                a, b = np.argwhere(bad)[0]
                raise Violation("bound/fully-supported-solid-not-kept", layer=L, position=[int(a), int(b)],
                                y=float(Y[L, a, b]), weakest_support=float(lo[a, b]), tol=tol_solid, **info)
        void = hi <= mod.sq / 2
        if np.any(void):
            m = np.maximum(hi, 0.0)
            Sv = mod.ns ** (1.0 / mod.q) * np.power(m + mod.shift, pq)
            bound = mod.sq / 2 + Sv + mod.scalar_tol(float(np.max(Sv[void])))
            ctx.count("unsupported_checked", int(np.count_nonzero(void & (X[L] >= 0.5))))
            ctx.count("void_supported_checked", int(np.count_nonzero(void)))
            bad = void & ~(Y[L] <= bound)
            if np.any(bad):
                a, b = np.argwhere(bad)[0]
                raise Violation("bound/unsupported-material-not-removed", layer=L, position=[int(a), int(b)],
                                x=float(X[L, a, b]), y=float(Y[L, a, b]), strongest_support=float(hi[a, b]),
                                allowed=float(bound[a, b]), **info)
    return to3d(y, n3), E, worst


# --------------------------------------------------------------------------------------------- case
def draw_params(rng, ns, which):
    """(xi_0, p, eps); which = 'default' | 'random' | 'corner'"""
    if which == "default":
        return 0.5, 40.0, 1e-4
    for _ in range(200):
        if which == "corner":
            xi0 = float(rng.choice([0.2, 0.5, 0.8, 0.0]))
            p = rng.choice([5, 10, 40])
            p = int(p) if rng.random() < 0.5 else float(p)
            eps = float(rng.choice([0.0, 1e-6, 1e-2, 1e-4]))
        else:
            xi0 = float(rng.uniform(0.2, 0.8))
            p = float(rng.uniform(5, 40))
            eps = float(10 ** rng.uniform(-6, -2))
        if xi0 == 0.0 or p + math.log(ns) / math.log(xi0) >= 1.0:
            return xi0, p, eps
    return 0.5, 40.0, 1e-4  # pragma: no cover


def _prime_inspect_cache():
    """Speed only: every Signal/Module constructor of pyMOTO calls inspect.stack(); for the two '<frozen runpy>'
    frames of a `python -m pmv.shard` process inspect.getmodule() re-scans all of sys.modules on every call
    (3x the cost of a case).  Telling the standard library's cache which module that pseudo-file belongs to
    changes nothing that pyMOTO can observe (it only reads file names and line numbers of the frames)."""
    import inspect
    import runpy  # noqa: F401
    if "<frozen runpy>" not in inspect.modulesbyfile:
        inspect.modulesbyfile["<frozen runpy>"] = "runpy"


def run_case(case, ctx):
    import pymoto as pym
    _prime_inspect_cache()
    n = list(case["n"])
    ax, sg, ns, rep = int(case["ax"]), int(case["sg"]), int(case["ns"]), int(case["rep"])
    big = bool(case.get("big"))
    dim = 2 if n[2] == 0 else 3
    n3 = [n[0], n[1], max(n[2], 1)]
    rng = ctx.rng("c14", n[0], n[1], n[2], ax, sg, ns, rep)
    domains = {}

    def domain(sz):
        key = tuple(sz)
        if key not in domains:
            domains[key] = pym.DomainDefinition(sz[0], sz[1], sz[2] if dim == 3 else 0)
        return domains[key]

    def build(sz3, ax_, sg_, spelling, par):
        kind, sub, value = spelling
        sig = pym.Signal("x", np.zeros(sz3[0] * sz3[1] * sz3[2]))
        m = pym.OverhangFilter(sig, domain=domain(sz3), direction=value, xi_0=par[0], p=par[1], eps=par[2],
                               nsampling=ns)
        ctx.count("modules_built")
        check_direction(m, dim, ax_, sg_, kind, value)
        ctx.count(f"{kind}_forms_checked")
        ctx.count(f"form:{kind}/{sub}")
        return m, sig

    def evaluate(ms, x):
        m, sig = ms
        # the design is handed over either as a new array or by updating the signal's array in place (both are usual: optimisers
        # assign, user code often writes `sig.state[:] = x`)
        if isinstance(sig.state, np.ndarray) and sig.state.shape == np.shape(x) and rng.random() < 0.5:
            sig.state[:] = x
            ctx.count("inplace_design_updates")
        else:
            sig.state = x.copy()
        m.response()
        y = m.sig_out[0].state
        ctx.count("responses")
        return y

    nl = n3[ax]
    obs = {"layers": nl, "worst_local_err_over_tol": 0.0, "max_global_bound": 0.0}
    forms = spellings(dim, ax, sg, rng)
    psets = [("default", draw_params(rng, ns, "default"))]
    nrand = 1 if big else (2 if ctx.tier == "quick" else 3)
    psets += [("random", draw_params(rng, ns, "random")) for _ in range(nrand)]
    psets += [("corner", draw_params(rng, ns, "corner")) for _ in range(1 if ctx.tier == "quick" or big else 2)]

    for ip, (pname, par) in enumerate(psets):
        mod = Model(par[0], par[1], par[2], ns)
        info0 = {"domain": n, "axis": ax, "sign": sg, "nsampling": ns, "xi_0": par[0], "p": par[1], "eps": par[2]}

        # ---- spellings of the direction: with the default parameters both canonical strings, two other strings
        #      and four vector forms (over the enumeration of sizes every spelling is used hundreds of times);
        #      one random spelling for the other parameter sets
        if ip == 0 and not big:
            strs = [f for f in forms if f[0] == "string"]
            vecs = [f for f in forms if f[0] == "vector"]
            todo = strs[:2] + [strs[i] for i in rng.choice(np.arange(2, len(strs)), 2, replace=False)] \
                + [vecs[i] for i in rng.choice(len(vecs), 4, replace=False)]
        else:
            todo = [forms[int(rng.integers(0, len(forms)))]]
        x_r = from3d(make_design("rand", rng, n3, ax, sg, par[0]))
        ms = None
        for sp in todo:
            ms = build(n3, ax, sg, sp, par)
            y = evaluate(ms, x_r)
            _, _, w = check_output(ctx, y, x_r, n3, ax, sg, mod, dict(info0, direction=sp[2], design="rand"))
            obs["worst_local_err_over_tol"] = max(obs["worst_local_err_over_tol"], w)

        # ---- design families on the last built module (instances are re-used the way an optimisation does)
        results = {}
        for dname in DESIGNS:
            X = make_design(dname, rng, n3, ax, sg, par[0])
            x = from3d(X)
            y = evaluate(ms, x)
            Y, E, w = check_output(ctx, y, x, n3, ax, sg, mod, dict(info0, direction=todo[-1][2], design=dname))
            obs["worst_local_err_over_tol"] = max(obs["worst_local_err_over_tol"], w)
            if np.isfinite(E):
                obs["max_global_bound"] = max(obs["max_global_bound"], E)
            results[dname] = (X, Y, E)
            ctx.count(f"design:{dname}")

        # ---- metamorphic relations: mirror along every axis, swap of every axis pair (one module per mapped
        #      direction, given in a random spelling, re-used for the designs)
        if ip <= 1 or pname == "corner":
            dnames = ("rand", "binary", "noisybin") if not big else ("rand",)
            short = {k: info0[k] for k in ("domain", "nsampling", "xi_0", "p", "eps")}
            for a in range(dim):
                ax2, sg2 = ax, (-sg if a == ax else sg)
                f2 = spellings(dim, ax2, sg2, rng)
                sp = f2[int(rng.integers(0, len(f2)))]
                ms2 = build(n3, ax2, sg2, sp, par)
                for dname in dnames:
                    X, Y, E = results[dname]
                    if not np.isfinite(E):
                        ctx.count("metamorphic_skipped_bound_above_1e-6")
                        continue
                    tolm = 2 * E + 4 * U
                    ym = evaluate(ms2, from3d(np.flip(X, axis=a)))
                    Ym = to3d(np.asarray(ym, dtype=float).reshape(-1), n3) if np.size(ym) == X.size else None
                    ctx.count("mirror_relations")
                    if Ym is None or not np.all(np.abs(np.flip(Ym, axis=a) - Y) <= tolm):
                        dev = None if Ym is None else float(np.max(np.abs(np.flip(Ym, axis=a) - Y)))
                        raise Violation("metamorphic/mirrored-design-does-not-give-mirrored-result", mirror_axis=a,
                                        direction=[ax, sg], mapped_direction=sp[2], deviation=dev, tol=tolm,
                                        design=dname, **short)
            for a, b in itertools.combinations(range(dim), 2):
                perm = [0, 1, 2]
                perm[a], perm[b] = b, a
                ax2 = perm[ax]
                sz2 = [n3[perm[0]], n3[perm[1]], n3[perm[2]]]
                f2 = spellings(dim, ax2, sg, rng)
                sp = f2[int(rng.integers(0, len(f2)))]
                ms2 = build(sz2, ax2, sg, sp, par)
                for dname in dnames:
                    X, Y, E = results[dname]
                    if not np.isfinite(E):
                        ctx.count("metamorphic_skipped_bound_above_1e-6")
                        continue
                    tolm = 2 * E + 4 * U
                    ys = evaluate(ms2, from3d(np.swapaxes(X, a, b)))
                    Ys = to3d(np.asarray(ys, dtype=float).reshape(-1), sz2) if np.size(ys) == X.size else None
                    ctx.count("swap_relations")
                    if Ys is None or not np.all(np.abs(np.swapaxes(Ys, a, b) - Y) <= tolm):
                        dev = None if Ys is None else float(np.max(np.abs(np.swapaxes(Ys, a, b) - Y)))
                        raise Violation("metamorphic/axis-swapped-design-does-not-give-axis-swapped-result",
                                        swapped_axes=[a, b], direction=[ax, sg], mapped_direction=sp[2],
                                        deviation=dev, tol=tolm, design=dname, **short)

    return {"key": f"{dim}D/{n[0]}x{n[1]}x{n[2]}/{'xyz'[ax]}{'+' if sg > 0 else '-'}/ns{ns}",
            "nontrivial": nl >= 2, "obs": obs}
