"""C08 — finite-element assembly equals the scaled element sum and keeps its physics.

Every case builds a real DomainDefinition and real AssembleGeneral / AssembleStiffness /
AssembleMass / AssemblePoisson modules, lets them respond to a short history of scaling vectors
and compares the matrix found in the output Signal, entry by entry, with a loop-based reference
assembly of *independently integrated* element matrices (pmv/oracles/c08_ref.py: own grid
arithmetic, own shape functions, 3-point Gauss rule, elasticity in tensor form).  The physical
clauses (symmetry, positive semi-definiteness, rigid-body null space, total mass, Poisson null
space and energy of an affine field) are evaluated directly on the observed matrix as well, so
they do not rest on the reference element matrices."""
import itertools

import numpy as np
import scipy.sparse as sps

from ..core import Violation, rng_for, todense
from ..oracles import c08_ref as ref

ID = "C08"
LEVEL = "exploration"
MONITORS = []
ANCHORS = ["modules/assembly.py", "common/domain.py"]

KINDS = ["general", "stiffness", "mass", "poisson"]
BC_KINDS = ["none", "empty", "one", "rand_list", "rand_i32", "face", "all"]
DIAG_KINDS = ["default", "zero", "one_int", "rand", "big"]
CONST_KINDS = ["none", "sp_off_bc", "sp_on_bc", "coo_diag", "dense", "complex"]
MTYPES = ["default", "csc_matrix", "csr_matrix", "coo_matrix", "csc_array", "csr_array"]
X_KINDS = ["unif", "zeros_some", "all_zero", "all_one", "binary_int", "simp", "wide", "negmix", "f32"]
CORNERS = ["plain", "aspect", "nu0", "nu049", "nu_neg", "int_sizes", "E_big", "E_tiny", "thin", "unit_sizes", "micro"]

RTOL = 1e-11   # reference-model equality (DESIGN section 3); measured on the unchanged tree: <= 2e-15

RULE = ("three parts. 'opts': for each module kind x {2D,3D} on a small grid the FULL product bc-kind(7) x "
        "add_constant-kind(6) x bcdiagval-kind(5) x matrix_type(6) is enumerated (one case per bc x constant, 30 "
        "module instances inside; quick: a checkerboard half of the 30 per case, the complementary half under the "
        "next kind/dimension, so that all 1260 combinations still occur), two scaling vectors per instance. 'grid': every grid up to the tier bound for "
        "each kind (exhaustive), random element sizes/material, a plain instance (physics clauses) plus random "
        "option combinations, three scaling vectors per instance (history). 'rand': seed-dependent larger grids "
        "with hostile material/size corners. distinct = kind x part x grid x bc/constant class; every case with "
        ">=1 compared matrix is non-trivial")
EXHAUSTIVE = {"quick": False, "thorough": False}
ASSUMPTIONS = [
    "entry-wise tolerance |A-Aref|_ij <= 1e-11*(sum_e |x_e| max|K_e| over the elements touching (i,j) + |C_ij| + "
    "|bcdiagval|_ii): rounding of <=10 additions of products is ~1e-15 of that scale; entries outside the "
    "pattern and on constrained rows/columns must be exactly zero (the code never stores them)",
    "element matrices: the integrands are polynomials of degree <=2 per coordinate, so both the code's 2-point and "
    "the reference 3-point Gauss rule are exact; difference = rounding (measured <=3e-16 relative to max|K_e|)",
    "PSD: lambda_min(sym K) >= -1e-11*||S||_inf (backward error of eigvalsh ~ n*eps*||K||_2 <= 3.4e-13*||K||_2 for n<=1536)",
    "rigid-body / null-space residuals: |K u|_i <= 1e-11*(S|u|)_i; mass and energy: 1e-11 * sum of absolute terms",
    "boundary conditions are SETS of dof indices (lists / int arrays, any order, possibly empty or all dofs); "
    "duplicated indices are outside the quantifier (the code then sums bcdiagval per duplicate)",
    "bcdiagval not given: AssembleMass documents 0.0 in its signature (checked); for the other modules no value is "
    "stated, so only the zeroed rows/columns are judged there",
    "add_constant: sparse (csc/csr/coo, real or complex) or dense ndarray; reference A = mask(sum x_e K_e) + "
    "bcdiagval*I_bc + C (constant added after the boundary conditions, as documented and used by the examples)",
    "matrix_type: constructors accepting ((vals,(rows,cols)), shape=...): csc/csr/coo matrix and csc/csr array",
    "nu in (-0.5, 0.49], element sizes 0.02..8, E 1e-6..2.1e11, 1D domains and custom node_numbering excluded",
    "bounds: quick 2D<=6x6, 3D<=3^3 (+random up to 9x9 / 4^3); thorough 2D<=14x14, 3D<=6^3 (+random 18x18 / 7^3)",
]


def _floors(base, bc, const, mtype, diag, x):
    f = dict(base)
    f.update({f"bc:{k}": bc for k in BC_KINDS})
    f.update({f"const:{k}": const for k in CONST_KINDS})
    f.update({f"mtype:{k}": mtype for k in MTYPES})
    f.update({f"diag:{k}": diag for k in DIAG_KINDS})
    f.update({f"x:{k}": x for k in X_KINDS})
    return f


# measured on the unchanged tree (seed 0): quick 668 cases / 5 936 instances / 13 200 matrices / 2.7e7 entries,
# every bc kind ~810, constant kind ~870, matrix type ~940, bcdiagval kind ~970, x kind ~1 320..1 740;
# thorough 3 136 cases / 39 552 instances / 91 872 matrices / 2.1e9 entries (bc ~5 500, constant ~5 800,
# matrix type ~6 270, bcdiagval ~6 580, x ~9 530).  Floors = about half of that.
FLOORS = {
    "quick": _floors({"cases_held": 330, "distinct_nontrivial": 330, "matrices_compared": 6600,
                      "entries_compared": 13_000_000, "instances": 3000, "history_calls": 6600, "psd_checks": 240,
                      "rbm_modes_checked": 1100, "mass_directions_checked": 500, "poisson_const_checks": 260,
                      "poisson_energy_checks": 260, "stiffness_symmetry_checks": 260, "x:complex": 170},
                     bc=400, const=430, mtype=460, diag=480, x=650),
    "thorough": _floors({"cases_held": 1550, "distinct_nontrivial": 1550, "matrices_compared": 45000,
                         "entries_compared": 1_000_000_000, "instances": 19500, "history_calls": 45000,
                         "psd_checks": 1500, "rbm_modes_checked": 7500, "mass_directions_checked": 3300,
                         "poisson_const_checks": 1700, "poisson_energy_checks": 1700,
                         "stiffness_symmetry_checks": 1700, "x:complex": 1100},
                        bc=2700, const=2900, mtype=3100, diag=3300, x=4700),
}
TIMEOUT_CASE = 300


# =========================================================================== plan
def plan(tier, seed):
    quick = tier == "quick"
    cases = []
    # ---- part 'opts': full option product on small grids
    small = {2: [[3, 2, 0]], 3: [[2, 1, 2]]} if quick else {2: [[3, 2, 0], [1, 1, 0], [2, 4, 0]],
                                                            3: [[2, 1, 2], [1, 1, 1], [1, 3, 2]]}
    for ki, kind in enumerate(KINDS):
        for dim in (2, 3):
            for n in small[dim]:
                for bc in BC_KINDS:
                    for const in CONST_KINDS:
                        c = {"part": "opts", "kind": kind, "n": n, "bc": bc, "const": const}
                        if quick:
                            # half of the 30 (bcdiagval, matrix_type) pairs per case, the other half in the case of
                            # the next kind / dimension: every 4-way combination is still executed in the quick tier
                            c["half"] = (ki + dim) % 2
                        cases.append(c)
    # ---- part 'grid': every grid up to the bound
    b2, b3 = (6, 3) if quick else (14, 6)
    grids = [[i, j, 0] for i in range(1, b2 + 1) for j in range(1, b2 + 1)]
    grids += [[i, j, k] for i in range(1, b3 + 1) for j in range(1, b3 + 1) for k in range(1, b3 + 1)]
    for kind in KINDS:
        for g, n in enumerate(grids):
            cases.append({"part": "grid", "kind": kind, "n": n, "g": g, "corner": CORNERS[g % len(CORNERS)]})
    # ---- part 'rand': seed-dependent grids x hostile corners
    reps = 2 if quick else 12
    m2, m3 = (9, 4) if quick else (18, 7)
    for kind in KINDS:
        for corner in CORNERS:
            for r in range(reps):
                rng = rng_for(seed, "C08-plan", kind, corner, r)
                if rng.random() < 0.6:
                    n = [int(rng.integers(1, m2 + 1)), int(rng.integers(1, m2 + 1)), 0]
                else:
                    n = [int(rng.integers(1, m3 + 1)), int(rng.integers(1, m3 + 1)), int(rng.integers(1, m3 + 1))]
                cases.append({"part": "rand", "kind": kind, "n": n, "corner": corner, "r": r})
    # ---- part 'big': a few meshes whose node / dof numbers cross the limits of the narrow integer types (32767, 65535); judged with
    # sparse references (scatter over an independently numbered grid), no options
    big = [("stiffness", [181, 180, 0]), ("general", [128, 128, 0]), ("mass", [28, 28, 28])]
    if not quick:
        big += [("general", [181, 181, 0]), ("stiffness", [27, 27, 27]), ("poisson", [256, 255, 0]), ("mass", [150, 150, 0]), ("stiffness", [104, 104, 0])]
    for kind, n in big:
        cases.append({"part": "big", "kind": kind, "n": n})
    return cases


# =========================================================================== generators
def draw_material(rng, corner, dim):
    h = rng.uniform(0.3, 3.0, 3)
    E = float(rng.uniform(0.5, 10.0))
    nu = float(rng.uniform(0.0, 0.45))
    rho = float(rng.uniform(0.5, 3.0))
    kappa = float(rng.uniform(0.5, 3.0))
    sizes = [float(v) for v in h]
    if corner == "aspect":
        sizes = [float(v) for v in rng.permutation([0.02 * rng.uniform(1, 2), 8.0 * rng.uniform(0.5, 1), 1.0])]
    elif corner == "nu0":
        nu = 0
    elif corner == "nu049":
        nu = 0.49
    elif corner == "nu_neg":
        nu = float(rng.uniform(-0.5, -0.05))
    elif corner == "int_sizes":
        sizes = [int(v) for v in rng.integers(1, 4, 3)]
        E, rho, kappa = int(rng.integers(1, 5)), int(rng.integers(1, 5)), int(rng.integers(1, 5))
    elif corner == "E_big":
        E, rho, kappa = 2.1e11, 7.8e3, 4.0e2
    elif corner == "E_tiny":
        E, rho, kappa = 1e-6, 1e-9, 1e-7
    elif corner == "micro":
        # a MEMS part in SI units: micrometre elements, silicon, vacuum permittivity - element-matrix entries down to 1e-26
        sizes = [float(v) for v in 10.0 ** rng.uniform(-6.5, -5.0, 3)]
        E, rho, kappa = 1.3e11, 2330.0, 8.854e-12
    elif corner == "thin":
        sizes[2] = 1e-3 if dim == 2 else float(sizes[2])
    elif corner == "unit_sizes":
        sizes = None        # DomainDefinition defaults (1.0, 1.0, 1.0)
    plane = str(rng.choice(["strain", "stress"]))
    # the option is documented as "Plane-``strain``, plane-``stress``": every spelling containing the word selects that law
    spell = str(rng.choice({"strain": ["strain", "strain", "plane-strain", "Plane strain", "plane_strain", "STRAIN"],
                            "stress": ["stress", "stress", "plane-stress", "Plane stress", "plane_stress", "STRESS"]}[plane]))
    return {"sizes": sizes, "E": E, "nu": nu, "plane": plane, "plane_spelling": spell, "rho": rho, "kappa": kappa}


def draw_x(rng, kind, nel):
    if kind == "unif":
        return rng.uniform(0.05, 1.0, nel)
    if kind == "zeros_some":
        x = rng.uniform(0.05, 1.0, nel)
        x[rng.random(nel) < 0.3] = 0.0
        x[int(rng.integers(0, nel))] = 0.0
        return x
    if kind == "all_zero":
        return np.zeros(nel)
    if kind == "all_one":
        return np.ones(nel)
    if kind == "binary_int":
        return rng.integers(0, 2, nel)
    if kind == "simp":
        return np.where(rng.random(nel) < 0.5, 1e-9, 1.0)
    if kind == "wide":
        return 10.0 ** rng.uniform(-6, 3, nel)
    if kind == "negmix":
        return rng.standard_normal(nel)
    if kind == "f32":
        return rng.uniform(0.0, 1.0, nel).astype(np.float32)
    if kind == "complex":
        return rng.standard_normal(nel) + 1j * rng.standard_normal(nel)
    raise ValueError(kind)


def draw_bc(rng, kind, n, ndof, ijk):
    """returns (object handed to the module, sorted int array of constrained dofs) or (None, None)"""
    if kind == "none":
        return None, None
    if kind == "empty":
        obj = [] if rng.random() < 0.5 else np.array([], dtype=int)
        return obj, np.array([], dtype=int)
    if kind == "one":
        k = int(rng.integers(0, n))
        return [k], np.array([k])
    if kind == "rand_list":
        sel = np.sort(rng.choice(n, size=int(rng.integers(1, max(2, n // 2 + 1))), replace=False))
        return [int(v) for v in sel], sel
    if kind == "rand_i32":
        sel = rng.choice(n, size=int(rng.integers(1, max(2, (2 * n) // 3 + 1))), replace=False)
        return sel.astype(np.int32), np.sort(sel)
    if kind == "face":
        ax = int(rng.integers(0, ijk.shape[1]))
        side = 0 if rng.random() < 0.5 else int(ijk[:, ax].max())
        nodes = np.nonzero(ijk[:, ax] == side)[0]
        dirs = np.arange(ndof) if rng.random() < 0.6 else np.array([int(rng.integers(0, ndof))])
        sel = (nodes[:, None] * ndof + dirs[None, :]).ravel()
        return sel, np.sort(sel)
    if kind == "all":
        return np.arange(n), np.arange(n)
    raise ValueError(kind)


def draw_diag(rng, kind):
    return {"default": None, "zero": 0.0, "one_int": 1, "rand": float(rng.uniform(0.1, 50.0)),
            "big": 1e6}[kind]


def draw_const(rng, kind, n, bcset, scale):
    """returns (object handed to the module, dense copy)"""
    if kind == "none":
        return None, None
    free = np.arange(n) if bcset is None else np.setdiff1d(np.arange(n), bcset)
    nnz = max(1, min(4 * n, 60))
    if kind == "sp_off_bc":
        pool = free if free.size else np.arange(n)
        r, c = rng.choice(pool, nnz), rng.choice(pool, nnz)
        C = sps.csc_matrix((rng.standard_normal(nnz) * scale, (r, c)), shape=(n, n))
    elif kind == "sp_on_bc":
        r, c = rng.integers(0, n, nnz), rng.integers(0, n, nnz)
        if bcset is not None and bcset.size:
            b = rng.choice(bcset, min(bcset.size, 6))
            r = np.concatenate((r, b, rng.integers(0, n, b.size), b))
            c = np.concatenate((c, rng.integers(0, n, b.size), b, b))
        C = sps.csr_matrix((rng.standard_normal(r.size) * scale, (r, c)), shape=(n, n))
    elif kind == "coo_diag":
        C = sps.coo_matrix((rng.uniform(0.1, 1.0, n) * scale, (np.arange(n), np.arange(n))), shape=(n, n))
    elif kind == "dense":
        C = rng.standard_normal((n, n)) * scale
        return C, C.copy()
    elif kind == "complex":
        r, c = rng.integers(0, n, nnz), rng.integers(0, n, nnz)
        C = sps.csc_matrix(((rng.standard_normal(nnz) + 1j * rng.standard_normal(nnz)) * scale, (r, c)), shape=(n, n))
    else:
        raise ValueError(kind)
    return C, C.toarray()


# =========================================================================== reference / comparison
class Setup:
    """one domain + module kind + material: reference element matrix and geometry"""
    pass


def make_setup(pym, case, rng):
    nx, ny, nz = case["n"]
    kind = case["kind"]
    s = Setup()
    s.kind, s.n3 = kind, (nx, ny, nz)
    s.dim, s.nel, s.nnod, s.conn, s.ijk = ref.grid(nx, ny, nz)
    s.mat = draw_material(rng, case.get("corner", "plain"), s.dim)
    if s.mat["sizes"] is None:
        s.dom = pym.DomainDefinition(nx, ny, nz)
        sizes = [1.0, 1.0, 1.0]
    else:
        sizes = s.mat["sizes"]
        s.dom = pym.DomainDefinition(nx, ny, nz, unitx=sizes[0], unity=sizes[1], unitz=sizes[2])
    s.h = np.array(sizes[:s.dim], dtype=float)
    s.t = float(sizes[2]) if s.dim == 2 else 1.0
    m = s.mat
    if kind == "general":
        s.ndof = int(rng.integers(1, 4))
        ne = s.ndof * 2 ** s.dim
        ek = str(rng.choice(["real_nonsym", "real_nonsym", "complex", "sym", "int"]))
        if ek == "real_nonsym":
            ke = rng.standard_normal((ne, ne))
        elif ek == "complex":
            ke = rng.standard_normal((ne, ne)) + 1j * rng.standard_normal((ne, ne))
        elif ek == "sym":
            ke = rng.standard_normal((ne, ne))
            ke = ke + ke.T
        else:
            ke = rng.integers(-5, 6, (ne, ne))
        s.elkind = ek
        s.ke = ke
        s.ke_given = ke.copy()
    elif kind == "stiffness":
        s.ndof = s.dim
        s.ke = ref.ke_stiffness(s.h, float(m["E"]), float(m["nu"]), m["plane"], s.t)
    elif kind == "mass":
        s.ndof = int(rng.integers(1, 4))
        s.ke = ref.ke_mass(s.h, float(m["rho"]), s.ndof, s.t)
    elif kind == "poisson":
        s.ndof = 1
        s.ke = ref.ke_poisson(s.h, float(m["kappa"]), s.t)
    s.n = s.ndof * s.nnod
    s.dc = ref.dofconn(s.conn, s.ndof)
    s.kmax = float(np.max(np.abs(s.ke)))
    return s


def make_module(pym, s, sx, opts):
    kw = {}
    if opts["bc_obj"] is not None:
        kw["bc"] = opts["bc_obj"]
    if opts["diag"] is not None:
        kw["bcdiagval"] = opts["diag"]
    if opts["mtype"] != "default":
        kw["matrix_type"] = getattr(sps, opts["mtype"])
    if opts["C_obj"] is not None:
        kw["add_constant"] = opts["C_obj"]
    m = s.mat
    if s.kind == "general":
        return pym.AssembleGeneral(sx, domain=s.dom, element_matrix=s.ke_given, **kw)
    if s.kind == "stiffness":
        return pym.AssembleStiffness(sx, domain=s.dom, e_modulus=m["E"], poisson_ratio=m["nu"], plane=m.get("plane_spelling", m["plane"]), **kw)
    if s.kind == "mass":
        return pym.AssembleMass(sx, domain=s.dom, material_property=m["rho"], ndof=s.ndof, **kw)
    return pym.AssemblePoisson(sx, domain=s.dom, material_property=m["kappa"], **kw)


def apply_bc(base, bcset, diag, mode="both"):
    A = base.copy()
    if bcset is not None and bcset.size:
        d0 = np.diag(A)[bcset].copy()
        if mode in ("both", "rows", "diagadd"):
            A[bcset, :] = 0
        if mode in ("both", "cols", "diagadd"):
            A[:, bcset] = 0
        A[bcset, bcset] = (diag if diag is not None else 0.0) + (d0 if mode == "diagadd" else 0.0)
    return A


def expected(s, x, opts):
    """(Aref, T, ignore): reference matrix, entry-wise tolerance, entries that are not judged"""
    xs = np.asarray(x)
    xr = xs.astype(complex if np.iscomplexobj(xs) else float)
    base = ref.scatter(s.dc, s.n, xr, s.ke)
    S = ref.pattern_scale(s.dc, s.n, xr, s.kmax)
    bcset, diag, Cd = opts["bcset"], opts["diag_eff"], opts["C_dense"]
    A = apply_bc(base, bcset, diag)
    S = apply_bc(S, bcset, abs(diag) if diag is not None else 0.0)
    ignore = np.zeros((s.n, s.n), dtype=bool)
    if bcset is not None and bcset.size and diag is None:
        ignore[bcset, bcset] = True
    if Cd is not None:
        A = A + Cd
        S = S + np.abs(Cd)
    return A, RTOL * S, ignore, base, S


def mismatch(A, Aref, T, ignore):
    """None if A agrees with Aref entry-wise, else (i, j, got, want, tol) of the worst entry"""
    if A.shape != Aref.shape:
        return ("shape", A.shape, Aref.shape)
    if not np.all(np.isfinite(A)):
        i, j = np.argwhere(~np.isfinite(A))[0]
        return (int(i), int(j), A[i, j], Aref[i, j], 0.0)
    D = np.abs(A - Aref) - T
    D[ignore] = -1.0
    if D.max() <= 0:
        return None
    i, j = np.unravel_index(np.argmax(D), D.shape)
    return (int(i), int(j), A[i, j], Aref[i, j], float(T[i, j]))


def close(A, B, Tfull, ignore=None):
    """A equals the variant B up to the rounding of everything that may have been summed into an entry"""
    if A.shape != B.shape:
        return False
    D = np.abs(A - B) - Tfull
    if ignore is not None:
        D = np.where(ignore, -1.0, D)
    return bool(D.max() <= 0)


def classify(s, mod, A, x, opts, Aref, base, ignore):
    """stable mechanism name for an assembled matrix that is not the reference"""
    bcset, diag, Cd = opts["bcset"], opts["diag_eff"], opts["C_dense"]
    C0 = 0.0 if Cd is None else Cd
    has_bc = bcset is not None and bcset.size > 0
    # entry-wise rounding allowance valid for every variant below (all are sums of subsets of these terms)
    scale = ref.pattern_scale(s.dc, s.n, np.asarray(x).astype(base.dtype), s.kmax) + 2 * np.abs(C0)
    if has_bc:
        scale[bcset, bcset] += abs(diag) if diag is not None else 0.0
    scale = RTOL * scale
    # 1. wrong element matrix (physical kinds): root cause, named first
    el = getattr(mod, "elmat", None)
    if s.kind != "general" and el is not None and np.shape(el) == s.ke.shape:
        if float(np.max(np.abs(np.asarray(el) - s.ke))) > 1e-9 * s.kmax:
            return f"{s.kind}/element-matrix-differs-from-exact-integral"
    # 2. recognisable variants
    if not close(base, base.T, scale) and close(A, apply_bc(base.T, bcset, diag) + C0, scale, ignore):
        return "scatter/element-matrix-transposed(rows-and-columns-swapped)"
    if Cd is not None:
        if close(A, apply_bc(base, bcset, diag), scale, ignore):
            return "add-constant/not-added"
        if close(A, apply_bc(base, bcset, diag) + 2 * C0, scale, ignore):
            return "add-constant/added-twice(accumulates)"
        if has_bc and close(A, apply_bc(base + C0, bcset, diag), scale, ignore):
            return "add-constant/added-before-boundary-conditions-are-applied"
    if has_bc:
        if close(A, base + C0, scale):
            return "bc/not-applied"
        if close(A, apply_bc(base, bcset, diag, "diagadd") + C0, scale, ignore):
            return "bc/diagonal-value-added-to-assembled-diagonal"
        if close(A, apply_bc(base, bcset, diag, "rows") + C0, scale, ignore):
            return "bc/only-rows-zeroed"
        if close(A, apply_bc(base, bcset, diag, "cols") + C0, scale, ignore):
            return "bc/only-columns-zeroed"
        bad = (np.abs(A - Aref) > scale) & ~ignore
        on_diag = np.zeros_like(bad)
        on_diag[bcset, bcset] = True
        in_bc = np.zeros_like(bad)
        in_bc[bcset, :] = True
        in_bc[:, bcset] = True
        if bad.any() and not (bad & ~on_diag).any():
            return "bc/diagonal-is-not-the-chosen-value"
        if bad.any() and not (bad & ~in_bc).any():
            return "bc/constrained-rows-or-columns-not-zeroed"
    # 3. scatter through the domain's own connectivity reproduces it -> connectivity is not the structured grid
    try:
        dc_dom = np.asarray(s.dom.get_dofconnectivity(s.ndof))
        if dc_dom.shape == s.dc.shape and not np.array_equal(dc_dom, s.dc):
            alt = ref.scatter(dc_dom, s.n, np.asarray(x).astype(base.dtype), s.ke)
            if close(A, apply_bc(alt, bcset, diag) + C0, scale, ignore):
                return "scatter/follows-a-dof-connectivity-that-is-not-the-structured-grid"
    except Exception:  # noqa: BLE001  diagnosis only
        pass
    return "scatter/assembled-matrix-is-not-the-scaled-element-sum"


def physics(s, A, x, S, ctx):
    """clauses that are stated for the plain matrix (no bc, no constant), judged on the observed matrix alone.
    Every clause is evaluated (a broken one is recorded with ctx.violate and the next one still runs);
    returns (number of broken clauses, observations)."""
    xr = np.asarray(x, dtype=float)
    Sinf = float(np.max(np.sum(S, axis=1))) if S.size else 0.0
    nbad, obs = 0, {}
    if not np.all(np.isfinite(A)):
        ctx.violate(f"{s.kind}/non-finite-entries", grid=s.n3, material=s.mat)
        return 1, obs
    if s.kind == "stiffness":
        ctx.count("stiffness_symmetry_checks")
        asym = float(np.max(np.abs(A - A.T)))
        if not asym <= 1e-12 * float(np.max(S)):
            nbad += 1
            ctx.violate("stiffness/not-symmetric", grid=s.n3, asym=asym, scale=float(np.max(S)), material=s.mat)
        for name, u in ref.rigid_body_modes(s.ijk, s.h):
            ctx.count("rbm_modes_checked")
            r = np.abs(A @ u)
            lim = RTOL * (S @ np.abs(u))
            if np.any(r > lim):
                i = int(np.argmax(r - lim))
                nbad += 1
                ctx.violate(f"stiffness/rigid-body-{name.split('-')[0]}-not-annihilated", mode=name, grid=s.n3,
                            sizes=s.h, residual=float(r[i]), limit=float(lim[i]), dof=i, material=s.mat)
        if np.all(xr >= 0):
            ctx.count("psd_checks")
            lam = np.linalg.eigvalsh((A + A.T) / 2.0)
            if not lam[0] >= -RTOL * Sinf:
                nbad += 1
                ctx.violate("stiffness/negative-eigenvalue-for-nonnegative-x", grid=s.n3, lambda_min=float(lam[0]),
                            lambda_max=float(lam[-1]), material=s.mat, x=xr)
            obs["lambda_min/|K|"] = float(lam[0] / max(Sinf, 1e-300))
    elif s.kind == "mass":
        vol = float(np.prod(s.h)) * s.t
        want = float(s.mat["rho"]) * vol * float(np.sum(xr))
        lim = RTOL * float(np.sum(np.abs(A))) + 1e-300
        for d in range(s.ndof):
            ctx.count("mass_directions_checked")
            e = np.zeros((s.nnod, s.ndof))
            e[:, d] = 1.0
            e = e.ravel()
            got = float(e @ (A @ e))
            if not abs(got - want) <= lim:
                nbad += 1
                ctx.violate("mass/total-mass-per-direction-is-not-rho-V-sum-x", direction=d, got=got, want=want,
                            grid=s.n3, ndof=s.ndof, sizes=s.h, thickness=s.t, rho=s.mat["rho"], sum_x=float(np.sum(xr)))
            obs["mass_err/limit"] = max(obs.get("mass_err/limit", 0.0), abs(got - want) / lim)
    elif s.kind == "poisson":
        ctx.count("poisson_const_checks")
        r = np.abs(A @ np.ones(s.n))
        lim = RTOL * np.sum(S, axis=1)
        if np.any(r > lim):
            i = int(np.argmax(r - lim))
            nbad += 1
            ctx.violate("poisson/constant-field-not-annihilated", node=i, residual=float(r[i]), limit=float(lim[i]),
                        grid=s.n3, sizes=s.h)
        rng = ctx.rng("c08-energy", *s.n3, s.nel)
        g = rng.standard_normal(s.dim)
        c0 = float(rng.uniform(-1, 1))
        T = (s.ijk * s.h[None, :]) @ g + c0
        ctx.count("poisson_energy_checks")
        got = float(T @ (A @ T))
        want = float(s.mat["kappa"]) * s.t * float(np.prod(s.h)) * float(np.sum(xr)) * float(g @ g)
        lim = RTOL * float(np.abs(T) @ (np.abs(A) @ np.abs(T))) + 1e-300
        if not abs(got - want) <= lim:
            nbad += 1
            ctx.violate("poisson/energy-of-linear-field-wrong", got=got, want=want, gradient=g, grid=s.n3, sizes=s.h,
                        thickness=s.t, kappa=s.mat["kappa"], sum_x=float(np.sum(xr)))
        obs["energy_err/limit"] = abs(got - want) / lim
    return nbad, obs


def run_instance(pym, s, opts, xkinds, rng, ctx, worst, obs):
    """one module instance, a history of scaling vectors; returns False as soon as something is broken
    (the remaining history of that instance would only repeat the report)"""
    ctx.count("instances")
    for nm, v in (("bc", opts["bc_kind"]), ("const", opts["const_kind"]), ("mtype", opts["mtype"]),
                  ("diag", opts["diag_kind"])):
        ctx.count(f"{nm}:{v}")
    x0 = draw_x(rng, xkinds[0], s.nel)
    sx = pym.Signal("x", x0)
    mod = make_module(pym, s, sx, opts)
    plain = opts["bcset"] is None and opts["C_dense"] is None
    for call, xk in enumerate(xkinds):
        x = x0 if call == 0 else draw_x(rng, xk, s.nel)
        sx.state = x
        mod.response()
        ctx.count("history_calls")
        ctx.count(f"x:{xk}")
        A = np.asarray(todense(mod.sig_out[0].state))
        Aref, T, ignore, base, S = expected(s, x, opts)
        bad = mismatch(A, Aref, T, ignore)
        ctx.count("matrices_compared")
        ctx.count("entries_compared", int(Aref.size))
        if bad is not None:
            wit = {"kind": s.kind, "grid": s.n3, "ndof": s.ndof, "call": call, "x_kind": xk, "bc_kind": opts["bc_kind"],
                   "bcdiagval": opts["diag"], "const_kind": opts["const_kind"], "matrix_type": opts["mtype"],
                   "material": s.mat, "x": np.asarray(x)}
            if bad[0] == "shape":
                raise Violation("output/wrong-shape", got=bad[1], want=bad[2], **wit)
            wit.update(entry=[bad[0], bad[1]], got=bad[2], want=bad[3], tol=bad[4],
                       constrained=(opts["bcset"].tolist()[:30] if opts["bcset"] is not None else None))
            mech = None
            if call > 0:
                # does a fresh instance give the right answer for this x?  then it is a history effect
                fresh = make_module(pym, s, pym.Signal("x", x), opts)
                fresh.response()
                if mismatch(np.asarray(todense(fresh.sig_out[0].state)), Aref, T, ignore) is None:
                    mech = "history/response-depends-on-earlier-calls-of-the-same-instance"
            ctx.violate(mech or classify(s, mod, A, x, opts, Aref, base, ignore), **wit)
        else:
            den = np.where(T > 0, T, np.inf)
            worst[0] = max(worst[0], float(np.max(np.where(ignore, 0.0, np.abs(A - Aref)) / den)) * RTOL)
        nbad = 0
        if plain and not np.iscomplexobj(A) and not np.iscomplexobj(x) and s.kind != "general":
            nbad, ob = physics(s, A, x, S, ctx)
            for k_, v_ in ob.items():
                obs[k_] = v_ if k_ not in obs else (min(obs[k_], v_) if k_.startswith("lambda_min") else max(obs[k_], v_))
        if bad is not None or nbad:
            return False
    return True


def make_opts(rng, s, bc_kind, diag_kind, const_kind, mtype):
    bc_obj, bcset = draw_bc(rng, bc_kind, s.n, s.ndof, s.ijk)
    diag = draw_diag(rng, diag_kind) if bc_kind != "none" else None
    diag_eff = diag
    if diag is None and s.kind == "mass":
        diag_eff = 0.0            # documented default of AssembleMass
    C_obj, C_dense = draw_const(rng, const_kind, s.n, bcset, s.kmax * float(rng.choice([0.1, 1.0, 10.0])))
    return {"bc_kind": bc_kind, "diag_kind": diag_kind if bc_kind != "none" else "n/a", "const_kind": const_kind,
            "mtype": mtype, "bc_obj": bc_obj, "bcset": bcset, "diag": diag, "diag_eff": diag_eff,
            "C_obj": C_obj, "C_dense": C_dense}


def pick_xkinds(rng, s, k, first=None):
    pool = list(X_KINDS) + (["complex"] if s.kind == "general" else [])
    out = [first] if first else []
    while len(out) < k:
        out.append(str(rng.choice(pool)))
    return out


def run_big(pym, s, case, rng, ctx):
    """assembly on a mesh with tens of thousands of dofs: A = sum_e x_e K_e scattered over the structured grid (sparse reference built
    from the oracle's own int64 numbering), and the physics of the kind (rigid translations / total mass / constants)"""
    x = rng.uniform(0.05, 1.0, s.nel)
    sx = pym.Signal("x", x.copy())
    opts = {"bc_obj": None, "diag": None, "mtype": "default", "C_obj": None}
    mod = make_module(pym, s, sx, opts)
    mod.response()
    A = mod.sig_out[0].state
    if not sps.issparse(A) or A.shape != (s.n, s.n):
        raise Violation("output/not-a-sparse-matrix-of-size-ndof", got=str(type(A)), shape=list(np.shape(A)), want=s.n)
    ke = np.asarray(s.ke)
    ne = s.dc.shape[1]
    rows = np.repeat(s.dc, ne, axis=1).ravel()
    cols = np.tile(s.dc, (1, ne)).ravel()
    vals = (x[:, None] * ke.ravel()[None, :]).ravel()
    Aref = sps.coo_matrix((vals, (rows, cols)), shape=(s.n, s.n)).tocsr()
    D = (sps.csr_matrix(A) - Aref).tocoo()
    Sc = sps.coo_matrix((np.abs(vals), (rows, cols)), shape=(s.n, s.n)).tocsr()      # entry-wise scale: sum_e |x_e K_e|
    ctx.count("big_meshes_judged")
    ctx.count("entries_compared", int(Aref.nnz))
    if D.nnz:
        sc = np.asarray(Sc[D.row, D.col]).ravel()
        bad = np.abs(D.data) > RTOL * np.maximum(sc, 1e-300)
        if np.any(bad):
            k = int(np.argmax(np.abs(D.data) / np.maximum(sc, 1e-300)))
            raise Violation("scatter/assembled-matrix-is-not-the-scaled-element-sum", grid=list(s.n3), kind=s.kind, ndof=s.ndof, n=s.n,
                            entry=[int(D.row[k]), int(D.col[k])], got=complex(sps.csr_matrix(A)[D.row[k], D.col[k]]), want=complex(Aref[D.row[k], D.col[k]]),
                            wrong_entries=int(bad.sum()))
    if s.kind == "stiffness":
        for d in range(s.ndof):
            t = np.zeros(s.n)
            t[d::s.ndof] = 1.0
            r = float(np.max(np.abs(A @ t)))
            if r > 1e-9 * s.kmax:
                raise Violation("stiffness/rigid-body-translation-not-annihilated", direction=d, residual=r, grid=list(s.n3))
    if s.kind == "poisson":
        r = float(np.max(np.abs(A @ np.ones(s.n))))
        if r > 1e-9 * s.kmax:
            raise Violation("poisson/constant-field-not-annihilated", residual=r, grid=list(s.n3))
    return {"key": "big|%s|%s" % (s.kind, "x".join(map(str, s.n3))), "nontrivial": True, "obs": {"n": s.n, "nnz": int(Aref.nnz), "ndof": s.ndof}}


# =========================================================================== run_case
def run_case(case, ctx):
    import pymoto as pym
    nx, ny, nz = case["n"]
    part = case["part"]
    rng = ctx.rng("c08", part, case["kind"], nx, ny, nz, case.get("bc", ""), case.get("const", ""), case.get("r", 0))
    s = make_setup(pym, case, rng)
    worst = [0.0]
    obs = {}
    if part == "big":
        return run_big(pym, s, case, rng, ctx)
    if part == "opts":
        bc_kind, const_kind = case["bc"], case["const"]
        diags = DIAG_KINDS if bc_kind != "none" else ["default"]
        for ip, (diag_kind, mtype) in enumerate(itertools.product(diags, MTYPES)):
            if case.get("half") is not None and len(diags) > 1 and (ip + ip // len(MTYPES) + case["half"]) % 2:
                continue
            opts = make_opts(rng, s, bc_kind, diag_kind, const_kind, mtype)
            run_instance(pym, s, opts, pick_xkinds(rng, s, 2), rng, ctx, worst, obs)
        key = f"{s.kind}/opts/{nx}x{ny}x{nz}/{bc_kind}/{const_kind}"
    else:
        ninst = 3 if ctx.tier == "quick" else 5
        opts = make_opts(rng, s, "none", "default", "none", "default")
        run_instance(pym, s, opts, pick_xkinds(rng, s, 3, first="unif"), rng, ctx, worst, obs)
        for k in range(ninst):
            bc_kind = str(rng.choice(BC_KINDS))
            const_kind = str(rng.choice(CONST_KINDS))
            if k == 0:      # a second plain instance through an explicit matrix type: physics on csr/coo/... as well
                bc_kind, const_kind = "none", "none"
            opts = make_opts(rng, s, bc_kind, str(rng.choice(DIAG_KINDS)), const_kind, str(rng.choice(MTYPES[1:] if k == 0 else MTYPES)))
            run_instance(pym, s, opts, pick_xkinds(rng, s, 3), rng, ctx, worst, obs)
        key = f"{s.kind}/{part}/{nx}x{ny}x{nz}/{case.get('corner')}"
    if s.kind == "stiffness":
        # a complex Young's modulus (structural damping E(1 + i eta), as in the repository's own eigenvalue test): the matrix is linear
        # in E, so K(E_c) = (E_c / E) K(E) entry by entry, with K(E) judged against the exact integrals above
        m_ = s.mat
        Ec = complex(m_["E"]) * complex(1.0, float(rng.uniform(0.01, 1.0)) * float(rng.choice([-1, 1])))
        xq = rng.uniform(0.05, 1.0, s.nel)
        kwq = dict(domain=s.dom, poisson_ratio=m_["nu"], plane=m_.get("plane_spelling", m_["plane"]))
        mr = pym.AssembleStiffness(pym.Signal("x", xq.copy()), e_modulus=m_["E"], **kwq)
        mc = pym.AssembleStiffness(pym.Signal("x", xq.copy()), e_modulus=Ec, **kwq)
        mr.response()
        mc.response()
        Kr, Kc = mr.sig_out[0].state.toarray(), mc.sig_out[0].state.toarray()
        ctx.count("complex_modulus_matrices_compared")
        errc = float(np.max(np.abs(Kc - (Ec / m_["E"]) * Kr)))
        if not errc <= 1e-13 * float(np.max(np.abs(Kr))) * abs(Ec / m_["E"]):
            raise Violation("stiffness/complex-modulus-matrix-is-not-the-modulus-ratio-times-the-real-one", err=errc, E=m_["E"], Ec=Ec,
                            scale=float(np.max(np.abs(Kr))))
    obs.update({"n": s.n, "nel": s.nel, "ndof": s.ndof, "max_err_over_scale": worst[0],
                "material": s.mat if s.kind != "general" else getattr(s, "elkind", None)})
    return {"key": key, "nontrivial": True, "obs": obs}
