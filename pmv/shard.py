"""One shard of a check: a fresh interpreter that imports pyMOTO from the repository's current
working tree, installs the monitors, executes its slice of the planned cases and streams one
JSON event per case.  Used by the runner (subprocess with timeout) and by --replay."""
import argparse
import collections
import importlib
import io
import json
import os
import signal
import sys
import time
import traceback
import warnings
import contextlib

import numpy as np

from . import core
from .core import Violation, Inconclusive, Skip, jsonable


class CaseTimeout(BaseException):
    pass


class Ctx:
    """Per-case context handed to a property driver."""

    def __init__(self, prop, tier, seed, verbose=False):
        self.prop, self.tier, self.seed, self.verbose = prop, tier, seed, verbose
        self.counters = collections.Counter()
        self.soft = []           # non-fatal violations recorded with violate()
        self.obs = {}

    def rng(self, *parts):
        return core.rng_for(self.seed, self.prop, *parts)

    def count(self, name, n=1):
        self.counters[name] += n

    def violate(self, mech, **detail):
        self.soft.append((mech, jsonable(detail)))

    def log(self, *a):
        if self.verbose:
            print("   ", *a, flush=True)


def load_prop(pid):
    return importlib.import_module(f"pmv.props.{pid.lower()}")


def _alarm(signum, frame):
    raise CaseTimeout()


def run_one(mod, case, tier, seed, verbose=False):
    """Execute one case under all monitors; returns the event dict."""
    from .monitors import STATE
    ctx = Ctx(mod.ID, tier, seed, verbose)
    ev = {"case": case, "verdict": "held", "mechs": [], "obs": {}, "key": None, "nontrivial": False}
    STATE.drain()
    tmo = int(getattr(mod, "TIMEOUT_CASE", 120))
    t0 = time.time()
    caught = []
    old = signal.signal(signal.SIGALRM, _alarm)
    signal.alarm(tmo)
    try:
        with warnings.catch_warnings(record=True) as wlist:
            warnings.simplefilter("always")
            buf = io.StringIO()
            with (contextlib.nullcontext() if verbose else contextlib.redirect_stdout(buf)):
                res = mod.run_case(case, ctx) or {}
        for w in wlist:
            ctx.counters[f"warning:{w.category.__name__}:{str(w.message)[:50]}"] += 1
        ev["key"] = res.get("key")
        ev["nontrivial"] = bool(res.get("nontrivial", True))
        ev["obs"] = jsonable(res.get("obs", {}))
    except Violation as v:
        caught.append((v.mech, jsonable(v.detail)))
    except Inconclusive as i:
        ev["verdict"] = "inconclusive"
        ev["reason"] = i.reason
        ev["obs"] = jsonable(i.detail)
    except Skip as s:
        ev["verdict"] = "skipped"
        ev["reason"] = s.reason
    except CaseTimeout:
        ev["verdict"] = "inconclusive"
        ev["reason"] = f"case watchdog ({tmo}s)"
    except Exception as e:  # noqa: BLE001
        site = core.exc_site(e)
        tb = traceback.format_exc(limit=12)
        if site is not None:
            # the repository raised on an input the driver considers admissible
            caught.append((f"raises/{type(e).__name__}@{site}", {"error": core.short_exc(e), "traceback": tb[-1500:]}))
        else:
            # the observed value has a form the oracle cannot evaluate (never happens on a conforming tree)
            fr = traceback.extract_tb(e.__traceback__)[-1]
            caught.append((f"unprocessable-observation/{type(e).__name__}@{os.path.basename(fr.filename)}:{fr.name}",
                           {"error": core.short_exc(e), "traceback": tb[-1500:]}))
    finally:
        signal.alarm(0)
        signal.signal(signal.SIGALRM, old)
    mon = STATE.drain()
    allv = caught + ctx.soft + [(f"monitor/{m}", d) for m, d in mon]
    if allv:
        # a violation overrides 'inconclusive': a refutation was observed
        ev["verdict"] = "violated"
        seen = {}
        for m, d in allv:
            seen.setdefault(m, d)
        ev["mechs"] = [[m, d] for m, d in seen.items()]
    ev["counters"] = dict(ctx.counters)
    ev["wall"] = round(time.time() - t0, 4)
    return ev


def main(argv=None):
    ap = argparse.ArgumentParser()
    ap.add_argument("prop")
    ap.add_argument("--tier", default="quick")
    ap.add_argument("--seed", type=int, default=0)
    ap.add_argument("--index", type=int, default=0)
    ap.add_argument("--nshards", type=int, default=1)
    ap.add_argument("--out", required=True)
    a = ap.parse_args(argv)

    import faulthandler
    faulthandler.enable()
    np.seterr(all="ignore")
    warnings.simplefilter("ignore")
    mod = load_prop(a.prop)
    from . import monitors
    import pymoto  # noqa: F401  (from /repo, first on PYTHONPATH)
    repo_file = os.path.realpath(pymoto.__file__)
    monitors.install(getattr(mod, "MONITORS", []))
    monitors.start_coverage(os.path.dirname(repo_file) + os.sep)

    cases = mod.plan(a.tier, a.seed)
    mine = [(i, c) for i, c in enumerate(cases) if i % a.nshards == a.index]
    with open(a.out, "w") as f:
        f.write(json.dumps({"shard_start": a.index, "pymoto": repo_file, "planned": len(cases), "mine": len(mine)}) + "\n")
        for i, c in mine:
            ev = run_one(mod, c, a.tier, a.seed)
            ev["i"] = i
            f.write(json.dumps(ev) + "\n")
            f.flush()
        f.write(json.dumps({"shard_done": a.index,
                            "monitor_counters": dict(monitors.STATE.counters),
                            "coverage": dict(monitors.STATE.cover_calls)}) + "\n")
    return 0


if __name__ == "__main__":
    sys.exit(main())
