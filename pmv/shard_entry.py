"""Script entry of a shard.  Started by path (not with -m) on purpose: with '<frozen runpy>' frames at the bottom of
the stack, pyMOTO's inspect.stack() call in every Signal/Module constructor takes ~2 ms instead of ~0.3 ms."""
import os
import sys

_here = os.path.dirname(os.path.abspath(__file__))
sys.path = [p for p in sys.path if os.path.abspath(p or ".") != _here]     # not the package directory itself
for p in (os.path.dirname(_here), os.environ.get("PMV_REPO", "/repo")):   # /verif, then the tree under test first
    if p in sys.path:
        sys.path.remove(p)
    sys.path.insert(0, p)
from pmv.shard import main  # noqa: E402

if __name__ == "__main__":
    sys.exit(main())
