"""Shared machinery of the runtime monitors: verdicts, digests, inner products, random
generators, traceback classification.  Nothing in here imports the code it judges except
for type tests (DyadCarrier)."""
import hashlib
import os
import traceback
import zlib

import numpy as np
import scipy.sparse as sps

REPO_PREFIX = os.path.realpath(os.environ.get("PMV_REPO", "/repo")) + os.sep


# --------------------------------------------------------------------------- verdicts
class Violation(Exception):
    """Raised by oracles/monitors when an observation refutes the property."""

    def __init__(self, mech, **detail):
        super().__init__(mech)
        self.mech = mech
        self.detail = detail


class Inconclusive(Exception):
    """Raised when the oracle cannot decide the case (never folded into held/violated)."""

    def __init__(self, reason, **detail):
        super().__init__(reason)
        self.reason = reason
        self.detail = detail


class Skip(Exception):
    """The generated case is outside the admissible domain of the property (counted)."""

    def __init__(self, reason):
        super().__init__(reason)
        self.reason = reason


def require(cond, mech, **detail):
    if not cond:
        raise Violation(mech, **detail)


# --------------------------------------------------------------------------- randomness
def stable_hash(*parts):
    return zlib.crc32("|".join(str(p) for p in parts).encode()) & 0x7FFFFFFF


def rng_for(*parts):
    """Deterministic generator from integers/strings (VERIF_SEED, property, case index …)."""
    ints = [p if isinstance(p, (int, np.integer)) else stable_hash(p) for p in parts]
    return np.random.default_rng(np.random.SeedSequence([int(i) & 0xFFFFFFFF for i in ints]))


# --------------------------------------------------------------------------- values
def is_dyad(v):
    return type(v).__name__ == "DyadCarrier" and hasattr(v, "todense")


def todense(v):
    if v is None:
        return None
    if sps.issparse(v):
        return v.toarray()
    if is_dyad(v):
        return v.todense()
    return np.asarray(v)


def is_cplx(v):
    if v is None:
        return False
    if sps.issparse(v):
        return np.iscomplexobj(v.data)
    if is_dyad(v):
        return v.iscomplex()
    return np.iscomplexobj(v)


def digest(v):
    """Content digest used for exact 'did not change' statements."""
    if v is None:
        return None
    if is_dyad(v):
        return ("dyad", tuple(v.shape), tuple(digest(u) for u in v.u), tuple(digest(u) for u in v.v))
    if sps.issparse(v):
        c = v.tocsr(copy=True)
        c.sum_duplicates()
        c.sort_indices()
        h = hashlib.blake2b(digest_size=12)
        h.update(np.ascontiguousarray(c.data).tobytes())
        h.update(np.ascontiguousarray(c.indices).tobytes())
        h.update(np.ascontiguousarray(c.indptr).tobytes())
        return ("sp", tuple(c.shape), str(c.dtype), h.hexdigest())
    if isinstance(v, np.ndarray):
        return ("nd", tuple(v.shape), str(v.dtype),
                hashlib.blake2b(np.ascontiguousarray(v).tobytes(), digest_size=12).hexdigest())
    if isinstance(v, (list, tuple)):
        return ("seq", tuple(digest(x) for x in v))
    try:
        return ("py", type(v).__name__, repr(v))
    except Exception:  # pragma: no cover
        return ("obj", id(v))


def inner(g, v):
    """Re sum(g*v) for dense / sparse / dyadic g and dense / sparse v (None counts as zero)."""
    if g is None or v is None:
        return 0.0
    if is_dyad(g):
        if sps.issparse(v):
            return float(np.real(np.sum(g.todense() * v.toarray())))
        return float(np.real(np.sum(g.todense() * np.asarray(v))))
    g = todense(g)
    v = todense(v)
    return float(np.real(np.sum(g * v)))


def rand_like(rng, a, force_real=False, scale=1.0):
    """Random array with the structure (shape, sparsity pattern, real/complex) of ``a``."""
    if sps.issparse(a):
        cp = is_cplx(a) and not force_real
        b = a.copy().astype(complex if cp else float)
        d = rng.standard_normal(b.data.shape)
        if cp:
            d = d + 1j * rng.standard_normal(b.data.shape)
        b.data = d * scale
        return b
    arr = np.asarray(todense(a))
    d = rng.standard_normal(arr.shape)
    if np.iscomplexobj(arr) and not force_real:
        d = d + 1j * rng.standard_normal(arr.shape)
    d = d * scale
    return d if arr.ndim else d[()]


def relerr(a, b, floor=0.0):
    """max-norm relative error between two array-likes; inf if shapes differ or non-finite."""
    a = np.asarray(todense(a))
    b = np.asarray(todense(b))
    if a.shape != b.shape:
        return float("inf")
    if a.size == 0:
        return 0.0
    if not (np.all(np.isfinite(a)) and np.all(np.isfinite(b))):
        return float("inf")
    sc = max(float(np.max(np.abs(a))), float(np.max(np.abs(b))), floor, 1e-300)
    return float(np.max(np.abs(a - b))) / sc


def l2relerr(a, b, floor=0.0):
    a = np.asarray(todense(a))
    b = np.asarray(todense(b))
    if a.shape != b.shape:
        return float("inf")
    if a.size == 0:
        return 0.0
    if not (np.all(np.isfinite(a)) and np.all(np.isfinite(b))):
        return float("inf")
    sc = max(float(np.linalg.norm(a)), float(np.linalg.norm(b)), floor, 1e-300)
    return float(np.linalg.norm(a - b)) / sc


def all_finite(v):
    if v is None:
        return True
    if sps.issparse(v):
        return bool(np.all(np.isfinite(v.data)))
    if is_dyad(v):
        return all(np.all(np.isfinite(u)) for u in v.u) and all(np.all(np.isfinite(u)) for u in v.v)
    try:
        return bool(np.all(np.isfinite(np.asarray(v))))
    except TypeError:
        return True


def jsonable(o, maxlen=40):
    """Compact JSON rendering of observations (arrays shortened)."""
    if o is None or isinstance(o, (bool, int, str)):
        return o
    if isinstance(o, float):
        return o if np.isfinite(o) else repr(o)
    if isinstance(o, (np.integer,)):
        return int(o)
    if isinstance(o, (np.floating,)):
        return jsonable(float(o))
    if isinstance(o, (complex, np.complexfloating)):
        return [jsonable(float(np.real(o))), jsonable(float(np.imag(o)))]
    if isinstance(o, np.bool_):
        return bool(o)
    if isinstance(o, dict):
        return {str(k): jsonable(v, maxlen) for k, v in o.items()}
    if isinstance(o, (list, tuple, set)):
        o = list(o)
        if len(o) > maxlen:
            return [jsonable(x, maxlen) for x in o[:maxlen]] + [f"...({len(o)} items)"]
        return [jsonable(x, maxlen) for x in o]
    if sps.issparse(o):
        return {"sparse": list(o.shape), "nnz": int(o.nnz), "dtype": str(o.dtype)}
    if isinstance(o, np.ndarray):
        if o.size <= maxlen:
            return jsonable(o.tolist(), maxlen)
        return {"ndarray": list(o.shape), "dtype": str(o.dtype), "head": jsonable(o.ravel()[:8].tolist())}
    return repr(o)[:200]


# --------------------------------------------------------------------------- tracebacks
def repo_frames(exc):
    """Frames of the traceback that lie in the repository under test (innermost last)."""
    out = []
    for fr in traceback.extract_tb(exc.__traceback__):
        fn = os.path.realpath(fr.filename)
        if fn.startswith(REPO_PREFIX):
            out.append((fn[len(REPO_PREFIX):], fr.name, fr.lineno))
    return out


def exc_site(exc):
    """'file:function' of the innermost repository frame, or None if the repo is not involved."""
    fr = repo_frames(exc)
    if not fr:
        return None
    f, name, _ = fr[-1]
    return f"{f}:{name}"


def short_exc(exc, n=300):
    return f"{type(exc).__name__}: {str(exc)[:n]}".replace("\n", " ")
