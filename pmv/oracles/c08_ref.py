"""Independent reference models for C08 (finite-element assembly).

Everything here is written from the text-book definitions in plain numpy and never calls
pyMOTO: structured-grid numbering by index arithmetic, multilinear shape functions in
reference coordinates, a 3-point Gauss rule (the code under test uses a 2-point rule at
+-1/sqrt(3); both are exact for the bi/tri-quadratic integrands), and the elasticity element
matrix from the *tensor* form  C_ijkl = lam d_ij d_kl + mu (d_ik d_jl + d_il d_jk)  so that
neither get_B / get_D nor any Voigt ordering is involved."""
import itertools

import numpy as np


# --------------------------------------------------------------------------- grid
def grid(nx, ny, nz):
    """(dim, nel, nnodes, conn[nel, 2^dim], ijk[nnodes, dim]) of the structured grid.
    node (i,j,k) -> (k*(ny+1)+j)*(nx+1)+i ; element (i,j,k) -> (k*ny+j)*nx+i ;
    local corner a has offset bit0->x, bit1->y, bit2->z (figure in DomainDefinition's docstring)."""
    dim = 2 if nz == 0 else 3
    nzz = max(nz, 1)
    nel = nx * ny * nzz
    nnod = (nx + 1) * (ny + 1) * (nz + 1)
    conn = np.zeros((nel, 2 ** dim), dtype=int)
    for k in range(nzz):
        for j in range(ny):
            for i in range(nx):
                e = (k * ny + j) * nx + i
                for a in range(2 ** dim):
                    di, dj, dk = a & 1, (a >> 1) & 1, (a >> 2) & 1
                    conn[e, a] = ((k + dk) * (ny + 1) + (j + dj)) * (nx + 1) + (i + di)
    ijk = np.zeros((nnod, dim), dtype=int)
    for k in range(nz + 1):
        for j in range(ny + 1):
            for i in range(nx + 1):
                n = (k * (ny + 1) + j) * (nx + 1) + i
                ijk[n] = (i, j, k)[:dim]
    return dim, nel, nnod, conn, ijk


def dofconn(conn, ndof):
    """dofs of element e: node-major, dof-minor."""
    nel, nn = conn.shape
    out = np.zeros((nel, nn * ndof), dtype=int)
    for a in range(nn):
        for d in range(ndof):
            out[:, a * ndof + d] = conn[:, a] * ndof + d
    return out


# --------------------------------------------------------------------------- element integrals
_G3 = (np.array([-np.sqrt(3.0 / 5.0), 0.0, np.sqrt(3.0 / 5.0)]), np.array([5.0 / 9.0, 8.0 / 9.0, 5.0 / 9.0]))


def _signs(dim):
    return np.array([[1.0 if (a >> i) & 1 else -1.0 for i in range(dim)] for a in range(2 ** dim)])


def element_integrals(h):
    """M[a,b] = int N_a N_b dV   and   G[i,k,a,b] = int dN_a/dx_i dN_b/dx_k dV  over one
    h[0] x h[1] (x h[2]) element, by a 3^dim-point Gauss rule."""
    h = np.asarray(h, dtype=float)
    dim = len(h)
    s = _signs(dim)
    nn = 2 ** dim
    M = np.zeros((nn, nn))
    G = np.zeros((dim, dim, nn, nn))
    pts, wts = _G3
    for idx in itertools.product(range(3), repeat=dim):
        xi = np.array([pts[i] for i in idx])
        w = np.prod([wts[i] for i in idx]) * np.prod(h / 2.0)
        f = (1.0 + s * xi) / 2.0                      # (nn, dim) one-dimensional factors
        N = np.prod(f, axis=1)
        dN = np.zeros((dim, nn))
        for i in range(dim):
            others = np.prod(np.delete(f, i, axis=1), axis=1)
            dN[i] = s[:, i] / h[i] * others
        M += w * np.outer(N, N)
        G += w * np.einsum("ia,kb->ikab", dN, dN)
    return M, G


def lame(E, nu, dim, plane):
    mu = E / (2.0 * (1.0 + nu))
    lam = E * nu / ((1.0 + nu) * (1.0 - 2.0 * nu))
    if dim == 2 and plane == "stress":
        lam = 2.0 * lam * mu / (lam + 2.0 * mu)     # plane-stress reduction of the 3D law
    return lam, mu


def ke_stiffness(h, E, nu, plane, thickness=1.0):
    """K[(a,i),(b,k)] = t * int C_ijkl d_j N_a d_l N_b = t*(lam G_ik + mu (d_ik tr G + G_ki))."""
    dim = len(h)
    lam, mu = lame(E, nu, dim, plane)
    _, G = element_integrals(h)
    nn = 2 ** dim
    K = np.zeros((nn * dim, nn * dim))
    trG = sum(G[j, j] for j in range(dim))
    for i in range(dim):
        for k in range(dim):
            blk = lam * G[i, k] + mu * G[k, i] + (mu * trG if i == k else 0.0)
            K[i::dim, k::dim] = blk
    return (thickness if dim == 2 else 1.0) * K


def ke_mass(h, rho, ndof, thickness=1.0):
    dim = len(h)
    M, _ = element_integrals(h)
    nn = 2 ** dim
    K = np.zeros((nn * ndof, nn * ndof))
    for d in range(ndof):
        K[d::ndof, d::ndof] = M
    return rho * (thickness if dim == 2 else 1.0) * K


def ke_poisson(h, kappa, thickness=1.0):
    dim = len(h)
    _, G = element_integrals(h)
    return kappa * (thickness if dim == 2 else 1.0) * sum(G[j, j] for j in range(dim))


# --------------------------------------------------------------------------- assembly
def scatter(dc, n, x, ke):
    """sum_e x_e K_e scattered through dc (loop based)."""
    dt = np.result_type(np.asarray(x).dtype, np.asarray(ke).dtype, float)
    A = np.zeros((n, n), dtype=dt)
    for e in range(dc.shape[0]):
        A[np.ix_(dc[e], dc[e])] += x[e] * ke
    return A


def pattern_scale(dc, n, x, kmax):
    """entry-wise magnitude sum_e |x_e| * max|K_e| of what is summed into each entry."""
    S = np.zeros((n, n))
    ax = np.abs(np.asarray(x))
    for e in range(dc.shape[0]):
        S[np.ix_(dc[e], dc[e])] += ax[e] * kmax
    return S


def rigid_body_modes(ijk, h):
    """(name, vector) translations and infinitesimal rotations on the nodes ijk*h (dofs node-major)."""
    pos = ijk * np.asarray(h, dtype=float)[None, :]
    n, dim = pos.shape
    pos = pos - pos.mean(axis=0)          # rotation about the centroid (a pure rotation + translation anyway)
    out = []
    for a in range(dim):
        u = np.zeros((n, dim))
        u[:, a] = 1.0
        out.append((f"translation-{'xyz'[a]}", u.ravel()))
    pairs = [(0, 1)] if dim == 2 else [(0, 1), (1, 2), (2, 0)]
    for a, b in pairs:
        u = np.zeros((n, dim))
        u[:, a] = -pos[:, b]
        u[:, b] = pos[:, a]
        out.append((f"rotation-{'xyz'[a]}{'xyz'[b]}", u.ravel()))
    return out
