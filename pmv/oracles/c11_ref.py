"""Reference models for C11 (EigenSolve): matrix generators with *prescribed* spectra, dense
reference spectra of generated sparse pencils, and the judge that decides every clause of the
property from the values EigenSolve returned.  Plain numpy / scipy.linalg only; nothing in here
imports pyMOTO (the FE pencils are assembled by the driver and handed over as matrices)."""
import numpy as np
import scipy.linalg as sla
import scipy.sparse as sps
from scipy.optimize import linear_sum_assignment

EPS = float(np.finfo(float).eps)
RES_DENSE = 1e-10     # normwise backward error of a returned pair, dense LAPACK path
RES_SPARSE = 1e-8     # same, ARPACK shift-invert path (tol=0 -> machine precision, times cond of the shifted solve)
ISO_MIN = 1e-3        # |q^T B q| / (q^H B q) of a constructed eigenvector must exceed this (bilinear norm must exist)


def dense(M):
    return M.toarray() if sps.issparse(M) else np.asarray(M)


def fro(M):
    if sps.issparse(M):
        return float(np.sqrt((abs(M).power(2)).sum()))
    return float(np.linalg.norm(M))


# ------------------------------------------------------------------------------------- generators
def unitary(rng, n, cplx):
    X = rng.standard_normal((n, n))
    if cplx:
        X = X + 1j * rng.standard_normal((n, n))
    Q, R = np.linalg.qr(X)
    d = np.diag(R).copy()
    d[d == 0] = 1
    return Q * (d / np.abs(d))


def posdef(rng, n, cplx, cond):
    """Symmetric / Hermitian positive definite matrix with 2-norm condition number `cond`, norm 1..cond."""
    U = unitary(rng, n, cplx)
    s = np.exp(rng.uniform(0, np.log(cond), n))
    if n > 1:
        s[0], s[-1] = 1.0, cond
    B = (U * s) @ U.conj().T
    return (B + B.conj().T) / 2


def wellcond(rng, n, cplx, cond):
    U, V = unitary(rng, n, cplx), unitary(rng, n, cplx)
    s = np.exp(rng.uniform(0, np.log(cond), n))
    return (U * s) @ V.conj().T


def complex_orthogonal(rng, n):
    """V with V^T V = I (complex): real orthogonal times exp(i t K), K real skew, ||K||_2 = 1; cond = exp(2t)."""
    R = unitary(rng, n, False)
    if n == 1:
        return R.astype(complex)
    K = rng.standard_normal((n, n))
    K = K - K.T
    K /= np.linalg.norm(K, 2)
    t = rng.uniform(0.1, 0.7)
    return R @ sla.expm(1j * t * K)


def real_spectrum(rng, n, kind):
    """kind: simple (gaps 0.3..1, both signs), multi (repeated values), zeros (simple, some exactly zero)."""
    d = np.cumsum(rng.uniform(0.3, 1.0, n))
    d = d - rng.uniform(d[0] - 0.5, d[-1] + 0.5)
    if kind == "multi" and n >= 2:
        m = int(rng.integers(1, max(2, n // 2 + 1)))
        d = d[rng.integers(0, m, n)]
        d[1] = d[0]
    if kind == "zeros":
        d[int(rng.integers(0, n))] = 0.0      # singular A, still simple
    return rng.permutation(d)


def structured_symmetric(rng, n):
    """Real symmetric matrices with analytically known spectra and eigenvectors of exactly zero mean."""
    kind = ["zero", "identity", "diagonal", "exchange", "laplace1d", "ones"][int(rng.integers(0, 6))]
    if kind == "zero":
        return np.zeros((n, n)), np.zeros(n)
    if kind == "identity":
        c = float(rng.uniform(-2, 2))
        return c * np.eye(n), np.full(n, c)
    if kind == "diagonal":
        d = real_spectrum(rng, n, "simple")
        return np.diag(d), d
    if kind == "exchange":
        return np.eye(n)[::-1].copy(), np.array([1.0] * ((n + 1) // 2) + [-1.0] * (n // 2))
    if kind == "laplace1d":
        T = 2 * np.eye(n) - np.eye(n, k=1) - np.eye(n, k=-1)
        return T, 2 - 2 * np.cos(np.arange(1, n + 1) * np.pi / (n + 1))
    return np.ones((n, n)), np.array([float(n)] + [0.0] * (n - 1))


def complex_spectrum(rng, n, sep=0.3):
    r = 0.6 * np.sqrt(n) + 1.0
    pts = []
    for _ in range(200 * n):
        z = complex(rng.uniform(-r, r), rng.uniform(-r, r))
        if all(abs(z - p) >= sep for p in pts):
            pts.append(z)
            if len(pts) == n:
                break
    while len(pts) < n:                       # (never in practice) fall back to a line
        pts.append(complex(r + len(pts), 0.5))
    return np.array(pts)


def dense_problem(rng, cls, n, bkind, spec="simple", sa=1.0, sb=1.0):
    """Dense pencil (A, B) of class `cls` with prescribed eigenvalues.

    Returns dict(A, B (or None), lam (prescribed eigenvalues of A q = lam B q), X (constructed right
    eigenvectors, columns), hermitian (bool: A = A^H and B = B^H), realsym (bool)).
    cls: sym | herm | genr (real, real spectrum) | genc (real, conjugate pairs) | cgen | csym
    bkind: none | spd (real) | hpd (complex Hermitian)
    """
    for attempt in range(50):
        cplxB = bkind == "hpd"
        condB = float(np.exp(rng.uniform(0, np.log(100.0))))
        B = None if bkind == "none" else posdef(rng, n, cplxB, condB)
        if cls == "sym" and cplxB:
            # real symmetric A with complex Hermitian B: spectrum not prescribable, taken from the Cholesky-reduced
            # standard problem (numpy eigh), eigenvectors likewise (needed for the isotropy screen only)
            U = unitary(rng, n, False)
            A = (U * real_spectrum(rng, n, "simple")) @ U.T
            A = (A + A.T) / 2
            L = np.linalg.cholesky(B)
            Li = np.linalg.inv(L)
            C = Li @ A @ Li.conj().T
            lam, Y = np.linalg.eigh((C + C.conj().T) / 2)
            X = Li.conj().T @ Y
        elif cls in ("sym", "herm"):
            cplx = cls == "herm"
            if spec == "structured":
                C, lam = structured_symmetric(rng, n)
                U = np.eye(n)
            else:
                lam = real_spectrum(rng, n, spec)
                U = unitary(rng, n, cplx)
                C = (U * lam) @ U.conj().T
            if B is None:
                A, X = C, U
            else:
                L = np.linalg.cholesky(B)
                A = L @ C @ L.conj().T
                X = np.linalg.solve(L.conj().T, U)
            A = (A + A.conj().T) / 2
        elif cls == "csym":
            if cplxB:
                raise ValueError("csym+hpd is not generated")
            lam = complex_spectrum(rng, n)
            V = complex_orthogonal(rng, n)
            C = (V * lam) @ V.T
            if B is None:
                A, X = C, V
            else:
                L = np.linalg.cholesky(B)
                A = L @ C @ L.T
                X = np.linalg.solve(L.T, V)
            A = (A + A.T) / 2
        elif cls in ("genr", "genc", "cgen"):
            if cls == "cgen":
                lam = complex_spectrum(rng, n)
                V = wellcond(rng, n, True, 10.0)
                C = (V * lam) @ np.linalg.inv(V)
                X = V
            else:
                V = wellcond(rng, n, False, 10.0)
                npair = 0 if (cls == "genr" or n < 2) else int(rng.integers(1, n // 2 + 1))
                re = real_spectrum(rng, n - npair, "simple")
                D = np.zeros((n, n))
                lam = np.zeros(n, dtype=complex)
                X = V.astype(complex)
                for p in range(npair):
                    a, b = re[p], rng.uniform(0.3, 2.0)
                    D[2 * p:2 * p + 2, 2 * p:2 * p + 2] = [[a, b], [-b, a]]
                    lam[2 * p], lam[2 * p + 1] = a + 1j * b, a - 1j * b
                    X[:, 2 * p] = V[:, 2 * p] + 1j * V[:, 2 * p + 1]
                    X[:, 2 * p + 1] = V[:, 2 * p] - 1j * V[:, 2 * p + 1]
                for j in range(2 * npair, n):
                    D[j, j] = re[npair + j - 2 * npair]
                    lam[j] = D[j, j]
                if npair == 0:
                    lam, X = lam.real, V
                C = V @ D @ np.linalg.inv(V)
            A = C if B is None else B @ C
        else:
            raise ValueError(cls)
        # the documented bilinear normalisation must exist for every eigenvector (simple eigenvalues only)
        Bd = np.eye(n) if B is None else B
        if spec not in ("multi", "structured"):
            bil = np.abs(np.einsum("ij,ij->j", X, Bd @ X))
            ses = np.abs(np.einsum("ij,ij->j", X.conj(), Bd @ X))
            if np.min(bil / ses) < ISO_MIN:
                continue
        A = A * sa
        if B is not None:
            B = B * sb
            lam = lam * (sa / sb)
        else:
            lam = lam * sa
        herm = cls in ("sym", "herm") or (n == 1 and np.all(np.imag(A) == 0))
        if cls in ("sym", "herm"):
            cond = np.ones(n)
        else:
            cond = np.linalg.norm(X, axis=0) * np.linalg.norm(np.linalg.inv(X), axis=1)
        nBinv = 1.0 if B is None else 1.0 / float(np.linalg.svd(B, compute_uv=False)[-1])
        return {"A": A, "B": B, "lam": lam, "X": X, "hermitian": herm, "cond": cond, "nBinv": nBinv,
                "realsym": bool(np.isrealobj(A) and (B is None or np.isrealobj(B)) and herm)}
    raise RuntimeError("could not draw a pencil with non-isotropic eigenvectors")


def sparse_problem(rng, cls, n, bkind, fmt, sa=1.0, sb=1.0):
    """Synthetic sparse pencil: tridiagonal backbone + random far couplings, symmetric pattern.
    cls: rsym | cherm | rgen | cgen | csym;  bkind: none | spd | diag | hpd"""
    def sym_pattern_vals(cplx, amp):
        extra = int(rng.integers(0, 2 * n + 1))
        i = np.concatenate([np.arange(n - 1), rng.integers(0, n, extra)])
        j = np.concatenate([np.arange(1, n), rng.integers(0, n, extra)])
        keep = i != j
        i, j = i[keep], j[keep]
        v = rng.standard_normal(len(i)) * amp
        if cplx:
            v = v + 1j * rng.standard_normal(len(i)) * amp
        return i, j, v

    cplx = cls in ("cherm", "cgen", "csym")
    i, j, v = sym_pattern_vals(cplx, 1.0)
    dg = rng.standard_normal(n) * 2.0
    if cls in ("rsym", "cherm"):
        A = sps.coo_matrix((v, (i, j)), shape=(n, n)).tocsr()
        A = A + A.conj().T + sps.diags(dg)
    elif cls == "csym":
        A = sps.coo_matrix((v, (i, j)), shape=(n, n)).tocsr()
        A = A + A.T + sps.diags(dg + 0.3j * rng.standard_normal(n))
    else:
        S = sps.coo_matrix((v, (i, j)), shape=(n, n)).tocsr()
        i2, j2, v2 = sym_pattern_vals(cplx, 0.4)
        N = sps.coo_matrix((v2, (i2, j2)), shape=(n, n)).tocsr()
        dd = dg + (0.5j * rng.standard_normal(n) if cplx else 0)
        A = S + S.conj().T + N + sps.diags(dd)
    B = None
    if bkind != "none":
        bd = rng.uniform(2.0, 4.0, n)
        if bkind == "diag":
            B = sps.diags(bd)
        else:
            c = rng.uniform(-0.8, 0.8, n - 1)
            if bkind == "hpd":
                c = c * np.exp(1j * rng.uniform(0, 2 * np.pi, n - 1))
            T = sps.diags([c], [1], shape=(n, n))
            B = sps.diags(bd) + T + T.conj().T       # strictly diagonally dominant -> definite, cond < 10
        B = (B * sb).asformat(fmt)
    A = (A * sa).asformat(fmt)
    herm = cls in ("rsym", "cherm")
    return {"A": A, "B": B, "hermitian": herm,
            "realsym": bool(cls == "rsym" and bkind in ("none", "spd", "diag"))}


# ------------------------------------------------------------------------------------- reference spectra
def reference_spectrum(A, B, hermitian, free=None):
    """Finite spectrum of the pencil (A, B) restricted to `free` dofs (FE boundary conditions decouple the
    rest) with a first-order condition number per eigenvalue.
    Returns (lam, cond, normBinv):  |delta lam_j| <= eta * normBinv * (||A||_F + |lam_j| ||B||_F) * cond_j
    for a pencil perturbation of normwise relative size eta."""
    Ad = dense(A)
    n = Ad.shape[0]
    Bd = np.eye(n) if B is None else dense(B)
    if free is not None:
        Ad, Bd = Ad[np.ix_(free, free)], Bd[np.ix_(free, free)]
    if hermitian:
        L = np.linalg.cholesky(Bd)
        Li = np.linalg.inv(L)
        C = Li @ Ad @ Li.conj().T
        C = (C + C.conj().T) / 2
        lam = np.linalg.eigvalsh(C)
        nBi = float(np.linalg.norm(Li, 2)) ** 2
        return lam, np.ones(len(lam)), nBi
    C = np.linalg.solve(Bd, Ad)
    lam, X = np.linalg.eig(C)
    Z = np.linalg.inv(X)
    cond = np.linalg.norm(X, axis=0) * np.linalg.norm(Z, axis=1)
    nBi = 1.0 / float(np.linalg.svd(Bd, compute_uv=False)[-1])
    return lam, cond, nBi


def match(got, ref):
    """Minimum-cost one-to-one assignment of the values `got` to distinct reference values `ref`
    (len(got) <= len(ref)); returns the index into ref for every got."""
    got, ref = np.asarray(got), np.asarray(ref)
    if np.isrealobj(got) and np.isrealobj(ref) and len(got) == len(ref):
        ig, ir = np.argsort(got, kind="stable"), np.argsort(ref, kind="stable")
        out = np.empty(len(got), dtype=int)
        out[ig] = ir
        return out
    cost = np.abs(got[:, None] - ref[None, :])
    r, c = linear_sum_assignment(cost)
    out = np.empty(len(got), dtype=int)
    out[r] = c
    return out


def is_sorted(W):
    W = np.asarray(W)
    if np.iscomplexobj(W):
        return bool(np.array_equal(W, np.sort(W)))       # numpy's complex order: real part, then imaginary
    return bool(np.all(W[1:] >= W[:-1]))


# ------------------------------------------------------------------------------------- the judge
def judge(A, B, W, Q, *, sparse, realsym, sorter, rec, lam_ref, cond_ref, nBinv,
          nmodes=None, sigma=0.0, count=None):
    """Decide every clause of C11 for one response.  Returns (failures, obs): failures is a list of
    (mechanism, witness) in the order the clauses are stated, obs the measured maxima.

    sorter: (name, keyfn or None) - keyfn(W_out) says whether a value-based user key is monotone;
    rec: recorded calls [(W_raw, Q_raw, idx)] of a user sorting function or None for the default;
    lam_ref/cond_ref/nBinv: reference spectrum (complete for dense, finite part for sparse)."""
    fails, obs = [], {}
    cnt = count if count is not None else (lambda name, k=1: None)
    n = A.shape[0]
    res_tol = RES_SPARSE if sparse else RES_DENSE
    # ---- form of the output
    if not (isinstance(W, np.ndarray) and isinstance(Q, np.ndarray) and W.ndim == 1 and Q.ndim == 2
            and Q.shape == (n, W.size)):
        fails.append(("output/shape-not-(k,)-and-(n,k)", {"W": np.shape(W), "Q": np.shape(Q), "n": n}))
        return fails, obs
    k = W.size
    if not (np.all(np.isfinite(W)) and np.all(np.isfinite(Q))):
        fails.append(("output/non-finite-entries", {"W": W}))
        return fails, obs
    want = n if not sparse else nmodes
    if k != want:
        fails.append((("sparse/wrong-number-of-modes" if sparse else "dense/incomplete-spectrum"),
                      {"returned": int(k), "expected": int(want), "n": n}))
    # ---- A q = lam B q  (normwise backward error of each pair)
    nA = fro(A)
    nB = np.sqrt(n) if B is None else fro(B)
    BQ = Q if B is None else B @ Q
    R = A @ Q - BQ * W[None, :]
    qn = np.linalg.norm(Q, axis=0)
    den = (nA + np.abs(W) * nB) * qn
    rn = np.linalg.norm(R, axis=0)
    bad = rn > res_tol * den
    cnt("pairs_residual_checked", k)
    with np.errstate(all="ignore"):
        eta = np.where(den > 0, rn / np.where(den > 0, den, 1), 0.0)
    obs["max_backward_error"] = float(eta.max()) if k else 0.0
    if np.any(bad) or np.any(qn == 0):
        i = int(np.argmax(np.where(den > 0, rn / np.where(den > 0, den, 1), np.inf)))
        fails.append(("eigenpair/A-q-differs-from-lambda-B-q",
                      {"mode": i, "lambda": W[i], "backward_error": float(eta[i]), "tolerance": res_tol,
                       "n_bad": int(np.sum(bad))}))
    # ---- q^T B q = 1 (bilinear); rounding bound 50 n eps |q|^T |B| |q|
    bil = np.einsum("ij,ij->j", Q, BQ)
    amp = np.einsum("ij,ij->j", np.abs(Q), (np.abs(Q) if B is None else abs(B) @ np.abs(Q)))
    tol_n = 50 * EPS * n * amp + 16 * EPS
    dev = np.abs(bil - 1)
    decidable = amp < 1e6      # beyond: eigenvector numerically isotropic, bilinear normalisation undefined
    cnt("pairs_normalisation_checked", int(np.sum(decidable)))
    cnt("pairs_near_isotropic_not_judged", int(np.sum(~decidable)))
    obs["max_norm_dev_over_tol"] = float(np.max(dev[decidable] / tol_n[decidable])) if np.any(decidable) else 0.0
    if np.any(decidable & (dev > tol_n)):
        i = int(np.argmax(np.where(decidable, dev / tol_n, 0)))
        herm_form = float(np.real(np.vdot(Q[:, i], BQ[:, i])))
        fails.append(("normalisation/qT-B-q-differs-from-1",
                      {"mode": i, "qT_B_q": bil[i], "qH_B_q": herm_form, "tolerance": float(tol_n[i])}))
    # ---- order
    name, keyfn = sorter
    if rec is None:
        cnt("orderings_checked")
        if not is_sorted(W):
            fails.append(("order/not-ascending-by-default", {"lambda": W}))
    else:
        cnt("orderings_checked")
        if len(rec) != 1:
            fails.append(("order/sorting-function-not-called-exactly-once", {"calls": len(rec), "sorter": name}))
        else:
            Wr, Qr, idx = rec[0]
            try:
                Wp, Qp = Wr[idx], Qr[:, idx]
            except Exception:
                Wp, Qp = None, None
            if Wp is None or Wp.shape != W.shape or not np.array_equal(Wp, W):
                fails.append(("order/values-not-arranged-as-the-sorting-function-returned",
                              {"sorter": name, "got": W, "expected": Wp}))
            elif Qp.shape == Q.shape:
                # every returned column must be a multiple of the column the sorting function put there
                c = np.einsum("ij,ij->j", Qp.conj(), Q) / np.maximum(np.einsum("ij,ij->j", Qp.conj(), Qp).real, 1e-300)
                d = np.linalg.norm(Q - Qp * c[None, :], axis=0)
                cnt("columns_matched_to_sorted_raw", k)
                if np.any(d > 1e-12 * np.maximum(qn, 1e-300)):
                    i = int(np.argmax(d / np.maximum(qn, 1e-300)))
                    fails.append(("order/vectors-not-arranged-as-the-sorting-function-returned",
                                  {"sorter": name, "mode": i, "misfit": float(d[i] / max(qn[i], 1e-300))}))
        if keyfn is not None and not keyfn(W):
            fails.append(("order/output-not-monotone-in-the-user-key", {"sorter": name, "lambda": W}))
    # ---- sign: real symmetric problem, real vector -> mean >= 0 (rounding: 4 n eps max|q|)
    if realsym:
        realq = np.isrealobj(Q) or not np.any(np.imag(Q))
        if realq:
            mean = np.real(Q).mean(axis=0)
            tol_s = 4 * n * EPS * np.max(np.abs(Q), axis=0)
            cnt("signs_checked", k)
            cnt("signs_decided_by_margin", int(np.sum(np.abs(mean) > tol_s)))
            if np.any(mean < -tol_s):
                i = int(np.argmin(mean + tol_s))
                fails.append(("sign/negative-mean-entry-for-real-symmetric-problem",
                              {"mode": i, "mean": float(mean[i]), "max_abs": float(np.max(np.abs(Q[:, i])))}))
    # ---- spectrum
    lam_ref = np.asarray(lam_ref)
    tol_ref = res_tol * nBinv * (nA + np.abs(lam_ref) * nB) * cond_ref + 64 * EPS * n * np.max(np.abs(lam_ref), initial=0.0)
    tol_ref = tol_ref + 1e-300          # the zero matrix: exact comparison, no 0/0
    if not sparse:
        if k == n == len(lam_ref):
            m = match(W, lam_ref)
            err = np.abs(W - lam_ref[m])
            cnt("eigenvalues_compared", k)
            obs["max_eigval_err_over_tol"] = float(np.max(err / tol_ref[m]))
            if np.any(err > tol_ref[m]):
                i = int(np.argmax(err / tol_ref[m]))
                fails.append(("dense/spectrum-differs-from-prescribed-multiset",
                              {"mode": i, "got": W[i], "nearest_free_reference": lam_ref[m][i],
                               "tolerance": float(tol_ref[m][i])}))
    elif 0 < k <= len(lam_ref):
        m = match(W, lam_ref)
        err = np.abs(W - lam_ref[m])
        cnt("eigenvalues_compared", k)
        obs["max_eigval_err_over_tol"] = float(np.max(err / tol_ref[m]))
        if np.any(err > tol_ref[m]):
            i = int(np.argmax(err / tol_ref[m]))
            fails.append(("sparse/returned-values-are-not-distinct-eigenvalues-of-the-pencil",
                          {"mode": i, "got": W[i], "assigned_reference": lam_ref[m][i],
                           "tolerance": float(tol_ref[m][i]), "sigma": sigma}))
        else:
            # selection: no reference eigenvalue that was not returned may lie closer to the shift than the farthest
            # returned one.  Exception (counted, not a violation): a further copy of a numerically multiple
            # eigenvalue of which at least one copy was returned - a Krylov method started from one vector sees
            # one vector per eigenspace in exact arithmetic, so how many copies ARPACK delivers is left to rounding.
            dref = np.abs(lam_ref - sigma)
            dgot = np.abs(W - sigma)
            far = int(np.argmax(dgot))
            taken = np.zeros(len(lam_ref), dtype=bool)
            taken[m] = True
            closer = np.where(~taken & (dref < dgot[far] - (tol_ref + tol_ref[m][far])))[0]
            cnt("selections_checked")
            missed_copy, wrong = [], []
            acc = 64 * EPS * n * np.max(np.abs(lam_ref), initial=0.0)          # accuracy of the reference itself
            for j in closer:
                # numerically multiple: relative gap of the shift-inverted spectrum 1/(lam - sigma) below 1e-8
                twin = np.abs(lam_ref[m] - lam_ref[j]) <= 1e-8 * dref[j] + acc
                (missed_copy if np.any(twin) else wrong).append(int(j))
            if missed_copy:
                cnt("selections_where_a_copy_of_a_multiple_eigenvalue_was_missed")
                obs["missed_copy_of"] = float(np.real(lam_ref[missed_copy[0]]))
            order = np.argsort(dref, kind="stable")
            if not closer.size and len(order) > k and \
                    dref[order[k]] - dref[order[k - 1]] > 2 * np.max(tol_ref[order[:k + 1]]):
                cnt("selections_with_clear_cut")
            if wrong:
                j = wrong[int(np.argmin(dref[wrong]))]
                fails.append(("sparse/not-the-eigenvalues-closest-to-the-shift",
                              {"sigma": sigma, "omitted_eigenvalue": lam_ref[j], "its_distance": float(dref[j]),
                               "farthest_returned": W[far], "its_distance_": float(dgot[far]),
                               "returned": W, "closest": lam_ref[order[:k]], "tolerance": float(tol_ref[j])}))
    return fails, obs
