"""Loop-based reference of Langelaar's overhang filter with exact tangent propagation (independent of the
vectorised implementation in pymoto/modules/filter.py; parameters q/shift/backshift as in Langelaar 2017)."""
import numpy as np


def overhang_jvp(size3, dim, elemnumber, x, v, direction, xi0, p, eps, ns):
    """size3=(nelx,nely,max(nelz,1)); direction = 3-vector along one axis.  Returns (y, ydot)."""
    tiny = np.finfo(float).tiny
    q = p + np.log(ns) / np.log(xi0)
    shift = 100 * tiny ** (1 / p)
    back = ns ** (1 / q) * shift ** (p / q) * 0.95
    ax = int(np.argmax(np.abs(direction)))
    sg = int(np.sign(direction[ax]))
    o1, o2 = [a for a in range(3) if a != ax]
    if dim == 2:
        offs = [(-1, 0), (0, 0), (1, 0)]
        if o1 == 2:
            o1, o2 = o2, o1
    else:
        offs = [(-1, 0), (0, 0), (1, 0), (0, -1), (0, 1), (-1, -1), (-1, 1), (1, -1), (1, 1)][:ns]
    y = np.array(x, dtype=float).copy()
    yd = np.array(v, dtype=float).copy()
    layers = range(1, size3[ax]) if sg > 0 else range(size3[ax] - 2, -1, -1)
    for L in layers:
        new = {}
        for a in range(size3[o1]):
            for b in range(size3[o2]):
                keep, keepd = 0.0, 0.0
                for (da, db) in offs:
                    aa, bb = a + da, b + db
                    if 0 <= aa < size3[o1] and 0 <= bb < size3[o2]:
                        idx = [0, 0, 0]
                        idx[ax], idx[o1], idx[o2] = L - sg, aa, bb
                        e = elemnumber(*idx)
                        keep += (y[e] + shift) ** p
                        keepd += p * (y[e] + shift) ** (p - 1) * yd[e]
                smax = keep ** (1 / q) - back
                # d smax = (1/q) keep^(1/q-1) keepd, combined in log space to avoid under/overflow
                smaxd = 0.0 if keepd == 0 else np.sign(keepd) * np.exp(np.log(abs(keepd)) + (1 / q - 1) * np.log(keep)) / q
                idx = [0, 0, 0]
                idx[ax], idx[o1], idx[o2] = L, a, b
                e = elemnumber(*idx)
                r1 = x[e] - smax
                rt = np.sqrt(r1 * r1 + eps)
                new[e] = ((x[e] + smax - rt + np.sqrt(eps)) / 2, (v[e] + smaxd - r1 * (v[e] - smaxd) / rt) / 2)
        for e, (a_, b_) in new.items():
            y[e], yd[e] = a_, b_
    return y, yd
