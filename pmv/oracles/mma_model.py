"""Executable model of the MMA subproblem solver: a transcription of Svanberg's published subsolv.m
(primal-dual interior-point Newton method), written independently of pymoto/common/mma.py.
P, Q carry the objective in row 0 and the constraints in rows 1..m (pyMOTO's calling convention)."""
import numpy as np


def kkt_residual(x, y, z, lam, xsi, eta, mu, zet, s, low, upp, alfa, beta, P, Q, a0, a, b, c, d):
    """max-norm of the nine KKT blocks of the subproblem (complementarity products un-relaxed)."""
    ux, xl = upp - x, x - low
    plam = P[0] + lam @ P[1:]
    qlam = Q[0] + lam @ Q[1:]
    gvec = P[1:] @ (1 / ux) + Q[1:] @ (1 / xl)
    r = [plam / ux ** 2 - qlam / xl ** 2 - xsi + eta, c + d * y - mu - lam, [a0 - zet - a @ lam], gvec - a * z - y + s - b,
         xsi * (x - alfa), eta * (beta - x), mu * y, [zet * z], lam * s]
    return float(np.max(np.abs(np.concatenate([np.atleast_1d(q) for q in r]))))


def subsolv_ref(epsimin, low, upp, alfa, beta, P, Q, a0, a, b, c, d, x0=None, maxn=400, maxls=400):
    p0, q0, Pm, Qm = P[0], Q[0], P[1:], Q[1:]
    n, m = len(alfa), len(a)
    een, eem = np.ones(n), np.ones(m)
    epsi = 1.0
    x = 0.5 * (alfa + beta) if x0 is None else np.clip(x0, alfa + 1e-10, beta - 1e-10)
    y, z, lam = eem.copy(), 1.0, eem.copy()
    xsi = np.maximum(een / (x - alfa), een)
    eta = np.maximum(een / (beta - x), een)
    mu, zet, s = np.maximum(eem, 0.5 * c), 1.0, eem.copy()
    exhausted = 0

    def resid(x, y, z, lam, xsi, eta, mu, zet, s, epsi):
        ux1, xl1 = upp - x, x - low
        plam = p0 + Pm.T @ lam
        qlam = q0 + Qm.T @ lam
        gvec = Pm @ (1 / ux1) + Qm @ (1 / xl1)
        dpsidx = plam / ux1 ** 2 - qlam / xl1 ** 2
        return np.concatenate([dpsidx - xsi + eta, c + d * y - mu - lam, [a0 - zet - a @ lam], gvec - a * z - y + s - b,
                               xsi * (x - alfa) - epsi, eta * (beta - x) - epsi, mu * y - epsi, [zet * z - epsi], lam * s - epsi])
    while epsi > epsimin:
        residu = resid(x, y, z, lam, xsi, eta, mu, zet, s, epsi)
        residunorm = np.linalg.norm(residu)
        residumax = np.abs(residu).max()
        ittt = 0
        while residumax > 0.9 * epsi and ittt < maxn:
            ittt += 1
            ux1, xl1 = upp - x, x - low
            ux2, xl2 = ux1 ** 2, xl1 ** 2
            ux3, xl3 = ux1 * ux2, xl1 * xl2
            plam = p0 + Pm.T @ lam
            qlam = q0 + Qm.T @ lam
            gvec = Pm @ (1 / ux1) + Qm @ (1 / xl1)
            GG = Pm / ux2 - Qm / xl2
            dpsidx = plam / ux2 - qlam / xl2
            delx = dpsidx - epsi / (x - alfa) + epsi / (beta - x)
            dely = c + d * y - lam - epsi / y
            delz = a0 - a @ lam - epsi / z
            dellam = gvec - a * z - y - b + epsi / lam
            diagx = 2 * (plam / ux3 + qlam / xl3) + xsi / (x - alfa) + eta / (beta - x)
            diagy = d + mu / y
            diaglamyi = s / lam + 1 / diagy
            blam = dellam + dely / diagy - GG @ (delx / diagx)
            bb = np.concatenate([blam, [delz]])
            Alam = np.diag(diaglamyi) + (GG / diagx) @ GG.T
            AA = np.block([[Alam, a[:, None]], [a[None, :], np.array([[-zet / z]])]])
            solut = np.linalg.solve(AA, bb)
            dlam, dz = solut[:m], solut[m]
            dx = -delx / diagx - (GG.T @ dlam) / diagx
            dy = -dely / diagy + dlam / diagy
            dxsi = -xsi + epsi / (x - alfa) - (xsi * dx) / (x - alfa)
            deta = -eta + epsi / (beta - x) + (eta * dx) / (beta - x)
            dmu = -mu + epsi / y - (mu * dy) / y
            dzet = -zet + epsi / z - zet * dz / z
            ds = -s + epsi / lam - (s * dlam) / lam
            xx = np.concatenate([y, [z], lam, xsi, eta, mu, [zet], s])
            dxx = np.concatenate([dy, [dz], dlam, dxsi, deta, dmu, [dzet], ds])
            stmxx = (-1.01 * dxx / xx).max()
            stmalfa = (-1.01 * dx / (x - alfa)).max()
            stmbeta = (1.01 * dx / (beta - x)).max()
            steg = 1 / max(stmalfa, stmbeta, stmxx, 1)
            xo, yo, zo, lo, xso, eo, mo, zto, so = x.copy(), y.copy(), z, lam.copy(), xsi.copy(), eta.copy(), mu.copy(), zet, s.copy()
            itto = 0
            resinew = 2 * residunorm
            while resinew > residunorm and itto < maxls:
                itto += 1
                x = xo + steg * dx
                y = yo + steg * dy
                z = zo + steg * dz
                lam = lo + steg * dlam
                xsi = xso + steg * dxsi
                eta = eo + steg * deta
                mu = mo + steg * dmu
                zet = zto + steg * dzet
                s = so + steg * ds
                residu = resid(x, y, z, lam, xsi, eta, mu, zet, s, epsi)
                resinew = np.linalg.norm(residu)
                steg /= 2
            residunorm = resinew
            residumax = np.abs(residu).max()
        if ittt >= maxn:
            exhausted += 1
        epsi *= 0.1
    return (x, y, z, lam, xsi, eta, mu, zet, s), exhausted
