"""Catalogue of configurations of every public pyMOTO module (shared by C01, C03, C04).

Each generator draws construction options and admissible inputs and returns a ``Cfg`` with
 * build()            -> a fresh module instance whose input signals hold copies of x0
 * dirs(rng)          -> perturbation directions that keep x inside the module's matrix class
 * tangent(x0,y0,v)   -> exact directional derivatives of all outputs from an *independent* reference model
                         (None = the module is affine in its inputs: ydot = y(x0+v) - y(x0) is exact)
"""
import copy
import warnings

import numpy as np
import scipy.sparse as sps

from ..core import rand_like, todense, is_cplx
from . import matgen, exprad
from .overhang_ref import overhang_jvp


class Cfg:
    def __init__(self, name, key, build, x0, dirs=None, tangent=None, tol=1e-8, seed_gen=None, note="", nonsmooth_guard=None, ref_y=None):
        self.name, self.key, self.build, self.x0 = name, key, build, x0
        self.ref_y = ref_y       # optional closed form of the outputs (a reference tangent is only as good as the response it models)
        self.dirs = dirs or (lambda rng: [rand_like(rng, x) for x in x0])
        self.tangent, self.tol, self.seed_gen, self.note = tangent, tol, seed_gen, note


def _S(tag, val):
    import pymoto as pym
    return pym.Signal(tag, copy.deepcopy(val))


def _domain(rng, dim=None, maxn=4):
    import pymoto as pym
    dim = dim or int(rng.choice([2, 3]))
    n = [int(rng.integers(1, maxn + 1)), int(rng.integers(1, maxn + 1)), int(rng.integers(1, 3)) if dim == 3 else 0]
    u = rng.uniform(0.4, 2.5, 3)
    return pym.DomainDefinition(n[0], n[1], n[2], unitx=u[0], unity=u[1], unitz=u[2])


def _bc(rng, ntot):
    if rng.random() < 0.3 or ntot < 3:
        return None
    k = int(rng.integers(1, max(2, ntot // 3)))
    return np.sort(rng.choice(ntot, size=k, replace=False))


# ------------------------------------------------------------------------------------------------ assembly
def gen_assemble(rng, tier):
    import pymoto as pym
    kind = str(rng.choice(["general", "general", "stiffness", "mass", "poisson"]))
    dom = _domain(rng, maxn=3)
    opts = {}
    cx = False
    if kind == "general":
        ndof = int(rng.integers(1, 4))
        ne = dom.elemnodes * ndof
        em = rng.standard_normal((ne, ne))
        if rng.random() < 0.4:
            em = em + 1j * rng.standard_normal((ne, ne))
        cx = rng.random() < 0.3
        mk = lambda s: pym.AssembleGeneral(s, pym.Signal("A"), dom, em, **opts)  # noqa: E731
    elif kind == "stiffness":
        ndof = dom.dim
        opts.update(e_modulus=float(rng.uniform(0.5, 3)), poisson_ratio=float(rng.uniform(0, 0.45)),
                    plane=str(rng.choice(["strain", "stress"])))
        mk = lambda s: pym.AssembleStiffness(s, pym.Signal("K"), dom, **opts)  # noqa: E731
    elif kind == "mass":
        ndof = int(rng.integers(1, 4))
        opts.update(material_property=float(rng.uniform(0.5, 3)), ndof=ndof)
        mk = lambda s: pym.AssembleMass(s, pym.Signal("M"), dom, **opts)  # noqa: E731
    else:
        ndof = 1
        opts.update(material_property=float(rng.uniform(0.5, 3)))
        mk = lambda s: pym.AssemblePoisson(s, pym.Signal("P"), dom, **opts)  # noqa: E731
    ntot = ndof * dom.nnodes
    bc = _bc(rng, ntot)
    if bc is not None:
        opts["bc"] = bc
        if rng.random() < 0.6:
            opts["bcdiagval"] = float(rng.uniform(0.5, 3))
    if rng.random() < 0.4:
        opts["matrix_type"] = sps.csr_matrix
    if rng.random() < 0.3:
        C = sps.random(ntot, ntot, 0.2, format="csc", random_state=int(rng.integers(1 << 30)))
        opts["add_constant"] = C
    x = rng.uniform(0.05, 1.0, dom.nel)
    if rng.random() < 0.2:
        x[int(rng.integers(dom.nel))] = 0.0
    if cx:
        x = x + 1j * rng.uniform(-1, 1, dom.nel)

    def seed_gen(r, y0, j):
        yc = is_cplx(y0) or (r.random() < 0.3 and kind == "general")
        if r.random() < 0.5:
            w = r.standard_normal((ntot, ntot))
            return w + 1j * r.standard_normal((ntot, ntot)) if yc else w
        nd = int(r.integers(1, 4))
        us = [r.standard_normal(ntot) + (1j * r.standard_normal(ntot) if yc else 0) for _ in range(nd)]
        vs = [r.standard_normal(ntot) + (1j * r.standard_normal(ntot) if (yc and r.random() < 0.5) else 0) for _ in range(nd)]
        return pym.DyadCarrier(us, vs)
    key = f"Assemble/{kind}/dim{dom.dim}/ndof{ndof}/bc{bc is not None}/const{'add_constant' in opts}/{'csr' if 'matrix_type' in opts else 'csc'}/cx{cx}"
    return Cfg("Assemble" + kind, key, lambda: mk(_S("x", x)), [x], seed_gen=seed_gen)


def gen_elemop(rng, tier):
    import pymoto as pym
    kind = str(rng.choice(["ElementOperation", "ElementOperation-repeat", "Strain", "Stress", "ElementAverage",
                           "NodalOperation", "ThermoMechanical"]))
    dom = _domain(rng, maxn=3)
    cu = rng.random() < 0.25
    if kind == "ElementOperation":
        ndof = int(rng.integers(1, 4))
        lead = tuple(int(k) for k in rng.integers(1, 4, int(rng.integers(0, 3))))
        em = rng.standard_normal(lead + (ndof * dom.elemnodes,))
        u = rng.standard_normal(ndof * dom.nnodes)
        mk = lambda s: pym.ElementOperation(s, pym.Signal("y"), dom, em)  # noqa: E731
    elif kind == "ElementOperation-repeat":
        ndof = int(rng.integers(2, 4))
        lead = tuple(int(k) for k in rng.integers(1, 4, int(rng.integers(0, 2))))
        em = rng.standard_normal(lead + (dom.elemnodes,))
        u = rng.standard_normal(ndof * dom.nnodes)
        mk = lambda s: pym.ElementOperation(s, pym.Signal("y"), dom, em)  # noqa: E731
    elif kind in ("Strain", "Stress"):
        u = rng.standard_normal(dom.dim * dom.nnodes)
        if kind == "Strain":
            vg = bool(rng.random() < 0.5)
            mk = lambda s: pym.Strain(s, pym.Signal("e"), dom, voigt=vg)  # noqa: E731
        else:
            o = dict(e_modulus=float(rng.uniform(0.5, 3)), poisson_ratio=float(rng.uniform(0, 0.45)), plane=str(rng.choice(["strain", "stress"])))
            mk = lambda s: pym.Stress(s, pym.Signal("s"), dom, **o)  # noqa: E731
    elif kind == "ElementAverage":
        ndof = int(rng.integers(1, 4))
        u = rng.standard_normal(ndof * dom.nnodes)
        mk = lambda s: pym.ElementAverage(s, pym.Signal("a"), dom)  # noqa: E731
    elif kind == "NodalOperation":
        ndof = int(rng.integers(1, 4))
        lead = tuple(int(k) for k in rng.integers(1, 3, int(rng.integers(0, 2))))
        em = rng.standard_normal(lead + (ndof * dom.elemnodes,))
        u = rng.standard_normal(lead + (dom.nel,))
        cu = False
        mk = lambda s: pym.NodalOperation(s, pym.Signal("u"), dom, em)  # noqa: E731
    else:
        o = dict(e_modulus=float(rng.uniform(0.5, 3)), poisson_ratio=float(rng.uniform(0, 0.45)), alpha=float(rng.uniform(0.1, 2)),
                 plane=str(rng.choice(["strain", "stress"])))
        u = rng.standard_normal(dom.nel)
        cu = False
        mk = lambda s: pym.ThermoMechanical(s, pym.Signal("f"), dom, **o)  # noqa: E731
    if cu:
        u = u + 1j * rng.standard_normal(u.shape)
    return Cfg(kind, f"{kind}/dim{dom.dim}/cx{cu}/shape{np.shape(u)}", lambda: mk(_S("u", u)), [u])


# ------------------------------------------------------------------------------------------------ filters
def gen_filter(rng, tier):
    import pymoto as pym
    dom = _domain(rng, maxn=5)
    x = rng.uniform(0, 1, dom.nel)
    if rng.random() < 0.5:
        r = float(rng.uniform(0.3, 4.0))
        np_ = None
        if rng.random() < 0.4:
            np_ = np.sort(rng.choice(dom.nel, size=int(rng.integers(1, dom.nel + 1)), replace=False))
        mk = lambda s: pym.DensityFilter(s, pym.Signal("y"), dom, radius=r, nonpadding=np_)  # noqa: E731
        return Cfg("DensityFilter", f"DensityFilter/dim{dom.dim}/nonpad{np_ is not None}", lambda: mk(_S("x", x)), [x])
    modes = ["symmetric", "edge", "wrap", 0.0, 1.0, float(np.round(rng.uniform(0, 1), 2))]
    bcs = {k: modes[int(rng.integers(len(modes)))] for k in ("xmin_bc", "xmax_bc", "ymin_bc", "ymax_bc", "zmin_bc", "zmax_bc")}
    if rng.random() < 0.5:
        o = dict(radius=float(rng.uniform(0.3, 3.5)), relative_units=bool(rng.random() < 0.5))
    else:
        hw = [int(rng.integers(0, min(2, n) + 1)) for n in (dom.nelx, dom.nely, max(dom.nelz, 1))]
        if dom.dim == 2:
            hw[2] = 0
        w = rng.uniform(0, 1, tuple(2 * h + 1 for h in hw))
        o = dict(weights=w if dom.dim == 3 else w[:, :, 0])
    ovr = None
    if rng.random() < 0.35:
        # some elements fixed to a value after construction (non-design regions): the output is affine in x and does not depend on
        # the fixed elements at all
        n3 = (dom.nelx, dom.nely, max(dom.nelz, 1))
        ovr = ((slice(0, max(1, n3[0] // 2)), slice(None), slice(None)) if rng.random() < 0.5 else
               tuple(int(rng.integers(-n3[a], n3[a])) for a in range(3)), float(rng.choice([0.0, 1.0, 0.3])))

    def mk(s):
        m = pym.FilterConv(s, pym.Signal("y"), dom, **o, **bcs)
        if ovr is not None:
            m.override_values(*ovr)
        return m
    return Cfg("FilterConv", f"FilterConv/dim{dom.dim}/{'radius' if 'radius' in o else 'weights'}/ovr{ovr is not None}/" + "/".join(str(v)[:3] for v in bcs.values()),
               lambda: mk(_S("x", x)), [x])


def gen_overhang(rng, tier):
    import pymoto as pym
    dim = int(rng.choice([2, 3]))
    n = [int(rng.integers(1, 6)), int(rng.integers(1, 6)), int(rng.integers(1, 4)) if dim == 3 else 0]
    dom = pym.DomainDefinition(*n)
    ax = int(rng.integers(0, dim))
    sg = float(rng.choice([-1, 1]))
    dvec = [0.0] * 3
    dvec[ax] = sg
    form = str(rng.choice(["vec", "vec-scaled", "str"]))
    if form == "vec":
        dr = dvec[:dim] if rng.random() < 0.5 else list(dvec)
    elif form == "vec-scaled":
        dr = [c * 3.5 for c in dvec]
    else:
        dr = ("+" if sg > 0 else "-") + "xyz"[ax] if rng.random() < 0.5 else "xyz"[ax] + ("+" if sg > 0 else "-")
    p = float(rng.choice([5, 10, 20, 40]))
    eps = float(10 ** rng.uniform(-6, -2))
    ns = 3 if dim == 2 else int(rng.choice([5, 9]))
    xi0 = float(rng.uniform(0.2, 0.8))
    while p + np.log(ns) / np.log(xi0) < 1.0:     # admissible parameters: the smooth-maximum exponent q must stay positive
        xi0 = float(rng.uniform(0.2, xi0))
    kind = str(rng.choice(["rand", "binary", "noisybin", "zeros", "ones"]))
    x = rng.random(dom.nel)
    if kind == "binary":
        x = np.round(x)
    elif kind == "noisybin":
        x = np.clip(np.round(x) + rng.normal(0, 0.01, dom.nel), 0, 1)
    elif kind == "zeros":
        x = np.zeros(dom.nel)
    elif kind == "ones":
        x = np.ones(dom.nel)
    mk = lambda s: pym.OverhangFilter(s, pym.Signal("y"), dom, direction=dr, xi_0=xi0, p=p, eps=eps, nsampling=ns)  # noqa: E731
    size3 = (dom.nelx, dom.nely, max(dom.nelz, 1))

    def tangent(x0, y0, v):
        y, yd = overhang_jvp(size3, dim, dom.get_elemnumber, x0[0], v[0], np.array(dvec), xi0, p, eps, ns)
        return [yd]
    onelayer = size3[ax] == 1
    return Cfg("OverhangFilter", f"Overhang/dim{dim}/ax{ax}/sg{sg}/{form}/ns{ns}/onelayer{onelayer}/{kind}", lambda: mk(_S("x", x)), [x],
               tangent=tangent, tol=1e-7)


# ------------------------------------------------------------------------------------------------ linear algebra
def _class_dir(rng, A, cls):
    """direction inside the matrix class, with the sparsity pattern of A when A is sparse"""
    if sps.issparse(A):
        P = (abs(A) + abs(A.T)).tocsr() if cls in ("spd", "sym", "csym", "hpd", "herm") else A.tocsr()
        V = rand_like(rng, P.astype(A.dtype))
        Vd = V.toarray() * (P.toarray() != 0)      # explicit zeros of the pattern stay zero
    else:
        Vd = rand_like(rng, A)
    if cls in ("spd", "sym", "csym"):
        Vd = (Vd + Vd.T) / 2
    elif cls in ("hpd", "herm"):
        Vd = (Vd + Vd.conj().T) / 2
    elif cls in ("diag", "cdiag"):
        Vd = np.diag(np.diag(Vd))
    elif cls in ("triu", "ctriu"):
        Vd = np.triu(Vd)
    elif cls == "tril":
        Vd = np.tril(Vd)
    if sps.issparse(A):
        return type(A)(sps.csr_matrix(Vd))
    return Vd


LS_CLASSES = ["diag", "spd", "sym", "gen", "triu", "tril", "cdiag", "hpd", "herm", "csym", "cgen", "ctriu"]


def gen_linsolve(rng, tier):
    import pymoto as pym
    import pymoto.solvers as S
    cls = str(rng.choice(LS_CLASSES))
    st = str(rng.choice(["dense", "dense", "csc", "csr"]))
    n = int(rng.integers(1, 9))
    # physical magnitudes: stiffness in Pa (1e11), loads in nN ... the adjoint identity is scale-invariant
    ascale = 10 ** rng.uniform(-1, 1) if rng.random() < 0.7 else 10.0 ** rng.uniform(-4, 12)   # (below 1e-6: known finding K2 of C05)
    A = matgen.make(rng, cls, n, cond=10 ** rng.uniform(0, 2.5), scale=ascale)
    cA = np.iscomplexobj(A)
    decoupled = False
    if cls in ("gen", "cgen", "sym", "csym") and n >= 3 and rng.random() < 0.3:
        # some dofs decoupled (rows and columns zero apart from the diagonal, as constrained dofs are), complex diagonal for complex data
        idx = rng.choice(n, size=int(rng.integers(1, n - 1)), replace=False)
        dg = ascale * rng.uniform(0.5, 2.0, idx.size) * (np.exp(1j * rng.uniform(0, 2 * np.pi, idx.size)) if cA else rng.choice([-1.0, 1.0], idx.size))
        A2 = A.copy()
        A2[idx, :] = 0
        A2[:, idx] = 0
        A2[idx, idx] = dg
        rest = np.setdiff1d(np.arange(n), idx)
        if np.linalg.cond(A2[np.ix_(rest, rest)]) < 1e4 and (cls in ("sym", "csym") or not np.allclose(A2, A2.T)):
            A, decoupled = A2, True
    form = str(rng.choice(["v", "c1", "blk", "blkdep"]))
    k = {"v": None, "c1": 1, "blk": 3, "blkdep": 3}[form]
    b = rng.standard_normal(n if k is None else (n, k))
    cb = rng.random() < 0.4 and (cA or st == "dense")
    if cb:
        b = b + 1j * rng.standard_normal(b.shape)
    if form == "blkdep":
        b[:, 2] = b[:, 0] - 2 * b[:, 1]
    if rng.random() < 0.3:
        b = b * 10.0 ** rng.uniform(-12, 12)
    if form != "blkdep" and rng.random() < 0.15 and np.all(np.abs(b) < 1e30) and np.all((np.abs(b) > 1e-30) | (b == 0)):
        # (not for the block with a dependent column: rounding makes it *nearly* dependent, the listed finding K4 of C06)
        # a single-precision right-hand side (loads read from a float32 file) with the usual double-precision matrix: the solution and
        # the sensitivities are double-precision quantities of these (exactly representable) values
        b = b.astype(np.complex64 if np.iscomplexobj(b) else np.float32)
    sol = "auto"
    kw = {}
    tol = 1e-8
    r = rng.random()
    if r < 0.15 and cls in ("spd", "hpd") and st != "dense":
        sol = "CG"
        tol = 1e-6
    elif r < 0.3:
        sol = {"dense": "SolverDenseQR"}.get(st, "SolverSparseLU")
    elif r < 0.4:
        sol = "nolda"
    As = matgen.to_storage(A, st)
    if st == "dense" and rng.random() < 0.3:
        As = np.asfortranarray(As)       # column-major dense input (e.g. a transposed view or LAPACK output)

    def build():
        kw2 = dict(kw)
        if sol == "CG":
            kw2["solver"] = S.CG(tol=1e-11)
        elif sol.startswith("Solver"):
            kw2["solver"] = getattr(S, sol)()
        m = pym.LinSolve([_S("A", As), _S("b", b)], pym.Signal("x"), **kw2)
        if sol == "nolda":
            m.use_lda_solver = False
        return m

    def dirs(r_):
        vb = rand_like(r_, b)
        if form == "blkdep" and r_.random() < 0.5:
            vb[:, 2] = vb[:, 0] - 2 * vb[:, 1]
        dA = _class_dir(r_, As, cls)
        if decoupled and not sps.issparse(As):
            dA = dA * (np.asarray(As) != 0)        # the decoupled dofs stay decoupled (their diagonal entries do vary)
        return [dA, vb]

    def tangent(x0, y0, v):
        Ad, dA = todense(x0[0]), todense(v[0])
        x = np.linalg.solve(Ad, x0[1])
        return [np.linalg.solve(Ad, v[1] - dA @ x)]
    return Cfg("LinSolve", f"LinSolve/{cls}/{st}/{form}/cb{cb}/{sol}/dec{decoupled}", build, [As, b], dirs=dirs, tangent=tangent, tol=tol)


def gen_inverse(rng, tier):
    import pymoto as pym
    cls = str(rng.choice(["spd", "sym", "gen", "triu", "hpd", "herm", "csym", "cgen"]))
    n = int(rng.integers(1, 8))
    A = matgen.make(rng, cls, n, cond=10 ** rng.uniform(0, 2.5))
    if rng.random() < 0.3:
        A = np.asfortranarray(A)

    def tangent(x0, y0, v):
        B = np.linalg.inv(x0[0])
        return [-B @ v[0] @ B]
    return Cfg("Inverse", f"Inverse/{cls}", lambda: pym.Inverse(_S("A", A), pym.Signal("B")), [A],
               dirs=lambda r: [_class_dir(r, A, cls)], tangent=tangent)


def _wellcond_block(A, idx):
    c = np.linalg.cond(A[np.ix_(idx, idx)])
    return np.isfinite(c) and c < 1e4


def gen_soe(rng, tier):
    import pymoto as pym
    cls = str(rng.choice(["spd", "sym", "gen", "triu", "hpd", "herm", "csym", "cgen"]))
    st = str(rng.choice(["dense", "csc", "csr"]))
    n = int(rng.integers(2, 9))
    for _ in range(20):
        A = matgen.make(rng, cls, n, cond=10 ** rng.uniform(0, 2))
        perm = rng.permutation(n)
        nf = int(rng.integers(1, n))
        f, p = np.sort(perm[:nf]), np.sort(perm[nf:])
        if _wellcond_block(A, f):
            break
    else:
        A = A + np.diag(np.abs(A).sum(axis=1))
    cA = np.iscomplexobj(A)
    k = 2 if rng.random() < 0.4 else None
    bf = rng.standard_normal(nf if k is None else (nf, k))
    xp = rng.standard_normal(n - nf if k is None else (n - nf, k))
    cb = rng.random() < 0.4 and (cA or st == "dense")
    if cb:
        bf = bf + 1j * rng.standard_normal(bf.shape)
        xp = xp + 1j * rng.standard_normal(xp.shape)
    part = str(rng.choice(["both", "free", "prescribed"]))
    kw = {"both": dict(free=f, prescribed=p), "free": dict(free=f), "prescribed": dict(prescribed=p)}[part]
    As = matgen.to_storage(A, st)

    def build():
        return pym.SystemOfEquations([_S("A", As), _S("bf", bf), _S("xp", xp)], [pym.Signal("x"), pym.Signal("b")], **kw)

    def tangent(x0, y0, v):
        Ad, dA = todense(x0[0]), todense(v[0])
        bf_, xp_, dbf, dxp = x0[1], x0[2], v[1], v[2]
        Aff, Afp, Apf, App = Ad[np.ix_(f, f)], Ad[np.ix_(f, p)], Ad[np.ix_(p, f)], Ad[np.ix_(p, p)]
        xf = np.linalg.solve(Aff, bf_ - Afp @ xp_)
        dxf = np.linalg.solve(Aff, dbf - dA[np.ix_(f, p)] @ xp_ - Afp @ dxp - dA[np.ix_(f, f)] @ xf)
        dbp = dA[np.ix_(p, f)] @ xf + Apf @ dxf + dA[np.ix_(p, p)] @ xp_ + App @ dxp
        shp = (n,) + np.shape(bf_)[1:]
        dx = np.zeros(shp, dtype=complex)
        db = np.zeros(shp, dtype=complex)
        dx[f], dx[p], db[f], db[p] = dxf, dxp, dbf, dbp
        return [dx, db]
    return Cfg("SystemOfEquations", f"SoE/{cls}/{st}/{part}/blk{k is not None}/cb{cb}", build, [As, bf, xp],
               dirs=lambda r: [_class_dir(r, As, cls), rand_like(r, bf), rand_like(r, xp)], tangent=tangent)


def gen_sc(rng, tier):
    import pymoto as pym
    # the module's sensitivity C W C^T is documented/derived for A = A^T (known finding for non-symmetric A)
    cls = str(rng.choice(["spd", "sym", "csym", "gen", "cgen", "herm"]))
    st = str(rng.choice(["dense", "csc"]))
    n = int(rng.integers(3, 9))
    for _ in range(20):
        A = matgen.make(rng, cls, n, cond=10 ** rng.uniform(0, 2))
        perm = rng.permutation(n)
        nm = int(rng.integers(1, n - 1))
        nfree = int(rng.integers(1, n - nm + 1))
        mi, fi = perm[:nm], perm[nm:nm + nfree]
        if _wellcond_block(A, fi):
            break
    else:
        A = A + np.diag(np.abs(A).sum(axis=1))
    As = matgen.to_storage(A, st)

    def tangent(x0, y0, v):
        Ad, dA = todense(x0[0]), todense(v[0])
        Aff = Ad[np.ix_(fi, fi)]
        X = np.linalg.solve(Aff, Ad[np.ix_(fi, mi)])
        dX = np.linalg.solve(Aff, dA[np.ix_(fi, mi)] - dA[np.ix_(fi, fi)] @ X)
        return [dA[np.ix_(mi, mi)] - dA[np.ix_(mi, fi)] @ X - Ad[np.ix_(mi, fi)] @ dX]

    def seed_gen(r, y0, j):
        yd = todense(y0)
        if r.random() < 0.4:
            k = int(r.integers(1, 3))
            return pym.DyadCarrier([rand_like(r, yd[:, 0]) for _ in range(k)], [rand_like(r, yd[0, :]) for _ in range(k)])
        return rand_like(r, yd)
    return Cfg("StaticCondensation", f"StaticCondensation/{cls}/{st}", lambda: pym.StaticCondensation(_S("A", As), pym.Signal("Ared"), main=mi, free=fi),
               [As], dirs=lambda r: [_class_dir(r, As, cls)], tangent=tangent, seed_gen=seed_gen)


def eig_tangent(A, B, lam, Q, dA, dB):
    n = A.shape[0]
    ld = np.zeros(len(lam), dtype=complex)
    Qd = np.zeros(Q.shape, dtype=complex)
    for i in range(len(lam)):
        q, l_ = Q[:, i], lam[i]
        M = np.block([[A - l_ * B, -(B @ q)[:, None]], [(q @ (B + B.T))[None, :], np.zeros((1, 1))]])
        rhs = np.concatenate([-(dA - l_ * dB) @ q, [-(q @ dB @ q)]])
        sol = np.linalg.solve(M, rhs)
        Qd[:, i], ld[i] = sol[:n], sol[n]
    return ld, Qd


def gen_eig_dense(rng, tier):
    import pymoto as pym
    kind = str(rng.choice(["sym", "gen", "herm", "symB", "genB", "hermB", "csym"]))
    for _ in range(50):
        n = int(rng.integers(2, 8))
        A = rng.standard_normal((n, n))
        Bm = None
        if kind in ("sym", "symB"):
            A = A + A.T
        if kind in ("herm", "hermB"):
            A = A + 1j * rng.standard_normal((n, n))
            A = A + A.conj().T
        if kind == "csym":
            A = A + 1j * rng.standard_normal((n, n))
            A = A + A.T
        if kind.endswith("B"):
            Bm = rng.standard_normal((n, n))
            if kind == "hermB":
                Bm = Bm + 1j * rng.standard_normal((n, n))
            Bm = Bm @ Bm.conj().T + n * np.eye(n)
        lam = np.linalg.eigvals(A if Bm is None else np.linalg.solve(Bm, A))
        gaps = np.abs(lam[:, None] - lam[None, :]) + np.eye(n) * 1e9
        if gaps.min() > 0.15 * max(1.0, np.abs(lam).max()) * 0.2:
            break
    if rng.random() < 0.4:
        A = np.asfortranarray(A)         # column-major inputs: LAPACK drivers may work in place on those
        Bm = None if Bm is None else np.asfortranarray(Bm)
    x0 = [A] + ([Bm] if Bm is not None else [])
    acls = {"sym": "sym", "symB": "sym", "gen": "gen", "genB": "gen", "herm": "herm", "hermB": "herm", "csym": "csym"}[kind]
    bcls = "herm" if kind == "hermB" else "sym"

    def build():
        sig = [_S("A", A)] + ([_S("B", Bm)] if Bm is not None else [])
        return pym.EigenSolve(sig, [pym.Signal("lam"), pym.Signal("Q")])

    def dirs(r):
        d = [_class_dir(r, A, acls)]
        if Bm is not None:
            d.append(_class_dir(r, Bm, bcls) * 0.3)
        return d

    def tangent(x0_, y0, v):
        B_ = x0_[1] if len(x0_) > 1 else np.eye(A.shape[0])
        dB = v[1] if len(v) > 1 else np.zeros_like(B_)
        ld, Qd = eig_tangent(x0_[0], B_, y0[0], y0[1], v[0], dB)
        return [ld, Qd]
    return Cfg("EigenSolve", f"EigenSolve/dense/{kind}", build, x0, dirs=dirs, tangent=tangent, tol=1e-7)


def gen_eig_sparse(rng, tier):
    import pymoto as pym
    dim = 2
    nx, ny = int(rng.integers(2, 5)), int(rng.integers(2, 4))
    gen = bool(rng.random() < 0.6)
    # the configuration of the repository's own sparse test: stiffness with bc (positive diagonal on bc dofs), consistent
    # mass matrix with bc rows/columns zeroed (infinite eigenvalues there), the nmodes smallest finite modes requested
    dom = pym.DomainDefinition(nx, ny, unitx=float(rng.uniform(0.5, 2)), unity=float(rng.uniform(0.5, 2)))
    bc = (dom.nodes[0, :] * 2 + np.arange(2)[None]).flatten()
    xs = rng.uniform(0.3, 1.0, dom.nel)
    mk = pym.AssembleStiffness(pym.Signal("x", xs), pym.Signal("K"), dom, bc=bc)
    mk.response()
    x0 = [mk.sig_out[0].state.tocsc()]
    if gen:
        # B must be positive definite (statement): small positive mass on the bc dofs puts their (repeated) eigenvalues far
        # above the requested ones
        mm = pym.AssembleMass(pym.Signal("x", xs), pym.Signal("M"), dom, bc=bc, ndof=2, material_property=float(rng.uniform(0.5, 2)),
                              bcdiagval=1e-3)
        mm.response()
        x0.append(mm.sig_out[0].state.tocsc())
    nm = int(rng.integers(1, 5))
    sigma = None if rng.random() < 0.5 else 0.0
    import scipy.linalg as _sl
    lam_all = np.sort(_sl.eigvalsh(x0[0].toarray(), x0[1].toarray() if gen else None))
    if np.min(np.diff(lam_all[:nm + 1])) < 1e-3 * lam_all[nm]:
        nm = 1      # keep to simple eigenvalues (the lowest mode of these meshes is simple)

    def build():
        sig = [_S("K", x0[0])] + ([_S("M", x0[1])] if gen else [])
        return pym.EigenSolve(sig, [pym.Signal("lam"), pym.Signal("Q")], nmodes=nm, sigma=sigma)

    def dirs(r):
        return [_class_dir(r, m_, "sym") * (0.1 if i == 1 else 1.0) for i, m_ in enumerate(x0)]

    def tangent(x0_, y0, v):
        Ad = todense(x0_[0])
        Bd = todense(x0_[1]) if gen else np.eye(Ad.shape[0])
        dB = todense(v[1]) if gen else np.zeros_like(Bd)
        ld, Qd = eig_tangent(Ad, Bd, y0[0], y0[1], todense(v[0]), dB)
        return [ld, Qd]
    return Cfg("EigenSolve", f"EigenSolve/sparse/gen{gen}/nm{nm}/sigma{sigma}", build, x0, dirs=dirs, tangent=tangent, tol=1e-6)


# ------------------------------------------------------------------------------------------------ generic
def gen_math(rng, tier):
    import pymoto as pym
    nvar = int(rng.integers(1, 4))
    cplx = rng.random() < 0.3
    from sympy.parsing.sympy_parser import parse_expr
    for _ in range(20):   # reject trees that sympy collapses (e.g. "inp0 - inp0"): the output would lose an input
        tree = exprad.tree_using_all(rng, nvar, int(rng.integers(1, 4)), allow_log=not cplx)
        if len(parse_expr(tree.render().replace("^", "**")).free_symbols) == nvar:
            break
    shapes_opts = [[()] * nvar, [(4,)] * nvar, [(4,), ()] + [(4,)] * 3, [(3, 4), (4,), (3, 1)], [(3, 4), (), (1, 4)], [(2, 1), (1, 3), ()]]
    shapes = shapes_opts[int(rng.integers(len(shapes_opts)))][:nvar]
    x0 = []
    for sh in shapes:
        if sh == ():
            f = rng.random()
            val = float(rng.uniform(-1.5, 1.5))
            if cplx and rng.random() < 0.5:
                val = complex(val, float(rng.uniform(-1, 1)))
            x0.append(val if f < 0.6 else np.array(val))
        else:
            a = rng.uniform(-1.5, 1.5, sh)
            if cplx and rng.random() < 0.6:
                a = a + 1j * rng.uniform(-1, 1, sh)
            x0.append(a)
    expr = tree.render()

    def build():
        return pym.MathGeneral([_S(f"s{i}", x) for i, x in enumerate(x0)], pym.Signal("y"), expr)

    def tangent(x0_, y0, v):
        val, tan = tree.eval([np.asarray(x) for x in x0_], [None if vi is None else np.asarray(vi) for vi in v])
        return [np.broadcast_to(tan, np.shape(y0[0])) if np.shape(tan) != np.shape(y0[0]) else tan]
    def ref_y(x0_):
        val, _ = tree.eval([np.asarray(x) for x in x0_], [None] * len(x0_))
        return [val]
    return Cfg("MathGeneral", f"MathGeneral/nvar{nvar}/cplx{cplx}/{'-'.join(str(s) for s in shapes)}", build, x0, tangent=tangent,
               note=expr, ref_y=ref_y)


EINSUMS = [("i->", 1), ("ij->", 1), ("ii->", 1), ("i,i->i", 2), ("i,i->", 2), ("i,j->ij", 2), ("ij,j->i", 2), ("i,ij,j->", 3),
           ("ij,ij->ij", 2), ("ji,ij->ij", 2), ("ji,jk,kl->il", 3), ("ij,jk->ik", 2), ("ij->ji", 1), ("ijk,k->ij", 2), ("i,i,i->", 3)]


def gen_einsum(rng, tier):
    import pymoto as pym
    expr, nin = EINSUMS[int(rng.integers(len(EINSUMS)))]
    dims = {c: int(rng.integers(1, 5)) for c in "ijkl"}
    ins = expr.split("->")[0].split(",")
    cplx = rng.random() < 0.4
    x0 = []
    for s in ins:
        sh = tuple(dims[c] for c in s)
        if "ii" in s:
            sh = (dims["i"], dims["i"])
        a = rng.standard_normal(sh)
        if cplx and rng.random() < 0.6:
            a = a + 1j * rng.standard_normal(sh)
        x0.append(a)

    def tangent(x0_, y0, v):
        tot = 0
        for k in range(len(x0_)):
            args = [v[j] if j == k else x0_[j] for j in range(len(x0_))]
            tot = tot + np.einsum(expr, *args)
        return [tot]
    return Cfg("EinSum", f"EinSum/{expr}/cplx{cplx}", lambda: pym.EinSum([_S(f"a{i}", x) for i, x in enumerate(x0)], pym.Signal("y"), expression=expr),
               x0, tangent=tangent, ref_y=lambda x0_: [np.einsum(expr, *x0_)])


def gen_concat(rng, tier):
    import pymoto as pym
    n = int(rng.integers(1, 5))
    cplx = rng.random() < 0.3
    x0 = []
    for _ in range(n):
        t = str(rng.choice(["float", "0d", "vec", "vec", "mat", "nd3"]))
        if t == "float":
            x0.append(float(rng.standard_normal()))
        elif t == "0d":
            x0.append(np.array(rng.standard_normal()))
        else:
            sh = {"vec": (int(rng.integers(1, 5)),), "mat": (int(rng.integers(1, 4)), int(rng.integers(1, 4))),
                  "nd3": (2, int(rng.integers(1, 3)), 2)}[t]
            a = rng.standard_normal(sh)
            if cplx and rng.random() < 0.5:
                a = a + 1j * rng.standard_normal(sh)
            if a.ndim >= 2 and rng.random() < 0.4:
                a = np.asfortranarray(a) if rng.random() < 0.5 else np.ascontiguousarray(a.T).T     # column-major / transposed view
            x0.append(a)
    kinds = "-".join("f" if isinstance(x, float) else str(np.ndim(x)) for x in x0)
    return Cfg("ConcatSignal", f"ConcatSignal/{kinds}/cplx{cplx}", lambda: pym.ConcatSignal([_S(f"a{i}", x) for i, x in enumerate(x0)], pym.Signal("y")), x0)


def gen_complex(rng, tier):
    import pymoto as pym
    kind = str(rng.choice(["MakeComplex", "RealPart", "ImagPart", "ComplexNorm"]))
    sh = [(), (5,), (2, 3)][int(rng.integers(3))]

    # phasors in nm or GPa: no operation here has an absolute scale
    mag = 1.0
    if rng.random() < 0.5:
        mag = 10.0 ** (rng.uniform(-9, -3) if rng.random() < 0.6 else rng.uniform(-3, 9))

    def val(c):
        a = (rng.standard_normal(sh) + (1j * rng.standard_normal(sh) if c else 0)) * mag
        return (complex(a) if c else float(a)) if sh == () else a
    def dirs(r):       # directions at the magnitude of the data (the reference of the linear modules is a difference of responses)
        return [rand_like(r, x, scale=mag) for x in x0]
    if kind == "MakeComplex":
        x0 = [val(False), val(False)]
        return Cfg(kind, f"{kind}/{sh}", lambda: pym.MakeComplex([_S("x", x0[0]), _S("y", x0[1])], pym.Signal("z")), x0, dirs=dirs)
    c = bool(rng.random() < 0.75)
    x0 = [val(c)]
    if kind == "ComplexNorm":
        def tangent(x0_, y0, v):
            z = np.asarray(x0_[0])
            return [np.real(np.conj(z) * v[0]) / np.abs(z)]
        return Cfg(kind, f"{kind}/{sh}/cx{c}", lambda: pym.ComplexNorm(_S("z", x0[0]), pym.Signal("a")), x0, tangent=tangent, dirs=dirs,
                   ref_y=lambda x0_: [np.abs(np.asarray(x0_[0]))])
    cl = pym.RealPart if kind == "RealPart" else pym.ImagPart
    return Cfg(kind, f"{kind}/{sh}/cx{c}", lambda: cl(_S("z", x0[0]), pym.Signal("a")), x0, dirs=dirs)


class FrozenScaling:
    """a user scaling strategy that returns a fixed factor (the 'frozen scaling' of the quantifier)"""

    def __init__(self, sf):
        self.sf = sf

    def __call__(self, x, fx):
        return self.sf


def gen_aggregation(rng, tier, damped_history=False):
    """damped_history (C04 only): a real AggScaling with damping and one earlier response at other data, so that the factor in
    use is a mixture that must stay what response() left (the sensitivity then is not the derivative of the scaled response, which
    is why C01 keeps to frozen factors; linearity, accumulation and repeatability hold for it all the same)."""
    import pymoto as pym
    kind = str(rng.choice(["PNorm", "KSFunction", "SoftMinMax"]))
    n = int(rng.integers(1, 12))
    par = float(rng.uniform(0.5, 12) * rng.choice([-1, 1]))
    # round 10: the p-norm is the norm of |x| and is differentiable at every non-zero entry: entries of either sign
    mixed = kind == "PNorm" and rng.random() < 0.4

    def draw():
        z = rng.uniform(0.3, 3.0, n)
        return z * rng.choice([-1.0, 1.0], n) if mixed else z
    x = draw()
    sf = None
    if rng.random() < 0.4:
        sf = float(rng.uniform(0.5, 2))
    damp = None
    if damped_history and rng.random() < 0.4:
        sf = None
        damp = float(rng.choice([0.0, 0.3, 0.5, 0.9]))
        xprev = np.abs(draw()) * float(rng.uniform(0.5, 2))
    act = None
    if rng.random() < 0.5 and n >= 3:
        for _ in range(50):
            o = dict(lower_rel=float(rng.choice([0.0, 0.1, 0.25])), upper_rel=float(rng.choice([1.0, 0.9, 0.7])),
                     lower_amt=float(rng.choice([0.0, 0.2, 0.34])), upper_amt=float(rng.choice([1.0, 0.8, 0.6])))
            xr = (x - x.min()) / (x.max() - x.min())
            margin = min(np.min(np.abs(xr - o["lower_rel"])) if o["lower_rel"] > 0 else 1, np.min(np.abs(xr - o["upper_rel"])) if o["upper_rel"] < 1 else 1)
            sel = pym.AggActiveSet(**o)(x)
            if margin > 1e-2 and np.sum(np.ones(n, bool)[sel]) >= 1 and np.min(np.diff(np.sort(x))) > 1e-3:
                act = o
                break
            x = draw()
    if damp is not None and act is not None:
        # the earlier response is an admissible one too: its active set keeps at least one entry
        for _ in range(50):
            if np.sum(np.ones(n, bool)[pym.AggActiveSet(**act)(xprev)]) >= 1:
                break
            xprev = np.abs(draw()) * float(rng.uniform(0.5, 2))
        else:
            damp = None
    argname = {"PNorm": "p", "KSFunction": "rho", "SoftMinMax": "alpha"}[kind]

    def build():
        kw = {argname: par}
        if sf is not None:
            kw["scaling"] = FrozenScaling(sf)
        if act is not None:
            kw["active_set"] = pym.AggActiveSet(**act)
        if damp is not None:
            kw["scaling"] = pym.AggScaling("max" if par > 0 else "min", damping=damp)
            m = getattr(pym, kind)(_S("x", xprev), pym.Signal("y"), **kw)
            m.response()                                  # the history: a factor from other data
            m.sig_in[0].state = copy.deepcopy(x)
            return m
        return getattr(pym, kind)(_S("x", x), pym.Signal("y"), **kw)

    def fwd(z, sel):
        z = z[sel]
        if kind == "PNorm":
            z = z * np.sign(np.real(z))                   # |x| along the real axis (complex step keeps the branch)
            return np.sum(z ** par) ** (1 / par)
        if kind == "KSFunction":
            m = np.max(np.real(par * z))
            return (m + np.log(np.sum(np.exp(par * z - m)))) / par
        m = np.max(np.real(par * z))
        e = np.exp(par * z - m)
        return np.sum(z * e) / np.sum(e)

    def tangent(x0_, y0, v):
        sel = pym.AggActiveSet(**act)(x0_[0]) if act is not None else Ellipsis   # selection at x0 (locally constant)
        h = 1e-30
        d = np.imag(fwd(x0_[0] + 1j * h * v[0], sel)) / h      # complex-step derivative of my own forward formula
        return [np.asarray((sf if sf is not None else 1.0) * d)]
    return Cfg(kind, f"{kind}/sign{np.sign(par)}/frozen{sf is not None}/active{act is not None}" + ("/mixed-sign" if mixed else "")
               + ("" if damp is None else f"/damped{damp}-after-a-response"), build, [x], tangent=tangent)


def gen_scaling(rng, tier):
    import pymoto as pym
    mode = str(rng.choice(["objective", "min", "max"]))
    sc = float(rng.uniform(1, 100))
    val = float(rng.uniform(0.5, 5))
    # limits and values of either sign (a displacement limit of -2 mm is as admissible as +2 mm)
    sg = float(rng.choice([1.0, 1.0, -1.0]))
    kw = {"objective": {}, "min": {"minval": sg * float(rng.uniform(0.5, 3))}, "max": {"maxval": sg * float(rng.uniform(0.5, 3))}}[mode]
    r = rng.random()
    val = val * float(rng.choice([1.0, 1.0, -1.0]))
    x0 = [val if r < 0.35 else (np.array(val) if r < 0.6 else rng.uniform(0.5, 5, int(rng.integers(1, 6))) * rng.choice([1.0, -1.0]))]

    def tangent(x0_, y0, v):
        # the factor is frozen at the first response (documented memory): objective sf = scaling/|x0|
        if mode == "objective":
            t = sc / float(np.linalg.norm(x0_[0])) * v[0]
        elif mode == "min":
            t = -sc * v[0] / kw["minval"]
        else:
            t = sc * v[0] / kw["maxval"]
        # the closed form describes the documented response; the property is about the response the module really computes, which is
        # affine in x once the factor is fixed: difference of two responses of one instance (first response at x0)
        m2 = pym.Scaling(_S("x", x0_[0]), pym.Signal("y"), scaling=sc, **kw)
        m2.response()
        ya = np.array(m2.sig_out[0].state, dtype=float)
        m2.sig_in[0].state = x0_[0] + v[0]
        m2.response()
        d = np.array(m2.sig_out[0].state, dtype=float) - ya
        if not np.allclose(d, t, rtol=1e-9, atol=1e-12 * (1 + float(np.max(np.abs(t))))):
            return [d]          # the module's own response decides (the probe then compares the sensitivity with it)
        return [t]
    return Cfg("Scaling", f"Scaling/{mode}/{type(x0[0]).__name__}{np.shape(x0[0])}", lambda: pym.Scaling(_S("x", x0[0]), pym.Signal("y"), scaling=sc, **kw), x0,
               tangent=tangent)


GENERATORS = {
    "assemble": gen_assemble, "elemop": gen_elemop, "filter": gen_filter, "overhang": gen_overhang,
    "linsolve": gen_linsolve, "inverse": gen_inverse, "soe": gen_soe, "sc": gen_sc,
    "eig_dense": gen_eig_dense, "eig_sparse": gen_eig_sparse,
    "math": gen_math, "einsum": gen_einsum, "concat": gen_concat, "complex": gen_complex,
    "aggregation": gen_aggregation, "scaling": gen_scaling,
}
WEIGHTS = {"assemble": 5, "elemop": 5, "filter": 4, "overhang": 4, "linsolve": 6, "inverse": 2, "soe": 4, "sc": 3,
           "eig_dense": 4, "eig_sparse": 2, "math": 4, "einsum": 4, "concat": 3, "complex": 5, "aggregation": 4, "scaling": 2}
