"""Generator of test matrices by class with bounded condition number (shared by C01, C05-C07, C11).

Classes: diag, spd, hpd, sym (indefinite), herm (indefinite), csym (complex symmetric), gen, cgen,
triu, tril, pattern (explicit off-diagonal sparsity pattern).  All are built from prescribed
singular values / eigenvalues so that cond <= ``cond`` and the overall scale is ``scale``."""
import numpy as np
import scipy.sparse as sps

REAL_CLASSES = ["diag", "spd", "sym", "gen", "triu", "tril"]
CPLX_CLASSES = ["cdiag", "hpd", "herm", "csym", "cgen", "ctriu"]
ALL_CLASSES = REAL_CLASSES + CPLX_CLASSES


def _orth(rng, n, cplx=False):
    a = rng.standard_normal((n, n))
    if cplx:
        a = a + 1j * rng.standard_normal((n, n))
    q, r = np.linalg.qr(a)
    return q


def _spectrum(rng, n, cond, signs=False):
    if n == 1:
        s = np.array([1.0])
    else:
        s = np.exp(rng.uniform(0, np.log(cond), n))
        s[0], s[-1] = 1.0, cond
        s = s / np.sqrt(cond)
    if signs:
        sg = rng.choice([-1.0, 1.0], n)
        if n > 1:
            sg[0], sg[1] = 1.0, -1.0   # make sure it is indefinite
        s = s * sg
    return s


def make(rng, cls, n, cond=1e3, scale=1.0):
    """Dense matrix of the requested class."""
    if cls == "diag":
        A = np.diag(_spectrum(rng, n, cond, signs=True))
    elif cls == "cdiag":
        A = np.diag(_spectrum(rng, n, cond) * np.exp(1j * rng.uniform(0, 2 * np.pi, n)))
    elif cls == "spd":
        q = _orth(rng, n)
        A = (q * _spectrum(rng, n, cond)) @ q.T
        A = (A + A.T) / 2
    elif cls == "hpd":
        q = _orth(rng, n, True)
        A = (q * _spectrum(rng, n, cond)) @ q.conj().T
        A = (A + A.conj().T) / 2
    elif cls == "sym":
        q = _orth(rng, n)
        A = (q * _spectrum(rng, n, cond, signs=True)) @ q.T
        A = (A + A.T) / 2
    elif cls == "herm":
        q = _orth(rng, n, True)
        A = (q * _spectrum(rng, n, cond, signs=True)) @ q.conj().T
        A = (A + A.conj().T) / 2
    elif cls == "csym":
        # complex symmetric (not Hermitian): Takagi-like construction U S U^T
        q = _orth(rng, n, True)
        A = (q * _spectrum(rng, n, cond)) @ q.T
        A = (A + A.T) / 2
    elif cls == "gen":
        A = (_orth(rng, n) * _spectrum(rng, n, cond)) @ _orth(rng, n).T
    elif cls == "cgen":
        A = (_orth(rng, n, True) * _spectrum(rng, n, cond)) @ _orth(rng, n, True).conj().T
    elif cls in ("triu", "tril", "ctriu"):
        cp = cls == "ctriu"
        A = np.triu(rng.uniform(-1, 1, (n, n)) + (1j * rng.uniform(-1, 1, (n, n)) if cp else 0), 1) * (0.5 / max(1, n) ** 0.5)
        d = rng.uniform(1, 3, n) * rng.choice([-1, 1], n)
        A = A + np.diag(d * (np.exp(1j * rng.uniform(0, 2 * np.pi, n)) if cp else 1))
        if cls == "tril":
            A = A.T.copy()
    elif cls in ("nspd", "nhpd"):
        return -make(rng, cls[1:], n, cond=cond, scale=scale)      # negative definite (e.g. -K, or K - w^2 M far above all resonances)
    elif cls in ("perm", "cperm"):
        # zero diagonal entries on dofs whose row and column hold exactly one off-diagonal entry: weighted derangement
        # (cyclic shifts, anti-diagonal 2x2 blocks [[0,a],[b,0]]) on some dofs, a generic coupled block on the rest
        cp = cls == "cperm"
        A = np.zeros((n, n), dtype=complex if cp else float)
        k = n if n <= 3 else int(rng.integers(2, n + 1))
        k = max(k, 2) if n >= 2 else 1
        idx = rng.permutation(n)
        pi, rest = idx[:k], idx[k:]
        if k >= 2:
            sh = np.roll(pi, 1) if rng.random() < 0.5 or k % 2 else pi.reshape(-1, 2)[:, ::-1].reshape(-1)
            for i, j in zip(pi, sh):
                A[i, j] = rng.uniform(0.5, 2.0) * rng.choice([-1, 1]) * (np.exp(1j * rng.uniform(0, 2 * np.pi)) if cp else 1)
        else:
            A[pi[0], pi[0]] = 1.5
        if rest.size:
            B = (_orth(rng, rest.size, cp) * _spectrum(rng, rest.size, min(cond, 100.0))) @ _orth(rng, rest.size, cp).conj().T
            A[np.ix_(rest, rest)] = B
    else:
        raise ValueError(cls)
    return A * scale


def is_complex_class(cls):
    return cls in CPLX_CLASSES


def perturb_same_class(rng, A, cls, rel=0.3):
    """A new well-conditioned matrix of the same class and sparsity pattern (for update() histories)."""
    n = A.shape[0]
    cp = np.iscomplexobj(A)
    if cls in ("diag", "cdiag"):
        return A * np.diag(rng.uniform(0.5, 2.0, n))
    if cls in ("nspd", "nhpd"):
        return -perturb_same_class(rng, -A, cls[1:], rel)
    if cls in ("spd", "hpd"):
        v = rng.standard_normal((n, 2)) + (1j * rng.standard_normal((n, 2)) if cp else 0)
        B = A * rng.uniform(0.5, 2.0) + rel * np.linalg.norm(A, 2) / n * (v @ v.conj().T)
        return (B + B.conj().T) / 2
    if cls == "saddle":      # symmetric indefinite with positive diagonal: stays so under a positive factor
        return A * rng.uniform(0.5, 2.0)
    if cls in ("sym", "csym"):
        return A * rng.uniform(0.5, 2.0) * rng.choice([-1, 1])
    if cls == "herm":
        return A * rng.uniform(0.5, 2.0) * rng.choice([-1, 1])
    if cls in ("triu", "tril", "ctriu", "perm", "cperm"):
        mask = A != 0
        return A * rng.uniform(0.7, 1.4, A.shape) * mask
    # general: rescale rows and columns (keeps cond within a factor 16)
    return (A * rng.uniform(0.5, 2.0, (n, 1))) * rng.uniform(0.5, 2.0, (1, n))


def pattern_matrix(rng, n, mask, kind="nonsym", cplx=False):
    """Matrix with the given off-diagonal sparsity pattern (mask over ordered pairs i!=j), strongly
    diagonally dominant so that it is non-singular whatever the pattern.
    kind: nonsym | sym | herm  (sym/herm require a symmetric pattern)."""
    A = np.zeros((n, n), dtype=complex if cplx else float)
    pairs = [(i, j) for i in range(n) for j in range(n) if i != j]
    for (i, j), m in zip(pairs, mask):
        if m:
            v = rng.uniform(0.3, 1.0) * rng.choice([-1, 1])
            if cplx:
                v = v * np.exp(1j * rng.uniform(0, 2 * np.pi))
            A[i, j] = v
    if kind == "sym":
        A = np.triu(A, 1)
        A = A + A.T
    elif kind == "herm":
        A = np.triu(A, 1)
        A = A + A.conj().T
    d = (n + rng.uniform(0.5, 2.0, n)) * rng.choice([-1, 1], n)
    if cplx and kind != "herm":
        d = d * np.exp(1j * rng.uniform(0, 2 * np.pi, n))
    A = A + np.diag(d)
    return A


def all_masks(n):
    import itertools
    m = n * (n - 1)
    return list(itertools.product([0, 1], repeat=m))


def mask_is_symmetric(n, mask):
    pairs = [(i, j) for i in range(n) for j in range(n) if i != j]
    d = dict(zip(pairs, mask))
    return all(d[(i, j)] == d[(j, i)] for (i, j) in pairs)


def to_storage(A, storage):
    if storage == "dense":
        return A
    return {"csc": sps.csc_matrix, "csr": sps.csr_matrix, "coo": sps.coo_matrix, "csc_array": sps.csc_array, "csr_array": sps.csr_array,
            "coo_array": sps.coo_array}[storage](A)


def fe_matrix(rng, kind="stiffness", dim=2, n=(3, 2, 0), ndof=None, bc="some", cplx=False):
    """Finite-element matrix assembled by the library's own assembly module (an *input* generator here:
    assembly itself is judged by C08) with rows/columns decoupled by boundary conditions."""
    import pymoto as pym
    nx, ny, nz = n
    dom = pym.DomainDefinition(nx, ny, nz if dim == 3 else 0)
    x = rng.uniform(0.2, 1.0, dom.nel)
    if kind == "stiffness":
        nd = dim
        cls = pym.AssembleStiffness
        kw = {}
    elif kind == "poisson":
        nd = 1
        cls = pym.AssemblePoisson
        kw = {}
    else:
        nd = ndof or 1
        cls = pym.AssembleMass
        kw = {"ndof": nd}
    ntot = nd * dom.nnodes
    left = dom.get_nodenumber(*np.meshgrid(0, np.arange(ny + 1), np.arange((nz if dim == 3 else 0) + 1), indexing="ij")).flatten()
    bcd = np.sort(np.concatenate([left * nd + d for d in range(nd)])) if bc != "none" else None
    s = pym.Signal("x", x)
    m = cls(s, pym.Signal("K"), dom, bc=bcd, **({"bcdiagval": 1.0} if kind != "mass" else {"bcdiagval": 1.0}), **kw)
    m.response()
    K = m.sig_out[0].state
    if cplx:
        K = (K * (1 + 0.05j)).tocsc()
    return K, dom, bcd
